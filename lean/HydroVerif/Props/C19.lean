/-
C19 — property theorems (only) and the `example`s that show their hypotheses are met. Model: `HydroVerif/Model/C19.lean`
(mirrors `hydrodiy/io/hyruns.py` branch for branch); helper lemmas: `HydroVerif/Lemmas/C19.lean`.

Clause of the property                                   | theorems                                                                  | outside the theorems
---------------------------------------------------------|---------------------------------------------------------------------------|---------------------
batches contiguous and ordered                           | batch_contiguous, batches_consecutive, sectionSizes_eq_bsize, divPoints_eq_bstart, arraySplit_range | numpy's slicing primitive and `arange` (the arithmetic of `array_split` — divmod, section sizes, cumsum, slices — is in the model and compared row by row)
pairwise disjoint, cover every element exactly once      | batches_partition, batches_disjoint, mem_batch_lt, arraySplit_concat (ANY array), getBatch_partition | -
sizes differ by at most one; none empty for k <= n        | bsize_diff_le_one, bsize_pos, getBatch_partition, arraySplit_concat        | -
accepted / rejected calls (three guards, in code order)  | getBatch_ok, getBatch_rejects (which guard speaks), getBatch_ok_iff, getBatch_never_numpy | exception classes and messages (the correspondence compares accepted / rejected)
SiteBatch: constructor guard, sb[i], search              | SiteBatch.mk?_iff, SiteBatch.getItem_ok, SiteBatch.getItem_rejects, SiteBatch.items_partition, SiteBatch.search_eq_position, SiteBatch.search_correct, SiteBatch.search_absent, SiteBatch.search_rejects, SiteBatch.search_no_batch, search_correct, search_none | np.array / np.unique / tolist conversions of the ids (integer or string ids in the correspondence)
every combination of option values exactly once          | product_length, mem_product, product_nodup, product_repeats_counterexample, product_mem_length, product_cons_getElem?, cartesian_accepts, fromCartesianArgs_eq, fromCartesianArgs_eq_of_nodup, fromCartesian_task_keys, fromCartesian_task_values, fromCartesian_tasks_nodup, fromCartesian_ntasks, fromCartesianArgs_ntasks | itertools.product (the model's `product` is its recursion; compared by result)
scalars given bare, containers, non-iterable options     | fromCartesianArgs_bare, cartesian_accepted_iff, cartesian_rejects          | the isinstance / hasattr classification of python objects (the harness encodes it: `!v`, `-`, `?`)
get_task / task[key]                                     | getTask_isSome_iff, getTask_eq, getTask_cartesian, task_get_option, task_get_context, toDict_tasks | -
equal in both directions after dictionary/JSON round trip| taskFromDict_taskToDict, toDict_tasks, fromDict_toDict_okEq, fromDict_toDict, mEq_refl, roundtrip_eq_both, roundtrip_cartesian, roundtrip_fails_on_collision | json.dumps/loads and the file system (identity on documents in the model; oracle on the real code); a field of the wrong kind counts as a failed import
find returns exactly the tasks whose option equals value | mem_find, find_unknown_key, find_no_task, valMatch_quant, valMatch_counterexamples, find_cartesian, find_cartesian_exact | python `re` beyond anchored literals with `.` (patterns of `search` other than `^v$`)
histories on one manager / key names / dictionary / files| run_outputs, run_name_context, step_accessor, step_rejected, step_cartesian_rejected, step_setKey, history_mgr, history_answers, history_unique_keys, history_roundtrip, history_save_load, history_files_sound | aliasing between an exported dictionary and the manager (the model has value semantics; the correspondence drives the real objects through the same operation lists)

Hypotheses that the property text does not state, and where they come from:
* `0 < k`, `i < k`, `k ≤ n` of the batch theorems — the guards of `get_batch` (`getBatch_ok_iff`); `getBatch_partition` needs `1 ≤ k ≤ n` only.
* `ids.Nodup` of the search theorems — the assertion of the `SiteBatch` constructor (`SiteBatch.mk?_iff`).
* unique dictionary keys (`mEq_refl`, `roundtrip_eq_both`) — discharged for every manager the code can build
  (`roundtrip_cartesian`, `history_unique_keys`: `dictOf` never repeats a key).
* option value lists without repeats (`product_nodup`) — needed (`product_repeats_counterexample`); the harness probes repeated values.
* key names that do not collide at the top level (`KeyNames.okEq` / `ok`) — needed (`roundtrip_fails_on_collision`); probed. Task-level
  collisions are harmless (`taskFromDict_taskToDict` has no hypothesis).
* values of the quantifier's alphabet in `find_cartesian_exact` (`Val.quant`) — needed (`valMatch_counterexamples`); probed.
-/
import HydroVerif.Lemmas.C19

namespace HydroVerif.C19


/-! ### get_batch -/

/-- batches are contiguous and ordered: batch `i` is the interval `[bstart, bstart + bsize)` -/
theorem batch_contiguous (n k i : Nat) : batch n k i = List.range' (bstart n k i) (bsize n k i) :=
  batch_eq_range' n k i

/-- consecutive: the first batch starts at 0, batch `i+1` starts where batch `i` ends, the last one ends at `n` -/
theorem batches_consecutive (n k : Nat) :
    bstart n k 0 = 0 ∧ (∀ i, bstart n k (i+1) = bstart n k i + bsize n k i) ∧ (0 < k → bstart n k k = n) :=
  ⟨bstart_zero n k, bstart_succ n k, bstart_last n k⟩

/-- the batches, taken in order, list every element `0..n-1` exactly once and in order:
cover + pairwise disjoint + ordered, for every `n` and every `k ≥ 1` -/
theorem batches_partition (n k : Nat) (hk : 0 < k) :
    (List.range k).flatMap (batch n k) = List.range n := by
  rw [flatMap_batch_prefix, bstart_last n k hk]

/-- pairwise disjoint, stated directly -/
theorem batches_disjoint (n k i j : Nat) (hij : i < j) (x : Nat)
    (hi : x ∈ batch n k i) (hj : x ∈ batch n k j) : False := by
  rw [batch_eq_range'] at hi hj
  simp only [List.mem_range'_1] at hi hj
  have := bstart_mono n k (show i + 1 ≤ j by omega)
  rw [bstart_succ] at this
  omega

/-- sizes differ by at most one -/
theorem bsize_diff_le_one (n k i j : Nat) : bsize n k i ≤ bsize n k j + 1 := by
  unfold bsize; split <;> split <;> omega

/-- with `nbatch ≤ nelements` no batch is empty -/
theorem bsize_pos (n k i : Nat) (hk : 0 < k) (hkn : k ≤ n) : 0 < bsize n k i := by
  unfold bsize
  have : 0 < n / k := Nat.div_pos hkn hk
  omega

theorem mem_batch_lt (n k i x : Nat) (hk : 0 < k) (hi : i < k) (hx : x ∈ batch n k i) : x < n := by
  have h : x ∈ (List.range k).flatMap (batch n k) :=
    List.mem_flatMap.mpr ⟨i, List.mem_range.mpr hi, hx⟩
  rw [batches_partition n k hk] at h
  exact List.mem_range.mp h

/-- numpy's own arithmetic (`divmod`, section sizes, `cumsum`, slices) yields the closed form: the section sizes
are the batch sizes and the division points are the batch starts -/
theorem sectionSizes_eq_bsize (n k : Nat) (hk : 0 < k) : sectionSizes n k = (List.range k).map (bsize n k) := by
  have hr : n % k < k := Nat.mod_lt _ hk
  apply List.ext_getElem
  · simp [sectionSizes_length n k hk]
  · intro i h1 h2
    simp only [List.length_map, List.length_range] at h2
    simp only [sectionSizes, List.getElem_map, List.getElem_range, bsize]
    by_cases h : i < n % k
    · rw [List.getElem_append_left (by simpa using h)]; simp [h]
    · rw [List.getElem_append_right (by simpa using h)]; simp [h]

theorem divPoints_eq_bstart (n k : Nat) (hk : 0 < k) : divPoints n k = (List.range (k + 1)).map (bstart n k) := by
  apply List.ext_getElem?
  intro i
  by_cases hi : i ≤ k
  · rw [divPoints_getElem? n k i hk hi]
    simp [List.getElem?_range (show i < k + 1 by omega)]
  · rw [List.getElem?_eq_none (by unfold divPoints; rw [cumsum_length, sectionSizes_length n k hk]; omega),
      List.getElem?_eq_none (by simp; omega)]

/-- `array_split(arange(n), k)` is the list of the `k` batches -/
theorem arraySplit_range (n k : Nat) (hk : 0 < k) :
    arraySplit (List.range n) k = (List.range k).map fun i => some (batch n k i) := by
  unfold arraySplit
  exact List.map_congr_left fun i hi => arraySplitAt_range n k i hk (List.mem_range.mp hi)

/-- for ANY array: the sub-arrays of `array_split(l, k)`, concatenated, give `l` back (nothing lost, duplicated, reordered) -/
theorem arraySplit_concat {α : Type} (l : List α) (k : Nat) (hk : 0 < k) :
    ∃ parts, allSome (arraySplit l k) = some parts ∧ parts.flatten = l ∧ parts.length = k ∧
      ∀ i j (hi : i < parts.length) (hj : j < parts.length), parts[i].length ≤ parts[j].length + 1 := by
  refine ⟨(List.range k).map fun i => (l.drop (bstart l.length k i)).take (bsize l.length k i), ?_, ?_, by simp, ?_⟩
  · unfold arraySplit
    exact allSome_map_some _ _ _ fun i hi => arraySplitAt_eq l k i hk (List.mem_range.mp hi)
  · have key : ∀ j, j ≤ k → ((List.range j).map fun i => (l.drop (bstart l.length k i)).take (bsize l.length k i)).flatten
        = l.take (bstart l.length k j) := by
      intro j hj
      induction j with
      | zero => simp [bstart_zero]
      | succ j ih =>
        rw [List.range_succ, List.map_append, List.flatten_append, ih (by omega), bstart_succ, List.take_add]
        simp
    rw [key k (Nat.le_refl k), bstart_last _ _ hk, List.take_length]
  · intro i j hi hj
    simp only [List.length_map, List.length_range] at hi hj
    simp only [List.getElem_map, List.getElem_range, List.length_take, List.length_drop]
    have h1 := bstart_add_bsize_le l.length k i hk hi
    have h2 := bstart_add_bsize_le l.length k j hk hj
    have := bsize_diff_le_one l.length k i j
    omega

/-- accepted calls return the batch (guards passed, numpy's split evaluated) -/
theorem getBatch_ok (n k i : Int) (h1 : 1 ≤ n) (h2 : k ≤ n) (h3 : 0 ≤ i) (h4 : i < k) :
    getBatch n k i = .ok (batch n.toNat k.toNat i.toNat) := by
  unfold getBatch
  rw [if_neg (by omega), if_neg (by omega), if_neg (by omega),
    arraySplitAt_range _ _ _ (by omega) (by omega)]

/-- rejected calls are rejected, with the guard that speaks first -/
theorem getBatch_rejects (n k i : Int) (h : n < 1 ∨ n < k ∨ i < 0 ∨ k ≤ i) :
    getBatch n k i = .error (if n < 1 then .nelemLt1 else if n < k then .nelemLtNbatch else .ibatchRange) := by
  unfold getBatch
  split
  · rfl
  · split
    · rfl
    · split
      · rfl
      · omega

/-- a call is accepted exactly when `1 ≤ nbatch ≤ nelements` and `0 ≤ ibatch < nbatch`: the hypotheses of the
partition theorems are what the guards of the code enforce; numpy's own error (0 sections) is never reached -/
theorem getBatch_ok_iff (n k i : Int) :
    (∃ l, getBatch n k i = .ok l) ↔ (1 ≤ k ∧ k ≤ n ∧ 0 ≤ i ∧ i < k) := by
  constructor
  · rintro ⟨l, hl⟩
    by_contra hc
    rw [getBatch_rejects n k i (by omega)] at hl
    cases hl
  · rintro ⟨h1, h2, h3, h4⟩
    exact ⟨_, getBatch_ok n k i (by omega) h2 h3 h4⟩

theorem getBatch_never_numpy (n k i : Int) : getBatch n k i ≠ .error .numpy ∧ getBatch n k i ≠ .error .indexError := by
  by_cases h : 1 ≤ k ∧ k ≤ n ∧ 0 ≤ i ∧ i < k
  · rw [getBatch_ok n k i (by omega) h.2.1 h.2.2.1 h.2.2.2]; simp
  · rw [getBatch_rejects n k i (by omega)]
    split
    · simp
    · split <;> simp

/-- the property at the entry point: for `1 ≤ nbatch ≤ nelements` every index `0..nbatch-1` is accepted, and the
batches returned, in order, are contiguous, ordered, disjoint, cover `0..nelements-1` once and are balanced and non-empty -/
theorem getBatch_partition (n k : Nat) (hk : 1 ≤ k) (hkn : k ≤ n) :
    ∃ bs : List (List Nat), (List.range k).map (fun (i : Nat) => getBatch (n : Int) (k : Int) (i : Int)) = bs.map .ok ∧
      bs.flatten = List.range n ∧ bs.length = k ∧
      (∀ b ∈ bs, b ≠ []) ∧
      ∀ i j (hi : i < bs.length) (hj : j < bs.length), bs[i].length ≤ bs[j].length + 1 := by
  refine ⟨(List.range k).map (batch n k), ?_, ?_, by simp, ?_, ?_⟩
  · rw [List.map_map]
    apply List.map_congr_left
    intro i hi
    have := List.mem_range.mp hi
    simp only [Function.comp]
    rw [getBatch_ok n k i (by omega) (by omega) (by omega) (by omega)]
    simp
  · rw [← List.flatMap_def, batches_partition n k (by omega)]
  · intro b hb
    obtain ⟨i, _, rfl⟩ := List.mem_map.mp hb
    have := bsize_pos n k i (by omega) hkn
    intro hc
    have hl := congrArg List.length hc
    simp [batch] at hl
    omega
  · intro i j hi hj
    simp only [List.getElem_map, List.getElem_range, batch, List.length_map, List.length_range]
    exact bsize_diff_le_one n k i j

/-! ### SiteBatch -/

/-- `search` by position returns the (unique) batch that contains the site -/
theorem search_correct (n k s : Nat) (hk : 0 < k) (hs : s < n) :
    ∃ i, search n k s = some i ∧ i < k ∧ s ∈ batch n k i ∧
      ∀ j, j < k → s ∈ batch n k j → j = i := by
  have hmem : s ∈ (List.range k).flatMap (batch n k) := by
    rw [batches_partition n k hk]; exact List.mem_range.mpr hs
  obtain ⟨i0, hi0, hsi0⟩ := List.mem_flatMap.mp hmem
  unfold search
  cases hf : (List.range k).find? (fun i => (batch n k i).contains s) with
  | none =>
    rw [List.find?_eq_none] at hf
    exact absurd (by simpa using hsi0) (hf i0 hi0)
  | some i =>
    have hi := List.mem_of_find?_eq_some hf
    have hp := List.find?_some hf
    have hsi : s ∈ batch n k i := by simpa using hp
    refine ⟨i, rfl, List.mem_range.mp hi, hsi, ?_⟩
    intro j _ hsj
    by_contra hne
    rcases Nat.lt_or_gt_of_ne hne with h | h
    · exact batches_disjoint n k j i h s hsj hsi
    · exact batches_disjoint n k i j h s hsi hsj

/-- a position beyond the list is in no batch -/
theorem search_none (n k s : Nat) (hk : 0 < k) (hs : n ≤ s) : search n k s = none := by
  unfold search
  rw [List.find?_eq_none]
  intro i hi hc
  have := mem_batch_lt n k i s hk (List.mem_range.mp hi) (by simpa using hc)
  omega

/-- the constructor accepts exactly the lists without repeated ids: uniqueness of the site ids is the code's own guard -/
theorem SiteBatch.mk?_iff {α : Type} [DecidableEq α] (ids : List α) (k : Int) (sb : SiteBatch α) :
    SiteBatch.mk? ids k = some sb ↔ ids.Nodup ∧ sb = ⟨ids, k⟩ := by
  unfold SiteBatch.mk?
  rw [← nunique_eq_length_iff]
  split <;> rename_i h
  · simp [h, eq_comm]
  · simp [h]

/-- `sb[i]` is the `i`-th contiguous slice of the site list as given — the `i`-th sub-array of `array_split(ids, k)` -/
theorem SiteBatch.getItem_ok {α : Type} (ids : List α) (k i : Nat) (hk : 1 ≤ k) (hkn : k ≤ ids.length) (hi : i < k) :
    (⟨ids, k⟩ : SiteBatch α).getItem i = .ok ((ids.drop (bstart ids.length k i)).take (bsize ids.length k i)) ∧
      arraySplitAt ids k i = some ((ids.drop (bstart ids.length k i)).take (bsize ids.length k i)) := by
  refine ⟨?_, arraySplitAt_eq ids k i (by omega) hi⟩
  unfold SiteBatch.getItem
  simp only
  rw [getBatch_ok _ _ _ (by omega) (by omega) (by omega) (by omega)]
  simp only [Int.toNat_natCast]
  rw [batch_eq_range', gather_range' _ _ _ (bstart_add_bsize_le _ _ _ (by omega) hi)]

/-- an index or a configuration that `get_batch` rejects is rejected by `sb[i]` -/
theorem SiteBatch.getItem_rejects {α : Type} (ids : List α) (k i : Int)
    (h : (ids.length : Int) < 1 ∨ (ids.length : Int) < k ∨ i < 0 ∨ k ≤ i) :
    ∃ e, (⟨ids, k⟩ : SiteBatch α).getItem i = .error e := by
  unfold SiteBatch.getItem
  simp only
  rw [getBatch_rejects _ _ _ h]
  exact ⟨_, rfl⟩

/-- the batches of a SiteBatch, concatenated, are the site list: every site in exactly one batch, in the order given -/
theorem SiteBatch.items_partition {α : Type} (ids : List α) (k : Nat) (hk : 1 ≤ k) (hkn : k ≤ ids.length) :
    ∃ items : List (List α), (List.range k).map (fun i => (⟨ids, k⟩ : SiteBatch α).getItem (i : Nat)) = items.map .ok ∧
      items.flatten = ids := by
  obtain ⟨parts, hp, hflat, _, _⟩ := arraySplit_concat ids k (by omega)
  refine ⟨parts, ?_, hflat⟩
  unfold arraySplit at hp
  rw [allSome_eq_some_iff] at hp
  have : (List.range k).map (fun i => (⟨ids, k⟩ : SiteBatch α).getItem (i : Nat))
      = (List.range k).map (fun i => Except.ok ((ids.drop (bstart ids.length k i)).take (bsize ids.length k i))) :=
    List.map_congr_left fun i hi => (SiteBatch.getItem_ok ids k i hk hkn (List.mem_range.mp hi)).1
  rw [this]
  have h2 : (List.range k).map (arraySplitAt ids k)
      = (List.range k).map (fun i => some ((ids.drop (bstart ids.length k i)).take (bsize ids.length k i))) :=
    List.map_congr_left fun i hi => arraySplitAt_eq ids k i (by omega) (List.mem_range.mp hi)
  rw [h2] at hp
  have h3 : (List.range k).map (fun i => (ids.drop (bstart ids.length k i)).take (bsize ids.length k i)) = parts := by
    apply List.map_injective_iff.mpr (Option.some_injective _)
    rw [← hp, List.map_map]; rfl
  rw [← h3, List.map_map]; rfl

/-- `sb.search(id)` on the ids refines the search by position: for a list without repeats (the constructor's guard)
and `1 ≤ nbatch ≤ nsites`, the site at position `s` is found in the batch of its position -/
theorem SiteBatch.search_eq_position {α : Type} [DecidableEq α] (ids : List α) (k s : Nat) (hn : ids.Nodup)
    (hk : 1 ≤ k) (hkn : k ≤ ids.length) (hs : s < ids.length) :
    (⟨ids, k⟩ : SiteBatch α).search ids[s] = .ok (C19.search ids.length k s) := by
  unfold SiteBatch.search
  simp only [Int.toNat_natCast]
  rw [SiteBatch.searchLoop_eq_find _ _ (fun i => (ids.drop (bstart ids.length k i)).take (bsize ids.length k i)) _
    (fun i hi => (SiteBatch.getItem_ok ids k i hk hkn (List.mem_range.mp hi)).1)]
  unfold C19.search
  congr 1
  apply find?_congr'
  intro i _
  rw [Bool.eq_iff_iff]
  simp only [List.contains_iff_mem, batch_eq_range', List.mem_range'_1]
  rw [mem_drop_take]
  constructor
  · rintro ⟨j, h1, h2, h3⟩
    have := nodup_getElem?_inj ids hn j s hs h3
    omega
  · rintro ⟨h1, h2⟩
    exact ⟨s, h1, h2, List.getElem?_eq_getElem hs⟩

/-- ... so it returns the one batch that holds the site -/
theorem SiteBatch.search_correct {α : Type} [DecidableEq α] (ids : List α) (k s : Nat) (hn : ids.Nodup)
    (hk : 1 ≤ k) (hkn : k ≤ ids.length) (hs : s < ids.length) :
    ∃ i items, (⟨ids, k⟩ : SiteBatch α).search ids[s] = .ok (some i) ∧ i < k ∧
      (⟨ids, k⟩ : SiteBatch α).getItem (i : Nat) = .ok items ∧ ids[s] ∈ items ∧
      ∀ j items', j < k → (⟨ids, k⟩ : SiteBatch α).getItem (j : Nat) = .ok items' → ids[s] ∈ items' → j = i := by
  obtain ⟨i, hi, hik, hmem, huniq⟩ := C19.search_correct ids.length k s (by omega) hs
  have key : ∀ j, j < k → (ids[s] ∈ (ids.drop (bstart ids.length k j)).take (bsize ids.length k j) ↔ s ∈ batch ids.length k j) := by
    intro j _
    rw [mem_drop_take, batch_eq_range', List.mem_range'_1]
    constructor
    · rintro ⟨j', h1, h2, h3⟩
      have := nodup_getElem?_inj ids hn j' s hs h3
      omega
    · rintro ⟨h1, h2⟩
      exact ⟨s, h1, h2, List.getElem?_eq_getElem hs⟩
  refine ⟨i, _, ?_, hik, (SiteBatch.getItem_ok ids k i hk hkn hik).1, (key i hik).mpr hmem, ?_⟩
  · rw [SiteBatch.search_eq_position ids k s hn hk hkn hs, hi]
  · intro j items' hj hitem hin
    rw [(SiteBatch.getItem_ok ids k j hk hkn hj).1] at hitem
    cases hitem
    exact huniq j hj ((key j hj).mp hin)

/-- a site that is not in the list is found in no batch -/
theorem SiteBatch.search_absent {α : Type} [DecidableEq α] (ids : List α) (k : Nat) (id : α) (hid : id ∉ ids)
    (hk : 1 ≤ k) (hkn : k ≤ ids.length) :
    (⟨ids, k⟩ : SiteBatch α).search id = .ok none := by
  unfold SiteBatch.search
  simp only [Int.toNat_natCast]
  rw [SiteBatch.searchLoop_eq_find _ _ (fun i => (ids.drop (bstart ids.length k i)).take (bsize ids.length k i)) _
    (fun i hi => (SiteBatch.getItem_ok ids k i hk hkn (List.mem_range.mp hi)).1)]
  congr 1
  rw [List.find?_eq_none]
  intro i _ hc
  simp only [List.contains_iff_mem] at hc
  exact hid (List.mem_of_mem_drop (List.mem_of_mem_take hc))

/-- more batches than sites: `search` is rejected (the first `sb[0]` raises); no batch at all (`nbatch ≤ 0`): nothing is found -/
theorem SiteBatch.search_rejects {α : Type} [BEq α] (ids : List α) (k : Int) (id : α) (h : (ids.length : Int) < k) :
    ∃ e, (⟨ids, k⟩ : SiteBatch α).search id = .error e := by
  unfold SiteBatch.search
  simp only
  obtain ⟨m, hm⟩ : ∃ m, k.toNat = m + 1 := ⟨k.toNat - 1, by omega⟩
  rw [hm, List.range_succ_eq_map]
  simp only [SiteBatch.searchLoop]
  obtain ⟨e, he⟩ := SiteBatch.getItem_rejects ids k ((0 : Nat) : Int) (by omega)
  rw [he]
  exact ⟨e, rfl⟩

theorem SiteBatch.search_no_batch {α : Type} [BEq α] (ids : List α) (k : Int) (id : α) (h : k ≤ 0) :
    (⟨ids, k⟩ : SiteBatch α).search id = .ok none := by
  unfold SiteBatch.search
  simp only
  rw [show k.toNat = 0 by omega]
  rfl



/-! ### cartesian product -/

theorem product_length (ls : List (List Val)) :
    (product ls).length = (ls.map List.length).prod := by
  induction ls with
  | nil => simp [product]
  | cons vs rest ih =>
    simp only [product, List.map_cons, List.prod_cons]
    rw [List.length_flatMap]
    simp only [List.length_map, ih]
    induction vs with
    | nil => simp
    | cons v vs ihv => simp [ihv]; ring

/-- a combination is enumerated iff each component comes from its own list -/
theorem mem_product (ls : List (List Val)) (t : List Val) :
    t ∈ product ls ↔ List.Forall₂ (fun v l => v ∈ l) t ls := by
  induction ls generalizing t with
  | nil => cases t <;> simp [product]
  | cons vs rest ih =>
    simp only [product, List.mem_flatMap, List.mem_map]
    constructor
    · rintro ⟨v, hv, t', ht', rfl⟩
      exact List.Forall₂.cons hv ((ih t').mp ht')
    · intro h
      cases h with
      | cons hv ht => exact ⟨_, hv, _, (ih _).mpr ht, rfl⟩

/-- every combination is enumerated exactly once when the value lists have no repeats -/
theorem product_nodup (ls : List (List Val)) (h : ∀ l ∈ ls, l.Nodup) : (product ls).Nodup := by
  induction ls with
  | nil => simp [product]
  | cons vs rest ih =>
    have hvs : vs.Nodup := h vs (by simp)
    have hrest : (product rest).Nodup := ih (fun l hl => h l (by simp [hl]))
    simp only [product]
    rw [List.nodup_flatMap]
    refine ⟨?_, ?_⟩
    · intro v _
      exact hrest.map (fun a b hab => by simpa using hab)
    · refine List.Pairwise.imp_of_mem ?_ hvs
      intro a b _ _ hab
      simp only [Function.onFun, List.disjoint_left, List.mem_map]
      rintro x ⟨t1, _, rfl⟩ ⟨t2, _, h2⟩
      exact hab (by simpa using (List.cons_eq_cons.mp h2).1.symm)

/-- ... and that hypothesis is needed: a value given twice makes every combination with it appear twice -/
theorem product_repeats_counterexample :
    ¬ (product [[.int 1, .int 1], [.str "a"]]).Nodup ∧ (product [[.int 1, .int 1], [.str "a"]]).length = 2 := by
  decide

theorem product_mem_length (ls : List (List Val)) (t : List Val) (h : t ∈ product ls) : t.length = ls.length :=
  ((mem_product ls t).mp h).length_eq

/-- position `a * |product rest| + b` of the product holds the `a`-th value of the first list followed by the
`b`-th combination of the others: the last option varies fastest -/
theorem product_cons_getElem? (vs : List Val) (rest : List (List Val)) (a b : Nat) (hb : b < (product rest).length) :
    (product (vs :: rest))[a * (product rest).length + b]? =
      (vs[a]?).bind fun v => ((product rest)[b]?).map (v :: ·) := by
  induction vs generalizing a with
  | nil => simp [product]
  | cons v vs ih =>
    simp only [product, List.flatMap_cons]
    cases a with
    | zero =>
      simp only [Nat.zero_mul, Nat.zero_add, List.getElem?_cons_zero, Option.bind_some]
      rw [List.getElem?_append_left (by simpa using hb)]
      simp
    | succ a =>
      rw [List.getElem?_append_right (by simp; nlinarith)]
      simp only [List.length_map, List.getElem?_cons_succ]
      have : (a + 1) * (product rest).length + b - (product rest).length = a * (product rest).length + b := by
        rw [Nat.add_mul]; omega
      rw [this]
      exact ih a

/-! ### from_cartesian_product -/

/-- an accepted call (every option a scalar or an iterable): the options become the dictionary of the value lists
(keys unique, insertion order) and the tasks are rebuilt from them; name and context are untouched -/
theorem cartesian_accepts (m : Manager) (args : List (String × OptArg)) (lists : List (List Val))
    (h : args.map (·.2.toList?) = lists.map some) :
    m.cartesian args = ({ m with options := dictOf ((args.map (·.1)).zip lists),
                                 tasks := tasksOf (dictOf ((args.map (·.1)).zip lists)) }, true) := by
  unfold Manager.cartesian
  rw [fillOptions_ok args lists [] h]
  rfl

/-- a rejected call (an option that is neither a scalar nor iterable): the options hold what was read before the bad
one, and the tasks, the name and the context are the OLD ones -/
theorem cartesian_rejects (m : Manager) (pre post : List (String × OptArg)) (k : String) (lists : List (List Val))
    (h : pre.map (·.2.toList?) = lists.map some) :
    m.cartesian (pre ++ (k, .notIterable) :: post)
      = ({ m with options := dictOf ((pre.map (·.1)).zip lists) }, false) := by
  unfold Manager.cartesian
  rw [fillOptions_reject pre post k lists [] h]
  rfl

/-- a call is accepted exactly when no option is of the rejected kind -/
theorem cartesian_accepted_iff (m : Manager) (args : List (String × OptArg)) :
    (m.cartesian args).2 = true ↔ ∀ kv ∈ args, kv.2 ≠ .notIterable := by
  constructor
  · intro h kv hkv hc
    obtain ⟨pre, post, rfl⟩ := List.append_of_mem hkv
    rcases kv with ⟨k, a⟩
    simp only at hc
    subst hc
    -- split `pre` at its first rejected option
    induction pre generalizing m with
    | nil => simp [Manager.cartesian, fillOptions, OptArg.toList?] at h
    | cons kv' rest ih =>
      rcases kv' with ⟨k', a'⟩
      cases ha : a'.toList? with
      | none => simp [Manager.cartesian, fillOptions, ha] at h
      | some l =>
        clear ih
        -- the whole list of options contains a rejected one: fillOptions returns false whatever the accumulator
        have key : ∀ (args : List (String × OptArg)) acc, (∃ kv ∈ args, kv.2 = OptArg.notIterable) → (fillOptions args acc).2 = false := by
          intro args
          induction args with
          | nil => simp
          | cons x xs ihx =>
            intro acc hex
            rcases x with ⟨kx, ax⟩
            cases hax : ax.toList? with
            | none => simp [fillOptions, hax]
            | some lx =>
              simp only [fillOptions, hax]
              apply ihx
              obtain ⟨kv, hkv, hkv2⟩ := hex
              rcases List.mem_cons.mp hkv with rfl | hin
              · simp only at hkv2; subst hkv2; simp [OptArg.toList?] at hax
              · exact ⟨kv, hin, hkv2⟩
        have := key ((k', a') :: rest ++ (k, OptArg.notIterable) :: post) [] ⟨(k, .notIterable), by simp, rfl⟩
        unfold Manager.cartesian at h
        split at h
        · rename_i opts heq; rw [heq] at this; simp at this
        · simp at h
  · intro h
    have : ∃ lists : List (List Val), args.map (·.2.toList?) = lists.map some := by
      induction args with
      | nil => exact ⟨[], rfl⟩
      | cons kv rest ih =>
        obtain ⟨ls, hls⟩ := ih (fun x hx => h x (by simp [hx]))
        have h1 := h kv (by simp)
        cases ha : kv.2 with
        | bare v => exact ⟨[v] :: ls, by rw [List.map_cons, List.map_cons, hls, ha]; rfl⟩
        | many vs => exact ⟨vs :: ls, by rw [List.map_cons, List.map_cons, hls, ha]; rfl⟩
        | notIterable => exact absurd ha h1
    obtain ⟨lists, hl⟩ := this
    rw [cartesian_accepts m args lists hl]

/-- `fromCartesianArgs` is the cartesian-product manager of the dictionary of value lists; with distinct option names
(python keyword arguments) that dictionary is the list of options as given -/
theorem fromCartesianArgs_eq (name : String) (ctx : Dict) (args : List (String × OptArg)) (lists : List (List Val))
    (h : args.map (·.2.toList?) = lists.map some) :
    fromCartesianArgs name ctx args = fromCartesian name (dictOf ctx) (dictOf ((args.map (·.1)).zip lists)) := by
  unfold fromCartesianArgs
  rw [cartesian_accepts _ args lists h]
  rfl

theorem fromCartesianArgs_eq_of_nodup (name : String) (ctx : Dict) (args : List (String × OptArg)) (lists : List (List Val))
    (h : args.map (·.2.toList?) = lists.map some) (hk : (args.map (·.1)).Nodup) :
    fromCartesianArgs name ctx args = fromCartesian name (dictOf ctx) ((args.map (·.1)).zip lists) := by
  rw [fromCartesianArgs_eq name ctx args lists h, dictOf_eq_self ((args.map (·.1)).zip lists)]
  have hl : lists.length = args.length := by
    have := congrArg List.length h; simpa using this.symm
  rw [List.map_fst_zip (by simp [hl])]
  exact hk

/-- the number of tasks of a cartesian-product manager -/
theorem fromCartesian_ntasks (name : String) (ctx : Dict) (opts : List (String × List Val)) :
    (fromCartesian name ctx opts).tasks.length = ((opts.map (·.2)).map List.length).prod := by
  simp [fromCartesian, tasksOf, product_length]

/-- every task of a cartesian-product manager has exactly the option names as keys, in insertion order -/
theorem fromCartesian_task_keys (name : String) (ctx : Dict) (opts : List (String × List Val)) (t : Dict)
    (h : t ∈ (fromCartesian name ctx opts).tasks) : t.map (·.1) = opts.map (·.1) := by
  simp only [fromCartesian, tasksOf, List.mem_map] at h
  obtain ⟨c, hc, rfl⟩ := h
  have hl := product_mem_length _ _ hc
  rw [List.map_fst_zip]
  simp only [List.length_map] at hl ⊢
  omega

/-- ... and its values are a combination: the `j`-th value comes from the `j`-th option list -/
theorem fromCartesian_task_values (name : String) (ctx : Dict) (opts : List (String × List Val)) (t : Dict) :
    t ∈ (fromCartesian name ctx opts).tasks ↔
      t.map (·.1) = opts.map (·.1) ∧ List.Forall₂ (fun v l => v ∈ l) (t.map (·.2)) (opts.map (·.2)) := by
  constructor
  · intro h
    refine ⟨fromCartesian_task_keys name ctx opts t h, ?_⟩
    simp only [fromCartesian, tasksOf, List.mem_map] at h
    obtain ⟨c, hc, rfl⟩ := h
    have hl := product_mem_length _ _ hc
    rw [List.map_snd_zip]
    · exact (mem_product _ _).mp hc
    · simp only [List.length_map] at hl ⊢
      omega
  · rintro ⟨hk, hv⟩
    simp only [fromCartesian, tasksOf, List.mem_map]
    refine ⟨t.map (·.2), (mem_product _ _).mpr hv, ?_⟩
    rw [← hk]
    exact (List.zip_of_prod rfl rfl).symm

/-- every combination of option values is a task exactly once (option value lists without repeats) -/
theorem fromCartesian_tasks_nodup (name : String) (ctx : Dict) (opts : List (String × List Val))
    (h : ∀ kv ∈ opts, kv.2.Nodup) : (fromCartesian name ctx opts).tasks.Nodup := by
  simp only [fromCartesian, tasksOf]
  refine (product_nodup _ ?_).map_on ?_
  · intro l hl
    obtain ⟨kv, hkv, rfl⟩ := List.mem_map.mp hl
    exact h kv hkv
  · intro a ha b hb hab
    have la := product_mem_length _ _ ha
    have lb := product_mem_length _ _ hb
    have := congrArg (List.map (·.2)) hab
    rwa [List.map_snd_zip, List.map_snd_zip] at this
    · simp only [List.length_map] at lb ⊢; omega
    · simp only [List.length_map] at la ⊢; omega

/-- a scalar given bare is the one-value list -/
theorem fromCartesianArgs_bare (name : String) (ctx : Dict) (pre post : List (String × OptArg)) (k : String) (v : Val) :
    fromCartesianArgs name ctx (pre ++ (k, .bare v) :: post) = fromCartesianArgs name ctx (pre ++ (k, .many [v]) :: post) := by
  have key : ∀ acc, fillOptions (pre ++ (k, .bare v) :: post) acc = fillOptions (pre ++ (k, .many [v]) :: post) acc := by
    induction pre with
    | nil => intro acc; simp [fillOptions, OptArg.toList?]
    | cons kv rest ih =>
      intro acc
      rcases kv with ⟨k', a⟩
      simp only [List.cons_append, fillOptions]
      cases a.toList? with
      | none => rfl
      | some l => exact ih _
  simp only [fromCartesianArgs, Manager.cartesian, key]

theorem fromCartesianArgs_ntasks (name : String) (ctx : Dict) (args : List (String × OptArg)) (lists : List (List Val))
    (h : args.map (·.2.toList?) = lists.map some) (hk : (args.map (·.1)).Nodup) :
    (fromCartesianArgs name ctx args).tasks.length = (lists.map List.length).prod := by
  rw [fromCartesianArgs_eq_of_nodup name ctx args lists h hk, fromCartesian_ntasks]
  have hl : lists.length = args.length := by
    have := congrArg List.length h; simpa using this.symm
  rw [List.map_snd_zip (by simp [hl])]



/-! ### find -/

/-- `find(**crit)` on a manager whose tasks all carry the requested options: the increasing list of the numbers of
the tasks on which every criterion matches (through `str`, brackets removed, `.` matching any character) -/
theorem mem_find (m : Manager) (crit : List (String × Val))
    (ho : ∀ kv ∈ crit, (m.options.lookup kv.1).isSome) (ht : ∀ t ∈ m.tasks, ∀ kv ∈ crit, (t.lookup kv.1).isSome) :
    ∃ l, find m crit = .ok l ∧ l.Pairwise (· < ·) ∧
      ∀ i, i ∈ l ↔ ∃ t, m.tasks[i]? = some t ∧ ∀ kv ∈ crit, ∃ tv, t.lookup kv.1 = some tv ∧ valMatch kv.2 tv = true := by
  unfold find
  rw [findLoop_ok m.options crit m.tasks 0 ho ht]
  refine ⟨_, rfl, ?_, ?_⟩
  · simp only [Nat.add_zero, List.map_id']
    exact List.Pairwise.filter _ List.pairwise_lt_range
  · intro i
    simp only [Nat.add_zero, List.map_id', List.mem_filter, List.mem_range]
    constructor
    · rintro ⟨hi, hp⟩
      cases hti : m.tasks[i]? with
      | none => simp [hti] at hp
      | some t =>
        simp only [hti] at hp
        exact ⟨t, rfl, (critHolds_iff crit t).mp hp⟩
    · rintro ⟨t, hti, hp⟩
      have hi : i < m.tasks.length := by
        by_contra hc
        rw [List.getElem?_eq_none (by omega)] at hti
        cases hti
      exact ⟨hi, by simp only [hti]; exact (critHolds_iff crit t).mpr hp⟩

/-- a key that is not an option is rejected as soon as there is a task to look at ... -/
theorem find_unknown_key (m : Manager) (crit : List (String × Val)) (hne : m.tasks ≠ [])
    (hk : ∃ kv ∈ crit, m.options.lookup kv.1 = none) : ∃ e, find m crit = .error e := by
  unfold find
  cases hts : m.tasks with
  | nil => exact absurd hts hne
  | cons t rest =>
    obtain ⟨e, he⟩ := critMatch_unknown m.options t crit hk
    simp only [findLoop, he]
    exact ⟨e, rfl⟩

/-- ... and not at all when there is none: the assertion sits inside the loop over the tasks -/
theorem find_no_task (m : Manager) (crit : List (String × Val)) (h : m.tasks = []) : find m crit = .ok [] := by
  simp [find, h, findLoop]

/-- on values of the property's quantifier (integers, identifier-like strings) a criterion matches exactly the equal value -/
theorem valMatch_quant (v tv : Val) (hv : v.quant = true) (ht : tv.quant = true) : valMatch v tv = true ↔ v = tv := by
  have plain_of : ∀ w : Val, w.quant = true → w.plain = true := by
    intro w hw
    cases w with
    | int i => exact int_plain i
    | str s => simp only [Val.quant, Bool.and_eq_true] at hw; exact hw.2
    | flt r => simp [Val.quant] at hw
    | other r => simp [Val.quant] at hw
  rw [valMatch_plain v tv (plain_of v hv) (plain_of tv ht)]
  constructor
  · intro h
    cases v with
    | int i =>
      cases tv with
      | int j => rw [toStr_inj_int i j h]
      | str s =>
        simp only [Val.quant, Bool.and_eq_true] at ht
        exact absurd h (toStr_inj_int_str i s (toInt?_none_of_alpha s ht.1))
      | flt r => simp [Val.quant] at ht
      | other r => simp [Val.quant] at ht
    | str s =>
      cases tv with
      | int j =>
        simp only [Val.quant, Bool.and_eq_true] at hv
        exact absurd h.symm (toStr_inj_int_str j s (toInt?_none_of_alpha s hv.1))
      | str s' => simp only [Val.toStr] at h; rw [h]
      | flt r => simp [Val.quant] at ht
      | other r => simp [Val.quant] at ht
    | flt r => simp [Val.quant] at hv
    | other r => simp [Val.quant] at hv
  · intro h; rw [h]

/-- the hypothesis is needed: outside the quantifier's alphabet `find` over-matches. A `.` in the requested value
matches any character, a string that reads as an integer is that integer, brackets are dropped. -/
theorem valMatch_counterexamples :
    valMatch (.flt "1.5") (.int 105) = true ∧ valMatch (.int 1) (.str "1") = true ∧ valMatch (.str "a1") (.str "a[1]") = true := by
  decide

/-- `find(key = val)` on a cartesian-product manager returns exactly the numbers of the combinations whose
component for `key` matches `val` (position `j` of `key` among the option names) -/
theorem find_cartesian (name : String) (ctx : Dict) (opts : List (String × List Val))
    (ho : (opts.map (·.1)).Nodup) (j : Nat) (hj : j < opts.length) (val : Val) :
    ∃ l, find (fromCartesian name ctx opts) [((opts[j]).1, val)] = .ok l ∧ l.Pairwise (· < ·) ∧
      ∀ i, i ∈ l ↔ ∃ c tv, (product (opts.map (·.2)))[i]? = some c ∧ c[j]? = some tv ∧ valMatch val tv = true := by
  have hj' : j < (opts.map (·.1)).length := by simpa using hj
  have hkj : (opts.map (·.1))[j] = (opts[j]).1 := by simp
  have key : ∀ c : List Val, c.length = opts.length →
      ((opts.map (·.1)).zip c).lookup (opts[j]).1 = c[j]? := by
    intro c hlen
    rw [← hkj]
    exact lookup_zip_nodup _ c ho j hj' (by simpa using hlen)
  have hopt : ∀ kv ∈ [((opts[j]).1, val)], ((fromCartesian name ctx opts).options.lookup kv.1).isSome := by
    intro kv hkv
    simp only [List.mem_singleton] at hkv
    subst hkv
    simp only [fromCartesian]
    rw [List.lookup_isSome_iff]
    exact ⟨opts[j], List.getElem_mem hj, by simp⟩
  have htask : ∀ t ∈ (fromCartesian name ctx opts).tasks, ∀ kv ∈ [((opts[j]).1, val)], (t.lookup kv.1).isSome := by
    intro t ht kv hkv
    simp only [List.mem_singleton] at hkv
    subst hkv
    simp only [fromCartesian, tasksOf, List.mem_map] at ht
    obtain ⟨c, hc, rfl⟩ := ht
    have hlen := product_mem_length _ _ hc
    rw [key c (by simpa using hlen)]
    rw [List.getElem?_eq_getElem (by simp at hlen; omega)]
    rfl
  obtain ⟨l, hl, hsorted, hmem⟩ := mem_find (fromCartesian name ctx opts) [((opts[j]).1, val)] hopt htask
  refine ⟨l, hl, hsorted, fun i => (hmem i).trans ?_⟩
  simp only [fromCartesian, tasksOf, List.getElem?_map, List.mem_singleton, forall_eq]
  constructor
  · rintro ⟨t, hti, tv, hlk, hv⟩
    cases hc : (product (opts.map (·.2)))[i]? with
    | none => simp [hc] at hti
    | some c =>
      simp only [hc, Option.map_some, Option.some.injEq] at hti
      subst hti
      have hlen := product_mem_length _ _ (List.mem_of_getElem? hc)
      rw [key c (by simpa using hlen)] at hlk
      exact ⟨c, tv, rfl, hlk, hv⟩
  · rintro ⟨c, tv, hc, hcj, hv⟩
    have hlen := product_mem_length _ _ (List.mem_of_getElem? hc)
    exact ⟨_, by rw [hc]; rfl, tv, by rw [key c (by simpa using hlen)]; exact hcj, hv⟩

/-- ... and for option values and a requested value of the quantifier: exactly the combinations whose component EQUALS it -/
theorem find_cartesian_exact (name : String) (ctx : Dict) (opts : List (String × List Val))
    (ho : (opts.map (·.1)).Nodup) (j : Nat) (hj : j < opts.length) (val : Val)
    (hq : val.quant = true) (hqs : ∀ v ∈ (opts[j]).2, v.quant = true) :
    ∃ l, find (fromCartesian name ctx opts) [((opts[j]).1, val)] = .ok l ∧
      ∀ i, i ∈ l ↔ ∃ c, (product (opts.map (·.2)))[i]? = some c ∧ c[j]? = some val := by
  obtain ⟨l, hl, _, hmem⟩ := find_cartesian name ctx opts ho j hj val
  refine ⟨l, hl, fun i => (hmem i).trans ?_⟩
  constructor
  · rintro ⟨c, tv, hc, hcj, hv⟩
    have hF := (mem_product _ c).mp (List.mem_of_getElem? hc)
    have htv : tv ∈ (opts[j]).2 :=
      forall₂_getElem? hF j tv (opts[j]).2 hcj (by simp [hj])
    rw [(valMatch_quant val tv hq (hqs tv htv)).mp hv]
    exact ⟨c, hc, hcj⟩
  · rintro ⟨c, hc, hcj⟩
    exact ⟨c, val, hc, hcj, valMatch_refl val⟩




/-! ### get_task -/

/-- `get_task(taskid)` is accepted exactly for `0 ≤ taskid < ntasks` -/
theorem getTask_isSome_iff (m : Manager) (id : Int) : (getTask m id).isSome ↔ 0 ≤ id ∧ id < m.tasks.length := by
  unfold getTask
  split
  · rename_i h
    have : id.toNat < m.tasks.length := by omega
    rw [List.getElem?_eq_getElem this]
    simp [h]
  · rename_i h; simp [h]

/-- ... and returns the task of that number, with the manager's context -/
theorem getTask_eq (m : Manager) (i : Nat) (o : Dict) (h : m.tasks[i]? = some o) :
    getTask m i = some ⟨i, m.context, o⟩ := by
  have hi : i < m.tasks.length := by
    by_contra hc; rw [List.getElem?_eq_none (by omega)] at h; cases h
  unfold getTask
  rw [if_pos ⟨by omega, by exact_mod_cast hi⟩]
  simp [h]

/-- task `i` of a cartesian-product manager is the `i`-th combination of `itertools.product` -/
theorem getTask_cartesian (name : String) (ctx : Dict) (opts : List (String × List Val)) (i : Nat) (c : List Val)
    (h : (product (opts.map (·.2)))[i]? = some c) :
    getTask (fromCartesian name ctx opts) i = some ⟨i, ctx, (opts.map (·.1)).zip c⟩ := by
  apply getTask_eq
  simp [fromCartesian, tasksOf, h]

/-- `task[key]` for an option name is the component of the combination; option values come before context values -/
theorem task_get_option (i : Nat) (ctx : Dict) (keys : List String) (c : List Val) (hn : keys.Nodup)
    (hl : c.length = keys.length) (j : Nat) (hj : j < keys.length) :
    (⟨i, ctx, keys.zip c⟩ : Task).get keys[j] = c[j]? := by
  unfold Task.get
  simp only
  rw [lookup_zip_nodup keys c hn j hj hl, List.getElem?_eq_getElem (by omega)]

theorem task_get_context (t : Task) (key : String) (h : t.options.lookup key = none) :
    t.get key = t.context.lookup key := by
  simp [Task.get, h]

/-! ### dictionary round trip -/

/-- a task dictionary gives its options back whatever the key names (the options entry is written last, and
`from_dict` keeps nothing else) -/
theorem taskFromDict_taskToDict (kn : KeyNames) (id : Nat) (ctx opts : Dict) :
    taskFromDict kn (pyDict (taskToDict kn id ctx opts)) = some opts := by
  unfold taskFromDict jlookup pyDict
  simp only [lookup_dictOf, taskToDict, List.reverse_cons, List.reverse_nil, List.nil_append, List.cons_append,
    List.lookup]
  cases e1 : ("taskid" == kn.taskOptions) <;> cases e2 : ("taskid" == kn.context) <;>
    cases e3 : (kn.context == kn.taskOptions) <;> simp

/-- the exported tasks are `get_task(i).to_dict()` for `i = 0 .. ntasks-1` -/
theorem toDict_tasks (kn : KeyNames) (m : Manager) :
    ∃ ts, (toDict kn m).lookup "tasks" = some (.tasks ts) ∧ ts.length = m.tasks.length ∧
      ∀ i : Nat, ts[i]? = (getTask m (i : Int)).map (Task.toDict kn) := by
  refine ⟨m.tasks.mapIdx fun i o => pyDict (taskToDict kn i m.context o), ?_, by simp, ?_⟩
  · unfold toDict pyDict
    simp [lookup_dictOf, List.lookup]
  · intro i
    rw [List.getElem?_mapIdx]
    cases h : m.tasks[i]? with
    | none =>
      unfold getTask
      split
      · simp [h]
      · rfl
    | some o => rw [getTask_eq m i o h]; rfl

/-- `from_dict (to_dict m)` is `m`, up to the name when a top-level key name is `"name"` -/
theorem fromDict_toDict_okEq (kn : KeyNames) (hk : kn.okEq) (m : Manager) :
    ∃ nm, fromDict kn (toDict kn m) = some { m with name := nm } ∧ (kn.ok → nm = m.name) := by
  obtain ⟨h1, h2, h3⟩ := hk
  have htasks : allSome ((m.tasks.mapIdx fun i o => pyDict (taskToDict kn i m.context o)).map (taskFromDict kn))
      = some m.tasks := by
    rw [allSome_eq_some_iff]
    apply List.ext_getElem?
    intro i
    simp only [List.getElem?_map, List.getElem?_mapIdx, Option.map_map]
    cases m.tasks[i]? with
    | none => rfl
    | some o => simp [taskFromDict_taskToDict]
  simp only [pyDict] at htasks
  have e1 : ("tasks" == kn.context) = false := by simpa using Ne.symm h2
  have e2 : ("tasks" == kn.managerOptions) = false := by simpa using Ne.symm h3
  have e3 : (kn.context == kn.managerOptions) = false := by simpa using h1
  have e4 : (kn.managerOptions == kn.context) = false := by simpa using Ne.symm h1
  have e5 : (kn.context == "tasks") = false := by simpa using h2
  have e6 : (kn.managerOptions == "tasks") = false := by simpa using h3
  unfold fromDict toDict jlookup pyDict
  simp only [lookup_dictOf, List.reverse_cons, List.reverse_nil, List.nil_append, List.cons_append, List.lookup,
    e1, e2, e3, e4, e5, e6, beq_self_eq_true, htasks]
  refine ⟨_, rfl, ?_⟩
  rintro ⟨_, _, _, h4, h5⟩
  have e7 : ("name" == kn.context) = false := by simpa using Ne.symm h4
  have e8 : ("name" == kn.managerOptions) = false := by simpa using Ne.symm h5
  simp [e7, e8]

/-- `from_dict (to_dict m) = m` for key names that do not collide at the top level -/
theorem fromDict_toDict (kn : KeyNames) (hk : kn.ok) (m : Manager) :
    fromDict kn (toDict kn m) = some m := by
  obtain ⟨nm, h, hn⟩ := fromDict_toDict_okEq kn ⟨hk.1, hk.2.1, hk.2.2.1⟩ m
  rw [h, hn hk]

theorem mEq_refl (m : Manager)
    (hc : (m.context.map (·.1)).Nodup) (ho : (m.options.map (·.1)).Nodup)
    (ht : ∀ t ∈ m.tasks, (t.map (·.1)).Nodup) : mEq m m = true := by
  simp only [mEq, Bool.and_eq_true, beq_self_eq_true, and_true]
  exact ⟨⟨dictSub_refl _ hc, lookup_all_refl _ ho⟩, zip_self_all _ ht⟩

/-- a manager rebuilt from its dictionary compares equal to the original in both directions
(dictionaries have unique keys, as python dictionaries do) -/
theorem roundtrip_eq_both (kn : KeyNames) (hk : kn.okEq) (m : Manager)
    (hc : (m.context.map (·.1)).Nodup) (ho : (m.options.map (·.1)).Nodup)
    (ht : ∀ t ∈ m.tasks, (t.map (·.1)).Nodup) :
    ∃ m', fromDict kn (toDict kn m) = some m' ∧ mEq m m' = true ∧ mEq m' m = true ∧ (kn.ok → m' = m) := by
  obtain ⟨nm, h, hn⟩ := fromDict_toDict_okEq kn hk m
  refine ⟨_, h, mEq_refl m hc ho ht, mEq_refl m hc ho ht, fun hok => ?_⟩
  rw [hn hok]

/-- the hypotheses on the key names are needed: with the context under the key of the manager options, or either
of them under `"tasks"`, the dictionary cannot be read back; under `"name"` only the name is lost, which `==` ignores -/
theorem roundtrip_fails_on_collision :
    fromDict ⟨"x", "options", "x"⟩ (toDict ⟨"x", "options", "x"⟩
      { name := "m", context := [("a", .int 1)], options := [("k", [.int 1])], tasks := [[("k", .int 1)]] }) = none ∧
    fromDict ⟨"tasks", "options", "mo"⟩ (toDict ⟨"tasks", "options", "mo"⟩
      { name := "m", context := [("a", .int 1)], options := [("k", [.int 1])], tasks := [[("k", .int 1)]] }) = none ∧
    fromDict ⟨"context", "options", "tasks"⟩ (toDict ⟨"context", "options", "tasks"⟩
      { name := "m", context := [("a", .int 1)], options := [("k", [.int 1])], tasks := [[("k", .int 1)]] }) = none ∧
    fromDict ⟨"name", "options", "mo"⟩ (toDict ⟨"name", "options", "mo"⟩
      { name := "m", context := [("a", .int 1)], options := [("k", [.int 1])], tasks := [[("k", .int 1)]] })
      = some { name := "Task Manager", context := [("a", .int 1)], options := [("k", [.int 1])], tasks := [[("k", .int 1)]] } := by
  decide

/-- the round trip for a cartesian-product manager as the caller builds it (`OptionManager(name, **ctx)` then
`from_cartesian_product(**args)`): no hypothesis beyond an accepted call and top-level key names that do not
collide — unique keys come from the dictionaries the code itself builds -/
theorem roundtrip_cartesian (kn : KeyNames) (hk : kn.okEq) (name : String) (ctx : Dict)
    (args : List (String × OptArg)) (lists : List (List Val)) (h : args.map (·.2.toList?) = lists.map some) :
    ∃ m', fromDict kn (toDict kn (fromCartesianArgs name ctx args)) = some m' ∧
      mEq (fromCartesianArgs name ctx args) m' = true ∧ mEq m' (fromCartesianArgs name ctx args) = true ∧
      (kn.ok → m' = fromCartesianArgs name ctx args) := by
  rw [fromCartesianArgs_eq name ctx args lists h]
  refine roundtrip_eq_both kn hk _ (dictOf_nodup ctx) (dictOf_nodup _) ?_
  intro t ht
  rw [fromCartesian_task_keys name (dictOf ctx) _ t ht]
  exact dictOf_nodup _




/-! ### histories: one manager object, the key names, one exported dictionary, files -/

/-- the outputs of a history come one per operation, and histories compose -/
theorem run_outputs (w : World) (a b : List Op) :
    (run w a).2.length = a.length ∧
    run w (a ++ b) = ((run (run w a).1 b).1, (run w a).2 ++ (run (run w a).1 b).2) := by
  refine ⟨?_, run_append w a b⟩
  induction a generalizing w with
  | nil => rfl
  | cons op rest ih => simp [run, ih]

/-- no operation ever changes the name or the context of the manager -/
theorem run_name_context (w : World) (ops : List Op) :
    (run w ops).1.mgr.name = w.mgr.name ∧ (run w ops).1.mgr.context = w.mgr.context := by
  induction ops generalizing w with
  | nil => exact ⟨rfl, rfl⟩
  | cons op rest ih =>
    simp only [run]
    rw [(ih _).1, (ih _).2]
    rcases step_mgr_cases w op with h1 | ⟨args, _, h1⟩
    · rw [h1]; exact ⟨rfl, rfl⟩
    · rw [h1]
      unfold Manager.cartesian
      cases fillOptions args [] with
      | mk opts ok => cases ok <;> exact ⟨rfl, rfl⟩

/-- accessors leave the world as it is, whatever they answer -/
theorem step_accessor (w : World) (crit : List (String × Val)) (id : Int) (path : String) :
    (step w (.find crit)).1 = w ∧ (step w (.getTask id)).1 = w ∧ (step w .imp).1 = w ∧
    (step w .jsn).1 = w ∧ (step w (.load path)).1 = w :=
  ⟨rfl, rfl, rfl, rfl, rfl⟩

/-- a rejected operation leaves the world as it is — except a rejected `from_cartesian_product`, see `step_cartesian_rejected` -/
theorem step_rejected (w : World) (op : Op) (h : (step w op).2 = .err) (hc : ∀ a, op ≠ .cartesian a) :
    (step w op).1 = w := by
  cases op with
  | setKey key name =>
    simp only [step] at h ⊢
    split at h <;> simp_all
  | resetKeys => simp [step] at h
  | cartesian args => exact absurd rfl (hc args)
  | find crit => rfl
  | getTask id => rfl
  | exp => simp [step] at h
  | jsn => rfl
  | imp => rfl
  | save path ow => simp only [step] at h; split at h <;> simp at h
  | load path => rfl

/-- a rejected `from_cartesian_product` (an option that is neither a scalar nor iterable): the options hold what was
read before the bad one; the tasks, the name, the context, the key names, the exported dictionary and the files
are untouched -/
theorem step_cartesian_rejected (w : World) (pre post : List (String × OptArg)) (k : String) (lists : List (List Val))
    (h : pre.map (·.2.toList?) = lists.map some) :
    step w (.cartesian (pre ++ (k, .notIterable) :: post))
      = ({ w with mgr := { w.mgr with options := dictOf ((pre.map (·.1)).zip lists) } }, .err) := by
  simp only [step, cartesian_rejects w.mgr pre post k lists h]

/-- `set_dict_keyname` accepts exactly the three documented keys -/
theorem step_setKey (w : World) (key name : String) :
    (step w (.setKey key name)).2 = .ok ↔ key = "context_name" ∨ key = "task_options_name" ∨ key = "manager_options_name" := by
  simp only [step, KeyNames.set]
  split_ifs with h1 h2 h3 <;> simp_all

/-- after ANY history, the manager is the cartesian-product manager of the last accepted grid: regenerating the grid
leaves nothing of the earlier ones, and nothing that happens afterwards (find, get_task, exports, imports, files,
key names, rejected calls of those) touches it -/
theorem history_mgr (name : String) (ctx : Dict) (ops rest : List Op) (args : List (String × OptArg))
    (lists : List (List Val)) (h : args.map (·.2.toList?) = lists.map some)
    (hrest : ∀ op ∈ rest, ∀ a, op ≠ .cartesian a) :
    (run (World.init name ctx) (ops ++ .cartesian args :: rest)).1.mgr = fromCartesianArgs name ctx args := by
  rw [(run_outputs _ ops _).2]
  simp only [run]
  rw [run_mgr_of_no_cartesian _ rest hrest]
  have hnc := run_name_context (World.init name ctx) ops
  simp only [step, cartesian_accepts _ args lists h]
  rw [fromCartesianArgs_eq name ctx args lists h]
  simp only [fromCartesian, hnc.1, hnc.2]
  rfl

/-- ... so `find` and `get_task`, at any later point, answer about that grid -/
theorem history_answers (name : String) (ctx : Dict) (ops rest : List Op) (args : List (String × OptArg))
    (lists : List (List Val)) (h : args.map (·.2.toList?) = lists.map some)
    (hrest : ∀ op ∈ rest, ∀ a, op ≠ .cartesian a) (crit : List (String × Val)) (id : Int) :
    (run (World.init name ctx) (ops ++ .cartesian args :: rest ++ [.find crit])).2.getLast?
      = some (match find (fromCartesianArgs name ctx args) crit with | .ok l => .ids l | .error _ => .err) ∧
    (run (World.init name ctx) (ops ++ .cartesian args :: rest ++ [.getTask id])).2.getLast?
      = some (match getTask (fromCartesianArgs name ctx args) id with | some t => .task t | none => .err) := by
  have hm := history_mgr name ctx ops rest args lists h hrest
  constructor
  · have e : ops ++ Op.cartesian args :: rest ++ [Op.find crit] = (ops ++ Op.cartesian args :: rest) ++ [Op.find crit] := by simp
    rw [e, (run_outputs _ _ _).2]
    simp only [run, step, List.getLast?_append, List.getLast?_singleton, Option.some_or]
    rw [hm]
    cases find (fromCartesianArgs name ctx args) crit <;> rfl
  · have e : ops ++ Op.cartesian args :: rest ++ [Op.getTask id] = (ops ++ Op.cartesian args :: rest) ++ [Op.getTask id] := by simp
    rw [e, (run_outputs _ _ _).2]
    simp only [run, step, List.getLast?_append, List.getLast?_singleton, Option.some_or]
    rw [hm]
    cases getTask (fromCartesianArgs name ctx args) id <;> rfl

/-- after ANY history, every dictionary of the manager has unique keys, whatever was accepted or rejected on the way -/
theorem history_unique_keys (name : String) (ctx : Dict) (ops : List Op) :
    let m := (run (World.init name ctx) ops).1.mgr
    (m.context.map (·.1)).Nodup ∧ (m.options.map (·.1)).Nodup ∧ ∀ t ∈ m.tasks, (t.map (·.1)).Nodup :=
  run_inv _ ops (init_inv name ctx)

/-- at ANY point of ANY history: export the manager, then do anything that does not regenerate the grid, rename keys or
export again — find, get_task, json, files, and reading the exported dictionary any number of times: EVERY reading
gives a manager equal to the original in both directions (the manager itself when no top-level key name is `"name"`) -/
theorem history_roundtrip (name : String) (ctx : Dict) (ops reads : List Op)
    (hk : (run (World.init name ctx) ops).1.kn.okEq)
    (hreads : ∀ op ∈ reads, (∀ a, op ≠ .cartesian a) ∧ (∀ k n, op ≠ .setKey k n) ∧ op ≠ .resetKeys ∧ op ≠ .exp) :
    ∃ m', mEq (run (World.init name ctx) ops).1.mgr m' = true ∧ mEq m' (run (World.init name ctx) ops).1.mgr = true ∧
      ((run (World.init name ctx) ops).1.kn.ok → m' = (run (World.init name ctx) ops).1.mgr) ∧
      ∀ p ∈ reads.zip (run (step (run (World.init name ctx) ops).1 .exp).1 reads).2, p.1 = .imp → p.2 = .mgr m' := by
  have hinv := history_unique_keys name ctx ops
  generalize (run (World.init name ctx) ops).1 = w at *
  obtain ⟨m', hm', e1, e2, e3⟩ := roundtrip_eq_both w.kn hk w.mgr hinv.1 hinv.2.1 hinv.2.2
  refine ⟨m', e1, e2, e3, ?_⟩
  have key : ∀ (w' : World), w'.kn = w.kn → w'.reg = some (toDict w.kn w.mgr) →
      ∀ p ∈ reads.zip (run w' reads).2, p.1 = .imp → p.2 = .mgr m' := by
    induction reads with
    | nil => intro w' _ _ p hp; simp [run] at hp
    | cons op rest ih =>
      intro w' hkn hreg p hp himp
      obtain ⟨h1, h2, h3, h4⟩ := hreads op (by simp)
      simp only [run, List.zip_cons_cons, List.mem_cons] at hp
      have hstep : (step w' op).1.kn = w.kn ∧ (step w' op).1.reg = some (toDict w.kn w.mgr) := by
        cases op with
        | setKey key nm => exact absurd rfl (h2 key nm)
        | resetKeys => exact absurd rfl h3
        | cartesian args => exact absurd rfl (h1 args)
        | find crit => exact ⟨hkn, hreg⟩
        | getTask id => exact ⟨hkn, hreg⟩
        | exp => exact absurd rfl h4
        | jsn => exact ⟨hkn, hreg⟩
        | imp => exact ⟨hkn, hreg⟩
        | save path ow => simp only [step]; split <;> exact ⟨hkn, hreg⟩
        | load path => exact ⟨hkn, hreg⟩
      rcases hp with rfl | hp
      · simp only at himp
        subst himp
        simp only [step, readDoc, hreg, hkn, hm']
      · exact ih (fun x hx => hreads x (by simp [hx])) _ hstep.1 hstep.2 p hp himp
  exact key _ rfl rfl

/-- `save` then `from_file`: a fresh path or `overwrite=True` stores the manager and it comes back equal in both
directions; an existing file is kept as it is without `overwrite` -/
theorem history_save_load (name : String) (ctx : Dict) (ops : List Op) (path : String) (ow : Bool)
    (hk : (run (World.init name ctx) ops).1.kn.okEq) :
    ((run (World.init name ctx) ops).1.files.lookup path = none ∨ ow = true →
      ∃ m', (run (run (World.init name ctx) ops).1 [.save path ow, .load path]).2 = [.ok, .mgr m'] ∧
        mEq (run (World.init name ctx) ops).1.mgr m' = true ∧ mEq m' (run (World.init name ctx) ops).1.mgr = true) ∧
    (((run (World.init name ctx) ops).1.files.lookup path).isSome → ow = false →
      step (run (World.init name ctx) ops).1 (.save path ow) = ((run (World.init name ctx) ops).1, .ok)) := by
  have hinv := history_unique_keys name ctx ops
  generalize (run (World.init name ctx) ops).1 = w at *
  constructor
  · intro hfresh
    obtain ⟨m', hm', e1, e2, _⟩ := roundtrip_eq_both w.kn hk w.mgr hinv.1 hinv.2.1 hinv.2.2
    refine ⟨m', ?_, e1, e2⟩
    have hcond : ((w.files.lookup path).isSome && !ow) = false := by
      rcases hfresh with h | h <;> simp [h]
    simp only [run, step, hcond, Bool.false_eq_true, if_false, readDoc, lookup_dictSet, if_true, hm']
  · intro hex how
    subst how
    simp [step, hex]

/-- every file ever written holds the export of a manager state the history went through (under the key names in
force at that moment): nothing else is ever stored, nothing is stored by an operation other than `save` -/
theorem history_files_sound (name : String) (ctx : Dict) (ops : List Op) (p : String) (d : Doc)
    (h : (run (World.init name ctx) ops).1.files.lookup p = some d) :
    ∃ pre, pre <+: ops ∧ d = toDict (run (World.init name ctx) pre).1.kn (run (World.init name ctx) pre).1.mgr := by
  induction ops using List.reverseRecOn generalizing d with
  | nil => simp [run, World.init] at h
  | append_singleton init op ih =>
    rw [(run_outputs _ init [op]).2] at h
    simp only [run] at h
    have hfiles : (step (run (World.init name ctx) init).1 op).1.files = (run (World.init name ctx) init).1.files ∨
        ∃ path ow, op = .save path ow ∧ (step (run (World.init name ctx) init).1 op).1.files
          = dictSet (run (World.init name ctx) init).1.files path
              (toDict (run (World.init name ctx) init).1.kn (run (World.init name ctx) init).1.mgr) := by
      generalize (run (World.init name ctx) init).1 = w
      cases op with
      | setKey key name => left; simp only [step]; split <;> rfl
      | resetKeys => left; rfl
      | cartesian args =>
        left; simp only [step]
        cases w.mgr.cartesian args with
        | mk m ok => cases ok <;> rfl
      | find crit => left; rfl
      | getTask id => left; rfl
      | exp => left; rfl
      | jsn => left; rfl
      | imp => left; rfl
      | save path ow =>
        simp only [step]
        split
        · left; rfl
        · right; exact ⟨path, ow, rfl, rfl⟩
      | load path => left; rfl
    rcases hfiles with hf | ⟨path, ow, rfl, hf⟩
    · rw [hf] at h
      obtain ⟨pre, hpre, hd⟩ := ih d h
      exact ⟨pre, hpre.trans (List.prefix_append _ _), hd⟩
    · rw [hf, lookup_dictSet] at h
      split at h
      · cases h
        exact ⟨init, List.prefix_append _ _, rfl⟩
      · obtain ⟨pre, hpre, hd⟩ := ih d h
        exact ⟨pre, hpre.trans (List.prefix_append _ _), hd⟩


/-! ### non-vacuity: every hypothesis is met by a concrete, non-trivial input; sample evaluations -/

-- get_batch / array_split
example : batch 20 5 1 = [4, 5, 6, 7] := by decide
example : batch 10 3 0 = [0, 1, 2, 3] ∧ batch 10 3 2 = [7, 8, 9] := by decide
example : sectionSizes 10 3 = [4, 3, 3] ∧ divPoints 10 3 = [0, 4, 7, 10] := by decide
example : arraySplit (List.range 10) 3 = [some [0, 1, 2, 3], some [4, 5, 6], some [7, 8, 9]] := by decide
example : arraySplit ["a", "b", "c", "d", "e"] 2 = [some ["a", "b", "c"], some ["d", "e"]] := by decide
example : getBatch 20 5 1 = .ok [4, 5, 6, 7] ∧ getBatch 3 5 0 = .error .nelemLtNbatch
    ∧ getBatch 0 0 0 = .error .nelemLt1 ∧ getBatch 5 0 0 = .error .ibatchRange ∧ getBatch 5 2 2 = .error .ibatchRange := by decide
example : (1 : Int) ≤ 5 ∧ (5 : Int) ≤ 20 ∧ (0 : Int) ≤ 1 ∧ (1 : Int) < 5 := by decide   -- getBatch_ok, getBatch_ok_iff
example : (1 : Nat) ≤ 3 ∧ 3 ≤ 10 ∧ 0 < 3 := by decide                                      -- getBatch_partition, batches_partition
example : 7 ∈ batch 10 3 2 ∧ (1 : Nat) < 2 ∧ 4 ∈ batch 10 3 1 := by decide                -- batches_disjoint, mem_batch_lt
-- SiteBatch
example : search 10 3 7 = some 2 ∧ search 10 3 12 = none := by decide
example : SiteBatch.mk? ["a", "b", "c", "d", "e"] 2 = some (⟨["a", "b", "c", "d", "e"], 2⟩ : SiteBatch String)
    ∧ SiteBatch.mk? ["a", "b", "a"] 2 = none := by decide
example : ["a", "b", "c", "d", "e"].Nodup ∧ 1 ≤ 2 ∧ 2 ≤ ["a", "b", "c", "d", "e"].length ∧ 3 < ["a", "b", "c", "d", "e"].length := by decide
example : (⟨["a", "b", "c", "d", "e"], 2⟩ : SiteBatch String).getItem 1 = .ok ["d", "e"]
    ∧ (⟨["a", "b", "c", "d", "e"], 2⟩ : SiteBatch String).search "d" = .ok (some 1)
    ∧ (⟨["a", "b", "c", "d", "e"], 2⟩ : SiteBatch String).search "zz" = .ok none
    ∧ (⟨["a", "b", "c"], 5⟩ : SiteBatch String).search "a" = .error .nelemLtNbatch
    ∧ (⟨["a", "b", "c"], 0⟩ : SiteBatch String).search "a" = .ok none
    ∧ (⟨["a", "b", "c"], 2⟩ : SiteBatch String).getItem 2 = .error .ibatchRange := by decide
example : "zz" ∉ ["a", "b", "c", "d", "e"] ∧ ((["a", "b", "c"].length : Int) < 5) := by decide  -- search_absent, search_rejects
-- cartesian product
example : (product [[.int 1, .int 2], [.str "a", .str "b", .str "c"]]).length = 6 := by decide
example : ∀ l ∈ [[Val.int 1, .int 2], [.str "a", .str "b"]], l.Nodup := by decide         -- product_nodup
example : (product [[.int 1, .int 2], [.str "a", .str "b", .str "c"]])[1 * 3 + 2]? = some [.int 2, .str "c"] := by decide
example : exArgs.map (·.2.toList?) = exLists.map some ∧ (exArgs.map (·.1)).Nodup := by decide
example : (fromCartesianArgs "m" [("c", .other "None")] exArgs).tasks.length = 6
    ∧ (fromCartesianArgs "m" [] exArgs).tasks[3]? = some [("month", .int 10), ("model", .str "gr4j"), ("k", .int 2)] := by decide
example : ((Manager.new "m" []).cartesian exArgs).2 = true
    ∧ ((fromCartesianArgs "m" [] exArgs).cartesian [("a", .many [.int 3]), ("b", .notIterable), ("c", .bare (.int 1))])
      = ({ fromCartesianArgs "m" [] exArgs with options := [("a", [.int 3])] }, false) := by decide
example : ∀ kv ∈ (fromCartesianArgs "m" [] exArgs).options, kv.2.Nodup := by decide       -- fromCartesian_tasks_nodup
-- find
example : find (fromCartesianArgs "m" [] exArgs) [("month", .int 1)] = .ok [0, 1]
    ∧ find (fromCartesianArgs "m" [] exArgs) [("month", .int 1), ("k", .int 2)] = .ok [1]
    ∧ find (fromCartesianArgs "m" [] exArgs) [] = .ok [0, 1, 2, 3, 4, 5]
    ∧ find (fromCartesianArgs "m" [] exArgs) [("nokey", .int 1)] = .error .unknownKey
    ∧ find (Manager.new "m" []) [("nokey", .int 1)] = .ok [] := by decide
example : (∀ kv ∈ [("month", Val.int 1), ("k", Val.int 2)], ((fromCartesianArgs "m" [] exArgs).options.lookup kv.1).isSome)
    ∧ (∀ t ∈ (fromCartesianArgs "m" [] exArgs).tasks, ∀ kv ∈ [("month", Val.int 1), ("k", Val.int 2)], (t.lookup kv.1).isSome) := by decide
example : (Val.int 10).quant = true ∧ (Val.str "x1").quant = true ∧ (Val.str "10").quant = false ∧ (Val.flt "0.5").quant = false
    ∧ (∀ v ∈ exLists[0]!, v.quant = true) := by decide
example : valMatch (.int 1) (.int 10) = false ∧ valMatch (.int 10) (.int 10) = true ∧ valMatch (.str "x") (.str "x1") = false := by decide
-- get_task
example : getTask (fromCartesianArgs "m" [("c", .int 7)] exArgs) 4 = some ⟨4, [("c", .int 7)], [("month", .str "all"), ("model", .str "gr4j"), ("k", .int 1)]⟩
    ∧ getTask (fromCartesianArgs "m" [] exArgs) 6 = none ∧ getTask (fromCartesianArgs "m" [] exArgs) (-1) = none := by decide
example : (⟨4, [("c", .int 7)], [("month", .str "all"), ("k", .int 1)]⟩ : Task).get "k" = some (.int 1)
    ∧ (⟨4, [("c", .int 7)], [("month", .str "all"), ("k", .int 1)]⟩ : Task).get "c" = some (.int 7)
    ∧ (⟨4, [("c", .int 7)], [("month", .str "all"), ("k", .int 1)]⟩ : Task).get "zz" = none := by decide
-- key names
example : KeyNames.default.ok ∧ (⟨"ctx", "opts", "mopts"⟩ : KeyNames).ok ∧ (⟨"c", "c", "o"⟩ : KeyNames).ok
    ∧ (⟨"taskid", "taskid", "mo"⟩ : KeyNames).ok := by decide
example : (⟨"name", "o", "mo"⟩ : KeyNames).okEq ∧ ¬ (⟨"name", "o", "mo"⟩ : KeyNames).ok ∧ ¬ (⟨"x", "o", "x"⟩ : KeyNames).okEq := by decide
example : fromDict ⟨"ctx", "opt", "mopt"⟩ (toDict ⟨"ctx", "opt", "mopt"⟩ (fromCartesianArgs "m" [("c", .int 7)] exArgs))
    = some (fromCartesianArgs "m" [("c", .int 7)] exArgs) := by decide
-- histories
example : (run (World.init "m" [("c", .int 7)]) exOps).2 =
    [.ok, .ids [0, 1], .ok, .mgr (fromCartesianArgs "m" [("c", .int 7)] exArgs), .ok, .mgr (fromCartesianArgs "m" [("c", .int 7)] exArgs),
     .ok, .mgr (fromCartesianArgs "m" [("c", .int 7)] exArgs), .task ⟨1, [("c", .int 7)], [("a", .int 4)]⟩, .ok, .err,
     .ok, .err, .ok, .mgr (fromCartesianArgs "m" [("c", .int 7)] [("a", .many [.int 3, .int 4])]), .err,
     .ids [], .err] := by decide
example : (run (World.init "m" []) exOps).1.kn.okEq ∧ (run (World.init "m" []) exOps).1.kn.ok
    ∧ ((run (World.init "m" []) exOps).1.files.lookup "f1").isSome = true
    ∧ ((run (World.init "m" []) exOps).1.files.lookup "f2").isNone = true := by decide
example : ∀ op ∈ [Op.find [("a", Val.int 3)], .exp, .imp, .save "f" true, .setKey "context_name" "c"], ∀ a, op ≠ .cartesian a := by
  intro op hop a; simp at hop; rcases hop with rfl | rfl | rfl | rfl | rfl <;> simp
example : ∀ op ∈ [Op.imp, .jsn, .find [("a", Val.int 3)], .imp, .save "f" true, .imp],
    (∀ a, op ≠ .cartesian a) ∧ (∀ k n, op ≠ .setKey k n) ∧ op ≠ .resetKeys ∧ op ≠ .exp := by
  intro op hop
  simp only [List.mem_cons, List.mem_nil_iff, or_false] at hop
  rcases hop with rfl | rfl | rfl | rfl | rfl | rfl <;> simp


end HydroVerif.C19
