/-
C11 — property theorems (only). Model: `HydroVerif/Model/C11.lean` (kernel after the `fix:` commit: the walk from
cell `i` adds `to_accumulate[i]`); helper lemmas: `Lemmas/C11.lean` (generic `[Add α]`), `Lemmas/C11Sum.lean`.

Vocabulary. `g : FlowGrid` is what the kernel receives (dimensions, the 9 flow-direction codes, the data).
`WF g`: `ncols > 0` and the data has `nrows*ncols` entries (what the wrapper guarantees). `dn g c` is the downstream
cell of `c` (negative: `c` drains nowhere — sink, off-grid exit, code not in the table), `iterDn g k c` is `k` downstream
steps. `Rep n a A`: the buffer `a` has `n` entries holding the values `A 0 .. A (n-1)`. `drainsThrough g c`: the cells
whose downstream chain passes through `c`, `c` included (upstream closure); `directUp g c`: the cells whose
downstream cell is `c`. `NoCycle g`: no cell comes back to itself after `m ≥ 1` downstream steps.
`AllTerminate g fuel`: every walk reaches a cell that drains nowhere within `fuel` iterations (`fuel = cap + 1`).

All statements hold for every grid size, every code table, every flow-direction content, every field, every
no-data value; value types: any type with `+` (the fold statements, valid verbatim for IEEE doubles) or any
commutative monoid (the sum statements: exact arithmetic); `Rounded α rnd` (§10) is a type with `+` whose addition rounds.

Clause -> theorems -> what stays outside (audit of the deepening round; round 7: rounded arithmetic, `nprint`, empty
grids, histories)

| clause of the property | theorems | outside the theorems |
|---|---|---|
| quantifier: "any flow-direction grid without cycles", default cell limit | `noCycle_iff_allTerminate`, `allTerminate_default`, `allTerminate_of_noCycle_cap`: the hypothesis `AllTerminate` of the value theorems IS acyclicity for every limit >= nrows*ncols-1 | the harness's own cycle search is compared with `allTerminateB`/`endsAt` (`spec` request) |
| quantifier: "grids of r x c cells" (`1 ≤ nrows`, `0 < ncols` in the theorems) | needed: `accumulate_default_rejects_empty` (no cells: the default limit is 0 and is rejected), `cAccumulate_rejects_rows`, `cAccumulate_zero_cols` (rows but no columns and an explicit limit: empty answer — the guard tests `nrows` twice) | the real code is run at those points through the wrapper (what it answers is recorded, not compared: the property does not say whether a grid without cells is rejected) |
| a draining cell holds the sum of the field over that cell and every cell draining through it | exact arithmetic: `accumulate_eq_sum`, `accumulate_acyclic_default`; order-exact for a bare `+`: `accumulate_eq_fold`, `onPath_iff_drains`; `mem_upClosure_iff` (the closure the driver computes = `drainsThrough`); ROUNDED arithmetic (`Rounded α rnd`, every addition followed by `rnd`): `accumulate_rounded_error` (relative error `u` per addition: within `((1+u)^(k-1) - 1) Σ|f|` of the exact sum — the correspondence budget is above it), `accumulate_rounded_exact` (integer-valued fields: exact), `accumulate_rounded_ge` (monotone rounding, non-negative field: at least every contribution); with NO hypothesis on the rounding, for `rndBits p` (round to `p` significant bits, nearest-even — binary64 is `p = 53`): `accumulate_binary_error`, `accumulate_binary_exact` | that the `+` of core `Float` (opaque) IS `rndBits 53` of the exact sum, away from overflow and subnormal numbers: observed — the driver runs the kernel at `Rounded Rat (rndBits 53)` next to the Float instance (`accr` request, bit-for-bit equal) and at `Int` next to it (`acci`) on the case stream |
| ... the number of such cells for the default unit field | `accumulateUnit_eq_card`, `gridAccumulate_none`; rounded arithmetic: `accumulateUnit_rounded_eq_card`, `accumulateUnit_binary64_eq_card` (exact for grids of up to `2^53` cells) | - |
| ... equals its own contribution plus the accumulated values of its direct upstream neighbours | `accumulate_recurrence`, `directUp_neighbour`, `mem_directUpList_iff` | `Catchment.upstream` (the library's own list of direct upstream cells) is C06's: upstream/downstream are inverse there |
| cells that drain nowhere (sinks, off-grid exits, invalid codes) carry the no-data value | `accumulate_terminal`; which cells those are, exactly: `dn_neg_iff` (`dn_sink`, `dn_unknown_code`, `dn_of_code`, `dn_cases`) | - |
| the input grids' cell values are not altered | memory model of the two float buffers: `cAccumulateS_unaliased`, `cAccumulateS_field_unchanged`, `gridAccumulate_inputs_unchanged` (the clone is a distinct buffer; with one array passed twice the field IS altered — `example`); on grid OBJECTS over any history: `call_frame` (a call leaves the flow-direction grid, the field reference and every existing object as they were), `call_keeps_field`, `edit_result_keeps_field` (the result is a new object) | the flow-direction buffer is not in the store (the kernel has no store through that pointer): by construction; numpy `astype` of the caller's grids (dtype changes, values kept) and `deepcopy` are external; both observed on the real code by the oracle, call after call |
| grids with cycles or a reduced limit terminate without error | `accumulate_total`, `accumulateUnit_total`, `cAccumulate_total` (any flow directions, any limit >= 1 or default); after any history, with `WF` / field size discharged from the object invariant: `history_call_total` | - |
| glue of the wrapper: default limit, unit default field, accumulation = copy of the field, shapes, result no-data value, limit < 1, `nprint` | `gridAccumulate_some`, `gridAccumulate_none`, `gridAccumulate_shape`, `accumulate_rejects_limit`, `cAccumulate_eq_fold` (what the initial buffer contributes); `cAccumulateP_result`, `cAccumulateP_lines` (`nprint`, any integer, decides only the number of progress lines) | dtype conversion of the grids (numpy); the text printed |
| (histories) any sequence of calls and edits of the grid objects through `Grid`'s interface | `run_invariant` (objects stay well-formed: the hypotheses `WF`, "field of the same size" follow from `Grid`'s guards), `step_rejected_unchanged` (an operation that raises changes nothing), `history_call_acyclic` (headline at the state any history reaches), `history_call_total`, `history_call_rejected`, `call_twice_same` (no hidden state), `gridAccumulate_input`, `input_size` | numpy's cast of the values written (the harness sends the values the object holds afterwards) |
| (finding) the pinned kernel was right only for uniform fields | `cAccumulatePinned_eq_of_uniform`, `example` | - |
-/
import HydroVerif.Lemmas.C11Round
import HydroVerif.Lemmas.C11Sess
import Mathlib.Algebra.Order.Field.Rat
import Mathlib.Tactic.NormNum
import Mathlib.Tactic.IntervalCases
import Mathlib.Tactic.SplitIfs

set_option linter.unusedSectionVars false

namespace HydroVerif.C11
open HydroVerif.C07

/-! ### 1. the call terminates without error — any flow directions (cycles included), any accepted limit -/

/-- `grid.accumulate` never fails and returns one value per cell, whatever the flow directions and the limit
(default `-1`, or any limit `≥ 1`): grids with cycles or a reduced `max_accumulated_cells` terminate without error.
(Termination itself is the totality of the model: the `while` loop is structural recursion on the iterations left.) -/
theorem accumulate_total {α : Type} [Add α] {g : FlowGrid} (hg : WF g) (hr : 1 ≤ g.nrows) {m : Int}
    (hm : m = -1 ∨ 1 ≤ m) (nodata : α) {field : Array α} (hf : field.size = g.ntot.toNat) :
    ∃ acc, accumulate g m nodata field = .ok acc ∧ acc.size = g.ntot.toNat := by
  have hcap : 1 ≤ capOf g m := by
    unfold capOf
    split
    · have := hg.ncols_pos
      nlinarith
    · omega
  have hF : Rep g.ntot.toNat field (fun j => field[j]?.getD nodata) := hf ▸ rep_self field nodata
  obtain ⟨acc, h1, h2⟩ := accumulate_rep hg hr hcap nodata hF
  exact ⟨acc, h1, h2.1⟩

/-- same for the default unit field (`to_accumulate=None`) -/
theorem accumulateUnit_total {α : Type} [Add α] [OfNat α 1] {g : FlowGrid} (hg : WF g) (hr : 1 ≤ g.nrows) {m : Int}
    (hm : m = -1 ∨ 1 ≤ m) (nodata : α) :
    ∃ acc, accumulateUnit g m nodata = .ok acc ∧ acc.size = g.ntot.toNat := by
  unfold accumulateUnit
  exact accumulate_total hg hr hm nodata (by rw [Array.size_replicate, hg.size_eq])

/-- a limit below one (other than the `-1` that selects the default) is rejected -/
theorem accumulate_rejects_limit {α : Type} [Add α] (g : FlowGrid) {m : Int} (h1 : m < 1) (h2 : m ≠ -1)
    (nodata : α) (field : Array α) : accumulate g m nodata field = .error .badMaxCells := by
  unfold accumulate cAccumulate capOf
  rw [if_neg h2, if_pos h1]

/-- the kernel on arbitrary well-shaped buffers (accumulation buffer not necessarily a copy of the field):
no error once `max_accumulated_cells ≥ 1` and `nrows ≥ 1` -/
theorem cAccumulate_total {α : Type} [Add α] {g : FlowGrid} (hg : WF g) (hr : 1 ≤ g.nrows) {m : Int} (hm : 1 ≤ m)
    (nodata : α) {field acc0 : Array α} (hf : field.size = g.ntot.toNat) (ha : acc0.size = g.ntot.toNat) :
    ∃ acc, cAccumulate g m nodata field acc0 = .ok acc ∧ acc.size = g.ntot.toNat := by
  obtain ⟨acc, h1, h2⟩ := cAccumulate_spec hg hm hr (nodata := nodata)
    (hf ▸ rep_self field nodata) (ha ▸ rep_self acc0 nodata)
  exact ⟨acc, h1, h2.1⟩

/-! ### 2. no cycle ⇔ every walk ends before the default limit -/

/-- on a grid without cycles every walk reaches a terminal cell within the iterations the limit allows, as
soon as `limit + 1 ≥ nrows*ncols` — in particular for the default limit `nrows*ncols` -/
theorem allTerminate_of_noCycle_cap {g : FlowGrid} (hg : WF g) (hnc : NoCycle g) {m : Int}
    (hm : g.ntot ≤ capOf g m + 1) : AllTerminate g (fuelOf (capOf g m)) :=
  allTerminate_of_noCycle hg hnc (by unfold fuelOf; omega)

theorem allTerminate_default {g : FlowGrid} (hg : WF g) (hnc : NoCycle g) :
    AllTerminate g (fuelOf (capOf g (-1))) :=
  allTerminate_of_noCycle_cap hg hnc (by unfold capOf FlowGrid.ntot; simp)

/-- conversely, if every walk ends then there is no cycle: the hypothesis `AllTerminate` of the theorems
below is exactly "acyclic" once the limit is at least `nrows*ncols - 1` -/
theorem noCycle_iff_allTerminate {g : FlowGrid} (hg : WF g) {fuel : Nat} (hfuel : g.ntot.toNat ≤ fuel) :
    NoCycle g ↔ AllTerminate g fuel :=
  ⟨fun h => allTerminate_of_noCycle hg h hfuel, noCycle_of_allTerminate⟩

/-! ### 3. cells that drain nowhere carry the no-data value -/

/-- sinks (`-2`), off-grid exits and codes not in the table (`-1`) end with the no-data value -/
theorem accumulate_terminal {α : Type} [Add α] {g : FlowGrid} (hg : WF g) (hr : 1 ≤ g.nrows) {m : Int}
    (hm : 1 ≤ capOf g m) (hT : AllTerminate g (fuelOf (capOf g m))) (nodata : α) {field : Array α} {F : Nat → α}
    (hF : Rep g.ntot.toNat field F) {acc : Array α} (hacc : accumulate g m nodata field = .ok acc)
    {c : Int} (hv : validCell g.nrows g.ncols c = true) (hd : dn g c < 0) :
    acc[c.toNat]? = some nodata := by
  obtain ⟨acc', h1, h2⟩ := accumulate_rep hg hr hm nodata hF
  rw [hacc] at h1
  cases h1
  rw [h2.2 _ (lt_of_valid hv).1, final_value hT nodata F F hv, if_pos hd]

/-- flow direction 0 is a sink: the cell drains nowhere (`-2`) -/
theorem dn_sink {g : FlowGrid} {c : Int} (hv : validCell g.nrows g.ncols c = true)
    (hfd : g.flowdir[c.toNat]? = some 0) : dn g c = -2 := by
  unfold dn downstream
  rw [if_pos hv, hfd]
  rfl

/-- a non-zero value that is not one of the codes drains nowhere (`-1`) -/
theorem dn_unknown_code {g : FlowGrid} {c : Int} (hv : validCell g.nrows g.ncols c = true)
    {fd : Int} (hfd : g.flowdir[c.toNat]? = some fd) (h0 : fd ≠ 0) (hmem : fd ∉ g.codes) : dn g c = -1 := by
  unfold dn downstream
  rw [if_pos hv, hfd]
  simp only [if_neg h0]
  exact downScan_not_mem _ _ _ _ _ _ _ hmem

/-- a code of the table sends the cell to the neighbour at the position of that code in the 3x3 table
(its last position, should the table repeat a code): a cell of the grid, or `-1` when that neighbour is off the grid -/
theorem dn_of_code {g : FlowGrid} {c : Int} (hv : validCell g.nrows g.ncols c = true)
    {fd : Int} (hfd : g.flowdir[c.toNat]? = some fd) (h0 : fd ≠ 0) {k : Nat} (hk : g.codes[k]? = some fd)
    (hlast : ∀ k', k < k' → g.codes[k']? ≠ some fd) : dn g c = neighbour g.nrows g.ncols c k := by
  unfold dn downstream
  rw [if_pos hv, hfd]
  simp only [if_neg h0]
  rw [downScan_last _ _ _ _ _ _ _ k hk hlast, Nat.zero_add]

/-- a terminal cell is a sink, or its code is not in the table / points off the grid; every other cell drains
into a cell of the grid, one of its eight neighbours -/
theorem dn_cases {g : FlowGrid} (hg : WF g) (hcodes : g.codes.length = 9) {c : Int}
    (hv : validCell g.nrows g.ncols c = true) :
    dn g c = -2 ∨ dn g c = -1 ∨
      (validCell g.nrows g.ncols (dn g c) = true ∧ ∃ k, k < 9 ∧ k ≠ 4 ∧ neighbour g.nrows g.ncols c k = dn g c) := by
  rcases dn_neg_or_valid hg hv with h | h | h
  · exact Or.inl h
  · exact Or.inr (Or.inl h)
  · refine Or.inr (Or.inr ⟨h, ?_⟩)
    have h0 := (validCell_iff.1 h).1
    obtain ⟨k, hk, hkn⟩ := dn_is_neighbour hg hcodes hv h0
    refine ⟨k, hk, ?_, hkn⟩
    rintro rfl
    have : neighbour g.nrows g.ncols c 4 = -1 := by
      rw [neighbour_eq_neg_one_iff]; left; decide
    omega

/-! ### 4. a draining cell holds its own value plus the values of the cells draining through it -/

/-- any value type with an addition (IEEE doubles included): the result is the left-to-right fold, in
increasing source-cell order, that adds `F u` for every cell `u` strictly upstream of `c` -/
theorem accumulate_eq_fold {α : Type} [Add α] {g : FlowGrid} (hg : WF g) (hr : 1 ≤ g.nrows) {m : Int}
    (hm : 1 ≤ capOf g m) (hT : AllTerminate g (fuelOf (capOf g m))) (nodata : α) {field : Array α} {F : Nat → α}
    (hF : Rep g.ntot.toNat field F) {acc : Array α} (hacc : accumulate g m nodata field = .ok acc)
    {c : Int} (hv : validCell g.nrows g.ncols c = true) (hd : 0 ≤ dn g c) :
    acc[c.toNat]? = some ((List.range g.ntot.toNat).foldl
      (fun s (u : Nat) => if onPath g (fuelOf (capOf g m)) (u : Int) c then s + F u else s) (F c.toNat)) := by
  obtain ⟨acc', h1, h2⟩ := accumulate_rep hg hr hm nodata hF
  rw [hacc] at h1
  cases h1
  rw [h2.2 _ (lt_of_valid hv).1, final_value hT nodata F F hv, if_neg (by omega)]
  rfl

/-- the kernel itself, on an arbitrary accumulation buffer `acc0` (values `A0`): terminal cells are overwritten with
the no-data value, every other cell keeps its initial value and receives `F u` for every cell `u` strictly upstream —
so the wrapper's initialisation "accumulation = copy of the field" is what makes each cell count itself -/
theorem cAccumulate_eq_fold {α : Type} [Add α] {g : FlowGrid} (hg : WF g) (hr : 1 ≤ g.nrows) {m : Int}
    (hm : 1 ≤ m) (hT : AllTerminate g (fuelOf m)) (nodata : α) {field acc0 : Array α} {F A0 : Nat → α}
    (hF : Rep g.ntot.toNat field F) (hA : Rep g.ntot.toNat acc0 A0)
    {acc : Array α} (hacc : cAccumulate g m nodata field acc0 = .ok acc)
    {c : Int} (hv : validCell g.nrows g.ncols c = true) :
    acc[c.toNat]? = some (if dn g c < 0 then nodata else (List.range g.ntot.toNat).foldl
      (fun s (u : Nat) => if onPath g (fuelOf m) (u : Int) c then s + F u else s) (A0 c.toNat)) := by
  obtain ⟨acc', h1, h2⟩ := cAccumulate_spec hg hm hr (nodata := nodata) hF hA
  rw [hacc] at h1
  cases h1
  rw [h2.2 _ (lt_of_valid hv).1, final_value hT nodata F A0 hv]
  rfl

/-- `onPath` in the fold above means "some positive number of downstream steps leads from `u` to `c`" -/
theorem onPath_iff_drains {g : FlowGrid} {fuel : Nat} (hT : AllTerminate g fuel) {u c : Int}
    (hu : validCell g.nrows g.ncols u = true) (hc : 0 ≤ c) :
    onPath g fuel u c = true ↔ ∃ k, 1 ≤ k ∧ iterDn g k u = c :=
  onPath_iff_exists (validCell_iff.1 hu).1 hc (hT u hu)

/-- commutative monoid (exact arithmetic): the accumulated value of a draining cell is the sum of the field over
the cell and every cell draining through it -/
theorem accumulate_eq_sum {α : Type} [AddCommMonoid α] {g : FlowGrid} (hg : WF g) (hr : 1 ≤ g.nrows) {m : Int}
    (hm : 1 ≤ capOf g m) (hT : AllTerminate g (fuelOf (capOf g m))) (nodata : α) {field : Array α} {F : Nat → α}
    (hF : Rep g.ntot.toNat field F) {acc : Array α} (hacc : accumulate g m nodata field = .ok acc)
    {c : Int} (hv : validCell g.nrows g.ncols c = true) (hd : 0 ≤ dn g c) :
    acc[c.toNat]? = some (∑ u ∈ drainsThrough g c, F u) := by
  rw [accumulate_eq_fold hg hr hm hT nodata hF hacc hv hd, foldl_if_eq_sum]
  obtain ⟨h1, h2⟩ := lt_of_valid hv
  obtain ⟨e1, e2⟩ := drainsThrough_eq_insert hT h1
  rw [h2] at e1 e2
  rw [e1, Finset.sum_insert e2]

/-- default unit field: the accumulated value of a draining cell is the number of cells draining through it -/
theorem accumulateUnit_eq_card {α : Type} [AddCommMonoidWithOne α] {g : FlowGrid} (hg : WF g) (hr : 1 ≤ g.nrows)
    {m : Int} (hm : 1 ≤ capOf g m) (hT : AllTerminate g (fuelOf (capOf g m))) (nodata : α)
    {acc : Array α} (hacc : accumulateUnit g m nodata = .ok acc)
    {c : Int} (hv : validCell g.nrows g.ncols c = true) (hd : 0 ≤ dn g c) :
    acc[c.toNat]? = some (((drainsThrough g c).card : Nat) : α) := by
  have hF : Rep g.ntot.toNat (Array.replicate g.flowdir.size (1 : α)) (fun _ => 1) := by
    refine ⟨by rw [Array.size_replicate, hg.size_eq], fun j hj => ?_⟩
    rw [Array.getElem?_replicate, if_pos (by rw [hg.size_eq]; exact hj)]
  rw [accumulate_eq_sum hg hr hm hT nodata hF hacc hv hd, Finset.sum_const, nsmul_one]

/-! ### 5. local recurrence: own contribution plus the accumulated values of the direct upstream cells -/

theorem accumulate_recurrence {α : Type} [AddCommMonoid α] {g : FlowGrid} (hg : WF g) (hr : 1 ≤ g.nrows) {m : Int}
    (hm : 1 ≤ capOf g m) (hT : AllTerminate g (fuelOf (capOf g m))) (nodata : α) {field : Array α} {F : Nat → α}
    (hF : Rep g.ntot.toNat field F) {acc : Array α} (hacc : accumulate g m nodata field = .ok acc)
    {A : Nat → α} (hA : Rep g.ntot.toNat acc A)
    {c : Int} (hv : validCell g.nrows g.ncols c = true) (hd : 0 ≤ dn g c) :
    A c.toNat = F c.toNat + ∑ u ∈ directUp g c, A u := by
  obtain ⟨h1, h2⟩ := lt_of_valid hv
  have hval : ∀ u : Nat, u < g.ntot.toNat → 0 ≤ dn g (u : Int) → A u = ∑ x ∈ drainsThrough g (u : Int), F x := by
    intro u hu hdu
    have := accumulate_eq_sum hg hr hm hT nodata hF hacc (valid_of_lt hu) hdu
    rw [Int.toNat_natCast, hA.2 u hu] at this
    exact Option.some.inj this
  have hc := hval c.toNat h1 (by rw [h2]; exact hd)
  rw [h2] at hc
  rw [hc]
  obtain ⟨e1, e2, e3⟩ := drainsThrough_eq_biUnion hT h1
  rw [h2] at e1 e2 e3
  rw [e1, Finset.sum_insert e2, Finset.sum_biUnion e3]
  congr 1
  apply Finset.sum_congr rfl
  intro u hu
  rw [mem_directUp] at hu
  exact (hval u hu.1 (by rw [hu.2]; exact (validCell_iff.1 hv).1)).symm

/-- the direct upstream cells of `c` are among its eight neighbours: `u` sits at the position mirrored
(`8 - k`) to the one its flow direction points to -/
theorem directUp_neighbour {g : FlowGrid} (hg : WF g) (hcodes : g.codes.length = 9) {c : Int}
    (hv : validCell g.nrows g.ncols c = true) {u : Nat} (hu : u ∈ directUp g c) :
    ∃ k, k < 9 ∧ k ≠ 4 ∧ neighbour g.nrows g.ncols c k = (u : Int) := by
  rw [mem_directUp] at hu
  have huv : validCell g.nrows g.ncols (u : Int) = true := valid_of_lt hu.1
  have hc0 := (validCell_iff.1 hv).1
  obtain ⟨k, hk, hkn⟩ := dn_is_neighbour hg hcodes huv (by rw [hu.2]; exact hc0)
  rw [hu.2] at hkn
  have hmir := neighbour_mirror hg.ncols_pos huv hk hkn (by omega)
  refine ⟨8 - k, by omega, ?_, hmir⟩
  intro h4
  have hk4 : k = 4 := by omega
  subst hk4
  have : neighbour g.nrows g.ncols (u : Int) 4 = -1 := by
    rw [neighbour_eq_neg_one_iff]; left; decide
  omega

/-! ### 6. headline: acyclic grid, default limit -/

/-- on any flow-direction grid without cycles, run with the default limit, the call succeeds; every cell that
drains nowhere holds the no-data value and every other cell holds the sum of the field over the cells draining
through it -/
theorem accumulate_acyclic_default {α : Type} [AddCommMonoid α] {g : FlowGrid} (hg : WF g) (hr : 1 ≤ g.nrows)
    (hnc : NoCycle g) (nodata : α) {field : Array α} {F : Nat → α} (hF : Rep g.ntot.toNat field F) :
    ∃ acc, accumulate g (-1) nodata field = .ok acc ∧ acc.size = g.ntot.toNat ∧
      ∀ c : Int, validCell g.nrows g.ncols c = true →
        acc[c.toNat]? = some (if dn g c < 0 then nodata else ∑ u ∈ drainsThrough g c, F u) := by
  have hcap : 1 ≤ capOf g (-1) := by
    unfold capOf; simp only [if_true]
    have := hg.ncols_pos
    nlinarith
  have hT := allTerminate_default hg hnc
  obtain ⟨acc, h1, h2⟩ := accumulate_rep hg hr hcap nodata hF
  refine ⟨acc, h1, h2.1, fun c hv => ?_⟩
  split
  · rename_i hd; exact accumulate_terminal hg hr hcap hT nodata hF h1 hv hd
  · rename_i hd; exact accumulate_eq_sum hg hr hcap hT nodata hF h1 hv (by omega)

/-! ### 7. the defect of the pinned kernel: right exactly because the field was uniform -/

/-- the pinned kernel (adds the value of the visited cell instead of the source cell's) computes the same
result as the repaired one on every spatially uniform field — which is all the pinned tests used -/
theorem cAccumulatePinned_eq_of_uniform {α : Type} [Add α] {g : FlowGrid} (hg : WF g) (m : Int) (nodata v : α)
    {field : Array α} (hF : Rep g.ntot.toNat field (fun _ => v)) (acc0 : Array α) :
    cAccumulatePinned g m nodata field acc0 = cAccumulate g m nodata field acc0 := by
  unfold cAccumulatePinned cAccumulate
  split
  · rfl
  · split
    · rfl
    · have key : ∀ (l : List Nat), (∀ i ∈ l, i < g.ntot.toNat) → ∀ acc : Array α,
          accLoopPinned g field nodata (fuelOf m) l acc = accLoop g field nodata (fuelOf m) l acc := by
        intro l
        induction l with
        | nil => intro _ _; rfl
        | cons i rest ih =>
          intro hl acc
          unfold accLoopPinned accLoop
          have hi := hl i List.mem_cons_self
          rw [walkPinned_eq_walk hg hF hi (fuelOf m) (valid_of_lt hi)]
          cases walk g field nodata i (fuelOf m) (i : Int) acc with
          | error e => rfl
          | ok acc' => exact ih (fun k hk => hl k (List.mem_cons_of_mem _ hk)) acc'
      exact key _ (fun i hi => List.mem_range.1 hi) acc0

/-! ### 8. the input buffers are not written (memory model), and the wrapper on grid objects -/

/-- with two distinct buffers the kernel on memory is the pure kernel: `to_accumulate` is left as it was and the
`accumulation` memory holds `cAccumulate` -/
theorem cAccumulateS_unaliased {α : Type} [Add α] (g : FlowGrid) (m : Int) (nodata : α) (f a : Array α) :
    cAccumulateS g m nodata ⟨f, a, false⟩ =
      (cAccumulate g m nodata f a).map (fun a' => (⟨f, a', false⟩ : Store α)) :=
  cAccumulateS_unaliased_eq g m nodata f a

/-- the cell values of `to_accumulate` are not altered by the kernel when `accumulation` is another array
(the flow-direction buffer has no write access in the model at all: it is not part of the store) -/
theorem cAccumulateS_field_unchanged {α : Type} [Add α] {g : FlowGrid} {m : Int} {nodata : α} {s s' : Store α}
    (h : s.aliased = false) (hr : cAccumulateS g m nodata s = .ok s') :
    s'.field = s.field ∧ s'.aliased = false ∧ cAccumulate g m nodata s.field s.acc = .ok s'.acc := by
  obtain ⟨f, a, al⟩ := s
  simp only at h
  subst h
  rw [cAccumulateS_unaliased_eq] at hr
  cases hc : cAccumulate g m nodata f a with
  | error e => rw [hc] at hr; cases hr
  | ok a' =>
    rw [hc] at hr
    cases hr
    exact ⟨rfl, rfl, rfl⟩

/-- the Cython asserts: a field grid whose shape is not the flow-direction grid's is rejected (before the limit
is looked at) -/
theorem gridAccumulate_shape {α : Type} [Add α] [OfNat α 1] (g : FlowGrid) (fdNodata : α) (f : FieldGrid α) (m : Int)
    (h : f.nrows ≠ g.nrows ∨ f.ncols ≠ g.ncols) : gridAccumulate g fdNodata (some f) m = .error .shape := by
  unfold gridAccumulate
  simp only [if_pos h]

/-- on a field grid of the right shape the wrapper is `accumulate` on the field's data with the field's no-data
value; the field's memory is returned unchanged; the result grid has the field's no-data value and dimensions -/
theorem gridAccumulate_some {α : Type} [Add α] [OfNat α 1] (g : FlowGrid) (fdNodata : α) (f : FieldGrid α) (m : Int)
    (h : f.nrows = g.nrows ∧ f.ncols = g.ncols) :
    gridAccumulate g fdNodata (some f) m =
      (accumulate g m f.nodata f.data).map
        (fun a => ((⟨f.data, a, false⟩ : Store α), (⟨f.nrows, f.ncols, a, f.nodata⟩ : FieldGrid α))) := by
  unfold gridAccumulate accumulate
  simp only [if_neg (show ¬(f.nrows ≠ g.nrows ∨ f.ncols ≠ g.ncols) by rw [h.1, h.2]; simp)]
  rw [cAccumulateS_unaliased_eq]
  cases cAccumulate g (capOf g m) f.nodata f.data f.data <;> rfl

/-- `to_accumulate=None`: unit field on the flow-direction grid's shape, no-data value of the flow-direction grid -/
theorem gridAccumulate_none {α : Type} [Add α] [OfNat α 1] (g : FlowGrid) (fdNodata : α) (m : Int) :
    gridAccumulate g fdNodata none m =
      (accumulateUnit g m fdNodata).map
        (fun a => ((⟨Array.replicate g.flowdir.size 1, a, false⟩ : Store α),
                   (⟨g.nrows, g.ncols, a, fdNodata⟩ : FieldGrid α))) := by
  unfold gridAccumulate accumulateUnit accumulate
  simp only [ne_eq, not_true_eq_false, or_self, if_false]
  rw [cAccumulateS_unaliased_eq]
  cases cAccumulate g (capOf g m) fdNodata (Array.replicate g.flowdir.size 1) (Array.replicate g.flowdir.size 1) <;> rfl

/-- the input grids' cell values are not altered by a successful call, and the result grid is described by
`accumulate` (hence by every theorem above), with the field's no-data value and the flow-direction grid's shape -/
theorem gridAccumulate_inputs_unchanged {α : Type} [Add α] [OfNat α 1] {g : FlowGrid} {fdNodata : α}
    {f : FieldGrid α} {m : Int} {s : Store α} {r : FieldGrid α}
    (hr : gridAccumulate g fdNodata (some f) m = .ok (s, r)) :
    s.field = f.data ∧ r.nodata = f.nodata ∧ r.nrows = g.nrows ∧ r.ncols = g.ncols ∧
      accumulate g m f.nodata f.data = .ok r.data := by
  by_cases h : f.nrows = g.nrows ∧ f.ncols = g.ncols
  · rw [gridAccumulate_some g fdNodata f m h] at hr
    cases hc : accumulate g m f.nodata f.data with
    | error e => rw [hc] at hr; cases hr
    | ok a =>
      rw [hc] at hr
      cases hr
      exact ⟨rfl, rfl, h.1, h.2, rfl⟩
  · rw [gridAccumulate_shape g fdNodata f m (by omega)] at hr
    cases hr

/-! ### 9. which cells drain nowhere, exactly; the computable closure the driver evaluates -/

/-- a cell drains nowhere exactly when its flow direction is 0 (sink), is not a code of the table, or is a code
whose neighbour (at the code's last position in the table) is off the grid -/
theorem dn_neg_iff {g : FlowGrid} {c : Int} (hv : validCell g.nrows g.ncols c = true) {fd : Int}
    (hfd : g.flowdir[c.toNat]? = some fd) :
    dn g c < 0 ↔ fd = 0 ∨ fd ∉ g.codes ∨
      ∃ k : Nat, g.codes[k]? = some fd ∧ (∀ k' : Nat, k < k' → g.codes[k']? ≠ some fd) ∧
        neighbour g.nrows g.ncols c k = -1 := by
  constructor
  · intro hd
    by_cases h0 : fd = 0
    · exact Or.inl h0
    · by_cases hmem : fd ∈ g.codes
      · obtain ⟨k, h1, h2⟩ := exists_last_index hmem
        refine Or.inr (Or.inr ⟨k, h1, h2, ?_⟩)
        rw [dn_of_code hv hfd h0 h1 h2] at hd
        rcases neighbour_eq_neg_one_or_nonneg g.nrows g.ncols c k with h | h
        · exact h
        · omega
      · exact Or.inr (Or.inl hmem)
  · rintro (h0 | hmem | ⟨k, h1, h2, h3⟩)
    · subst h0; rw [dn_sink hv hfd]; omega
    · by_cases h0 : fd = 0
      · subst h0; rw [dn_sink hv hfd]; omega
      · rw [dn_unknown_code hv hfd h0 hmem]; omega
    · by_cases h0 : fd = 0
      · subst h0; rw [dn_sink hv hfd]; omega
      · rw [dn_of_code hv hfd h0 h1 h2, h3]; omega

/-- the list the driver computes (`clo` request, compared with the harness's own upstream graph search) is the
upstream closure the sum theorems range over -/
theorem mem_upClosure_iff {g : FlowGrid} {fuel : Nat} (hT : AllTerminate g fuel) {j : Nat}
    (hj : j < g.ntot.toNat) (u : Nat) : u ∈ upClosure g fuel (j : Int) ↔ u ∈ drainsThrough g (j : Int) := by
  rw [(drainsThrough_eq_insert hT hj).1, Finset.mem_insert, Finset.mem_filter, Finset.mem_range]
  unfold upClosure
  rw [List.mem_filter, List.mem_range, Bool.or_eq_true, decide_eq_true_eq]
  constructor
  · rintro ⟨hu, h | h⟩
    · left; omega
    · right; exact ⟨hu, h⟩
  · rintro (h | ⟨hu, h⟩)
    · subst h; exact ⟨hj, Or.inl rfl⟩
    · exact ⟨hu, Or.inr h⟩

theorem mem_directUpList_iff {g : FlowGrid} {c : Int} (u : Nat) : u ∈ directUpList g c ↔ u ∈ directUp g c := by
  unfold directUpList
  rw [mem_directUp, List.mem_filter, List.mem_range, decide_eq_true_eq]

/-! ### 10. the kernel in rounded arithmetic: what stays exact, and how far the rest can be from the sum

`Rounded α rnd` is `α` with `a + b := rnd (a + b)`; `accumulate_eq_fold` applies to it verbatim. IEEE doubles are the
case `rnd` = rounding to nearest: the identity on the integers up to `2^53`, relative error at most `2^-53`, monotone,
idempotent. -/

/-- integer-valued contributions are accumulated exactly by any rounding that keeps the integers of absolute value
`≤ B`, as long as the absolute values upstream of the cell sum to at most `B` — no rounding budget is needed for them -/
theorem accumulate_rounded_exact {α : Type} [AddGroupWithOne α] (rnd : α → α) (B : Nat)
    (hrnd : ∀ z : Int, z.natAbs ≤ B → rnd (z : α) = (z : α))
    {g : FlowGrid} (hg : WF g) (hr : 1 ≤ g.nrows) {m : Int} (hm : 1 ≤ capOf g m)
    (hT : AllTerminate g (fuelOf (capOf g m))) (nodata : Rounded α rnd) {field : Array (Rounded α rnd)}
    {N : Nat → Int} (hF : Rep g.ntot.toNat field (fun u => (⟨(N u : α)⟩ : Rounded α rnd)))
    {acc : Array (Rounded α rnd)} (hacc : accumulate g m nodata field = .ok acc)
    {c : Int} (hv : validCell g.nrows g.ncols c = true) (hd : 0 ≤ dn g c)
    (hB : ∑ u ∈ drainsThrough g c, (N u).natAbs ≤ B) :
    acc[c.toNat]? = some ⟨((∑ u ∈ drainsThrough g c, N u : Int) : α)⟩ := by
  rw [accumulate_eq_fold hg hr hm hT nodata hF hacc hv hd]
  obtain ⟨h1, h2⟩ := lt_of_valid hv
  obtain ⟨e1, e2⟩ := drainsThrough_eq_insert hT h1
  rw [h2] at e1 e2
  rw [e1, Finset.sum_insert e2] at hB
  have hfold := foldl_if_eq_sum (fun u : Nat => onPath g (fuelOf (capOf g m)) (u : Int) c)
    (fun u => (N u).natAbs) (N c.toNat).natAbs g.ntot.toNat
  have key := foldl_rounded_int rnd B hrnd (fun u : Nat => onPath g (fuelOf (capOf g m)) (u : Int) c) N
    (List.range g.ntot.toNat) (N c.toNat) (N c.toNat).natAbs (Nat.le_refl _) (by rw [hfold]; exact hB)
  have hsum := foldl_if_eq_sum (fun u : Nat => onPath g (fuelOf (capOf g m)) (u : Int) c) N (N c.toNat) g.ntot.toNat
  rw [e1, Finset.sum_insert e2, ← hsum]
  exact congrArg some key

/-- the default unit field in rounded arithmetic: the count of the cells draining through a cell is exact as soon as
the rounding keeps the integers up to the number of cells of the grid (doubles: grids of up to `2^53` cells) -/
theorem accumulateUnit_rounded_eq_card {α : Type} [AddGroupWithOne α] (rnd : α → α)
    {g : FlowGrid} (hrnd : ∀ z : Int, z.natAbs ≤ g.ntot.toNat → rnd (z : α) = (z : α))
    (hg : WF g) (hr : 1 ≤ g.nrows) {m : Int} (hm : 1 ≤ capOf g m)
    (hT : AllTerminate g (fuelOf (capOf g m))) (nodata : Rounded α rnd)
    {acc : Array (Rounded α rnd)} (hacc : accumulateUnit g m nodata = .ok acc)
    {c : Int} (hv : validCell g.nrows g.ncols c = true) (hd : 0 ≤ dn g c) :
    acc[c.toNat]? = some ⟨(((drainsThrough g c).card : Nat) : α)⟩ := by
  have hF : Rep g.ntot.toNat (Array.replicate g.flowdir.size (1 : Rounded α rnd))
      (fun _ => (⟨(((1 : Int)) : α)⟩ : Rounded α rnd)) := by
    refine ⟨by rw [Array.size_replicate, hg.size_eq], fun j hj => ?_⟩
    rw [Array.getElem?_replicate, if_pos (by rw [hg.size_eq]; exact hj), Int.cast_one]
    rfl
  have hcard : (drainsThrough g c).card ≤ g.ntot.toNat := by
    have hsub : drainsThrough g c ⊆ Finset.range g.ntot.toNat :=
      fun u hu => Finset.mem_range.2 (mem_drainsThrough.1 hu).1
    exact (Finset.card_le_card hsub).trans_eq (Finset.card_range _)
  have := accumulate_rounded_exact rnd g.ntot.toNat hrnd hg hr hm hT nodata hF hacc hv hd
    (by simpa using hcard)
  rw [this]
  simp

/-- relative-error rounding (`|rnd x - x| ≤ u |x|`; doubles: `u = 2^-53`): the accumulated value of a draining cell is
within `((1+u)^k - 1) * Σ|f|` of the exact sum over the cells draining through it, `k` the number of additions — the
budget the correspondence allows (`4 n 2^-52 Σ|f|`) is above it, and two summation orders differ by at most twice it -/
theorem accumulate_rounded_error {α : Type} [Field α] [LinearOrder α] [IsStrictOrderedRing α] (rnd : α → α) {u : α}
    (hu : 0 ≤ u) (hrnd : ∀ x, |rnd x - x| ≤ u * |x|)
    {g : FlowGrid} (hg : WF g) (hr : 1 ≤ g.nrows) {m : Int} (hm : 1 ≤ capOf g m)
    (hT : AllTerminate g (fuelOf (capOf g m))) (nodata : Rounded α rnd) {field : Array (Rounded α rnd)}
    {f : Nat → α} (hF : Rep g.ntot.toNat field (fun i => (⟨f i⟩ : Rounded α rnd)))
    {acc : Array (Rounded α rnd)} (hacc : accumulate g m nodata field = .ok acc)
    {c : Int} (hv : validCell g.nrows g.ncols c = true) (hd : 0 ≤ dn g c) :
    ∃ r : α, acc[c.toNat]? = some ⟨r⟩ ∧
      |r - ∑ i ∈ drainsThrough g c, f i| ≤
        ((1 + u) ^ ((drainsThrough g c).card - 1) - 1) * ∑ i ∈ drainsThrough g c, |f i| := by
  obtain ⟨h1, h2⟩ := lt_of_valid hv
  obtain ⟨e1, e2⟩ := drainsThrough_eq_insert hT h1
  rw [h2] at e1 e2
  refine ⟨_, accumulate_eq_fold hg hr hm hT nodata hF hacc hv hd, ?_⟩
  have key := foldl_rounded_err rnd hu hrnd (fun i : Nat => onPath g (fuelOf (capOf g m)) (i : Int) c) f
    (List.range g.ntot.toNat) (f c.toNat) (f c.toNat) |f c.toNat| 0 (by simp) (le_refl _)
  have hs := foldl_if_eq_sum (fun i : Nat => onPath g (fuelOf (capOf g m)) (i : Int) c) f (f c.toNat) g.ntot.toNat
  have ha := foldl_if_eq_sum (fun i : Nat => onPath g (fuelOf (capOf g m)) (i : Int) c) (fun i => |f i|)
    |f c.toNat| g.ntot.toNat
  have hk := foldl_if_eq_sum (fun i : Nat => onPath g (fuelOf (capOf g m)) (i : Int) c) (fun _ => (1 : Nat))
    0 g.ntot.toNat
  rw [hs, ha, hk] at key
  rw [e1, Finset.sum_insert e2, Finset.sum_insert e2, Finset.card_insert_of_notMem e2]
  simpa using key

/-- monotone idempotent rounding that keeps the contributions, non-negative field: the accumulated value of a draining
cell is a fixed point of the rounding and is at least every single contribution from the cells draining through it
(in particular its own) — nothing is cancelled or lost below a summand -/
theorem accumulate_rounded_ge {α : Type} [AddCommMonoid α] [PartialOrder α] [IsOrderedAddMonoid α] (rnd : α → α)
    (hmono : ∀ x y, x ≤ y → rnd x ≤ rnd y) (hidem : ∀ x, rnd (rnd x) = rnd x)
    {g : FlowGrid} (hg : WF g) (hr : 1 ≤ g.nrows) {m : Int} (hm : 1 ≤ capOf g m)
    (hT : AllTerminate g (fuelOf (capOf g m))) (nodata : Rounded α rnd) {field : Array (Rounded α rnd)}
    {f : Nat → α} (hf0 : ∀ i, 0 ≤ f i) (hfr : ∀ i, rnd (f i) = f i)
    (hF : Rep g.ntot.toNat field (fun i => (⟨f i⟩ : Rounded α rnd)))
    {acc : Array (Rounded α rnd)} (hacc : accumulate g m nodata field = .ok acc)
    {c : Int} (hv : validCell g.nrows g.ncols c = true) (hd : 0 ≤ dn g c) :
    ∃ r : α, acc[c.toNat]? = some ⟨r⟩ ∧ rnd r = r ∧ ∀ i ∈ drainsThrough g c, f i ≤ r := by
  obtain ⟨h1, h2⟩ := lt_of_valid hv
  obtain ⟨e1, e2⟩ := drainsThrough_eq_insert hT h1
  rw [h2] at e1 e2
  refine ⟨_, accumulate_eq_fold hg hr hm hT nodata hF hacc hv hd, ?_⟩
  obtain ⟨r1, r2, r3⟩ := foldl_rounded_mono rnd hmono hidem
    (fun i : Nat => onPath g (fuelOf (capOf g m)) (i : Int) c) f hf0 hfr (List.range g.ntot.toNat) (f c.toNat)
    (hfr _) (hf0 _)
  refine ⟨r1, fun i hi => ?_⟩
  rw [e1, Finset.mem_insert, Finset.mem_filter, Finset.mem_range] at hi
  rcases hi with hi | ⟨hi, hp⟩
  · subst hi; exact r2
  · exact r3 i (List.mem_range.2 hi) hp

/-- the kernel computing in `p`-bit binary floating point (round to nearest, ties to even, unbounded exponent range —
IEEE binary64 is `p = 53` away from overflow and subnormal numbers): no hypothesis on the rounding is left; the
accumulated value of a draining cell is within `((1 + 2^-p)^(k-1) - 1) Σ|f|` of the exact upstream sum -/
theorem accumulate_binary_error (p : Nat) {g : FlowGrid} (hg : WF g) (hr : 1 ≤ g.nrows) {m : Int}
    (hm : 1 ≤ capOf g m) (hT : AllTerminate g (fuelOf (capOf g m))) (nodata : Rounded ℚ (rndBits p))
    {field : Array (Rounded ℚ (rndBits p))} {f : Nat → ℚ}
    (hF : Rep g.ntot.toNat field (fun i => (⟨f i⟩ : Rounded ℚ (rndBits p))))
    {acc : Array (Rounded ℚ (rndBits p))} (hacc : accumulate g m nodata field = .ok acc)
    {c : Int} (hv : validCell g.nrows g.ncols c = true) (hd : 0 ≤ dn g c) :
    ∃ r : ℚ, acc[c.toNat]? = some ⟨r⟩ ∧
      |r - ∑ i ∈ drainsThrough g c, f i| ≤
        ((1 + (2 : ℚ) ^ (-(p : Int))) ^ ((drainsThrough g c).card - 1) - 1) * ∑ i ∈ drainsThrough g c, |f i| :=
  accumulate_rounded_error (rndBits p) (by positivity) (rndBits_err p) hg hr hm hT nodata hF hacc hv hd

/-- in `p`-bit binary floating point (`p ≥ 1`) integer-valued fields whose absolute values upstream of a cell sum to at
most `2^p` are accumulated exactly -/
theorem accumulate_binary_exact {p : Nat} (hp : 1 ≤ p) {g : FlowGrid} (hg : WF g) (hr : 1 ≤ g.nrows) {m : Int}
    (hm : 1 ≤ capOf g m) (hT : AllTerminate g (fuelOf (capOf g m))) (nodata : Rounded ℚ (rndBits p))
    {field : Array (Rounded ℚ (rndBits p))} {N : Nat → Int}
    (hF : Rep g.ntot.toNat field (fun u => (⟨(N u : ℚ)⟩ : Rounded ℚ (rndBits p))))
    {acc : Array (Rounded ℚ (rndBits p))} (hacc : accumulate g m nodata field = .ok acc)
    {c : Int} (hv : validCell g.nrows g.ncols c = true) (hd : 0 ≤ dn g c)
    (hB : ∑ u ∈ drainsThrough g c, (N u).natAbs ≤ 2 ^ p) :
    acc[c.toNat]? = some ⟨((∑ u ∈ drainsThrough g c, N u : Int) : ℚ)⟩ :=
  accumulate_rounded_exact (rndBits p) (2 ^ p) (fun z hz => rndBits_int hp z hz) hg hr hm hT nodata hF hacc hv hd hB

/-- the unit field in binary64: exact cell counts on every grid of up to `2^53` cells -/
theorem accumulateUnit_binary64_eq_card {g : FlowGrid} (hsize : g.ntot.toNat ≤ 2 ^ 53) (hg : WF g) (hr : 1 ≤ g.nrows)
    {m : Int} (hm : 1 ≤ capOf g m) (hT : AllTerminate g (fuelOf (capOf g m))) (nodata : Rounded ℚ (rndBits 53))
    {acc : Array (Rounded ℚ (rndBits 53))} (hacc : accumulateUnit g m nodata = .ok acc)
    {c : Int} (hv : validCell g.nrows g.ncols c = true) (hd : 0 ≤ dn g c) :
    acc[c.toNat]? = some ⟨(((drainsThrough g c).card : Nat) : ℚ)⟩ :=
  accumulateUnit_rounded_eq_card (rndBits 53)
    (fun z hz => rndBits_int (by norm_num) z (le_trans hz hsize)) hg hr hm hT nodata hacc hv hd

/-! ### 11. `nprint` decides nothing but the progress lines -/

/-- for every `nprint` — zero and negative values included, the guard `nprint > 0` keeps `i % nprint` from being
evaluated — the kernel returns what it returns without progress lines -/
theorem cAccumulateP_result {α : Type} [Add α] (g : FlowGrid) (nprint m : Int) (nodata : α) (field acc0 : Array α) :
    (cAccumulateP g nprint m nodata field acc0).map (·.1) = cAccumulate g m nodata field acc0 := by
  unfold cAccumulateP cAccumulate
  split
  · rfl
  · split
    · rfl
    · exact accLoopP_fst g field nodata _ nprint _ acc0 0

/-- the number of progress lines: one per source cell `i` with `i % nprint = 0` when `nprint > 0`, none otherwise -/
theorem cAccumulateP_lines {α : Type} [Add α] {g : FlowGrid} {nprint m : Int} {nodata : α} {field acc0 : Array α}
    {r : Array α × Nat} (h : cAccumulateP g nprint m nodata field acc0 = .ok r) :
    r.2 = ((List.range g.ntot.toNat).filter (progressAt nprint)).length ∧
      (nprint ≤ 0 → r.2 = 0) := by
  unfold cAccumulateP at h
  split at h
  · cases h
  · split at h
    · cases h
    · have := accLoopP_snd g field nodata _ nprint _ acc0 0 h
      rw [Nat.zero_add] at this
      refine ⟨this, fun hn => ?_⟩
      rw [this, List.length_eq_zero_iff, List.filter_eq_nil_iff]
      intro i _
      unfold progressAt
      simp
      intro h0
      omega

/-! ### 12. the hypotheses `1 ≤ nrows`, `0 < ncols` of the theorems above are needed: what the code does without them -/

/-- a grid without cells (no rows or no columns) run with the default limit: the default limit is then
`nrows*ncols = 0`, which the kernel rejects — the call raises -/
theorem accumulate_default_rejects_empty {α : Type} [Add α] (g : FlowGrid) (h : g.nrows * g.ncols < 1)
    (nodata : α) (field : Array α) : accumulate g (-1) nodata field = .error .badMaxCells := by
  unfold accumulate cAccumulate capOf
  rw [if_pos rfl, if_pos h]

/-- a grid without rows is rejected whatever the limit (`nrows < 1`) -/
theorem cAccumulate_rejects_rows {α : Type} [Add α] (g : FlowGrid) (h : g.nrows < 1) (m : Int)
    (nodata : α) (field acc0 : Array α) : ∃ e, cAccumulate g m nodata field acc0 = .error e := by
  unfold cAccumulate
  split
  · exact ⟨_, rfl⟩
  · rw [if_pos (Or.inl h)]; exact ⟨_, rfl⟩

/-- a grid with rows but no columns is NOT rejected by an explicit limit `≥ 1` (the guard tests `nrows` twice and
never `ncols`): the loop has no cell to visit and the buffer comes back untouched -/
theorem cAccumulate_zero_cols {α : Type} [Add α] (g : FlowGrid) (hr : 1 ≤ g.nrows) (hc : g.ncols = 0) {m : Int}
    (hm : 1 ≤ m) (nodata : α) (field acc0 : Array α) : cAccumulate g m nodata field acc0 = .ok acc0 := by
  unfold cAccumulate
  rw [if_neg (by omega), if_neg (by omega)]
  have : g.ntot.toNat = 0 := by unfold FlowGrid.ntot; rw [hc]; simp
  rw [this]
  rfl

/-! ### 13. histories: any sequence of calls and edits of the grid objects (`Sess`, `step`, `run`)

`Inv`: every grid object holds `nrows x ncols` values and the references the caller holds designate objects — what
the constructor and the guarded `data` setter of `Grid` maintain. It discharges the hypotheses `WF` / "field of the
same size" of the theorems above. -/

/-- an operation that raises (wrong shape assigned, cell index outside the grid, call rejected, no result yet) leaves
the flow-direction grid, every float grid object and the caller's references exactly as they were -/
theorem step_rejected_unchanged {α : Type} [Add α] [OfNat α 1] (s : Sess α) (op : Op α)
    (h : (step s op).2 = .rejected) : (step s op).1 = s := step_rejected_eq s op h

/-- the invariant survives every history, and no operation changes the shape or the code table of the
flow-direction grid -/
theorem run_invariant {α : Type} [Add α] [OfNat α 1] {s : Sess α} (hI : Inv s) (ops : List (Op α)) :
    Inv (run s ops).1 ∧ (run s ops).1.fd.nrows = s.fd.nrows ∧ (run s ops).1.fd.ncols = s.fd.ncols ∧
      (run s ops).1.fd.codes = s.fd.codes := run_inv hI ops

/-- the answer of a call is the wrapper on the CURRENT contents of the objects (no state is kept between calls), and
the call leaves the flow-direction grid, the limit, the caller's field reference and every existing object as they
were; a successful call adds one object, the result, and makes it the last result -/
theorem call_frame {α : Type} [Add α] [OfNat α 1] (s : Sess α) :
    (step s .call).2 = (match gridAccumulate s.fd s.fdNodata s.fieldGrid s.cap with
      | .error _ => .rejected
      | .ok (_, r) => .result r) ∧
    (step s .call).1.fd = s.fd ∧ (step s .call).1.fdNodata = s.fdNodata ∧ (step s .call).1.cap = s.cap ∧
    (step s .call).1.field = s.field ∧
    (∀ q, q < s.heap.size → (step s .call).1.heap[q]? = s.heap[q]?) ∧
    (∀ r, (step s .call).2 = .result r →
      (step s .call).1.res = some s.heap.size ∧ (step s .call).1.heap[s.heap.size]? = some r) := by
  rw [step_call_eq s]
  cases gridAccumulate s.fd s.fdNodata s.fieldGrid s.cap with
  | error e => exact ⟨rfl, rfl, rfl, rfl, rfl, fun _ _ => rfl, fun r h => by cases h⟩
  | ok p =>
    obtain ⟨st, r⟩ := p
    refine ⟨rfl, rfl, rfl, rfl, rfl, fun q hq => ?_, fun r' h => ?_⟩
    · show (s.heap.push r)[q]? = s.heap[q]?
      rw [Array.getElem?_push, if_neg (by omega)]
    · cases h
      exact ⟨rfl, Array.getElem?_push_size⟩

/-- the field grid seen by a call does not change through the call (same object, same contents) -/
theorem call_keeps_field {α : Type} [Add α] [OfNat α 1] {s : Sess α} (hI : Inv s) :
    (step s .call).1.fieldGrid = s.fieldGrid := by
  obtain ⟨-, -, -, -, hf, hheap, -⟩ := call_frame s
  unfold Sess.fieldGrid
  rw [hf]
  cases hq : s.field with
  | none => rfl
  | some q => exact hheap q (hI.fieldRef q hq)

/-- no hidden state: the same call made again gives the same answer -/
theorem call_twice_same {α : Type} [Add α] [OfNat α 1] {s : Sess α} (hI : Inv s) :
    (step (step s .call).1 .call).2 = (step s .call).2 := by
  have h1 := (call_frame (step s .call).1).1
  have h2 := (call_frame s).1
  obtain ⟨-, hfd, hnd, hcap, -, -, -⟩ := call_frame s
  rw [h1, h2, hfd, hnd, hcap, call_keeps_field hI]

/-- the grid returned is a new object: whatever the caller then does to it (`e`: cells, fill, no-data value) leaves
the field grid as it was — the next call sees the same field -/
theorem edit_result_keeps_field {α : Type} [Add α] [OfNat α 1] {s : Sess α} (hI : Inv s) {r : FieldGrid α}
    (hres : (step s .call).2 = .result r) (e : FieldGrid α → Option (FieldGrid α)) :
    (((step s .call).1).editAt ((step s .call).1).res e).1.fieldGrid = s.fieldGrid := by
  obtain ⟨-, -, -, -, hf, hheap, hnew⟩ := call_frame s
  obtain ⟨hr1, hr2⟩ := hnew r hres
  rw [hr1]
  unfold Sess.editAt
  simp only [hr2]
  cases e r with
  | none => exact call_keeps_field hI
  | some r' =>
    show (Option.bind (step s .call).1.field fun q => ((step s .call).1.heap.setIfInBounds s.heap.size r')[q]?) = _
    rw [hf]
    unfold Sess.fieldGrid
    cases hq : s.field with
    | none => rfl
    | some q =>
      have hlt := hI.fieldRef q hq
      show ((step s .call).1.heap.setIfInBounds s.heap.size r')[q]? = s.heap[q]?
      rw [Array.getElem?_setIfInBounds_ne (by omega), hheap q hlt]

/-- the wrapper in terms of what the kernel receives in the state `s` (`Sess.input`): the field's data and no-data
value, or the unit field and the flow-direction grid's no-data value -/
theorem gridAccumulate_input {α : Type} [Add α] [OfNat α 1] (s : Sess α)
    (hshape : ∀ f, s.fieldGrid = some f → f.nrows = s.fd.nrows ∧ f.ncols = s.fd.ncols) :
    gridAccumulate s.fd s.fdNodata s.fieldGrid s.cap =
      (accumulate s.fd s.cap s.input.2 s.input.1).map
        (fun a => ((⟨s.input.1, a, false⟩ : Store α), (⟨s.fd.nrows, s.fd.ncols, a, s.input.2⟩ : FieldGrid α))) := by
  unfold Sess.input
  cases hf : s.fieldGrid with
  | none => exact gridAccumulate_none s.fd s.fdNodata s.cap
  | some f =>
    obtain ⟨h1, h2⟩ := hshape f hf
    rw [gridAccumulate_some s.fd s.fdNodata f s.cap ⟨h1, h2⟩, h1, h2]

/-- what the kernel receives has the size of the grid, in every state a history can reach -/
theorem input_size {α : Type} [Add α] [OfNat α 1] {s : Sess α} (hI : Inv s)
    (hshape : ∀ f, s.fieldGrid = some f → f.nrows = s.fd.nrows ∧ f.ncols = s.fd.ncols) :
    s.input.1.size = s.fd.ntot.toNat := by
  unfold Sess.input
  cases hf : s.fieldGrid with
  | none => simp only [Array.size_replicate]; exact hI.fdSize
  | some f =>
    obtain ⟨h1, h2⟩ := hshape f hf
    obtain ⟨q, -, hq⟩ : ∃ q, s.field = some q ∧ s.heap[q]? = some f := by
      unfold Sess.fieldGrid at hf
      cases hfield : s.field with
      | none => rw [hfield] at hf; cases hf
      | some q => rw [hfield] at hf; exact ⟨q, rfl, hf⟩
    have hws := hI.heapShaped q f hq
    unfold FieldGrid.wellShaped at hws
    simp only [decide_eq_true_eq] at hws
    show f.data.size = _
    rw [hws, h1, h2]
    rfl

/-- after ANY history on well-formed objects, a call with the default limit or a limit `≥ 1` on a grid with cells
answers — flow directions with cycles included — with one value per cell: `WF` and "field of the same size" are
consequences of the guards of `Grid`, not assumptions -/
theorem history_call_total {α : Type} [Add α] [OfNat α 1] {s0 : Sess α} (hI : Inv s0) (ops : List (Op α))
    (hr : 1 ≤ s0.fd.nrows) (hc : 0 < s0.fd.ncols)
    (hcap : (run s0 ops).1.cap = -1 ∨ 1 ≤ (run s0 ops).1.cap)
    (hshape : ∀ f, (run s0 ops).1.fieldGrid = some f →
      f.nrows = (run s0 ops).1.fd.nrows ∧ f.ncols = (run s0 ops).1.fd.ncols) :
    ∃ r, (step (run s0 ops).1 .call).2 = .result r ∧ r.data.size = (run s0 ops).1.fd.ntot.toNat ∧
      r.nrows = s0.fd.nrows ∧ r.ncols = s0.fd.ncols ∧ r.nodata = (run s0 ops).1.input.2 := by
  obtain ⟨hIs, hnr, hnc, -⟩ := run_inv hI ops
  generalize (run s0 ops).1 = s at *
  have hg : WF s.fd := ⟨by rw [hnc]; exact hc, hIs.fdSize⟩
  obtain ⟨acc, hacc, hsz⟩ := accumulate_total hg (by rw [hnr]; exact hr) hcap s.input.2 (input_size hIs hshape)
  refine ⟨⟨s.fd.nrows, s.fd.ncols, acc, s.input.2⟩, ?_, hsz, hnr, hnc, rfl⟩
  rw [(call_frame s).1, gridAccumulate_input s hshape, hacc]
  rfl

/-- a limit below one (other than `-1`) or a field grid of another shape makes the call raise, and nothing changes -/
theorem history_call_rejected {α : Type} [Add α] [OfNat α 1] (s : Sess α)
    (h : (s.cap < 1 ∧ s.cap ≠ -1 ∧ ∀ f, s.fieldGrid = some f → f.nrows = s.fd.nrows ∧ f.ncols = s.fd.ncols) ∨
      ∃ f, s.fieldGrid = some f ∧ (f.nrows ≠ s.fd.nrows ∨ f.ncols ≠ s.fd.ncols)) :
    step s .call = (s, .rejected) := by
  have key : ∃ e, gridAccumulate s.fd s.fdNodata s.fieldGrid s.cap = .error e := by
    rcases h with ⟨h1, h2, h3⟩ | ⟨f, hf, hne⟩
    · rw [gridAccumulate_input s h3, accumulate_rejects_limit s.fd h1 h2]
      exact ⟨_, rfl⟩
    · rw [hf, gridAccumulate_shape s.fd s.fdNodata f s.cap hne]
      exact ⟨_, rfl⟩
  obtain ⟨e, he⟩ := key
  rw [step_call_eq s, he]

/-- headline over histories: whatever calls and edits came before, a call with the default limit on flow directions
that are acyclic NOW returns, for the field as it is NOW, the no-data value on the cells that drain nowhere and the
sum of the field over the upstream closure on every other cell -/
theorem history_call_acyclic {α : Type} [AddCommMonoid α] [OfNat α 1] {s0 : Sess α} (hI : Inv s0)
    (ops : List (Op α)) (hr : 1 ≤ s0.fd.nrows) (hc : 0 < s0.fd.ncols)
    (hnc : NoCycle (run s0 ops).1.fd) (hcap : (run s0 ops).1.cap = -1)
    (hshape : ∀ f, (run s0 ops).1.fieldGrid = some f →
      f.nrows = (run s0 ops).1.fd.nrows ∧ f.ncols = (run s0 ops).1.fd.ncols) :
    ∃ r, (step (run s0 ops).1 .call).2 = .result r ∧ r.data.size = (run s0 ops).1.fd.ntot.toNat ∧
      r.nodata = (run s0 ops).1.input.2 ∧
      ∀ c : Int, validCell s0.fd.nrows s0.fd.ncols c = true →
        r.data[c.toNat]? = some (if dn (run s0 ops).1.fd c < 0 then (run s0 ops).1.input.2
          else ∑ u ∈ drainsThrough (run s0 ops).1.fd c,
            (run s0 ops).1.input.1[u]?.getD (run s0 ops).1.input.2) := by
  obtain ⟨hIs, hnr, hnc', -⟩ := run_inv hI ops
  generalize (run s0 ops).1 = s at *
  have hg : WF s.fd := ⟨by rw [hnc']; exact hc, hIs.fdSize⟩
  have hF : Rep s.fd.ntot.toNat s.input.1 (fun j => s.input.1[j]?.getD s.input.2) :=
    input_size hIs hshape ▸ rep_self s.input.1 s.input.2
  obtain ⟨acc, hacc, hsz, hval⟩ := accumulate_acyclic_default hg (by rw [hnr]; exact hr) hnc s.input.2 hF
  refine ⟨⟨s.fd.nrows, s.fd.ncols, acc, s.input.2⟩, ?_, hsz, rfl, fun c hv => ?_⟩
  · rw [(call_frame s).1, gridAccumulate_input s hshape, hcap, hacc]
    rfl
  · exact hval c (by rw [hnr, hnc']; exact hv)

/-! ### non-vacuity: a concrete non-trivial grid satisfying every hypothesis, and the finding -/

/-- 2x3 grid, FLOWDIRCODE of grid.py; cells 0 → 1 → 2 (exit east), 3 → 1 (north-east), 4 → 1 (north), 5 sink -/
def gEx : FlowGrid := ⟨2, 3, [32, 64, 128, 16, 0, 1, 8, 4, 2], #[1, 1, 1, 128, 64, 0]⟩

example : WF gEx := ⟨by decide, by decide⟩
example : AllTerminate gEx (fuelOf (capOf gEx (-1))) := allTerminate_of_B (by decide)
example : NoCycle gEx := noCycle_of_allTerminate (allTerminate_of_B (fuel := 7) (by decide))
example : gEx.codes.length = 9 := rfl
example : validCell gEx.nrows gEx.ncols 1 = true ∧ 0 ≤ dn gEx 1 ∧ dn gEx 2 < 0 := by decide
example : gEx.flowdir[(3 : Int).toNat]? = some 128 ∧ gEx.codes[2]? = some 128 ∧ dn gEx 3 = 1 ∧
    neighbour gEx.nrows gEx.ncols 3 2 = 1 := by decide
/-- field 5, 1, 7, 2, 3, 4: cell 1 receives 5 + 1 + 2 + 3 = 11, cell 2 and 5 are terminal -/
example : accumulate gEx (-1) (-9999 : Int) #[5, 1, 7, 2, 3, 4] = .ok #[5, 11, -9999, 2, 3, -9999] := by decide
/-- the pinned kernel on the same input: cell 1 receives its own value once per upstream cell -/
example : cAccumulatePinned gEx 6 (-9999 : Int) #[5, 1, 7, 2, 3, 4] #[5, 1, 7, 2, 3, 4]
    = .ok #[5, 4, -9999, 2, 3, -9999] := by decide
/-- the headline theorem applies to the example grid: all its hypotheses hold together -/
example : ∃ acc, accumulate gEx (-1) (-9999 : Int) #[5, 1, 7, 2, 3, 4] = .ok acc ∧ acc.size = gEx.ntot.toNat ∧
    ∀ c : Int, validCell gEx.nrows gEx.ncols c = true →
      acc[c.toNat]? = some (if dn gEx c < 0 then -9999
        else ∑ u ∈ drainsThrough gEx c, (fun j => (#[5, 1, 7, 2, 3, 4] : Array Int)[j]?.getD 0) u) :=
  accumulate_acyclic_default ⟨by decide, by decide⟩ (by decide)
    (noCycle_of_allTerminate (allTerminate_of_B (fuel := 7) (by decide))) (-9999)
    (rep_self (#[5, 1, 7, 2, 3, 4] : Array Int) 0)
/-- wrapper on grid objects: result grid and unchanged field memory; a 3x2 field on the 2x3 grid is rejected -/
example : gridAccumulate gEx (-1 : Int) (some ⟨2, 3, #[5, 1, 7, 2, 3, 4], -9999⟩) (-1) =
    .ok (⟨#[5, 1, 7, 2, 3, 4], #[5, 11, -9999, 2, 3, -9999], false⟩, ⟨2, 3, #[5, 11, -9999, 2, 3, -9999], -9999⟩) := by
  decide
example : gridAccumulate gEx (-1 : Int) (some ⟨3, 2, #[5, 1, 7, 2, 3, 4], -9999⟩) 0 = .error .shape := by decide
/-- the same array passed as `to_accumulate` and `accumulation` on the chain 0 → 1 → 2 → 3 (sink): the field IS
altered and cell 2 holds 18 instead of 7 + 5 + 1 = 13, because the walk from cell 1 reads the value the walk from
cell 0 has already incremented — aliasing matters, so the wrapper's clone matters -/
example : (cAccumulateS ⟨1, 4, [32, 64, 128, 16, 0, 1, 8, 4, 2], #[1, 1, 1, 0]⟩ 4 (-9999 : Int)
      ⟨#[5, 1, 7, 0], #[], true⟩).map (·.field) = .ok #[5, 6, 18, -9999] ∧
    (cAccumulateS ⟨1, 4, [32, 64, 128, 16, 0, 1, 8, 4, 2], #[1, 1, 1, 0]⟩ 4 (-9999 : Int)
      ⟨#[5, 1, 7, 0], #[5, 1, 7, 0], false⟩).map (fun s => (s.field, s.acc))
      = .ok (#[5, 1, 7, 0], #[5, 6, 13, -9999]) := by decide
example : upClosure gEx 7 1 = [0, 1, 3, 4] ∧ directUpList gEx 1 = [0, 3, 4] := by decide
/-- a 2-cycle (cells 0 ⇄ 1) terminates at the cap -/
example : accumulate ⟨1, 2, [32, 64, 128, 16, 0, 1, 8, 4, 2], #[1, 16]⟩ (-1) (-1 : Int) #[1, 1] = .ok #[4, 4] := by
  decide

/-! ### non-vacuity of the rounded-arithmetic, `nprint`, empty-grid and history theorems -/

example : WF gEx ∧ (1 : Int) ≤ gEx.nrows ∧ 1 ≤ capOf gEx (-1) ∧ AllTerminate gEx (fuelOf (capOf gEx (-1))) ∧
    validCell gEx.nrows gEx.ncols 1 = true ∧ 0 ≤ dn gEx 1 :=
  ⟨⟨by decide, by decide⟩, by decide, by decide, allTerminate_of_B (by decide), by decide, by decide⟩

/-- a rounding of `ℚ` that keeps the integers up to 100 and halves everything else: the field 5, 1, 7, 2, 3, 4 is
accumulated exactly (all hypotheses of `accumulate_rounded_exact` hold together) -/
def rndEx (x : ℚ) : ℚ := if |x| ≤ 100 then x else x / 2

example (acc : Array (Rounded ℚ rndEx))
    (hacc : accumulate gEx (-1) (⟨-9999⟩ : Rounded ℚ rndEx)
      ((#[5, 1, 7, 2, 3, 4] : Array Int).map fun (z : Int) => (⟨(z : ℚ)⟩ : Rounded ℚ rndEx)) = .ok acc) :
    acc[(1 : Int).toNat]? =
      some ⟨((∑ u ∈ drainsThrough gEx 1, (#[5, 1, 7, 2, 3, 4] : Array Int)[u]?.getD 0 : Int) : ℚ)⟩ :=
  accumulate_rounded_exact (g := gEx) rndEx 100
    (fun z hz => by
      have h : |(z : ℚ)| ≤ 100 := by
        rw [← Int.cast_abs, Int.abs_eq_natAbs]
        exact_mod_cast hz
      unfold rndEx
      rw [if_pos h])
    ⟨by decide, by decide⟩ (by decide) (by decide) (allTerminate_of_B (by decide)) ⟨-9999⟩
    (show Rep gEx.ntot.toNat _ _ from rep_rounded_int rndEx #[5, 1, 7, 2, 3, 4]) hacc (by decide) (by decide)
    (le_trans (Finset.sum_le_sum_of_subset (fun u hu => Finset.mem_range.2 (mem_drainsThrough.1 hu).1))
      (by decide))

/-- a rounding of `ℚ` with relative error 1/8 -/
def rndErr (x : ℚ) : ℚ := x + x / 8

example (acc : Array (Rounded ℚ rndErr))
    (hacc : accumulate gEx (-1) (⟨-9999⟩ : Rounded ℚ rndErr)
      ((#[5, 1, 7, 2, 3, 4] : Array ℚ).map fun x => (⟨x⟩ : Rounded ℚ rndErr)) = .ok acc) :
    ∃ r : ℚ, acc[(1 : Int).toNat]? = some ⟨r⟩ ∧
      |r - ∑ i ∈ drainsThrough gEx 1, (#[5, 1, 7, 2, 3, 4] : Array ℚ)[i]?.getD 0| ≤
        ((1 + 1 / 8) ^ ((drainsThrough gEx 1).card - 1) - 1) *
          ∑ i ∈ drainsThrough gEx 1, |(#[5, 1, 7, 2, 3, 4] : Array ℚ)[i]?.getD 0| :=
  accumulate_rounded_error (g := gEx) rndErr (by norm_num)
    (fun x => by
      unfold rndErr
      rw [show x + x / 8 - x = 1 / 8 * x by ring, abs_mul]
      norm_num)
    ⟨by decide, by decide⟩ (by decide) (by decide) (allTerminate_of_B (by decide)) ⟨-9999⟩
    (show Rep gEx.ntot.toNat _ _ from rep_rounded rndErr #[5, 1, 7, 2, 3, 4] 0) hacc (by decide) (by decide)

/-- a monotone idempotent rounding of `ℕ`: the identity up to 8, down to a multiple of 4 above -/
def rndDown (n : Nat) : Nat := if n ≤ 8 then n else n - n % 4

example (acc : Array (Rounded Nat rndDown))
    (hacc : accumulate gEx (-1) (⟨0⟩ : Rounded Nat rndDown)
      ((#[5, 1, 7, 2, 3, 4] : Array Nat).map fun x => (⟨x⟩ : Rounded Nat rndDown)) = .ok acc) :
    ∃ r : Nat, acc[(1 : Int).toNat]? = some ⟨r⟩ ∧ rndDown r = r ∧
      ∀ i ∈ drainsThrough gEx 1, (#[5, 1, 7, 2, 3, 4] : Array Nat)[i]?.getD 0 ≤ r :=
  accumulate_rounded_ge (g := gEx) rndDown
    (fun x y h => by unfold rndDown; split_ifs <;> omega)
    (fun x => by unfold rndDown; split_ifs <;> omega)
    ⟨by decide, by decide⟩ (by decide) (by decide) (allTerminate_of_B (by decide)) ⟨0⟩
    (fun i => Nat.zero_le _)
    (fun i => by
      unfold rndDown
      rw [if_pos]
      by_cases hi : i < 6
      · interval_cases i <;> decide
      · rw [Array.getElem?_eq_none (by simp; omega)]; decide)
    (show Rep gEx.ntot.toNat _ _ from rep_rounded rndDown #[5, 1, 7, 2, 3, 4] 0) hacc (by decide) (by decide)
/-- the rounding is visible: with `rndDown` cell 1 receives 5+1 = 6, 6+2 = 8, 8+3 = 11 → 8 -/
example : accumulate gEx (-1) (⟨0⟩ : Rounded Nat rndDown) #[⟨5⟩, ⟨1⟩, ⟨7⟩, ⟨2⟩, ⟨3⟩, ⟨4⟩] =
    .ok #[⟨5⟩, ⟨8⟩, ⟨0⟩, ⟨2⟩, ⟨3⟩, ⟨0⟩] := by decide

/-- `nprint`: 0 and a negative value print nothing, 2 prints for the cells 0, 2, 4; the values are those of `cAccumulate` -/
example : (cAccumulateP gEx 0 6 (-9999 : Int) #[5, 1, 7, 2, 3, 4] #[5, 1, 7, 2, 3, 4]).map (·.2) = .ok 0 ∧
    (cAccumulateP gEx (-3) 6 (-9999 : Int) #[5, 1, 7, 2, 3, 4] #[5, 1, 7, 2, 3, 4]).map (·.2) = .ok 0 ∧
    cAccumulateP gEx 2 6 (-9999 : Int) #[5, 1, 7, 2, 3, 4] #[5, 1, 7, 2, 3, 4] =
      .ok (#[5, 11, -9999, 2, 3, -9999], 3) := by decide

/-- grids without cells: default limit rejected; without rows rejected; without columns and a limit: empty answer -/
example : accumulate ⟨2, 0, gEx.codes, #[]⟩ (-1) (-1 : Int) #[] = .error .badMaxCells ∧
    cAccumulate ⟨0, 3, gEx.codes, #[]⟩ 4 (-1 : Int) #[] #[] = .error .badDims ∧
    cAccumulate ⟨2, 0, gEx.codes, #[]⟩ 4 (-1 : Int) #[] #[] = .ok #[] := by decide

/-- a history on `gEx`: call; the caller overwrites the result and feeds it back as the field; edits it; a wrong-shape
assignment and an out-of-range cell are rejected; the limit 0 makes the call raise; default limit again -/
def sEx : Sess Int := ⟨gEx, -1, #[⟨2, 3, #[5, 1, 7, 2, 3, 4], -9999⟩], some 0, none, -1⟩
def opsEx : List (Op Int) :=
  [.call, .rFill 1, .feedBack, .fSetCell 0 9, .fAssign 3 2 #[0, 0, 0, 0, 0, 0], .fSetCell 6 1, .setCap 0, .call, .setCap (-1)]

example : Inv sEx :=
  ⟨by decide, fun q f h => by
      match q with
      | 0 => simp [sEx] at h; subst h; decide
      | q + 1 => simp [sEx] at h,
    fun q h => by cases h; decide, fun q h => by cases h⟩

example : (run sEx opsEx).2 =
    [.result ⟨2, 3, #[5, 11, -9999, 2, 3, -9999], -9999⟩, .done, .done, .done, .rejected, .rejected, .done, .rejected, .done] ∧
    (run sEx opsEx).1.fieldGrid = some ⟨2, 3, #[9, 1, 1, 1, 1, 1], -9999⟩ ∧
    (run sEx opsEx).1.field = some 1 ∧ (run sEx opsEx).1.res = some 1 ∧
    (step (run sEx opsEx).1 .call).2 = .result ⟨2, 3, #[9, 12, -9999, 1, 1, -9999], -9999⟩ := by decide

/-- `history_call_acyclic` applies to the state this history reaches (the field is now the edited former result) -/
example : ∃ r, (step (run sEx opsEx).1 .call).2 = .result r ∧ r.data.size = (run sEx opsEx).1.fd.ntot.toNat ∧
    r.nodata = (run sEx opsEx).1.input.2 ∧
    ∀ c : Int, validCell sEx.fd.nrows sEx.fd.ncols c = true →
      r.data[c.toNat]? = some (if dn (run sEx opsEx).1.fd c < 0 then (run sEx opsEx).1.input.2
        else ∑ u ∈ drainsThrough (run sEx opsEx).1.fd c,
          (run sEx opsEx).1.input.1[u]?.getD (run sEx opsEx).1.input.2) :=
  history_call_acyclic
    ⟨by decide, fun q f h => by
        match q with
        | 0 => simp [sEx] at h; subst h; decide
        | q + 1 => simp [sEx] at h,
      fun q h => by cases h; decide, fun q h => by cases h⟩
    opsEx (by decide) (by decide)
    (noCycle_of_allTerminate (allTerminate_of_B (fuel := 7) (by decide))) (by decide)
    (fun f hf => by
      have : (run sEx opsEx).1.fieldGrid = some ⟨2, 3, #[9, 1, 1, 1, 1, 1], -9999⟩ := by decide
      rw [this] at hf
      cases hf
      decide)

/-- the same object as result and field (right after `feedBack`): editing "the result" edits the field — which is why
`edit_result_keeps_field` needs the result to come from the call just made -/
example : ((run sEx [.call, .feedBack, .rFill 0]).1).fieldGrid = some ⟨2, 3, #[0, 0, 0, 0, 0, 0], -9999⟩ := by decide

/-- the unit field in the rounded arithmetic `rndEx`: cell 1 of `gEx` counts its 4 cells exactly -/
example (acc : Array (Rounded ℚ rndEx)) (hacc : accumulateUnit gEx (-1) (⟨-1⟩ : Rounded ℚ rndEx) = .ok acc) :
    acc[(1 : Int).toNat]? = some ⟨(((drainsThrough gEx 1).card : Nat) : ℚ)⟩ :=
  accumulateUnit_rounded_eq_card (g := gEx) rndEx
    (fun z hz => by
      have h : |(z : ℚ)| ≤ 100 := by
        rw [← Int.cast_abs, Int.abs_eq_natAbs]
        have : z.natAbs ≤ 6 := hz
        exact_mod_cast (by omega : z.natAbs ≤ 100)
      unfold rndEx
      rw [if_pos h])
    ⟨by decide, by decide⟩ (by decide) (by decide) (allTerminate_of_B (by decide)) ⟨-1⟩ hacc (by decide) (by decide)

/-- any flow directions: the 2-cycle 0 ⇄ 1 with the limit 3 answers; the limit 0 and a 3x2 field are rejected -/
def sCyc : Sess Int := ⟨⟨1, 2, gEx.codes, #[1, 16]⟩, -1, #[⟨1, 2, #[3, 4], -9999⟩], some 0, none, 3⟩

example : ∃ r, (step (run sCyc [.fSetCell 1 5]).1 .call).2 = .result r ∧
    r.data.size = (run sCyc [.fSetCell 1 5]).1.fd.ntot.toNat ∧ r.nrows = sCyc.fd.nrows ∧ r.ncols = sCyc.fd.ncols ∧
    r.nodata = (run sCyc [.fSetCell 1 5]).1.input.2 :=
  history_call_total
    ⟨by decide, fun q f h => by
        match q with
        | 0 => simp [sCyc] at h; subst h; decide
        | q + 1 => simp [sCyc] at h,
      fun q h => by cases h; decide, fun q h => by cases h⟩
    [.fSetCell 1 5] (by decide) (by decide) (Or.inr (by decide))
    (fun f hf => by
      have : (run sCyc [.fSetCell 1 5]).1.fieldGrid = some ⟨1, 2, #[3, 5], -9999⟩ := by decide
      rw [this] at hf
      cases hf
      decide)

example : step (run sCyc [.setCap 0]).1 .call = ((run sCyc [.setCap 0]).1, .rejected) :=
  history_call_rejected _ (Or.inl ⟨by decide, by decide, fun f hf => by
    have : (run sCyc [.setCap 0]).1.fieldGrid = some ⟨1, 2, #[3, 4], -9999⟩ := by decide
    rw [this] at hf
    cases hf
    decide⟩)

example : step (run sCyc [.fNew ⟨2, 1, #[3, 4], 0⟩]).1 .call = ((run sCyc [.fNew ⟨2, 1, #[3, 4], 0⟩]).1, .rejected) :=
  history_call_rejected _ (Or.inr ⟨⟨2, 1, #[3, 4], 0⟩, by decide, by decide⟩)


/-- binary floating point with 4 significant bits on `gEx`: every hypothesis of `accumulate_binary_error` holds (the
rounding needs none); core `Rat` does not reduce in the kernel, so the values themselves are computed by the driver only
(`accr` request) -/
example (acc : Array (Rounded ℚ (rndBits 4)))
    (hacc : accumulate gEx (-1) (⟨0⟩ : Rounded ℚ (rndBits 4))
      ((#[5, 1, 7, 20, 3, 4] : Array ℚ).map fun x => (⟨x⟩ : Rounded ℚ (rndBits 4))) = .ok acc) :
    ∃ r : ℚ, acc[(1 : Int).toNat]? = some ⟨r⟩ ∧
      |r - ∑ i ∈ drainsThrough gEx 1, (#[5, 1, 7, 20, 3, 4] : Array ℚ)[i]?.getD 0| ≤
        ((1 + (2 : ℚ) ^ (-((4 : Nat) : Int))) ^ ((drainsThrough gEx 1).card - 1) - 1) *
          ∑ i ∈ drainsThrough gEx 1, |(#[5, 1, 7, 20, 3, 4] : Array ℚ)[i]?.getD 0| :=
  accumulate_binary_error 4 (g := gEx) ⟨by decide, by decide⟩ (by decide) (by decide) (allTerminate_of_B (by decide)) ⟨0⟩
    (show Rep gEx.ntot.toNat _ _ from rep_rounded (rndBits 4) #[5, 1, 7, 20, 3, 4] 0) hacc (by decide) (by decide)
/-- binary64: the integer field 5, 1, 7, 2, 3, 4 is accumulated exactly (all hypotheses of `accumulate_binary_exact`) -/
example (acc : Array (Rounded ℚ (rndBits 53)))
    (hacc : accumulate gEx (-1) (⟨-9999⟩ : Rounded ℚ (rndBits 53))
      ((#[5, 1, 7, 2, 3, 4] : Array Int).map fun (z : Int) => (⟨(z : ℚ)⟩ : Rounded ℚ (rndBits 53))) = .ok acc) :
    acc[(1 : Int).toNat]? =
      some ⟨((∑ u ∈ drainsThrough gEx 1, (#[5, 1, 7, 2, 3, 4] : Array Int)[u]?.getD 0 : Int) : ℚ)⟩ :=
  accumulate_binary_exact (p := 53) (by norm_num) (g := gEx) ⟨by decide, by decide⟩ (by decide) (by decide)
    (allTerminate_of_B (by decide)) ⟨-9999⟩
    (show Rep gEx.ntot.toNat _ _ from rep_rounded_int (rndBits 53) #[5, 1, 7, 2, 3, 4]) hacc (by decide) (by decide)
    (le_trans (Finset.sum_le_sum_of_subset (fun u hu => Finset.mem_range.2 (mem_drainsThrough.1 hu).1))
      (by decide))
example : gEx.ntot.toNat ≤ 2 ^ 53 := by decide

end HydroVerif.C11
