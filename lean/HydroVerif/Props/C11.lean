/-
C11 — property theorems (only). Model: `HydroVerif/Model/C11.lean` (kernel after the `fix:` commit: the walk from
cell `i` adds `to_accumulate[i]`); helper lemmas: `Lemmas/C11.lean` (generic `[Add α]`), `Lemmas/C11Sum.lean`.

Vocabulary. `g : FlowGrid` is what the kernel receives (dimensions, the 9 flow-direction codes, the data).
`WF g`: `ncols > 0` and the data has `nrows*ncols` entries (what the wrapper guarantees). `dn g c` is the downstream
cell of `c` (negative: `c` drains nowhere — sink, off-grid exit, code not in the table), `iterDn g k c` is `k` downstream
steps. `Rep n a A`: the buffer `a` has `n` entries holding the values `A 0 .. A (n-1)`. `drainsThrough g c`: the cells
whose downstream chain passes through `c`, `c` included (upstream closure); `directUp g c`: the cells whose
downstream cell is `c`. `NoCycle g`: no cell comes back to itself after `m ≥ 1` downstream steps.
`AllTerminate g fuel`: every walk reaches a cell that drains nowhere within `fuel` iterations (`fuel = cap + 1`).

All statements hold for every grid size, every code table, every flow-direction content, every field, every
no-data value; value types: any type with `+` (the fold statements, valid verbatim for IEEE doubles) or any
commutative monoid (the sum statements: exact arithmetic).

Clause -> theorems -> what stays outside (audit of the deepening round)

| clause of the property | theorems | outside the theorems |
|---|---|---|
| quantifier: "any flow-direction grid without cycles", default cell limit | `noCycle_iff_allTerminate`, `allTerminate_default`, `allTerminate_of_noCycle_cap`: the hypothesis `AllTerminate` of the value theorems IS acyclicity for every limit >= nrows*ncols-1 | the harness's own cycle search is compared with `allTerminateB`/`endsAt` (`spec` request) |
| a draining cell holds the sum of the field over that cell and every cell draining through it | `accumulate_eq_sum`, `accumulate_acyclic_default`; order-exact for a bare `+` (IEEE doubles): `accumulate_eq_fold`, `onPath_iff_drains`; `mem_upClosure_iff` (the closure the driver computes = `drainsThrough`) | rounding of a sum taken in another order (correspondence budget) |
| ... the number of such cells for the default unit field | `accumulateUnit_eq_card`, `gridAccumulate_none` | - |
| ... equals its own contribution plus the accumulated values of its direct upstream neighbours | `accumulate_recurrence`, `directUp_neighbour`, `mem_directUpList_iff` | - |
| cells that drain nowhere (sinks, off-grid exits, invalid codes) carry the no-data value | `accumulate_terminal`; which cells those are, exactly: `dn_neg_iff` (`dn_sink`, `dn_unknown_code`, `dn_of_code`, `dn_cases`) | - |
| the input grids' cell values are not altered | memory model of the two float buffers: `cAccumulateS_unaliased`, `cAccumulateS_field_unchanged`, `gridAccumulate_inputs_unchanged` (the clone is a distinct buffer; with one array passed twice the field IS altered — `example`) | the flow-direction buffer is not in the store (the kernel has no store through that pointer): by construction; numpy `astype` of the caller's grids (dtype changes, values kept) and `deepcopy` are external; both observed on the real code by the oracle, call after call |
| grids with cycles or a reduced limit terminate without error | `accumulate_total`, `accumulateUnit_total`, `cAccumulate_total` (any flow directions, any limit >= 1 or default) | - |
| glue of the wrapper: default limit, unit default field, accumulation = copy of the field, shapes, result no-data value, limit < 1 | `gridAccumulate_some`, `gridAccumulate_none`, `gridAccumulate_shape`, `accumulate_rejects_limit`, `cAccumulate_eq_fold` (what the initial buffer contributes) | `nprint` (only `fprintf`), dtype conversion of the grids |
| (finding) the pinned kernel was right only for uniform fields | `cAccumulatePinned_eq_of_uniform`, `example` | - |
-/
import HydroVerif.Lemmas.C11Sum

set_option linter.unusedSectionVars false

namespace HydroVerif.C11
open HydroVerif.C07

/-! ### 1. the call terminates without error — any flow directions (cycles included), any accepted limit -/

/-- `grid.accumulate` never fails and returns one value per cell, whatever the flow directions and the limit
(default `-1`, or any limit `≥ 1`): grids with cycles or a reduced `max_accumulated_cells` terminate without error.
(Termination itself is the totality of the model: the `while` loop is structural recursion on the iterations left.) -/
theorem accumulate_total {α : Type} [Add α] {g : FlowGrid} (hg : WF g) (hr : 1 ≤ g.nrows) {m : Int}
    (hm : m = -1 ∨ 1 ≤ m) (nodata : α) {field : Array α} (hf : field.size = g.ntot.toNat) :
    ∃ acc, accumulate g m nodata field = .ok acc ∧ acc.size = g.ntot.toNat := by
  have hcap : 1 ≤ capOf g m := by
    unfold capOf
    split
    · have := hg.ncols_pos
      nlinarith
    · omega
  have hF : Rep g.ntot.toNat field (fun j => field[j]?.getD nodata) := hf ▸ rep_self field nodata
  obtain ⟨acc, h1, h2⟩ := accumulate_rep hg hr hcap nodata hF
  exact ⟨acc, h1, h2.1⟩

/-- same for the default unit field (`to_accumulate=None`) -/
theorem accumulateUnit_total {α : Type} [Add α] [OfNat α 1] {g : FlowGrid} (hg : WF g) (hr : 1 ≤ g.nrows) {m : Int}
    (hm : m = -1 ∨ 1 ≤ m) (nodata : α) :
    ∃ acc, accumulateUnit g m nodata = .ok acc ∧ acc.size = g.ntot.toNat := by
  unfold accumulateUnit
  exact accumulate_total hg hr hm nodata (by rw [Array.size_replicate, hg.size_eq])

/-- a limit below one (other than the `-1` that selects the default) is rejected -/
theorem accumulate_rejects_limit {α : Type} [Add α] (g : FlowGrid) {m : Int} (h1 : m < 1) (h2 : m ≠ -1)
    (nodata : α) (field : Array α) : accumulate g m nodata field = .error .badMaxCells := by
  unfold accumulate cAccumulate capOf
  rw [if_neg h2, if_pos h1]

/-- the kernel on arbitrary well-shaped buffers (accumulation buffer not necessarily a copy of the field):
no error once `max_accumulated_cells ≥ 1` and `nrows ≥ 1` -/
theorem cAccumulate_total {α : Type} [Add α] {g : FlowGrid} (hg : WF g) (hr : 1 ≤ g.nrows) {m : Int} (hm : 1 ≤ m)
    (nodata : α) {field acc0 : Array α} (hf : field.size = g.ntot.toNat) (ha : acc0.size = g.ntot.toNat) :
    ∃ acc, cAccumulate g m nodata field acc0 = .ok acc ∧ acc.size = g.ntot.toNat := by
  obtain ⟨acc, h1, h2⟩ := cAccumulate_spec hg hm hr (nodata := nodata)
    (hf ▸ rep_self field nodata) (ha ▸ rep_self acc0 nodata)
  exact ⟨acc, h1, h2.1⟩

/-! ### 2. no cycle ⇔ every walk ends before the default limit -/

/-- on a grid without cycles every walk reaches a terminal cell within the iterations the limit allows, as
soon as `limit + 1 ≥ nrows*ncols` — in particular for the default limit `nrows*ncols` -/
theorem allTerminate_of_noCycle_cap {g : FlowGrid} (hg : WF g) (hnc : NoCycle g) {m : Int}
    (hm : g.ntot ≤ capOf g m + 1) : AllTerminate g (fuelOf (capOf g m)) :=
  allTerminate_of_noCycle hg hnc (by unfold fuelOf; omega)

theorem allTerminate_default {g : FlowGrid} (hg : WF g) (hnc : NoCycle g) :
    AllTerminate g (fuelOf (capOf g (-1))) :=
  allTerminate_of_noCycle_cap hg hnc (by unfold capOf FlowGrid.ntot; simp)

/-- conversely, if every walk ends then there is no cycle: the hypothesis `AllTerminate` of the theorems
below is exactly "acyclic" once the limit is at least `nrows*ncols - 1` -/
theorem noCycle_iff_allTerminate {g : FlowGrid} (hg : WF g) {fuel : Nat} (hfuel : g.ntot.toNat ≤ fuel) :
    NoCycle g ↔ AllTerminate g fuel :=
  ⟨fun h => allTerminate_of_noCycle hg h hfuel, noCycle_of_allTerminate⟩

/-! ### 3. cells that drain nowhere carry the no-data value -/

/-- sinks (`-2`), off-grid exits and codes not in the table (`-1`) end with the no-data value -/
theorem accumulate_terminal {α : Type} [Add α] {g : FlowGrid} (hg : WF g) (hr : 1 ≤ g.nrows) {m : Int}
    (hm : 1 ≤ capOf g m) (hT : AllTerminate g (fuelOf (capOf g m))) (nodata : α) {field : Array α} {F : Nat → α}
    (hF : Rep g.ntot.toNat field F) {acc : Array α} (hacc : accumulate g m nodata field = .ok acc)
    {c : Int} (hv : validCell g.nrows g.ncols c = true) (hd : dn g c < 0) :
    acc[c.toNat]? = some nodata := by
  obtain ⟨acc', h1, h2⟩ := accumulate_rep hg hr hm nodata hF
  rw [hacc] at h1
  cases h1
  rw [h2.2 _ (lt_of_valid hv).1, final_value hT nodata F F hv, if_pos hd]

/-- flow direction 0 is a sink: the cell drains nowhere (`-2`) -/
theorem dn_sink {g : FlowGrid} {c : Int} (hv : validCell g.nrows g.ncols c = true)
    (hfd : g.flowdir[c.toNat]? = some 0) : dn g c = -2 := by
  unfold dn downstream
  rw [if_pos hv, hfd]
  rfl

/-- a non-zero value that is not one of the codes drains nowhere (`-1`) -/
theorem dn_unknown_code {g : FlowGrid} {c : Int} (hv : validCell g.nrows g.ncols c = true)
    {fd : Int} (hfd : g.flowdir[c.toNat]? = some fd) (h0 : fd ≠ 0) (hmem : fd ∉ g.codes) : dn g c = -1 := by
  unfold dn downstream
  rw [if_pos hv, hfd]
  simp only [if_neg h0]
  exact downScan_not_mem _ _ _ _ _ _ _ hmem

/-- a code of the table sends the cell to the neighbour at the position of that code in the 3x3 table
(its last position, should the table repeat a code): a cell of the grid, or `-1` when that neighbour is off the grid -/
theorem dn_of_code {g : FlowGrid} {c : Int} (hv : validCell g.nrows g.ncols c = true)
    {fd : Int} (hfd : g.flowdir[c.toNat]? = some fd) (h0 : fd ≠ 0) {k : Nat} (hk : g.codes[k]? = some fd)
    (hlast : ∀ k', k < k' → g.codes[k']? ≠ some fd) : dn g c = neighbour g.nrows g.ncols c k := by
  unfold dn downstream
  rw [if_pos hv, hfd]
  simp only [if_neg h0]
  rw [downScan_last _ _ _ _ _ _ _ k hk hlast, Nat.zero_add]

/-- a terminal cell is a sink, or its code is not in the table / points off the grid; every other cell drains
into a cell of the grid, one of its eight neighbours -/
theorem dn_cases {g : FlowGrid} (hg : WF g) (hcodes : g.codes.length = 9) {c : Int}
    (hv : validCell g.nrows g.ncols c = true) :
    dn g c = -2 ∨ dn g c = -1 ∨
      (validCell g.nrows g.ncols (dn g c) = true ∧ ∃ k, k < 9 ∧ k ≠ 4 ∧ neighbour g.nrows g.ncols c k = dn g c) := by
  rcases dn_neg_or_valid hg hv with h | h | h
  · exact Or.inl h
  · exact Or.inr (Or.inl h)
  · refine Or.inr (Or.inr ⟨h, ?_⟩)
    have h0 := (validCell_iff.1 h).1
    obtain ⟨k, hk, hkn⟩ := dn_is_neighbour hg hcodes hv h0
    refine ⟨k, hk, ?_, hkn⟩
    rintro rfl
    have : neighbour g.nrows g.ncols c 4 = -1 := by
      rw [neighbour_eq_neg_one_iff]; left; decide
    omega

/-! ### 4. a draining cell holds its own value plus the values of the cells draining through it -/

/-- any value type with an addition (IEEE doubles included): the result is the left-to-right fold, in
increasing source-cell order, that adds `F u` for every cell `u` strictly upstream of `c` -/
theorem accumulate_eq_fold {α : Type} [Add α] {g : FlowGrid} (hg : WF g) (hr : 1 ≤ g.nrows) {m : Int}
    (hm : 1 ≤ capOf g m) (hT : AllTerminate g (fuelOf (capOf g m))) (nodata : α) {field : Array α} {F : Nat → α}
    (hF : Rep g.ntot.toNat field F) {acc : Array α} (hacc : accumulate g m nodata field = .ok acc)
    {c : Int} (hv : validCell g.nrows g.ncols c = true) (hd : 0 ≤ dn g c) :
    acc[c.toNat]? = some ((List.range g.ntot.toNat).foldl
      (fun s (u : Nat) => if onPath g (fuelOf (capOf g m)) (u : Int) c then s + F u else s) (F c.toNat)) := by
  obtain ⟨acc', h1, h2⟩ := accumulate_rep hg hr hm nodata hF
  rw [hacc] at h1
  cases h1
  rw [h2.2 _ (lt_of_valid hv).1, final_value hT nodata F F hv, if_neg (by omega)]
  rfl

/-- the kernel itself, on an arbitrary accumulation buffer `acc0` (values `A0`): terminal cells are overwritten with
the no-data value, every other cell keeps its initial value and receives `F u` for every cell `u` strictly upstream —
so the wrapper's initialisation "accumulation = copy of the field" is what makes each cell count itself -/
theorem cAccumulate_eq_fold {α : Type} [Add α] {g : FlowGrid} (hg : WF g) (hr : 1 ≤ g.nrows) {m : Int}
    (hm : 1 ≤ m) (hT : AllTerminate g (fuelOf m)) (nodata : α) {field acc0 : Array α} {F A0 : Nat → α}
    (hF : Rep g.ntot.toNat field F) (hA : Rep g.ntot.toNat acc0 A0)
    {acc : Array α} (hacc : cAccumulate g m nodata field acc0 = .ok acc)
    {c : Int} (hv : validCell g.nrows g.ncols c = true) :
    acc[c.toNat]? = some (if dn g c < 0 then nodata else (List.range g.ntot.toNat).foldl
      (fun s (u : Nat) => if onPath g (fuelOf m) (u : Int) c then s + F u else s) (A0 c.toNat)) := by
  obtain ⟨acc', h1, h2⟩ := cAccumulate_spec hg hm hr (nodata := nodata) hF hA
  rw [hacc] at h1
  cases h1
  rw [h2.2 _ (lt_of_valid hv).1, final_value hT nodata F A0 hv]
  rfl

/-- `onPath` in the fold above means "some positive number of downstream steps leads from `u` to `c`" -/
theorem onPath_iff_drains {g : FlowGrid} {fuel : Nat} (hT : AllTerminate g fuel) {u c : Int}
    (hu : validCell g.nrows g.ncols u = true) (hc : 0 ≤ c) :
    onPath g fuel u c = true ↔ ∃ k, 1 ≤ k ∧ iterDn g k u = c :=
  onPath_iff_exists (validCell_iff.1 hu).1 hc (hT u hu)

/-- commutative monoid (exact arithmetic): the accumulated value of a draining cell is the sum of the field over
the cell and every cell draining through it -/
theorem accumulate_eq_sum {α : Type} [AddCommMonoid α] {g : FlowGrid} (hg : WF g) (hr : 1 ≤ g.nrows) {m : Int}
    (hm : 1 ≤ capOf g m) (hT : AllTerminate g (fuelOf (capOf g m))) (nodata : α) {field : Array α} {F : Nat → α}
    (hF : Rep g.ntot.toNat field F) {acc : Array α} (hacc : accumulate g m nodata field = .ok acc)
    {c : Int} (hv : validCell g.nrows g.ncols c = true) (hd : 0 ≤ dn g c) :
    acc[c.toNat]? = some (∑ u ∈ drainsThrough g c, F u) := by
  rw [accumulate_eq_fold hg hr hm hT nodata hF hacc hv hd, foldl_if_eq_sum]
  obtain ⟨h1, h2⟩ := lt_of_valid hv
  obtain ⟨e1, e2⟩ := drainsThrough_eq_insert hT h1
  rw [h2] at e1 e2
  rw [e1, Finset.sum_insert e2]

/-- default unit field: the accumulated value of a draining cell is the number of cells draining through it -/
theorem accumulateUnit_eq_card {α : Type} [AddCommMonoidWithOne α] {g : FlowGrid} (hg : WF g) (hr : 1 ≤ g.nrows)
    {m : Int} (hm : 1 ≤ capOf g m) (hT : AllTerminate g (fuelOf (capOf g m))) (nodata : α)
    {acc : Array α} (hacc : accumulateUnit g m nodata = .ok acc)
    {c : Int} (hv : validCell g.nrows g.ncols c = true) (hd : 0 ≤ dn g c) :
    acc[c.toNat]? = some (((drainsThrough g c).card : Nat) : α) := by
  have hF : Rep g.ntot.toNat (Array.replicate g.flowdir.size (1 : α)) (fun _ => 1) := by
    refine ⟨by rw [Array.size_replicate, hg.size_eq], fun j hj => ?_⟩
    rw [Array.getElem?_replicate, if_pos (by rw [hg.size_eq]; exact hj)]
  rw [accumulate_eq_sum hg hr hm hT nodata hF hacc hv hd, Finset.sum_const, nsmul_one]

/-! ### 5. local recurrence: own contribution plus the accumulated values of the direct upstream cells -/

theorem accumulate_recurrence {α : Type} [AddCommMonoid α] {g : FlowGrid} (hg : WF g) (hr : 1 ≤ g.nrows) {m : Int}
    (hm : 1 ≤ capOf g m) (hT : AllTerminate g (fuelOf (capOf g m))) (nodata : α) {field : Array α} {F : Nat → α}
    (hF : Rep g.ntot.toNat field F) {acc : Array α} (hacc : accumulate g m nodata field = .ok acc)
    {A : Nat → α} (hA : Rep g.ntot.toNat acc A)
    {c : Int} (hv : validCell g.nrows g.ncols c = true) (hd : 0 ≤ dn g c) :
    A c.toNat = F c.toNat + ∑ u ∈ directUp g c, A u := by
  obtain ⟨h1, h2⟩ := lt_of_valid hv
  have hval : ∀ u : Nat, u < g.ntot.toNat → 0 ≤ dn g (u : Int) → A u = ∑ x ∈ drainsThrough g (u : Int), F x := by
    intro u hu hdu
    have := accumulate_eq_sum hg hr hm hT nodata hF hacc (valid_of_lt hu) hdu
    rw [Int.toNat_natCast, hA.2 u hu] at this
    exact Option.some.inj this
  have hc := hval c.toNat h1 (by rw [h2]; exact hd)
  rw [h2] at hc
  rw [hc]
  obtain ⟨e1, e2, e3⟩ := drainsThrough_eq_biUnion hT h1
  rw [h2] at e1 e2 e3
  rw [e1, Finset.sum_insert e2, Finset.sum_biUnion e3]
  congr 1
  apply Finset.sum_congr rfl
  intro u hu
  rw [mem_directUp] at hu
  exact (hval u hu.1 (by rw [hu.2]; exact (validCell_iff.1 hv).1)).symm

/-- the direct upstream cells of `c` are among its eight neighbours: `u` sits at the position mirrored
(`8 - k`) to the one its flow direction points to -/
theorem directUp_neighbour {g : FlowGrid} (hg : WF g) (hcodes : g.codes.length = 9) {c : Int}
    (hv : validCell g.nrows g.ncols c = true) {u : Nat} (hu : u ∈ directUp g c) :
    ∃ k, k < 9 ∧ k ≠ 4 ∧ neighbour g.nrows g.ncols c k = (u : Int) := by
  rw [mem_directUp] at hu
  have huv : validCell g.nrows g.ncols (u : Int) = true := valid_of_lt hu.1
  have hc0 := (validCell_iff.1 hv).1
  obtain ⟨k, hk, hkn⟩ := dn_is_neighbour hg hcodes huv (by rw [hu.2]; exact hc0)
  rw [hu.2] at hkn
  have hmir := neighbour_mirror hg.ncols_pos huv hk hkn (by omega)
  refine ⟨8 - k, by omega, ?_, hmir⟩
  intro h4
  have hk4 : k = 4 := by omega
  subst hk4
  have : neighbour g.nrows g.ncols (u : Int) 4 = -1 := by
    rw [neighbour_eq_neg_one_iff]; left; decide
  omega

/-! ### 6. headline: acyclic grid, default limit -/

/-- on any flow-direction grid without cycles, run with the default limit, the call succeeds; every cell that
drains nowhere holds the no-data value and every other cell holds the sum of the field over the cells draining
through it -/
theorem accumulate_acyclic_default {α : Type} [AddCommMonoid α] {g : FlowGrid} (hg : WF g) (hr : 1 ≤ g.nrows)
    (hnc : NoCycle g) (nodata : α) {field : Array α} {F : Nat → α} (hF : Rep g.ntot.toNat field F) :
    ∃ acc, accumulate g (-1) nodata field = .ok acc ∧ acc.size = g.ntot.toNat ∧
      ∀ c : Int, validCell g.nrows g.ncols c = true →
        acc[c.toNat]? = some (if dn g c < 0 then nodata else ∑ u ∈ drainsThrough g c, F u) := by
  have hcap : 1 ≤ capOf g (-1) := by
    unfold capOf; simp only [if_true]
    have := hg.ncols_pos
    nlinarith
  have hT := allTerminate_default hg hnc
  obtain ⟨acc, h1, h2⟩ := accumulate_rep hg hr hcap nodata hF
  refine ⟨acc, h1, h2.1, fun c hv => ?_⟩
  split
  · rename_i hd; exact accumulate_terminal hg hr hcap hT nodata hF h1 hv hd
  · rename_i hd; exact accumulate_eq_sum hg hr hcap hT nodata hF h1 hv (by omega)

/-! ### 7. the defect of the pinned kernel: right exactly because the field was uniform -/

/-- the pinned kernel (adds the value of the visited cell instead of the source cell's) computes the same
result as the repaired one on every spatially uniform field — which is all the pinned tests used -/
theorem cAccumulatePinned_eq_of_uniform {α : Type} [Add α] {g : FlowGrid} (hg : WF g) (m : Int) (nodata v : α)
    {field : Array α} (hF : Rep g.ntot.toNat field (fun _ => v)) (acc0 : Array α) :
    cAccumulatePinned g m nodata field acc0 = cAccumulate g m nodata field acc0 := by
  unfold cAccumulatePinned cAccumulate
  split
  · rfl
  · split
    · rfl
    · have key : ∀ (l : List Nat), (∀ i ∈ l, i < g.ntot.toNat) → ∀ acc : Array α,
          accLoopPinned g field nodata (fuelOf m) l acc = accLoop g field nodata (fuelOf m) l acc := by
        intro l
        induction l with
        | nil => intro _ _; rfl
        | cons i rest ih =>
          intro hl acc
          unfold accLoopPinned accLoop
          have hi := hl i List.mem_cons_self
          rw [walkPinned_eq_walk hg hF hi (fuelOf m) (valid_of_lt hi)]
          cases walk g field nodata i (fuelOf m) (i : Int) acc with
          | error e => rfl
          | ok acc' => exact ih (fun k hk => hl k (List.mem_cons_of_mem _ hk)) acc'
      exact key _ (fun i hi => List.mem_range.1 hi) acc0

/-! ### 8. the input buffers are not written (memory model), and the wrapper on grid objects -/

/-- with two distinct buffers the kernel on memory is the pure kernel: `to_accumulate` is left as it was and the
`accumulation` memory holds `cAccumulate` -/
theorem cAccumulateS_unaliased {α : Type} [Add α] (g : FlowGrid) (m : Int) (nodata : α) (f a : Array α) :
    cAccumulateS g m nodata ⟨f, a, false⟩ =
      (cAccumulate g m nodata f a).map (fun a' => (⟨f, a', false⟩ : Store α)) :=
  cAccumulateS_unaliased_eq g m nodata f a

/-- the cell values of `to_accumulate` are not altered by the kernel when `accumulation` is another array
(the flow-direction buffer has no write access in the model at all: it is not part of the store) -/
theorem cAccumulateS_field_unchanged {α : Type} [Add α] {g : FlowGrid} {m : Int} {nodata : α} {s s' : Store α}
    (h : s.aliased = false) (hr : cAccumulateS g m nodata s = .ok s') :
    s'.field = s.field ∧ s'.aliased = false ∧ cAccumulate g m nodata s.field s.acc = .ok s'.acc := by
  obtain ⟨f, a, al⟩ := s
  simp only at h
  subst h
  rw [cAccumulateS_unaliased_eq] at hr
  cases hc : cAccumulate g m nodata f a with
  | error e => rw [hc] at hr; cases hr
  | ok a' =>
    rw [hc] at hr
    cases hr
    exact ⟨rfl, rfl, rfl⟩

/-- the Cython asserts: a field grid whose shape is not the flow-direction grid's is rejected (before the limit
is looked at) -/
theorem gridAccumulate_shape {α : Type} [Add α] [OfNat α 1] (g : FlowGrid) (fdNodata : α) (f : FieldGrid α) (m : Int)
    (h : f.nrows ≠ g.nrows ∨ f.ncols ≠ g.ncols) : gridAccumulate g fdNodata (some f) m = .error .shape := by
  unfold gridAccumulate
  simp only [if_pos h]

/-- on a field grid of the right shape the wrapper is `accumulate` on the field's data with the field's no-data
value; the field's memory is returned unchanged; the result grid has the field's no-data value and dimensions -/
theorem gridAccumulate_some {α : Type} [Add α] [OfNat α 1] (g : FlowGrid) (fdNodata : α) (f : FieldGrid α) (m : Int)
    (h : f.nrows = g.nrows ∧ f.ncols = g.ncols) :
    gridAccumulate g fdNodata (some f) m =
      (accumulate g m f.nodata f.data).map
        (fun a => ((⟨f.data, a, false⟩ : Store α), (⟨f.nrows, f.ncols, a, f.nodata⟩ : FieldGrid α))) := by
  unfold gridAccumulate accumulate
  simp only [if_neg (show ¬(f.nrows ≠ g.nrows ∨ f.ncols ≠ g.ncols) by rw [h.1, h.2]; simp)]
  rw [cAccumulateS_unaliased_eq]
  cases cAccumulate g (capOf g m) f.nodata f.data f.data <;> rfl

/-- `to_accumulate=None`: unit field on the flow-direction grid's shape, no-data value of the flow-direction grid -/
theorem gridAccumulate_none {α : Type} [Add α] [OfNat α 1] (g : FlowGrid) (fdNodata : α) (m : Int) :
    gridAccumulate g fdNodata none m =
      (accumulateUnit g m fdNodata).map
        (fun a => ((⟨Array.replicate g.flowdir.size 1, a, false⟩ : Store α),
                   (⟨g.nrows, g.ncols, a, fdNodata⟩ : FieldGrid α))) := by
  unfold gridAccumulate accumulateUnit accumulate
  simp only [ne_eq, not_true_eq_false, or_self, if_false]
  rw [cAccumulateS_unaliased_eq]
  cases cAccumulate g (capOf g m) fdNodata (Array.replicate g.flowdir.size 1) (Array.replicate g.flowdir.size 1) <;> rfl

/-- the input grids' cell values are not altered by a successful call, and the result grid is described by
`accumulate` (hence by every theorem above), with the field's no-data value and the flow-direction grid's shape -/
theorem gridAccumulate_inputs_unchanged {α : Type} [Add α] [OfNat α 1] {g : FlowGrid} {fdNodata : α}
    {f : FieldGrid α} {m : Int} {s : Store α} {r : FieldGrid α}
    (hr : gridAccumulate g fdNodata (some f) m = .ok (s, r)) :
    s.field = f.data ∧ r.nodata = f.nodata ∧ r.nrows = g.nrows ∧ r.ncols = g.ncols ∧
      accumulate g m f.nodata f.data = .ok r.data := by
  by_cases h : f.nrows = g.nrows ∧ f.ncols = g.ncols
  · rw [gridAccumulate_some g fdNodata f m h] at hr
    cases hc : accumulate g m f.nodata f.data with
    | error e => rw [hc] at hr; cases hr
    | ok a =>
      rw [hc] at hr
      cases hr
      exact ⟨rfl, rfl, h.1, h.2, rfl⟩
  · rw [gridAccumulate_shape g fdNodata f m (by omega)] at hr
    cases hr

/-! ### 9. which cells drain nowhere, exactly; the computable closure the driver evaluates -/

/-- a cell drains nowhere exactly when its flow direction is 0 (sink), is not a code of the table, or is a code
whose neighbour (at the code's last position in the table) is off the grid -/
theorem dn_neg_iff {g : FlowGrid} {c : Int} (hv : validCell g.nrows g.ncols c = true) {fd : Int}
    (hfd : g.flowdir[c.toNat]? = some fd) :
    dn g c < 0 ↔ fd = 0 ∨ fd ∉ g.codes ∨
      ∃ k : Nat, g.codes[k]? = some fd ∧ (∀ k' : Nat, k < k' → g.codes[k']? ≠ some fd) ∧
        neighbour g.nrows g.ncols c k = -1 := by
  constructor
  · intro hd
    by_cases h0 : fd = 0
    · exact Or.inl h0
    · by_cases hmem : fd ∈ g.codes
      · obtain ⟨k, h1, h2⟩ := exists_last_index hmem
        refine Or.inr (Or.inr ⟨k, h1, h2, ?_⟩)
        rw [dn_of_code hv hfd h0 h1 h2] at hd
        rcases neighbour_eq_neg_one_or_nonneg g.nrows g.ncols c k with h | h
        · exact h
        · omega
      · exact Or.inr (Or.inl hmem)
  · rintro (h0 | hmem | ⟨k, h1, h2, h3⟩)
    · subst h0; rw [dn_sink hv hfd]; omega
    · by_cases h0 : fd = 0
      · subst h0; rw [dn_sink hv hfd]; omega
      · rw [dn_unknown_code hv hfd h0 hmem]; omega
    · by_cases h0 : fd = 0
      · subst h0; rw [dn_sink hv hfd]; omega
      · rw [dn_of_code hv hfd h0 h1 h2, h3]; omega

/-- the list the driver computes (`clo` request, compared with the harness's own upstream graph search) is the
upstream closure the sum theorems range over -/
theorem mem_upClosure_iff {g : FlowGrid} {fuel : Nat} (hT : AllTerminate g fuel) {j : Nat}
    (hj : j < g.ntot.toNat) (u : Nat) : u ∈ upClosure g fuel (j : Int) ↔ u ∈ drainsThrough g (j : Int) := by
  rw [(drainsThrough_eq_insert hT hj).1, Finset.mem_insert, Finset.mem_filter, Finset.mem_range]
  unfold upClosure
  rw [List.mem_filter, List.mem_range, Bool.or_eq_true, decide_eq_true_eq]
  constructor
  · rintro ⟨hu, h | h⟩
    · left; omega
    · right; exact ⟨hu, h⟩
  · rintro (h | ⟨hu, h⟩)
    · subst h; exact ⟨hj, Or.inl rfl⟩
    · exact ⟨hu, Or.inr h⟩

theorem mem_directUpList_iff {g : FlowGrid} {c : Int} (u : Nat) : u ∈ directUpList g c ↔ u ∈ directUp g c := by
  unfold directUpList
  rw [mem_directUp, List.mem_filter, List.mem_range, decide_eq_true_eq]

/-! ### non-vacuity: a concrete non-trivial grid satisfying every hypothesis, and the finding -/

/-- 2x3 grid, FLOWDIRCODE of grid.py; cells 0 → 1 → 2 (exit east), 3 → 1 (north-east), 4 → 1 (north), 5 sink -/
def gEx : FlowGrid := ⟨2, 3, [32, 64, 128, 16, 0, 1, 8, 4, 2], #[1, 1, 1, 128, 64, 0]⟩

example : WF gEx := ⟨by decide, by decide⟩
example : AllTerminate gEx (fuelOf (capOf gEx (-1))) := allTerminate_of_B (by decide)
example : NoCycle gEx := noCycle_of_allTerminate (allTerminate_of_B (fuel := 7) (by decide))
example : gEx.codes.length = 9 := rfl
example : validCell gEx.nrows gEx.ncols 1 = true ∧ 0 ≤ dn gEx 1 ∧ dn gEx 2 < 0 := by decide
example : gEx.flowdir[(3 : Int).toNat]? = some 128 ∧ gEx.codes[2]? = some 128 ∧ dn gEx 3 = 1 ∧
    neighbour gEx.nrows gEx.ncols 3 2 = 1 := by decide
/-- field 5, 1, 7, 2, 3, 4: cell 1 receives 5 + 1 + 2 + 3 = 11, cell 2 and 5 are terminal -/
example : accumulate gEx (-1) (-9999 : Int) #[5, 1, 7, 2, 3, 4] = .ok #[5, 11, -9999, 2, 3, -9999] := by decide
/-- the pinned kernel on the same input: cell 1 receives its own value once per upstream cell -/
example : cAccumulatePinned gEx 6 (-9999 : Int) #[5, 1, 7, 2, 3, 4] #[5, 1, 7, 2, 3, 4]
    = .ok #[5, 4, -9999, 2, 3, -9999] := by decide
/-- the headline theorem applies to the example grid: all its hypotheses hold together -/
example : ∃ acc, accumulate gEx (-1) (-9999 : Int) #[5, 1, 7, 2, 3, 4] = .ok acc ∧ acc.size = gEx.ntot.toNat ∧
    ∀ c : Int, validCell gEx.nrows gEx.ncols c = true →
      acc[c.toNat]? = some (if dn gEx c < 0 then -9999
        else ∑ u ∈ drainsThrough gEx c, (fun j => (#[5, 1, 7, 2, 3, 4] : Array Int)[j]?.getD 0) u) :=
  accumulate_acyclic_default ⟨by decide, by decide⟩ (by decide)
    (noCycle_of_allTerminate (allTerminate_of_B (fuel := 7) (by decide))) (-9999)
    (rep_self (#[5, 1, 7, 2, 3, 4] : Array Int) 0)
/-- wrapper on grid objects: result grid and unchanged field memory; a 3x2 field on the 2x3 grid is rejected -/
example : gridAccumulate gEx (-1 : Int) (some ⟨2, 3, #[5, 1, 7, 2, 3, 4], -9999⟩) (-1) =
    .ok (⟨#[5, 1, 7, 2, 3, 4], #[5, 11, -9999, 2, 3, -9999], false⟩, ⟨2, 3, #[5, 11, -9999, 2, 3, -9999], -9999⟩) := by
  decide
example : gridAccumulate gEx (-1 : Int) (some ⟨3, 2, #[5, 1, 7, 2, 3, 4], -9999⟩) 0 = .error .shape := by decide
/-- the same array passed as `to_accumulate` and `accumulation` on the chain 0 → 1 → 2 → 3 (sink): the field IS
altered and cell 2 holds 18 instead of 7 + 5 + 1 = 13, because the walk from cell 1 reads the value the walk from
cell 0 has already incremented — aliasing matters, so the wrapper's clone matters -/
example : (cAccumulateS ⟨1, 4, [32, 64, 128, 16, 0, 1, 8, 4, 2], #[1, 1, 1, 0]⟩ 4 (-9999 : Int)
      ⟨#[5, 1, 7, 0], #[], true⟩).map (·.field) = .ok #[5, 6, 18, -9999] ∧
    (cAccumulateS ⟨1, 4, [32, 64, 128, 16, 0, 1, 8, 4, 2], #[1, 1, 1, 0]⟩ 4 (-9999 : Int)
      ⟨#[5, 1, 7, 0], #[5, 1, 7, 0], false⟩).map (fun s => (s.field, s.acc))
      = .ok (#[5, 1, 7, 0], #[5, 6, 13, -9999]) := by decide
example : upClosure gEx 7 1 = [0, 1, 3, 4] ∧ directUpList gEx 1 = [0, 3, 4] := by decide
/-- a 2-cycle (cells 0 ⇄ 1) terminates at the cap -/
example : accumulate ⟨1, 2, [32, 64, 128, 16, 0, 1, 8, 4, 2], #[1, 16]⟩ (-1) (-1 : Int) #[1, 1] = .ok #[4, 4] := by
  decide

end HydroVerif.C11
