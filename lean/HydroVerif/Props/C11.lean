import HydroVerif.Model.C11

namespace HydroVerif.C11

/-- a limit below one is rejected before anything is written -/
theorem cAccumulate_badMaxCells {α : Type} [Add α] (g : FlowGrid) (m : Int) (nodata : α) (field acc0 : Array α)
    (h : m < 1) : cAccumulate g m nodata field acc0 = .error .badMaxCells := by
  unfold cAccumulate
  rw [if_pos h]

end HydroVerif.C11
