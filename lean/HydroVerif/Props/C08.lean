/-
C08 — property theorems (only). Model: `HydroVerif/Model/C08.lean`; vocabulary and loop invariants:
`HydroVerif/Lemmas/C08.lean`.

Vocabulary used in the statements (all defined in `Lemmas/C08.lean`, independent of the kernels' loops):
* `keys l`        the distinct index values in order of first appearance (`eraseDups` of the index column);
* `groupOf l k`   the inputs whose index is `k`, in order (`filter`);
* `vals g`, `nmiss g`  the non-missing values / the number of missing values of a group;
* `reduce op maxnan g` `none` (NaN) when `nmiss g > maxnan`, else `red op (vals g)` with
  `red 0 = sum`, `red 1 = sum / length`, `red 2 = List.maximum`, `red 3 = getLast` (0 for an empty list);
* `cell maxnan g x`    what flathomogen writes at an entry `x` of group `g`.
All theorems hold for every ordered field `α` (ℚ, ℝ, …), every list length, every operator / `maxnan` stated.
-/
import HydroVerif.Lemmas.C08
import Mathlib.Algebra.Order.Field.Rat

namespace HydroVerif.C08

section agg
set_option linter.unusedSectionVars false
variable {α : Type} [Field α] [LinearOrder α] [IsStrictOrderedRing α]

/-! ### what the specification vocabulary means -/

/-- distinct index values of a non-decreasing index come out strictly increasing … -/
theorem keys_strictly_increasing {β : Type} (l : List (Int × β))
    (hs : (l.map Prod.fst).Pairwise (· ≤ ·)) : (keys l).Pairwise (· < ·) := by
  unfold keys
  generalize hn : (l.map Prod.fst).length = n
  generalize l.map Prod.fst = xs at hs hn
  induction n using Nat.strong_induction_on generalizing xs with
  | _ n ih =>
    cases xs with
    | nil => simp
    | cons i tl =>
      rw [List.eraseDups_cons, List.pairwise_cons]
      rw [List.pairwise_cons] at hs
      constructor
      · intro b hb
        rw [List.mem_eraseDups, List.mem_filter] at hb
        have h1 := hs.1 b hb.1
        have h2 : b ≠ i := by simpa using hb.2
        omega
      · have hlen : (tl.filter fun b => !b == i).length < n := by
          have := List.length_filter_le (fun b => !b == i) tl
          simp only [List.length_cons] at hn
          omega
        exact ih _ hlen _ (hs.2.filter _) rfl

/-- … and are exactly the index values that occur: one key per distinct index value, in order -/
theorem mem_keys {β : Type} (l : List (Int × β)) (k : Int) : k ∈ keys l ↔ ∃ p ∈ l, p.1 = k := by
  simp [keys]

/-- the maximum operator's reduction is the greatest non-missing value -/
theorem red_max_spec (v : List α) (hv : v ≠ []) : red 2 v ∈ v ∧ ∀ x ∈ v, x ≤ red 2 v := by
  obtain ⟨m, hm⟩ := WithBot.ne_bot_iff_exists.mp (List.maximum_ne_bot_of_ne_nil hv)
  have h := List.maximum_eq_coe_iff.mp hm.symm
  have : red 2 v = m := by simp [red, ← hm]
  rw [this]; exact h

/-- the tail operator's reduction is the last non-missing value -/
theorem red_last_spec (v : List α) (hv : v ≠ []) : red 3 v = v.getLast hv := by
  simp [red, List.getLast?_eq_getLast_of_ne_nil hv]

/-- the mean operator's reduction times the number of non-missing values is their sum -/
theorem red_mean_spec (v : List α) (hv : v ≠ []) : red 1 v * (v.length : α) = v.sum := by
  have : (v.length : α) ≠ 0 := by
    have : 0 < v.length := List.length_pos_iff.mpr hv
    exact_mod_cast this.ne'
  simp [red, hv]

theorem red_sum_spec (v : List α) : red 0 v = v.sum := by simp [red]

/-! ### aggregate -/

/-- **aggregate reduces by group**: for a non-decreasing index, every operator 0..3 and every `maxnan`,
the result is one value per distinct index value, in order, equal to the reduction of the non-missing
inputs of that group, or NaN when the group holds more than `maxnan` missing values -/
theorem aggregate_spec (op maxnan : Int) (h0 : 0 ≤ op) (h3 : op ≤ 3) (l : List (Int × Option α))
    (hne : l ≠ []) (hs : (l.map Prod.fst).Pairwise (· ≤ ·)) :
    aggregate op maxnan l = .ok ((keys l).map fun k => reduce op maxnan (groupOf l k)) := by
  rw [aggregate_eq_groups op maxnan l hne hs, groups_eq l hs, List.map_map]
  congr 1
  apply List.map_congr_left
  intro k _
  simp [flush_accOf op maxnan h0 h3]

/-- an aggregation index that decreases anywhere is rejected with the decreasing-index error … -/
theorem aggregate_rejects_decreasing (op maxnan : Int) (l : List (Int × Option α)) (hne : l ≠ [])
    (hs : ¬ (l.map Prod.fst).Pairwise (· ≤ ·)) :
    aggregate op maxnan l = .error .decreasingIndex :=
  aggregate_err op maxnan l hne hs

/-- … and nothing else is: on length ≥ 1 the call succeeds iff the index is non-decreasing
(in particular the `count >= nval` guard of the kernel can never fire) -/
theorem aggregate_ok_iff (op maxnan : Int) (l : List (Int × Option α)) (hne : l ≠ []) :
    (∃ out, aggregate op maxnan l = .ok out) ↔ (l.map Prod.fst).Pairwise (· ≤ ·) := by
  constructor
  · rintro ⟨out, h⟩
    by_contra hs
    rw [aggregate_err op maxnan l hne hs] at h
    cases h
  · intro hs
    exact ⟨_, aggregate_eq_groups op maxnan l hne hs⟩

/-- "decreases anywhere" = some element is smaller than its predecessor -/
theorem not_sorted_iff_adjacent_decrease (xs : List Int) :
    ¬ xs.Pairwise (· ≤ ·) ↔ ∃ i, ∃ h : i + 1 < xs.length, xs[i + 1] < xs[i] := by
  induction xs with
  | nil => simp
  | cons a tl ih =>
    cases tl with
    | nil => simp
    | cons b r =>
      have hpw : (a :: b :: r).Pairwise (· ≤ ·) ↔ a ≤ b ∧ (b :: r).Pairwise (· ≤ ·) := by
        rw [List.pairwise_cons]
        constructor
        · rintro ⟨h1, h2⟩; exact ⟨h1 b (List.mem_cons_self ..), h2⟩
        · rintro ⟨h1, h2⟩
          refine ⟨?_, h2⟩
          intro c hc
          rcases List.mem_cons.mp hc with rfl | hc
          · exact h1
          · exact le_trans h1 ((List.pairwise_cons.mp h2).1 c hc)
      rw [hpw, not_and_or, ih]
      constructor
      · rintro (h | ⟨i, hi, hlt⟩)
        · exact ⟨0, by simp, by simpa using h⟩
        · exact ⟨i + 1, by simpa using hi, by simpa using hlt⟩
      · rintro ⟨i, hi, hlt⟩
        cases i with
        | zero => left; simpa using hlt
        | succ j => right; exact ⟨j, by simpa using hi, by simpa using hlt⟩

/-- the number of outputs is the number of distinct index values (any operator value, any `maxnan`) -/
theorem aggregate_length (op maxnan : Int) (l : List (Int × Option α)) (out : List (Option α))
    (hs : (l.map Prod.fst).Pairwise (· ≤ ·)) (h : aggregate op maxnan l = .ok out) :
    out.length = (keys l).length := by
  have hne : l ≠ [] := by rintro rfl; simp [aggregate] at h
  rw [aggregate_eq_groups op maxnan l hne hs, groups_eq l hs] at h
  cases h
  simp

/-- the groups partition the input: concatenated in key order they give back the input column -/
theorem groups_partition (l : List (Int × Option α)) (hs : (l.map Prod.fst).Pairwise (· ≤ ·)) :
    (keys l).flatMap (groupOf l) = l.map Prod.snd := by
  have := groups_flatten l
  rw [groups_eq l hs] at this
  simpa [List.flatMap_map] using this

/-- **totals are conserved**: when no group is flushed to NaN the aggregated sums add up to the sum of
the non-missing inputs -/
theorem aggregate_sum_conserved (maxnan : Int) (l : List (Int × Option α)) (out : List (Option α))
    (hs : (l.map Prod.fst).Pairwise (· ≤ ·)) (h : aggregate 0 maxnan l = .ok out)
    (hall : ∀ o ∈ out, o ≠ none) : (vals out).sum = (vals (l.map Prod.snd)).sum := by
  have hne : l ≠ [] := by rintro rfl; simp [aggregate] at h
  rw [aggregate_spec 0 maxnan le_rfl (by norm_num) l hne hs] at h
  cases h
  rw [← groups_partition l hs, vals_flatMap, sum_flatMap]
  congr 1
  have hk : ∀ k ∈ keys l, reduce 0 maxnan (groupOf l k) = some ((vals (groupOf l k)).sum) := by
    intro k hk
    have := hall (reduce 0 maxnan (groupOf l k)) (List.mem_map.mpr ⟨k, hk, rfl⟩)
    unfold reduce at this ⊢
    split
    · rename_i hlt; simp [hlt] at this
    · simp [red]
  generalize keys l = ks at hk
  induction ks with
  | nil => simp [vals]
  | cons k t ih =>
    have h1 := hk k (List.mem_cons_self ..)
    have h2 := ih fun k' hk' => hk k' (List.mem_cons_of_mem _ hk')
    simp only [List.map_cons, vals, List.filterMap_cons, h1, id] at h2 ⊢
    rw [h2]

/-- totals in general: the non-NaN outputs add up to the non-missing inputs of exactly the groups that are
not flushed (those holding at most `maxnan` missing values) -/
theorem aggregate_sum_conserved_general (maxnan : Int) (l : List (Int × Option α)) (out : List (Option α))
    (hs : (l.map Prod.fst).Pairwise (· ≤ ·)) (h : aggregate 0 maxnan l = .ok out) :
    (vals out).sum =
      (vals ((l.filter fun p => decide ((nmiss (groupOf l p.1) : Int) ≤ maxnan)).map Prod.snd)).sum := by
  have hne : l ≠ [] := by rintro rfl; simp [aggregate] at h
  rw [aggregate_spec 0 maxnan le_rfl (by norm_num) l hne hs] at h
  cases h
  have hl : (keys l).flatMap (fun k => (groupOf l k).map fun x => (k, x)) = l := by
    have := groups_keyed l
    rw [groups_eq l hs] at this
    simpa [List.flatMap_map] using this
  generalize hP : (fun k : Int => decide ((nmiss (groupOf l k) : Int) ≤ maxnan)) = P
  have hfil : (fun p : Int × Option α => decide ((nmiss (groupOf l p.1) : Int) ≤ maxnan)) = fun p => P p.1 := by
    subst hP; rfl
  rw [hfil]
  have hred : ∀ k, reduce 0 maxnan (groupOf l k) = if P k then some ((vals (groupOf l k)).sum) else none := by
    intro k
    subst hP
    unfold reduce
    by_cases hk : maxnan < (nmiss (groupOf l k) : Int)
    · have : ¬ ((nmiss (groupOf l k) : Int) ≤ maxnan) := by omega
      simp [hk, this]
    · have : ((nmiss (groupOf l k) : Int) ≤ maxnan) := by omega
      simp [hk, this, red]
  have hG := congrArg (fun l' : List (Int × Option α) => (l'.filter fun p => P p.1).map Prod.snd) hl
  rw [← hG]
  generalize groupOf l = g at hred
  generalize keys l = ks
  induction ks with
  | nil => simp [vals]
  | cons k t ih =>
    simp only [List.map_cons, List.flatMap_cons, List.filter_append, List.map_append]
    have hv : ∀ (a b : List (Option α)), vals (a ++ b) = vals a ++ vals b := by
      intro a b; simp [vals, List.filterMap_append]
    rw [hv, List.sum_append, ← ih]
    have hhead : ((List.map (fun x => (k, x)) (g k)).filter fun p => P p.1).map Prod.snd =
        if P k then g k else [] := by
      by_cases hk : P k = true
      · simp [hk, List.filter_map, Function.comp_def]
      · simp [hk, List.filter_map, Function.comp_def]
    rw [hhead, hred k]
    by_cases hk : P k = true
    · simp [hk, vals]
    · simp [hk, vals]

/-- no group is flushed once `maxnan` is at least the total number of missing inputs -/
theorem aggregate_sum_conserved_of_maxnan_ge (maxnan : Int) (l : List (Int × Option α))
    (hne : l ≠ []) (hs : (l.map Prod.fst).Pairwise (· ≤ ·))
    (hm : (nmiss (l.map Prod.snd) : Int) ≤ maxnan) :
    ∃ out, aggregate 0 maxnan l = .ok out ∧ (∀ o ∈ out, o ≠ none) ∧
      (vals out).sum = (vals (l.map Prod.snd)).sum := by
  have h := aggregate_spec 0 maxnan le_rfl (by norm_num) l hne hs
  refine ⟨_, h, ?_, ?_⟩
  · intro o ho
    obtain ⟨k, _, rfl⟩ := List.mem_map.mp ho
    have hsub : (groupOf l k).Sublist (l.map Prod.snd) := by
      unfold groupOf
      exact (List.filter_sublist).map _
    have hle : nmiss (groupOf l k) ≤ nmiss (l.map Prod.snd) := hsub.countP_le
    have : ¬ maxnan < (nmiss (groupOf l k) : Int) := by omega
    simp [reduce, this]
  · apply aggregate_sum_conserved maxnan l _ hs h
    intro o ho
    obtain ⟨k, _, rfl⟩ := List.mem_map.mp ho
    have hsub : (groupOf l k).Sublist (l.map Prod.snd) := by
      unfold groupOf
      exact (List.filter_sublist).map _
    have hle : nmiss (groupOf l k) ≤ nmiss (l.map Prod.snd) := hsub.countP_le
    have : ¬ maxnan < (nmiss (groupOf l k) : Int) := by omega
    simp [reduce, this]

/-! ### flathomogen -/

/-- **flathomogen**: for a non-decreasing index, every entry is rewritten from its own group only —
missing stays missing, a non-missing entry becomes the mean of the non-missing values of its group
(NaN when the group holds more than `maxnan` missing values) -/
theorem flathomogen_spec (maxnan : Int) (l : List (Int × Option α)) (hne : l ≠ [])
    (hs : (l.map Prod.fst).Pairwise (· ≤ ·)) :
    flathomogen maxnan l = .ok (l.map fun p => cell maxnan (groupOf l p.1) p.2) := by
  rw [flathomogen_eq_groups maxnan l hne hs]
  congr 1
  have hl := groups_keyed l
  have hmap := congrArg (List.map fun p : Int × Option α => cell maxnan (groupOf l p.1) p.2) hl
  rw [← hmap, groups_eq l hs]
  simp only [List.flatMap_map, List.map_flatMap, List.map_map, hcells_eq]
  rfl

theorem flathomogen_rejects_decreasing (maxnan : Int) (l : List (Int × Option α)) (hne : l ≠ [])
    (hs : ¬ (l.map Prod.fst).Pairwise (· ≤ ·)) :
    flathomogen maxnan l = .error .decreasingIndex :=
  flathomogen_err maxnan l hne hs

theorem flathomogen_ok_iff (maxnan : Int) (l : List (Int × Option α)) (hne : l ≠ []) :
    (∃ out, flathomogen maxnan l = .ok out) ↔ (l.map Prod.fst).Pairwise (· ≤ ·) := by
  constructor
  · rintro ⟨out, h⟩
    by_contra hs
    rw [flathomogen_err maxnan l hne hs] at h
    cases h
  · intro hs
    exact ⟨_, flathomogen_eq_groups maxnan l hne hs⟩

/-- same length; missing entries stay missing; within the NaN budget non-missing entries become the group mean -/
theorem flathomogen_pointwise (maxnan : Int) (l : List (Int × Option α)) (out : List (Option α))
    (hs : (l.map Prod.fst).Pairwise (· ≤ ·)) (h : flathomogen maxnan l = .ok out) :
    out.length = l.length ∧
    ∀ (i : Nat) (hi : i < l.length) (ho : i < out.length),
      (l[i].2 = none → out[i] = none) ∧
      (∀ v, l[i].2 = some v → (nmiss (groupOf l l[i].1) : Int) ≤ maxnan →
        out[i] = some ((vals (groupOf l l[i].1)).sum / ((vals (groupOf l l[i].1)).length : α))) := by
  have hne : l ≠ [] := by rintro rfl; simp [flathomogen] at h
  rw [flathomogen_spec maxnan l hne hs] at h
  cases h
  refine ⟨by simp, ?_⟩
  intro i hi ho
  simp only [List.getElem_map]
  constructor
  · intro hx; simp [cell, hx]
  · intro v hx hm
    have : ¬ maxnan < (nmiss (groupOf l l[i].1) : Int) := by omega
    simp [cell, hx, this]

/-- **flathomogen preserves each group's total** (groups within the NaN budget): the non-missing outputs
of a group add up to the non-missing inputs of that group -/
theorem flathomogen_group_total (maxnan : Int) (l : List (Int × Option α)) (out : List (Option α))
    (hs : (l.map Prod.fst).Pairwise (· ≤ ·)) (h : flathomogen maxnan l = .ok out) (k : Int)
    (hm : (nmiss (groupOf l k) : Int) ≤ maxnan) :
    (vals (groupOf ((l.map Prod.fst).zip out) k)).sum = (vals (groupOf l k)).sum := by
  have hne : l ≠ [] := by rintro rfl; simp [flathomogen] at h
  rw [flathomogen_spec maxnan l hne hs] at h
  cases h
  have hzip : (l.map Prod.fst).zip (l.map fun p => cell maxnan (groupOf l p.1) p.2) =
      l.map fun p => (p.1, cell maxnan (groupOf l p.1) p.2) := by
    rw [List.zip_map']
  have hgrp : groupOf (l.map fun p => (p.1, cell maxnan (groupOf l p.1) p.2)) k =
      (groupOf l k).map (cell maxnan (groupOf l k)) := by
    unfold groupOf
    rw [List.filter_map, List.map_map, List.map_map]
    apply List.map_congr_left
    intro p hp
    have : p.1 = k := by simpa using (List.mem_filter.mp hp).2
    simp [this]
  rw [hzip, hgrp]
  have hnot : ¬ maxnan < (nmiss (groupOf l k) : Int) := by omega
  generalize hg : groupOf l k = g at hnot
  -- the non-missing outputs are `length (vals g)` copies of the mean
  have hv : vals (g.map (cell maxnan g)) =
      List.replicate (vals g).length ((vals g).sum / ((vals g).length : α)) := by
    have : ∀ (m : α) (g' : List (Option α)),
        vals (g'.map fun x => match x with | none => none | some _ => some m) =
        List.replicate (vals g').length m := by
      intro m g'
      induction g' with
      | nil => simp [vals]
      | cons x t ih =>
        cases x with
        | none => simpa [vals] using ih
        | some v =>
          simp only [vals, List.map_cons, List.filterMap_cons, id, List.length_cons,
            List.replicate_succ] at ih ⊢
          rw [ih]
    have hc : (cell maxnan g) = fun x => match x with
        | none => none
        | some _ => some ((vals g).sum / ((vals g).length : α)) := by
      funext x
      cases x <;> simp [cell, hnot]
    rw [hc, this]
  rw [hv, List.sum_replicate, nsmul_eq_mul]
  by_cases hz : (vals g).length = 0
  · have : vals g = [] := List.length_eq_zero_iff.mp hz
    simp [this]
  · have : ((vals g).length : α) ≠ 0 := by exact_mod_cast hz
    field_simp

end agg

/-! ### any carrier (in particular IEEE doubles): the grouping structure does not depend on arithmetic laws -/
section anycarrier
set_option linter.unusedSectionVars false
variable {β : Type} [Add β] [Div β] [LT β] [DecidableLT β] [OfNat β 0] [NatCast β]

/-- over ANY carrier with the kernel's operations (no algebraic law assumed — this covers floating point):
one output per distinct index value, in order, each computed from its own group alone by the kernel's
left-to-right running reduction `accOf` and `flush`; every operator value, every `maxnan` -/
theorem aggregate_per_group_any_carrier (op maxnan : Int) (l : List (Int × Option β)) (hne : l ≠ [])
    (hs : (l.map Prod.fst).Pairwise (· ≤ ·)) :
    aggregate op maxnan l = .ok ((keys l).map fun k => flush op maxnan (accOf op (groupOf l k))) := by
  rw [aggregate_eq_groups op maxnan l hne hs, groups_eq l hs, List.map_map]
  rfl

theorem aggregate_rejects_decreasing_any_carrier (op maxnan : Int) (l : List (Int × Option β)) (hne : l ≠ [])
    (hs : ¬ (l.map Prod.fst).Pairwise (· ≤ ·)) :
    aggregate op maxnan l = .error .decreasingIndex :=
  aggregate_err op maxnan l hne hs

/-- flathomogen over any carrier: entry by entry, from its own group alone -/
theorem flathomogen_per_group_any_carrier (maxnan : Int) (l : List (Int × Option β)) (hne : l ≠ [])
    (hs : (l.map Prod.fst).Pairwise (· ≤ ·)) :
    flathomogen maxnan l = .ok ((keys l).flatMap fun k => hcells maxnan (groupOf l k)) := by
  rw [flathomogen_eq_groups maxnan l hne hs, groups_eq l hs, List.flatMap_map]

theorem flathomogen_rejects_decreasing_any_carrier (maxnan : Int) (l : List (Int × Option β)) (hne : l ≠ [])
    (hs : ¬ (l.map Prod.fst).Pairwise (· ≤ ·)) :
    flathomogen maxnan l = .error .decreasingIndex :=
  flathomogen_err maxnan l hne hs

end anycarrier

/-! ### calendar -/

/-- every month of the series is a valid month with 28..31 days -/
theorem ndaysAt_range (y0 : Int) (m0 j : Nat) : 28 ≤ ndaysAt y0 m0 j ∧ ndaysAt y0 m0 j ≤ 31 := by
  have h := monthAt_month_valid y0 m0 j
  exact daysInMonth_range (monthAt y0 m0 j).1 (monthAt y0 m0 j).2 h.1 h.2

/-- the series starts in the requested month … -/
theorem monthAt_zero (y0 : Int) (m0 : Nat) (h1 : 1 ≤ m0) (h12 : m0 ≤ 12) : monthAt y0 m0 0 = (y0, m0) := by
  simp only [monthAt, Nat.add_zero]
  have h1 : (m0 - 1) / 12 = 0 := by omega
  have h2 : (m0 - 1) % 12 + 1 = m0 := by omega
  simp [h1, h2]

/-- … and walks through consecutive calendar months: December is followed by January of the next year -/
theorem monthAt_succ (y0 : Int) (m0 j : Nat) :
    monthAt y0 m0 (j + 1) =
      if (monthAt y0 m0 j).2 = 12 then ((monthAt y0 m0 j).1 + 1, 1)
      else ((monthAt y0 m0 j).1, (monthAt y0 m0 j).2 + 1) := by
  by_cases h : (monthAt y0 m0 j).2 = 12
  · rw [if_pos h]
    simp only [monthAt] at h ⊢
    have h1 : (m0 - 1 + (j + 1)) / 12 = (m0 - 1 + j) / 12 + 1 := by omega
    have h2 : (m0 - 1 + (j + 1)) % 12 = 0 := by omega
    rw [h1, h2]; push_cast; simp; ring
  · rw [if_neg h]
    simp only [monthAt] at h ⊢
    have h1 : (m0 - 1 + (j + 1)) / 12 = (m0 - 1 + j) / 12 := by omega
    have h2 : (m0 - 1 + (j + 1)) % 12 = (m0 - 1 + j) % 12 + 1 := by omega
    rw [h1, h2]

/-- a year has 365 days, 366 in a leap year -/
theorem days_in_year (y : Int) :
    ((List.range 12).map fun m => daysInMonth y (m + 1)).sum = if isLeap y then 366 else 365 := by
  cases h : isLeap y <;> simp [List.range, List.range.loop, daysInMonth, h]

/-- the Gregorian leap rule: every 4th year, except centuries not divisible by 400 -/
theorem isLeap_iff (y : Int) : isLeap y = true ↔ (y % 4 = 0 ∧ (y % 100 ≠ 0 ∨ y % 400 = 0)) := by
  simp [isLeap]

/-! ### monthly2daily -/
section m2d
set_option linter.unusedSectionVars false
variable {α : Type} [Field α] [LinearOrder α] [IsStrictOrderedRing α]

/-- flat, one month: a non-negative monthly value is spread evenly, nothing is masked, the days add up to it -/
theorem flatMonth_spec (v : α) (hv : 0 ≤ v) (n : Nat) (hn : 0 < n) :
    flatMonth 0 (some v) n = List.replicate n (some (v / (n : α))) ∧
      (vals (flatMonth 0 (some v) n)).sum = v := by
  have hn' : (0 : α) < (n : α) := by exact_mod_cast hn
  have hd : ¬ v / (n : α) < 0 := not_lt.mpr (div_nonneg hv hn'.le)
  have h1 : flatMonth 0 (some v) n = List.replicate n (some (v / (n : α))) := by
    simp [flatMonth, hd]
  refine ⟨h1, ?_⟩
  rw [h1]
  have : vals (List.replicate n (some (v / (n : α)))) = List.replicate n (v / (n : α)) := by
    induction n with
    | zero => simp [vals]
    | succ k ih => simp [vals, List.replicate_succ]
  rw [this, List.sum_replicate, nsmul_eq_mul]
  field_simp

/-- **monthly2daily, flat**: a complete non-negative month-start series gives, month by month, one value per
calendar day of that month, none missing, adding up to the monthly input -/
theorem m2dFlat_spec (y0 : Int) (m0 : Nat) (h1 : 1 ≤ m0) (h12 : m0 ≤ 12) (ys : List α) (hne : ys ≠ [])
    (hpos : ∀ y ∈ ys, 0 ≤ y) :
    ∃ months, m2dFlat y0 m0 0 (ys.map some) = .ok months ∧ months.length = ys.length ∧
      ∀ (j : Nat) (hj : j < ys.length) (hj' : j < months.length),
        months[j].length = ndaysAt y0 m0 j ∧ (∀ o ∈ months[j], o ≠ none) ∧
        (vals months[j]).sum = ys[j] := by
  have hm : ¬ (m0 < 1 ∨ 12 < m0) := by omega
  have hrun : m2dFlat y0 m0 (0 : α) (ys.map some) =
      .ok (List.zipWith (flatMonth 0) (ys.map some) (monthLengths y0 m0 (ys.map some).length)) := by
    unfold m2dFlat
    rw [if_neg hm, if_neg (by simpa using hne)]
  refine ⟨_, hrun, by simp [monthLengths_length], ?_⟩
  intro j hj hj'
  have hy := hpos ys[j] (List.getElem_mem hj)
  have hn := ndaysAt_pos y0 m0 j
  obtain ⟨e1, e2⟩ := flatMonth_spec ys[j] hy (ndaysAt y0 m0 j) hn
  simp only [List.getElem_zipWith, List.getElem_map, List.length_map, monthLengths_getElem]
  refine ⟨by rw [e1]; simp, ?_, e2⟩
  rw [e1]
  intro o ho
  rw [List.mem_replicate] at ho
  rw [ho.2]; simp

/-- cubic, one month: one value per day, and the daily differences of the cumulative cubic telescope to the
monthly value — for ANY derivative constraints `c1`, `c2` -/
theorem cubicMonth_spec (m : Month α) (hn : 0 < m.n) :
    (cubicMonth m).length = m.n ∧ (cubicMonth m).sum = m.y := by
  refine ⟨by simp [cubicMonth], ?_⟩
  unfold cubicMonth
  rw [sum_range_diff (cum m) m.n, cum_end m hn, cum_zero]
  ring

/-- **monthly2daily, cubic**: every month-start series (any values) gives, month by month, one value per
calendar day of that month adding up to the monthly input -/
theorem m2dCubic_spec (y0 : Int) (m0 : Nat) (h1 : 1 ≤ m0) (h12 : m0 ≤ 12) (ys : List α) (hne : ys ≠ []) :
    ∃ months, m2dCubic y0 m0 ys = .ok months ∧ months.length = ys.length ∧
      ∀ (j : Nat) (hj : j < ys.length) (hj' : j < months.length),
        months[j].length = ndaysAt y0 m0 j ∧ months[j].sum = ys[j] := by
  have hm : ¬ (m0 < 1 ∨ 12 < m0) := by omega
  have hlen : ys.length = (monthLengths y0 m0 ys.length).length := by simp [monthLengths_length]
  have hyn : (sweep (cubicInit ys (monthLengths y0 m0 ys.length))).map (fun m => (m.y, m.n)) =
      ys.zip (monthLengths y0 m0 ys.length) := by
    rw [sweep_yn, cubicInit_yn ys _ hlen]
  have hl : (sweep (cubicInit ys (monthLengths y0 m0 ys.length))).length = ys.length := by
    have := congrArg List.length hyn
    simpa [monthLengths_length] using this
  have hrun : m2dCubic y0 m0 ys =
      .ok ((sweep (cubicInit ys (monthLengths y0 m0 ys.length))).map cubicMonth) := by
    unfold m2dCubic
    rw [if_neg hm, if_neg hne]
  refine ⟨_, hrun, by simp [hl], ?_⟩
  intro j hj hj'
  simp only [List.getElem_map]
  have hj2 : j < (sweep (cubicInit ys (monthLengths y0 m0 ys.length))).length := by omega
  have hel := congrArg (fun l => l[j]?) hyn
  simp only [List.getElem?_map, List.getElem?_eq_getElem hj2, Option.map_some] at hel
  rw [List.getElem?_eq_getElem (by simp [monthLengths_length]; exact hj)] at hel
  simp only [List.getElem_zip, monthLengths_getElem, Option.some.injEq, Prod.mk.injEq] at hel
  obtain ⟨ey, en⟩ := hel
  have hn : 0 < (sweep (cubicInit ys (monthLengths y0 m0 ys.length)))[j].n := by
    rw [en]; exact ndaysAt_pos y0 m0 j
  obtain ⟨e1, e2⟩ := cubicMonth_spec _ hn
  exact ⟨by rw [e1, en], by rw [e2, ey]⟩

end m2d

/-! ### non-vacuity: the hypotheses are met by concrete non-trivial inputs (evaluated over ℚ) -/

-- a non-empty, non-decreasing index with negative values, a NaN inside and at the end of a group
example : ([(1, some (-3)), (1, none), (1, some (-1)), (2, some 5), (2, none)] : List (Int × Option ℚ)) ≠ [] ∧
    (([(1, some (-3)), (1, none), (1, some (-1)), (2, some 5), (2, none)] : List (Int × Option ℚ)).map
      Prod.fst).Pairwise (· ≤ ·) := by decide +kernel
-- sum, mean, max, tail on it with maxnan = 1; maxnan = 0 flushes both groups to NaN
example : aggregate (α := ℚ) 0 1 [(1, some (-3)), (1, none), (1, some (-1)), (2, some 5), (2, none)]
    = .ok [some (-4), some 5] := by decide +kernel
example : aggregate (α := ℚ) 1 1 [(1, some (-3)), (1, none), (1, some (-1)), (2, some 5), (2, none)]
    = .ok [some (-2), some 5] := by decide +kernel
example : aggregate (α := ℚ) 2 1 [(1, some (-3)), (1, none), (1, some (-1)), (2, some 5), (2, none)]
    = .ok [some (-1), some 5] := by decide +kernel
example : aggregate (α := ℚ) 3 1 [(1, some (-3)), (1, none), (1, some (-1)), (2, some 5), (2, none)]
    = .ok [some (-1), some 5] := by decide +kernel
example : aggregate (α := ℚ) 3 0 [(1, some (-3)), (1, none), (1, some (-1)), (2, some 5), (2, none)]
    = .ok [none, none] := by decide +kernel
example : keys ([(1, some (-3)), (1, none), (1, some (-1)), (2, some 5), (2, none)] : List (Int × Option ℚ))
    = [1, 2] := by decide +kernel
-- a decreasing index exists and is rejected
example : ¬ (([(2, some 1), (1, some 2)] : List (Int × Option ℚ)).map Prod.fst).Pairwise (· ≤ ·) := by decide +kernel
example : aggregate (α := ℚ) 0 0 [(2, some 1), (1, some 2)] = .error .decreasingIndex := by decide +kernel
example : flathomogen (α := ℚ) 0 [(2, some 1), (1, some 2)] = .error .decreasingIndex := by decide +kernel
-- flathomogen: group means, missing kept, totals 1 and 8 preserved
example : flathomogen (α := ℚ) 1 [(1, some 1), (1, none), (2, some 3), (2, some 5)]
    = .ok [some 1, none, some 4, some 4] := by decide +kernel
-- monthly2daily: February of a leap year then March; each month adds up to its input
example : m2dFlat (α := ℚ) 2024 2 0 [some 29, some 62]
    = .ok [List.replicate 29 (some 1), List.replicate 31 (some 2)] := by decide +kernel
example : (match m2dCubic (α := ℚ) 1900 2 [28, 62] with
    | .ok ms => ms.map fun d => (d.length, d.sum)
    | .error _ => []) = [(28, 28), (31, 62)] := by decide +kernel
example : ndaysAt 2100 2 0 = 28 ∧ ndaysAt 2000 2 0 = 29 ∧ ndaysAt 1999 12 1 = 31 ∧
    monthAt 1999 12 1 = (2000, 1) := by decide +kernel

end HydroVerif.C08
