/-
C08 — property theorems (only). Model: `HydroVerif/Model/C08.lean`; specification vocabulary (Mathlib-free, executed by
the driver): `HydroVerif/Model/C08Spec.lean`; loop invariants and helper lemmas: `HydroVerif/Lemmas/C08.lean`,
`C08Buf.lean` (buffers, histories), `C08Cal.lean` (calendar days, daily Series), `C08Round.lean` (rounding).
Every theorem is followed by an `example` applying it to (or evaluating the model on) a concrete non-trivial input over ℚ
(or over the round-down arithmetic `Fl floorRounding`), so no hypothesis is vacuous. Every model function AND every
specification function named below runs in the driver and is compared with the real code (requests `agg`, `aggspec`,
`aggbuf`, `aggw`, `aggwb`, `aggwf`, `pyxagg`, `homog`, `homogspec`, `homogbuf`, `homogw`, `homogwb`, `pyxhomog`, `hist`,
`aggindex`, `stampinfo`, `m2d`, `m2ds` of harness/c08.py).

Vocabulary used in the statements (defined in `Model/C08Spec.lean`, independent of the kernels' loops):
* `keys l`        the distinct index values in order of first appearance (`eraseDups` of the index column);
* `groupOf l k`   the inputs whose index is `k`, in order (`filter`);
* `vals g`, `nmiss g`  the non-missing values / the number of missing values of a group;
* `reduce op maxnan g` `none` (NaN) when `nmiss g > maxnan`, else `red op (vals g)` with
  `red 0 = sumL` (sum from the left), `red 1 = sumL / length`, `red 2 = maxOf`, `red 3 = getLast` (0 for an empty list);
  over an ordered field `sumL = List.sum` and `maxOf = List.maximum` (`red_sum_spec`, `red_max_spec`, Lemmas `red_eq`);
* `cell maxnan g x`    what flathomogen writes at an entry `x` of group `g`;
* `aggregateSpec`, `aggregatePerGroup`, `flathomogenSpec`, `flathomogenPerGroup`  the right-hand sides as functions.
Field theorems hold for every ordered field `α` (ℚ, ℝ, …); `_any_carrier` theorems assume no arithmetic law at all;
`_of_add_zero` theorems assume only `x + 0 = x`; `_rounded` / `rounded_*` theorems are over `Fl R`, the representable
numbers of a monotone idempotent rounding `R.rnd` with `rnd 0 = 0` (`a + b := rnd (a + b)` …) — true of IEEE doubles.

Clause → theorems → what stays outside
| clause of the property | theorems | outside (trusted / compared only) |
|---|---|---|
| non-decreasing index, any input: one value per distinct index value, in order | `aggregate_spec`, `aggregate_spec_of_add_zero`, `aggregate_spec_rounded`, `keys_strictly_increasing`, `mem_keys`, `aggregate_length`, `groups_partition`, `aggregate_per_group(_any_carrier)`, `aggregate_ok_iff`; in the caller's buffers `cAggregate_on_nondecreasing` (`iend` = number of keys, tail untouched); through the wrapper `aggregateW_eq_aggregate`, `aggregateW_spec`, `aggregateWB_eq_aggregateW`, `wrap32_id`; from time stamps `aggIndex_nondecreasing`, `computeAggindex_nondecreasing`, `aggregateW_on_time_index`, `aggregateW_on_compute_aggindex`; float index `aggregateWF_accepts_nondecreasing` | numpy `astype` / Cython buffer acquisition (compared bit-exact) |
| … equal to the sum, mean, maximum or last value of the non-missing inputs of the group | `aggregate_spec` + `red_sum_spec`, `red_mean_spec`, `red_max_spec`, `red_last_spec`; exact in floating point: `aggregate_spec_max_tail_any_carrier`, `maxOf_spec_linear_order`, `flush_tail_any_carrier`; rounded sum / mean: `rounded_sum_nonneg_dominates`, `rounded_mean_nonneg`, `rounded_sum_mono`, `rounded_sum_exact`, `rounded_sum_error_bound`, `rounded_sum_error_budget` | overflow to ±inf (executed, not modelled); all-missing groups reduce to 0 (only the sum is constrained there) |
| … or NaN when the group holds more than maxnan missing values; maxnan 0 … beyond the length | `reduce_eq_none_iff`, `flush_isNone_any_carrier`, `aggregate_never_nan_of_maxnan_ge_length`, `aggregate_all_nan_of_negative_maxnan` | — |
| operators 0..3 | `aggregate_spec`; outside the range: `aggregate_negative_operator_is_sum`, `aggregate_operator_above_3_is_zero`, `wrappers_reject_non_int32_arguments` | codes outside 0..3 accepted by the code, not constrained |
| flathomogen: non-missing ↦ group mean, missing kept | `flathomogen_spec`, `flathomogen_spec_of_add_zero`, `flathomogen_spec_rounded`, `flathomogen_pointwise`, `flathomogen_per_group_any_carrier`, `flathomogenW_eq_flathomogen`, `flathomogenWB_eq_flathomogenW`, `cFlathomogen_on_nondecreasing`, `flathomogen_ok_iff` | groups beyond maxnan are all-NaN (text silent; counter-`example` after `flatMonth_negative_masked`) |
| aggregated sums add up to the sum of the inputs | `aggregate_sum_conserved`, `aggregate_sum_conserved_general`, `aggregate_sum_conserved_of_maxnan_ge`; up to rounding `rounded_totals_conserved_within` | overflow |
| flathomogen preserves each group's total | `flathomogen_group_total` | rounding |
| monthly2daily (flat or cubic): one value per calendar day, monthly sums = inputs | per month: `m2d_spec`, `m2dFlat_spec`, `flatMonth_spec`, `m2dCubic_spec`, `cubicMonth_spec`; the returned daily Series with its day stamps: `m2dSeries_eq_stamped`, `m2dSeries_spec`, `daysFrom_covers_months`, `nextDay_spec`; calendar `ndaysAt_range`, `monthAt_zero`, `monthAt_succ`, `days_in_year`, `isLeap_iff`; why non-negative: `flatMonth_negative_masked` | pandas `date_range` / `resample` / `days_in_month` agree with the model's Gregorian calendar (compared stamp by stamp on every series; oracle uses python `calendar`), `np.dot`/`polyval` rounding |
| a decreasing index is rejected with an error | `aggregate_rejects_decreasing`, `flathomogen_rejects_decreasing`, `*_ok_iff`, `not_sorted_iff_adjacent_decrease`, `*_rejects_decreasing_any_carrier`; in the buffers `cAggregate_on_error`, `cFlathomogen_on_error` (`iend` untouched, tail untouched) | code → ValueError translation (compared) |
| histories on one set of arrays (the harness's history stream) | `histRun_arguments`, `histRun_answer`, `histStep_rejected_changes_nothing`, `histStep_keeps_earlier_results`, `histRun_call_repeatable` | numpy copies (`astype`, `0.*inputs`) are what makes the model's purity true: compared by replaying whole histories |
| glue outside the quantifier | `wrappers_reject_length_mismatch`, `kernels_reject_empty`, `pyx_rejects_mismatched_buffers`, `wrap32_range`, `castIdx_mono`, `castIdx_intCast`, `aggregateWF_on_integer_valued_index`, `parseStep_accepts`, `parseStep_ASm_range`, `chrono_iff_pairwise`, `aggIndex_mono`, `aggIndex_*_eq_iff`, `aggIndex_ASm`, `aggIndexRaw_fits_int32`, `aggIndex_fits_int32`, `aggIndex_H_wraps_beyond_2147`, `m2d_rejects_other_interpolation` | list / Series / 2-D inputs (numpy conversion, Cython buffer checks) not modelled; a float index beyond int32 / NaN casts to INT_MIN on x86-64 (modelled as such, platform behaviour) |
Nothing is left as `_statement` / `_partial`.
-/
import HydroVerif.Lemmas.C08
import HydroVerif.Lemmas.C08Buf
import HydroVerif.Lemmas.C08Cal
import HydroVerif.Lemmas.C08Round
import Mathlib.Algebra.Order.Field.Rat
import Mathlib.Data.Rat.Floor

namespace HydroVerif.C08

/-- sample input of the `example`s: negative values, a NaN inside a group and at the end of a group -/
local notation "ℓ₀" => ([(1, some (-3)), (1, none), (1, some (-1)), (2, some 5), (2, none)] : List (Int × Option ℚ))

section agg
set_option linter.unusedSectionVars false
variable {α : Type} [Field α] [LinearOrder α] [IsStrictOrderedRing α]

/-! ### what the specification vocabulary means -/

/-- distinct index values of a non-decreasing index come out strictly increasing … -/
theorem keys_strictly_increasing {β : Type} (l : List (Int × β))
    (hs : (l.map Prod.fst).Pairwise (· ≤ ·)) : (keys l).Pairwise (· < ·) := by
  unfold keys
  generalize hn : (l.map Prod.fst).length = n
  generalize l.map Prod.fst = xs at hs hn
  induction n using Nat.strong_induction_on generalizing xs with
  | _ n ih =>
    cases xs with
    | nil => simp
    | cons i tl =>
      rw [List.eraseDups_cons, List.pairwise_cons]
      rw [List.pairwise_cons] at hs
      constructor
      · intro b hb
        rw [List.mem_eraseDups, List.mem_filter] at hb
        have h1 := hs.1 b hb.1
        have h2 : b ≠ i := by simpa using hb.2
        omega
      · have hlen : (tl.filter fun b => !b == i).length < n := by
          have := List.length_filter_le (fun b => !b == i) tl
          simp only [List.length_cons] at hn
          omega
        exact ih _ hlen _ (hs.2.filter _) rfl

example : (keys ℓ₀).Pairwise (· < ·) := keys_strictly_increasing ℓ₀ (by decide +kernel)

/-- … and are exactly the index values that occur: one key per distinct index value, in order -/
theorem mem_keys {β : Type} (l : List (Int × β)) (k : Int) : k ∈ keys l ↔ ∃ p ∈ l, p.1 = k := by
  simp [keys]

example : (2 : Int) ∈ keys ℓ₀ := (mem_keys ℓ₀ 2).mpr ⟨(2, some 5), by decide +kernel, rfl⟩

/-- the maximum operator's reduction is the greatest non-missing value -/
theorem red_max_spec (v : List α) (hv : v ≠ []) : red 2 v ∈ v ∧ ∀ x ∈ v, x ≤ red 2 v := by
  obtain ⟨m, hm⟩ := WithBot.ne_bot_iff_exists.mp (List.maximum_ne_bot_of_ne_nil hv)
  have h := List.maximum_eq_coe_iff.mp hm.symm
  have : red 2 v = m := by simp [red_eq, ← hm]
  rw [this]; exact h

example : red 2 ([-3, -1] : List ℚ) ∈ [-3, -1] ∧ ∀ x ∈ ([-3, -1] : List ℚ), x ≤ red 2 [-3, -1] :=
  red_max_spec _ (by simp)

/-- the tail operator's reduction is the last non-missing value -/
theorem red_last_spec (v : List α) (hv : v ≠ []) : red 3 v = v.getLast hv := by
  simp [red_eq, List.getLast?_eq_getLast_of_ne_nil hv]

example : red 3 ([-3, -1] : List ℚ) = -1 := by rw [red_last_spec _ (by simp)]; rfl

/-- the mean operator's reduction times the number of non-missing values is their sum -/
theorem red_mean_spec (v : List α) (hv : v ≠ []) : red 1 v * (v.length : α) = v.sum := by
  have : (v.length : α) ≠ 0 := by
    have : 0 < v.length := List.length_pos_iff.mpr hv
    exact_mod_cast this.ne'
  simp [red_eq, hv]

example : red 1 ([-3, -1] : List ℚ) * (([-3, -1] : List ℚ).length : ℚ) = ([-3, -1] : List ℚ).sum :=
  red_mean_spec _ (by simp)

theorem red_sum_spec (v : List α) : red 0 v = v.sum := by simp [red_eq]

/-! ### aggregate -/

/-- **aggregate reduces by group**: for a non-decreasing index, every operator 0..3 and every `maxnan`,
the result is one value per distinct index value, in order, equal to the reduction of the non-missing
inputs of that group, or NaN when the group holds more than `maxnan` missing values -/
theorem aggregate_spec (op maxnan : Int) (h0 : 0 ≤ op) (h3 : op ≤ 3) (l : List (Int × Option α))
    (hne : l ≠ []) (hs : (l.map Prod.fst).Pairwise (· ≤ ·)) :
    aggregate op maxnan l = .ok ((keys l).map fun k => reduce op maxnan (groupOf l k)) := by
  rw [aggregate_eq_groups op maxnan l hne hs, groups_eq l hs, List.map_map]
  congr 1
  apply List.map_congr_left
  intro k _
  simp [flush_accOf op maxnan h0 h3]

example : aggregate 2 1 ℓ₀ = .ok ((keys ℓ₀).map fun k => reduce 2 1 (groupOf ℓ₀ k)) :=
  aggregate_spec 2 1 (by norm_num) (by norm_num) ℓ₀ (by simp) (by decide +kernel)
example : aggregate 2 1 ℓ₀ = .ok [some (-1), some 5] := by decide +kernel

/-- kernel = one fold-and-flush per filter-group (every operator code; restated for any carrier below) -/
theorem aggregate_per_group (op maxnan : Int) (l : List (Int × Option α)) (hne : l ≠ [])
    (hs : (l.map Prod.fst).Pairwise (· ≤ ·)) :
    aggregate op maxnan l = .ok ((keys l).map fun k => flush op maxnan (accOf op (groupOf l k))) := by
  rw [aggregate_eq_groups op maxnan l hne hs, groups_eq l hs, List.map_map]
  rfl

/-- the NaN policy alone: a group's value is NaN exactly when it holds more than `maxnan` missing values -/
theorem reduce_eq_none_iff (op maxnan : Int) (g : List (Option α)) :
    reduce op maxnan g = none ↔ maxnan < (nmiss g : Int) := by
  unfold reduce
  split <;> simp_all

example : reduce (α := ℚ) 1 1 [some 2, none, none] = none ∧ reduce (α := ℚ) 1 2 [some 2, none, none] = some 2 := by
  decide +kernel

/-- `maxnan` from 0 to beyond the group length: once `maxnan` reaches the length of the series no group is
ever flushed, whatever its content -/
theorem aggregate_never_nan_of_maxnan_ge_length (op maxnan : Int) (h0 : 0 ≤ op) (h3 : op ≤ 3)
    (l : List (Int × Option α)) (hne : l ≠ []) (hs : (l.map Prod.fst).Pairwise (· ≤ ·))
    (hm : (l.length : Int) ≤ maxnan) :
    ∃ out, aggregate op maxnan l = .ok out ∧ ∀ o ∈ out, o ≠ none := by
  refine ⟨_, aggregate_spec op maxnan h0 h3 l hne hs, ?_⟩
  intro o ho
  obtain ⟨k, _, rfl⟩ := List.mem_map.mp ho
  have h1 : nmiss (groupOf l k) ≤ (groupOf l k).length := List.countP_le_length
  have h2 : (groupOf l k).length ≤ l.length := by
    unfold groupOf; rw [List.length_map]; exact List.length_filter_le _ _
  intro hnone
  have := (reduce_eq_none_iff op maxnan _).mp hnone
  omega

example : ∃ out, aggregate 1 5 ℓ₀ = .ok out ∧ ∀ o ∈ out, o ≠ none :=
  aggregate_never_nan_of_maxnan_ge_length 1 5 (by norm_num) (by norm_num) ℓ₀ (by simp) (by decide +kernel) (by decide)

/-- a negative `maxnan` (outside the property's range, accepted by the code) flushes every group -/
theorem aggregate_all_nan_of_negative_maxnan (op maxnan : Int) (h0 : 0 ≤ op) (h3 : op ≤ 3)
    (l : List (Int × Option α)) (hne : l ≠ []) (hs : (l.map Prod.fst).Pairwise (· ≤ ·)) (hm : maxnan < 0) :
    aggregate op maxnan l = .ok ((keys l).map fun _ => none) := by
  rw [aggregate_spec op maxnan h0 h3 l hne hs]
  congr 1
  apply List.map_congr_left
  intro k _
  exact (reduce_eq_none_iff op maxnan _).mpr (by omega)

example : aggregate 0 (-1) ℓ₀ = .ok [none, none] := by decide +kernel

/-- operator codes outside 0..3 (outside the property, accepted by the code): a negative code is the sum … -/
theorem aggregate_negative_operator_is_sum (op maxnan : Int) (hop : op < 0) (l : List (Int × Option α))
    (hne : l ≠ []) (hs : (l.map Prod.fst).Pairwise (· ≤ ·)) :
    aggregate op maxnan l = .ok ((keys l).map fun k => reduce 0 maxnan (groupOf l k)) := by
  rw [aggregate_per_group, List.map_inj_left.mpr]
  · intro k _
    have h1 : ¬ (op = 1 ∧ 0 < (accOf op (groupOf l k)).nagg) := by omega
    simp [flush, reduce, red_eq, accOf_nnan, accOf_sum op (by omega), h1]
  all_goals assumption

/-- … and a code above 3 returns 0 for every group within the NaN allowance -/
theorem aggregate_operator_above_3_is_zero (op maxnan : Int) (hop : 3 < op) (l : List (Int × Option α))
    (hne : l ≠ []) (hs : (l.map Prod.fst).Pairwise (· ≤ ·)) :
    aggregate op maxnan l =
      .ok ((keys l).map fun k => if maxnan < (nmiss (groupOf l k) : Int) then none else some 0) := by
  rw [aggregate_per_group, List.map_inj_left.mpr]
  · intro k _
    have h1 : ¬ (op = 1 ∧ 0 < (accOf op (groupOf l k)).nagg) := by omega
    have h2 := accOf_other op hop (groupOf l k)
    simp [flush, accOf_nnan, h1, h2]
  all_goals assumption

example : aggregate (-1) 1 ℓ₀ = .ok [some (-4), some 5] ∧ aggregate 7 1 ℓ₀ = .ok [some 0, some 0] := by
  decide +kernel

/-- an aggregation index that decreases anywhere is rejected with the decreasing-index error … -/
theorem aggregate_rejects_decreasing (op maxnan : Int) (l : List (Int × Option α)) (hne : l ≠ [])
    (hs : ¬ (l.map Prod.fst).Pairwise (· ≤ ·)) :
    aggregate op maxnan l = .error .decreasingIndex :=
  aggregate_err op maxnan l hne hs

example : aggregate (α := ℚ) 1 0 [(2, some 1), (1, some 2)] = .error .decreasingIndex :=
  aggregate_rejects_decreasing 1 0 _ (by simp) (by decide +kernel)

/-- … and nothing else is: on length ≥ 1 the call succeeds iff the index is non-decreasing
(in particular the `count >= nval` guard of the kernel can never fire) -/
theorem aggregate_ok_iff (op maxnan : Int) (l : List (Int × Option α)) (hne : l ≠ []) :
    (∃ out, aggregate op maxnan l = .ok out) ↔ (l.map Prod.fst).Pairwise (· ≤ ·) := by
  constructor
  · rintro ⟨out, h⟩
    by_contra hs
    rw [aggregate_err op maxnan l hne hs] at h
    cases h
  · intro hs
    exact ⟨_, aggregate_eq_groups op maxnan l hne hs⟩

example : ∃ out, aggregate 3 0 ℓ₀ = .ok out := (aggregate_ok_iff 3 0 ℓ₀ (by simp)).mpr (by decide +kernel)

/-- "decreases anywhere" = some element is smaller than its predecessor -/
theorem not_sorted_iff_adjacent_decrease (xs : List Int) :
    ¬ xs.Pairwise (· ≤ ·) ↔ ∃ i, ∃ h : i + 1 < xs.length, xs[i + 1] < xs[i] := by
  induction xs with
  | nil => simp
  | cons a tl ih =>
    cases tl with
    | nil => simp
    | cons b r =>
      have hpw : (a :: b :: r).Pairwise (· ≤ ·) ↔ a ≤ b ∧ (b :: r).Pairwise (· ≤ ·) := by
        rw [List.pairwise_cons]
        constructor
        · rintro ⟨h1, h2⟩; exact ⟨h1 b (List.mem_cons_self ..), h2⟩
        · rintro ⟨h1, h2⟩
          refine ⟨?_, h2⟩
          intro c hc
          rcases List.mem_cons.mp hc with rfl | hc
          · exact h1
          · exact le_trans h1 ((List.pairwise_cons.mp h2).1 c hc)
      rw [hpw, not_and_or, ih]
      constructor
      · rintro (h | ⟨i, hi, hlt⟩)
        · exact ⟨0, by simp, by simpa using h⟩
        · exact ⟨i + 1, by simpa using hi, by simpa using hlt⟩
      · rintro ⟨i, hi, hlt⟩
        cases i with
        | zero => left; simpa using hlt
        | succ j => right; exact ⟨j, by simpa using hi, by simpa using hlt⟩

example : ¬ ([1, 3, 2, 4] : List Int).Pairwise (· ≤ ·) :=
  (not_sorted_iff_adjacent_decrease _).mpr ⟨1, by decide, by decide⟩

/-- the number of outputs is the number of distinct index values (any operator value, any `maxnan`) -/
theorem aggregate_length (op maxnan : Int) (l : List (Int × Option α)) (out : List (Option α))
    (hs : (l.map Prod.fst).Pairwise (· ≤ ·)) (h : aggregate op maxnan l = .ok out) :
    out.length = (keys l).length := by
  have hne : l ≠ [] := by rintro rfl; simp [aggregate] at h
  rw [aggregate_eq_groups op maxnan l hne hs, groups_eq l hs] at h
  cases h
  simp

example : ([some (-1), some 5] : List (Option ℚ)).length = (keys ℓ₀).length :=
  aggregate_length 2 1 ℓ₀ [some (-1), some 5] (by decide +kernel) (by decide +kernel)

/-- the groups partition the input: concatenated in key order they give back the input column -/
theorem groups_partition (l : List (Int × Option α)) (hs : (l.map Prod.fst).Pairwise (· ≤ ·)) :
    (keys l).flatMap (groupOf l) = l.map Prod.snd := by
  have := groups_flatten l
  rw [groups_eq l hs] at this
  simpa [List.flatMap_map] using this

example : (keys ℓ₀).flatMap (groupOf ℓ₀) = (ℓ₀).map Prod.snd := groups_partition ℓ₀ (by decide +kernel)

/-- **totals are conserved**: when no group is flushed to NaN the aggregated sums add up to the sum of
the non-missing inputs -/
theorem aggregate_sum_conserved (maxnan : Int) (l : List (Int × Option α)) (out : List (Option α))
    (hs : (l.map Prod.fst).Pairwise (· ≤ ·)) (h : aggregate 0 maxnan l = .ok out)
    (hall : ∀ o ∈ out, o ≠ none) : (vals out).sum = (vals (l.map Prod.snd)).sum := by
  have hne : l ≠ [] := by rintro rfl; simp [aggregate] at h
  rw [aggregate_spec 0 maxnan le_rfl (by norm_num) l hne hs] at h
  cases h
  rw [← groups_partition l hs, vals_flatMap, sum_flatMap]
  congr 1
  have hk : ∀ k ∈ keys l, reduce 0 maxnan (groupOf l k) = some ((vals (groupOf l k)).sum) := by
    intro k hk
    have := hall (reduce 0 maxnan (groupOf l k)) (List.mem_map.mpr ⟨k, hk, rfl⟩)
    unfold reduce at this ⊢
    split
    · rename_i hlt; simp [hlt] at this
    · simp [red_eq]
  generalize keys l = ks at hk
  induction ks with
  | nil => simp [vals]
  | cons k t ih =>
    have h1 := hk k (List.mem_cons_self ..)
    have h2 := ih fun k' hk' => hk k' (List.mem_cons_of_mem _ hk')
    simp only [List.map_cons, vals, List.filterMap_cons, h1, id] at h2 ⊢
    rw [h2]

example : (vals ([some (-4), some 5] : List (Option ℚ))).sum = (vals ((ℓ₀).map Prod.snd)).sum :=
  aggregate_sum_conserved 1 ℓ₀ [some (-4), some 5] (by decide +kernel) (by decide +kernel) (by decide +kernel)

/-- totals in general: the non-NaN outputs add up to the non-missing inputs of exactly the groups that are
not flushed (those holding at most `maxnan` missing values) -/
theorem aggregate_sum_conserved_general (maxnan : Int) (l : List (Int × Option α)) (out : List (Option α))
    (hs : (l.map Prod.fst).Pairwise (· ≤ ·)) (h : aggregate 0 maxnan l = .ok out) :
    (vals out).sum =
      (vals ((l.filter fun p => decide ((nmiss (groupOf l p.1) : Int) ≤ maxnan)).map Prod.snd)).sum := by
  have hne : l ≠ [] := by rintro rfl; simp [aggregate] at h
  rw [aggregate_spec 0 maxnan le_rfl (by norm_num) l hne hs] at h
  cases h
  have hl : (keys l).flatMap (fun k => (groupOf l k).map fun x => (k, x)) = l := by
    have := groups_keyed l
    rw [groups_eq l hs] at this
    simpa [List.flatMap_map] using this
  generalize hP : (fun k : Int => decide ((nmiss (groupOf l k) : Int) ≤ maxnan)) = P
  have hfil : (fun p : Int × Option α => decide ((nmiss (groupOf l p.1) : Int) ≤ maxnan)) = fun p => P p.1 := by
    subst hP; rfl
  rw [hfil]
  have hred : ∀ k, reduce 0 maxnan (groupOf l k) = if P k then some ((vals (groupOf l k)).sum) else none := by
    intro k
    subst hP
    unfold reduce
    by_cases hk : maxnan < (nmiss (groupOf l k) : Int)
    · have : ¬ ((nmiss (groupOf l k) : Int) ≤ maxnan) := by omega
      simp [hk, this]
    · have : ((nmiss (groupOf l k) : Int) ≤ maxnan) := by omega
      simp [hk, this, red_eq]
  have hG := congrArg (fun l' : List (Int × Option α) => (l'.filter fun p => P p.1).map Prod.snd) hl
  rw [← hG]
  generalize groupOf l = g at hred
  generalize keys l = ks
  induction ks with
  | nil => simp [vals]
  | cons k t ih =>
    simp only [List.map_cons, List.flatMap_cons, List.filter_append, List.map_append]
    have hv : ∀ (a b : List (Option α)), vals (a ++ b) = vals a ++ vals b := by
      intro a b; simp [vals, List.filterMap_append]
    rw [hv, List.sum_append, ← ih]
    have hhead : ((List.map (fun x => (k, x)) (g k)).filter fun p => P p.1).map Prod.snd =
        if P k then g k else [] := by
      by_cases hk : P k = true
      · simp [hk, List.filter_map, Function.comp_def]
      · simp [hk, List.filter_map, Function.comp_def]
    rw [hhead, hred k]
    by_cases hk : P k = true
    · simp [hk, vals]
    · simp [hk, vals]

-- maxnan = 0: the first group (one NaN) is flushed, only the second is counted on both sides… it holds a NaN too
example : aggregate 0 0 ℓ₀ = .ok [none, none] := by decide +kernel
example : aggregate (α := ℚ) 0 0 [(1, some 2), (1, none), (2, some 5)] = .ok [none, some 5] := by decide +kernel

/-- no group is flushed once `maxnan` is at least the total number of missing inputs -/
theorem aggregate_sum_conserved_of_maxnan_ge (maxnan : Int) (l : List (Int × Option α))
    (hne : l ≠ []) (hs : (l.map Prod.fst).Pairwise (· ≤ ·))
    (hm : (nmiss (l.map Prod.snd) : Int) ≤ maxnan) :
    ∃ out, aggregate 0 maxnan l = .ok out ∧ (∀ o ∈ out, o ≠ none) ∧
      (vals out).sum = (vals (l.map Prod.snd)).sum := by
  have h := aggregate_spec 0 maxnan le_rfl (by norm_num) l hne hs
  refine ⟨_, h, ?_, ?_⟩
  · intro o ho
    obtain ⟨k, _, rfl⟩ := List.mem_map.mp ho
    have hsub : (groupOf l k).Sublist (l.map Prod.snd) := by
      unfold groupOf
      exact (List.filter_sublist).map _
    have hle : nmiss (groupOf l k) ≤ nmiss (l.map Prod.snd) := hsub.countP_le
    have : ¬ maxnan < (nmiss (groupOf l k) : Int) := by omega
    simp [reduce, this]
  · apply aggregate_sum_conserved maxnan l _ hs h
    intro o ho
    obtain ⟨k, _, rfl⟩ := List.mem_map.mp ho
    have hsub : (groupOf l k).Sublist (l.map Prod.snd) := by
      unfold groupOf
      exact (List.filter_sublist).map _
    have hle : nmiss (groupOf l k) ≤ nmiss (l.map Prod.snd) := hsub.countP_le
    have : ¬ maxnan < (nmiss (groupOf l k) : Int) := by omega
    simp [reduce, this]

example : ∃ out, aggregate 0 2 ℓ₀ = .ok out ∧ (∀ o ∈ out, o ≠ none) ∧ (vals out).sum = (vals ((ℓ₀).map Prod.snd)).sum :=
  aggregate_sum_conserved_of_maxnan_ge 2 ℓ₀ (by simp) (by decide +kernel) (by decide +kernel)

/-! ### flathomogen -/

/-- **flathomogen**: for a non-decreasing index, every entry is rewritten from its own group only —
missing stays missing, a non-missing entry becomes the mean of the non-missing values of its group
(NaN when the group holds more than `maxnan` missing values) -/
theorem flathomogen_spec (maxnan : Int) (l : List (Int × Option α)) (hne : l ≠ [])
    (hs : (l.map Prod.fst).Pairwise (· ≤ ·)) :
    flathomogen maxnan l = .ok (l.map fun p => cell maxnan (groupOf l p.1) p.2) := by
  rw [flathomogen_eq_groups maxnan l hne hs]
  congr 1
  have hl := groups_keyed l
  have hmap := congrArg (List.map fun p : Int × Option α => cell maxnan (groupOf l p.1) p.2) hl
  rw [← hmap, groups_eq l hs]
  simp only [List.flatMap_map, List.map_flatMap, List.map_map, hcells_eq]
  rfl

example : flathomogen 1 ℓ₀ = .ok [some (-2), none, some (-2), some 5, none] := by decide +kernel
example : flathomogen 1 ℓ₀ = .ok ((ℓ₀).map fun p => cell 1 (groupOf ℓ₀ p.1) p.2) :=
  flathomogen_spec 1 ℓ₀ (by simp) (by decide +kernel)

theorem flathomogen_rejects_decreasing (maxnan : Int) (l : List (Int × Option α)) (hne : l ≠ [])
    (hs : ¬ (l.map Prod.fst).Pairwise (· ≤ ·)) :
    flathomogen maxnan l = .error .decreasingIndex :=
  flathomogen_err maxnan l hne hs

example : flathomogen (α := ℚ) 1 [(2, some 1), (1, some 2)] = .error .decreasingIndex :=
  flathomogen_rejects_decreasing 1 _ (by simp) (by decide +kernel)

theorem flathomogen_ok_iff (maxnan : Int) (l : List (Int × Option α)) (hne : l ≠ []) :
    (∃ out, flathomogen maxnan l = .ok out) ↔ (l.map Prod.fst).Pairwise (· ≤ ·) := by
  constructor
  · rintro ⟨out, h⟩
    by_contra hs
    rw [flathomogen_err maxnan l hne hs] at h
    cases h
  · intro hs
    exact ⟨_, flathomogen_eq_groups maxnan l hne hs⟩

example : ∃ out, flathomogen 0 ℓ₀ = .ok out := (flathomogen_ok_iff 0 ℓ₀ (by simp)).mpr (by decide +kernel)

/-- same length; missing entries stay missing; within the NaN budget non-missing entries become the group mean -/
theorem flathomogen_pointwise (maxnan : Int) (l : List (Int × Option α)) (out : List (Option α))
    (hs : (l.map Prod.fst).Pairwise (· ≤ ·)) (h : flathomogen maxnan l = .ok out) :
    out.length = l.length ∧
    ∀ (i : Nat) (hi : i < l.length) (ho : i < out.length),
      (l[i].2 = none → out[i] = none) ∧
      (∀ v, l[i].2 = some v → (nmiss (groupOf l l[i].1) : Int) ≤ maxnan →
        out[i] = some ((vals (groupOf l l[i].1)).sum / ((vals (groupOf l l[i].1)).length : α))) := by
  have hne : l ≠ [] := by rintro rfl; simp [flathomogen] at h
  rw [flathomogen_spec maxnan l hne hs] at h
  cases h
  refine ⟨by simp, ?_⟩
  intro i hi ho
  simp only [List.getElem_map]
  constructor
  · intro hx; simp [cell_eq, hx]
  · intro v hx hm
    have : ¬ maxnan < (nmiss (groupOf l l[i].1) : Int) := by omega
    simp [cell_eq, hx, this]

example : ([some (-2), none, some (-2), some 5, none] : List (Option ℚ)).length = (ℓ₀).length :=
  (flathomogen_pointwise 1 ℓ₀ [some (-2), none, some (-2), some 5, none] (by decide +kernel) (by decide +kernel)).1

/-- **flathomogen preserves each group's total** (groups within the NaN budget): the non-missing outputs
of a group add up to the non-missing inputs of that group -/
theorem flathomogen_group_total (maxnan : Int) (l : List (Int × Option α)) (out : List (Option α))
    (hs : (l.map Prod.fst).Pairwise (· ≤ ·)) (h : flathomogen maxnan l = .ok out) (k : Int)
    (hm : (nmiss (groupOf l k) : Int) ≤ maxnan) :
    (vals (groupOf ((l.map Prod.fst).zip out) k)).sum = (vals (groupOf l k)).sum := by
  have hne : l ≠ [] := by rintro rfl; simp [flathomogen] at h
  rw [flathomogen_spec maxnan l hne hs] at h
  cases h
  have hzip : (l.map Prod.fst).zip (l.map fun p => cell maxnan (groupOf l p.1) p.2) =
      l.map fun p => (p.1, cell maxnan (groupOf l p.1) p.2) := by
    rw [List.zip_map']
  have hgrp : groupOf (l.map fun p => (p.1, cell maxnan (groupOf l p.1) p.2)) k =
      (groupOf l k).map (cell maxnan (groupOf l k)) := by
    unfold groupOf
    rw [List.filter_map, List.map_map, List.map_map]
    apply List.map_congr_left
    intro p hp
    have : p.1 = k := by simpa using (List.mem_filter.mp hp).2
    simp [this]
  rw [hzip, hgrp]
  have hnot : ¬ maxnan < (nmiss (groupOf l k) : Int) := by omega
  generalize hg : groupOf l k = g at hnot
  -- the non-missing outputs are `length (vals g)` copies of the mean
  have hv : vals (g.map (cell maxnan g)) =
      List.replicate (vals g).length ((vals g).sum / ((vals g).length : α)) := by
    have : ∀ (m : α) (g' : List (Option α)),
        vals (g'.map fun x => match x with | none => none | some _ => some m) =
        List.replicate (vals g').length m := by
      intro m g'
      induction g' with
      | nil => simp [vals]
      | cons x t ih =>
        cases x with
        | none => simpa [vals] using ih
        | some v =>
          simp only [vals, List.map_cons, List.filterMap_cons, id, List.length_cons,
            List.replicate_succ] at ih ⊢
          rw [ih]
    have hc : (cell maxnan g) = fun x => match x with
        | none => none
        | some _ => some ((vals g).sum / ((vals g).length : α)) := by
      funext x
      cases x <;> simp [cell_eq, hnot]
    rw [hc, this]
  rw [hv, List.sum_replicate, nsmul_eq_mul]
  by_cases hz : (vals g).length = 0
  · have : vals g = [] := List.length_eq_zero_iff.mp hz
    simp [this]
  · have : ((vals g).length : α) ≠ 0 := by exact_mod_cast hz
    field_simp

-- group 1 holds one NaN ≤ maxnan = 1: outputs -2 + -2 = inputs -3 + -1
example : (vals (groupOf (((ℓ₀).map Prod.fst).zip [some (-2), none, some (-2), some 5, none]) 1)).sum =
    (vals (groupOf ℓ₀ 1)).sum :=
  flathomogen_group_total 1 ℓ₀ [some (-2), none, some (-2), some 5, none] (by decide +kernel) (by decide +kernel) 1 (by decide +kernel)

end agg

/-! ### any carrier (in particular IEEE doubles): the grouping structure does not depend on arithmetic laws -/
section anycarrier
set_option linter.unusedSectionVars false
variable {β : Type} [Add β] [Div β] [LT β] [DecidableLT β] [OfNat β 0] [NatCast β]

/-- over ANY carrier with the kernel's operations (no algebraic law assumed — this covers floating point):
one output per distinct index value, in order, each computed from its own group alone by the kernel's
left-to-right running reduction `accOf` and `flush`; every operator value, every `maxnan` -/
theorem aggregate_per_group_any_carrier (op maxnan : Int) (l : List (Int × Option β)) (hne : l ≠ [])
    (hs : (l.map Prod.fst).Pairwise (· ≤ ·)) :
    aggregate op maxnan l = .ok ((keys l).map fun k => flush op maxnan (accOf op (groupOf l k))) := by
  rw [aggregate_eq_groups op maxnan l hne hs, groups_eq l hs, List.map_map]
  rfl

example : aggregate 3 1 ℓ₀ = .ok ((keys ℓ₀).map fun k => flush 3 1 (accOf 3 (groupOf ℓ₀ k))) :=
  aggregate_per_group_any_carrier 3 1 ℓ₀ (by simp) (by decide +kernel)

theorem aggregate_rejects_decreasing_any_carrier (op maxnan : Int) (l : List (Int × Option β)) (hne : l ≠ [])
    (hs : ¬ (l.map Prod.fst).Pairwise (· ≤ ·)) :
    aggregate op maxnan l = .error .decreasingIndex :=
  aggregate_err op maxnan l hne hs

/-- flathomogen over any carrier: entry by entry, from its own group alone -/
theorem flathomogen_per_group_any_carrier (maxnan : Int) (l : List (Int × Option β)) (hne : l ≠ [])
    (hs : (l.map Prod.fst).Pairwise (· ≤ ·)) :
    flathomogen maxnan l = .ok ((keys l).flatMap fun k => hcells maxnan (groupOf l k)) := by
  rw [flathomogen_eq_groups maxnan l hne hs, groups_eq l hs, List.flatMap_map]

example : flathomogen 1 ℓ₀ = .ok ((keys ℓ₀).flatMap fun k => hcells 1 (groupOf ℓ₀ k)) :=
  flathomogen_per_group_any_carrier 1 ℓ₀ (by simp) (by decide +kernel)

theorem flathomogen_rejects_decreasing_any_carrier (maxnan : Int) (l : List (Int × Option β)) (hne : l ≠ [])
    (hs : ¬ (l.map Prod.fst).Pairwise (· ≤ ·)) :
    flathomogen maxnan l = .error .decreasingIndex :=
  flathomogen_err maxnan l hne hs

end anycarrier

/-! ### wrapper glue of `dutils.aggregate` / `dutils.flathomogen`: lengths, int32 conversions, empty input -/
theorem wrap32_id (i : Int) (h : inInt32 i = true) : wrap32 i = i := by
  simp only [inInt32, Bool.and_eq_true, decide_eq_true_eq] at h
  unfold wrap32
  omega

example : wrap32 (-2147483648) = -2147483648 ∧ wrap32 2147483647 = 2147483647 ∧ wrap32 2147483648 = -2147483648 := by
  decide

theorem wrap32_range (i : Int) : inInt32 (wrap32 i) = true := by
  simp only [inInt32, Bool.and_eq_true, decide_eq_true_eq]
  unfold wrap32
  omega

section anyc
set_option linter.unusedSectionVars false
variable {β : Type} [Add β] [Div β] [LT β] [DecidableLT β] [OfNat β 0] [NatCast β]

theorem aggregateW_eq_aggregate (op maxnan : Int) (idx : List Int) (vals : List (Option β))
    (hlen : idx.length = vals.length) (hop : inInt32 op = true) (hmx : inInt32 maxnan = true)
    (hidx : ∀ i ∈ idx, inInt32 i = true) :
    aggregateW op maxnan idx vals = aggregate op maxnan (idx.zip vals) := by
  have hmap : idx.map wrap32 = idx := by
    conv_rhs => rw [← List.map_id idx]
    apply List.map_congr_left
    intro i hi
    exact wrap32_id i (hidx i hi)
  simp [aggregateW, hlen, hop, hmx, hmap]

example : aggregateW (α := ℚ) 2 1 [-2147483648, -2147483648, 2147483647] [some (-3), none, some 7] =
    aggregate 2 1 [(-2147483648, some (-3)), (-2147483648, none), (2147483647, some 7)] :=
  aggregateW_eq_aggregate 2 1 _ _ rfl (by decide) (by decide) (by decide)

theorem flathomogenW_eq_flathomogen (maxnan : Int) (idx : List Int) (vals : List (Option β))
    (hlen : idx.length = vals.length) (hmx : inInt32 maxnan = true)
    (hidx : ∀ i ∈ idx, inInt32 i = true) :
    flathomogenW maxnan idx vals = flathomogen maxnan (idx.zip vals) := by
  have hmap : idx.map wrap32 = idx := by
    conv_rhs => rw [← List.map_id idx]
    apply List.map_congr_left
    intro i hi
    exact wrap32_id i (hidx i hi)
  simp [flathomogenW, hlen, hmx, hmap]

example : flathomogenW (α := ℚ) 1 [3, 3, 4] [some 1, none, some 7] = .ok [some 1, none, some 7] := by decide +kernel

theorem wrappers_reject_length_mismatch (op maxnan : Int) (idx : List Int) (vals : List (Option β))
    (hlen : idx.length ≠ vals.length) :
    aggregateW op maxnan idx vals = .error .lengthMismatch ∧
    flathomogenW maxnan idx vals = .error .lengthMismatch := by
  simp [aggregateW, flathomogenW, hlen]

example : aggregateW (α := ℚ) 0 0 [1, 2] [some 1] = .error .lengthMismatch := by decide +kernel

theorem wrappers_reject_non_int32_arguments (op maxnan : Int) (idx : List Int) (vals : List (Option β))
    (hlen : idx.length = vals.length) (h : inInt32 op = false ∨ inInt32 maxnan = false) :
    aggregateW op maxnan idx vals = .error .intOverflow := by
  rcases h with h | h <;> simp [aggregateW, hlen, h]

example : aggregateW (α := ℚ) 2147483648 0 [1] [some 1] = .error .intOverflow := by decide +kernel

theorem kernels_reject_empty (op maxnan : Int) :
    aggregate op maxnan ([] : List (Int × Option β)) = .error .emptyInput ∧
    flathomogen maxnan ([] : List (Int × Option β)) = .error .emptyInput := ⟨rfl, rfl⟩

/-- NaN policy over any carrier -/
theorem flush_isNone_any_carrier (op maxnan : Int) (g : List (Option β)) :
    flush op maxnan (accOf op g) = none ↔ maxnan < (nmiss g : Int) := by
  unfold flush
  rw [accOf_nnan]
  split <;> simp_all

example : flush (α := ℚ) 2 0 (accOf 2 [some 1, none]) = none := (flush_isNone_any_carrier 2 0 _).mpr (by decide)

theorem flush_tail_any_carrier (maxnan : Int) (g : List (Option β)) :
    flush 3 maxnan (accOf 3 g) =
      if maxnan < (nmiss g : Int) then none else some ((vals g).getLast?.getD 0) := by
  simp [flush, accOf_nnan, accOf_last]

example : flush (α := ℚ) 3 1 (accOf 3 [some 4, some 1, none]) = some 1 := by decide +kernel

end anyc

/-! ### `compute_aggindex`: the index built from time stamps is non-decreasing and separates the periods -/
/-- the exact index value fits int32 for every valid stamp of a year within ±2147 … -/
theorem aggIndexRaw_fits_int32 (st : Step) (he : ∀ e, st = .ASm e → 1 ≤ e ∧ e ≤ 12) (a : Stamp) (ha : a.valid)
    (hy : -2147 ≤ a.y ∧ a.y ≤ 2147) : inInt32 (aggIndexRaw st a) = true := by
  unfold Stamp.valid at ha
  simp only [inInt32, Bool.and_eq_true, decide_eq_true_eq]
  cases st with
  | AS => simp only [aggIndexRaw]; omega
  | ASm e => have := he e rfl; simp only [aggIndexRaw]; omega
  | MS => simp only [aggIndexRaw]; omega
  | D => simp only [aggIndexRaw]; omega
  | H => simp only [aggIndexRaw]; omega

/-- … so the int32 arithmetic of `compute_aggindex` does not wrap there -/
theorem aggIndex_fits_int32 (st : Step) (he : ∀ e, st = .ASm e → 1 ≤ e ∧ e ≤ 12) (a : Stamp) (ha : a.valid)
    (hy : -2147 ≤ a.y ∧ a.y ≤ 2147) : aggIndex st a = aggIndexRaw st a ∧ inInt32 (aggIndex st a) = true := by
  have h := aggIndexRaw_fits_int32 st he a ha hy
  have : aggIndex st a = aggIndexRaw st a := wrap32_id _ h
  exact ⟨this, this ▸ h⟩

example : aggIndex .H ⟨2147, 12, 31, 23⟩ = 2147123123 ∧ inInt32 (aggIndexRaw .H ⟨2148, 1, 1, 0⟩) = false := by decide

/-- the year bound cannot be dropped: the hourly index of 2148 has wrapped, a chronological series crossing from
2147 into 2148 gets a DECREASING index (which `aggregate` then rejects) -/
theorem aggIndex_H_wraps_beyond_2147 :
    Stamp.le ⟨2147, 12, 31, 23⟩ ⟨2148, 1, 1, 0⟩ ∧ aggIndex .H ⟨2148, 1, 1, 0⟩ < aggIndex .H ⟨2147, 12, 31, 23⟩ ∧
      aggIndex .H ⟨2148, 1, 1, 0⟩ = -2146957196 := by decide

theorem aggIndex_mono (st : Step) (he : ∀ e, st = .ASm e → 1 ≤ e ∧ e ≤ 12) (a b : Stamp)
    (ha : a.valid) (hb : b.valid) (hya : -2147 ≤ a.y ∧ a.y ≤ 2147) (hyb : -2147 ≤ b.y ∧ b.y ≤ 2147)
    (hab : Stamp.le a b) : aggIndex st a ≤ aggIndex st b := by
  rw [(aggIndex_fits_int32 st he a ha hya).1, (aggIndex_fits_int32 st he b hb hyb).1]
  unfold Stamp.valid at ha hb
  unfold Stamp.le at hab
  cases st with
  | AS => simp only [aggIndexRaw]; omega
  | ASm e =>
    have := he e rfl
    simp only [aggIndexRaw]; omega
  | MS => simp only [aggIndexRaw]; omega
  | D => simp only [aggIndexRaw]; omega
  | H => simp only [aggIndexRaw]; omega

example : aggIndex .H ⟨1999, 12, 31, 23⟩ ≤ aggIndex .H ⟨2000, 1, 1, 0⟩ :=
  aggIndex_mono .H (by intro e h; cases h) _ _ (by decide) (by decide) (by decide) (by decide) (by decide)

theorem aggIndex_AS_eq_iff (a b : Stamp) (ha : a.valid) (hb : b.valid) (hya : -2147 ≤ a.y ∧ a.y ≤ 2147)
    (hyb : -2147 ≤ b.y ∧ b.y ≤ 2147) : aggIndex .AS a = aggIndex .AS b ↔ a.y = b.y := by
  rw [(aggIndex_fits_int32 .AS (by intro e h; cases h) a ha hya).1,
    (aggIndex_fits_int32 .AS (by intro e h; cases h) b hb hyb).1]
  simp [aggIndexRaw]
theorem aggIndex_MS_eq_iff (a b : Stamp) (ha : a.valid) (hb : b.valid) (hya : -2147 ≤ a.y ∧ a.y ≤ 2147)
    (hyb : -2147 ≤ b.y ∧ b.y ≤ 2147) : aggIndex .MS a = aggIndex .MS b ↔ a.y = b.y ∧ a.m = b.m := by
  rw [(aggIndex_fits_int32 .MS (by intro e h; cases h) a ha hya).1,
    (aggIndex_fits_int32 .MS (by intro e h; cases h) b hb hyb).1]
  unfold Stamp.valid at ha hb; simp only [aggIndexRaw]; omega
theorem aggIndex_D_eq_iff (a b : Stamp) (ha : a.valid) (hb : b.valid) (hya : -2147 ≤ a.y ∧ a.y ≤ 2147)
    (hyb : -2147 ≤ b.y ∧ b.y ≤ 2147) : aggIndex .D a = aggIndex .D b ↔ a.y = b.y ∧ a.m = b.m ∧ a.d = b.d := by
  rw [(aggIndex_fits_int32 .D (by intro e h; cases h) a ha hya).1,
    (aggIndex_fits_int32 .D (by intro e h; cases h) b hb hyb).1]
  unfold Stamp.valid at ha hb; simp only [aggIndexRaw]; omega
theorem aggIndex_H_eq_iff (a b : Stamp) (ha : a.valid) (hb : b.valid) (hya : -2147 ≤ a.y ∧ a.y ≤ 2147)
    (hyb : -2147 ≤ b.y ∧ b.y ≤ 2147) :
    aggIndex .H a = aggIndex .H b ↔ a.y = b.y ∧ a.m = b.m ∧ a.d = b.d ∧ a.h = b.h := by
  rw [(aggIndex_fits_int32 .H (by intro e h; cases h) a ha hya).1,
    (aggIndex_fits_int32 .H (by intro e h; cases h) b hb hyb).1]
  unfold Stamp.valid at ha hb; simp only [aggIndexRaw]; omega
theorem aggIndex_ASm (e : Nat) (he1 : 1 ≤ e) (he12 : e ≤ 12) (a : Stamp) (ha : a.valid)
    (hya : -2147 ≤ a.y ∧ a.y ≤ 2147) : aggIndex (.ASm e) a = if a.m ≤ e then a.y - 1 else a.y := by
  rw [(aggIndex_fits_int32 (.ASm e) (by intro e' h; cases h; exact ⟨he1, he12⟩) a ha hya).1]
  unfold Stamp.valid at ha; simp only [aggIndexRaw]; split <;> omega

example : aggIndex (.ASm 7) ⟨1999, 7, 31, 0⟩ = 1998 ∧ aggIndex (.ASm 7) ⟨1999, 8, 1, 0⟩ = 1999 := by decide

theorem parseStep_accepts :
    parseStep "AS".toList = .ok .AS ∧ parseStep ['M','S'] = .ok .MS ∧ parseStep ['D'] = .ok .D ∧
    parseStep ['h'] = .ok .H ∧ parseStep ['A','S','-','J','U','L'] = .ok (.ASm 7) ∧
    parseStep ['A','S','-','J','A','N'] = .ok (.ASm 1) ∧ parseStep ['A','S','-','D','E','C'] = .ok (.ASm 12) ∧
    parseStep ['W'] = .error .badTimestep ∧ parseStep ['A','S','J','A','N'] = .error .badTimestep := by
  decide


/-- the index built from chronologically ordered time stamps is non-decreasing: `aggregate` and `flathomogen`
never reject it -/
theorem aggIndex_nondecreasing (st : Step) (he : ∀ e, st = .ASm e → 1 ≤ e ∧ e ≤ 12) (ts : List Stamp)
    (hv : ∀ t ∈ ts, t.valid ∧ -2147 ≤ t.y ∧ t.y ≤ 2147) (hc : ts.Pairwise Stamp.le) :
    (ts.map (aggIndex st)).Pairwise (· ≤ ·) := by
  rw [List.pairwise_map]
  exact hc.imp_of_mem fun ha hb hab =>
    aggIndex_mono st he _ _ (hv _ ha).1 (hv _ hb).1 (hv _ ha).2 (hv _ hb).2 hab

example : ([⟨1999, 12, 31, 23⟩, ⟨2000, 1, 1, 0⟩, ⟨2000, 1, 1, 5⟩, ⟨2000, 2, 29, 0⟩].map (aggIndex .D)).Pairwise (· ≤ ·) :=
  aggIndex_nondecreasing .D (by intro e h; cases h) _ (by decide) (by decide)
example : [⟨1999, 12, 31, 23⟩, ⟨2000, 1, 1, 0⟩, ⟨2000, 1, 1, 5⟩, ⟨2000, 2, 29, 0⟩].map (aggIndex .D) =
    [19991231, 20000101, 20000101, 20000229] := by decide

section chain
set_option linter.unusedSectionVars false
variable {α : Type} [Field α] [LinearOrder α] [IsStrictOrderedRing α]

/-- **end to end through the wrapper glue**: time stamps in chronological order (years within ±2147, so that the
index survives the int32 cast), the index `compute_aggindex` builds for them, values of the same length ≥ 1,
operator 0..3 — `dutils.aggregate` returns one value per period, the reduction of that period's non-missing values
under the NaN policy -/
theorem aggregateW_on_time_index (op maxnan : Int) (h0 : 0 ≤ op) (h3 : op ≤ 3) (hmx : inInt32 maxnan = true)
    (st : Step) (he : ∀ e, st = .ASm e → 1 ≤ e ∧ e ≤ 12) (ts : List Stamp) (vals : List (Option α))
    (hlen : ts.length = vals.length) (hne : ts ≠ [])
    (hv : ∀ t ∈ ts, t.valid ∧ -2147 ≤ t.y ∧ t.y ≤ 2147) (hc : ts.Pairwise Stamp.le) :
    aggregateW op maxnan (ts.map (aggIndex st)) vals =
      .ok ((keys ((ts.map (aggIndex st)).zip vals)).map fun k =>
        reduce op maxnan (groupOf ((ts.map (aggIndex st)).zip vals) k)) := by
  have hop : inInt32 op = true := by
    simp only [inInt32, Bool.and_eq_true, decide_eq_true_eq]; omega
  rw [aggregateW_eq_aggregate op maxnan _ vals (by simpa using hlen) hop hmx]
  · apply aggregate_spec op maxnan h0 h3
    · cases ts with
      | nil => exact absurd rfl hne
      | cons t r => cases vals with
        | nil => simp at hlen
        | cons v w => simp
    · rw [List.map_fst_zip (by simp [hlen])]
      exact aggIndex_nondecreasing st he ts hv hc
  · intro i hi
    obtain ⟨t, ht, rfl⟩ := List.mem_map.mp hi
    exact (aggIndex_fits_int32 st he t (hv t ht).1 (hv t ht).2).2

example : aggregateW (α := ℚ) 0 0
    ([⟨1999, 12, 31, 23⟩, ⟨2000, 1, 1, 0⟩, ⟨2000, 1, 1, 5⟩, ⟨2000, 2, 29, 0⟩].map (aggIndex .MS))
    [some 1, some 2, some 3, some 4] = .ok [some 1, some 5, some 4] := by decide +kernel
example := aggregateW_on_time_index (α := ℚ) 0 0 (by norm_num) (by norm_num) (by decide) .MS (by intro e h; cases h)
  [⟨1999, 12, 31, 23⟩, ⟨2000, 1, 1, 0⟩, ⟨2000, 1, 1, 5⟩, ⟨2000, 2, 29, 0⟩] [some 1, some 2, some 3, some 4] rfl
  (by simp) (by decide) (by decide)

/-- the wrapper on int32-representable arguments is the kernel specification (operators 0..3) -/
theorem aggregateW_spec (op maxnan : Int) (h0 : 0 ≤ op) (h3 : op ≤ 3) (hmx : inInt32 maxnan = true)
    (idx : List Int) (vals : List (Option α)) (hlen : idx.length = vals.length) (hne : idx ≠ [])
    (hidx : ∀ i ∈ idx, inInt32 i = true) (hs : idx.Pairwise (· ≤ ·)) :
    aggregateW op maxnan idx vals =
      .ok ((keys (idx.zip vals)).map fun k => reduce op maxnan (groupOf (idx.zip vals) k)) := by
  have hop : inInt32 op = true := by
    simp only [inInt32, Bool.and_eq_true, decide_eq_true_eq]; omega
  rw [aggregateW_eq_aggregate op maxnan idx vals hlen hop hmx hidx]
  apply aggregate_spec op maxnan h0 h3
  · cases idx with
    | nil => exact absurd rfl hne
    | cons t r => cases vals with
      | nil => simp at hlen
      | cons v w => simp
  · rwa [List.map_fst_zip (by simp [hlen])]

example := aggregateW_spec (α := ℚ) 2 1 (by norm_num) (by norm_num) (by decide) [-2147483648, -2147483648, 2147483647]
  [some (-3), none, some 7] rfl (by simp) (by decide) (by decide)

end chain

/-! ### calendar -/

/-- every month of the series is a valid month with 28..31 days -/
theorem ndaysAt_range (y0 : Int) (m0 j : Nat) : 28 ≤ ndaysAt y0 m0 j ∧ ndaysAt y0 m0 j ≤ 31 := by
  have h := monthAt_month_valid y0 m0 j
  exact daysInMonth_range (monthAt y0 m0 j).1 (monthAt y0 m0 j).2 h.1 h.2

/-- the series starts in the requested month … -/
theorem monthAt_zero (y0 : Int) (m0 : Nat) (h1 : 1 ≤ m0) (h12 : m0 ≤ 12) : monthAt y0 m0 0 = (y0, m0) := by
  simp only [monthAt, Nat.add_zero]
  have h1 : (m0 - 1) / 12 = 0 := by omega
  have h2 : (m0 - 1) % 12 + 1 = m0 := by omega
  simp [h1, h2]

example : monthAt 1999 12 0 = (1999, 12) := monthAt_zero 1999 12 (by norm_num) (by norm_num)

/-- … and walks through consecutive calendar months: December is followed by January of the next year -/
theorem monthAt_succ (y0 : Int) (m0 j : Nat) :
    monthAt y0 m0 (j + 1) =
      if (monthAt y0 m0 j).2 = 12 then ((monthAt y0 m0 j).1 + 1, 1)
      else ((monthAt y0 m0 j).1, (monthAt y0 m0 j).2 + 1) := by
  by_cases h : (monthAt y0 m0 j).2 = 12
  · rw [if_pos h]
    simp only [monthAt] at h ⊢
    have h1 : (m0 - 1 + (j + 1)) / 12 = (m0 - 1 + j) / 12 + 1 := by omega
    have h2 : (m0 - 1 + (j + 1)) % 12 = 0 := by omega
    rw [h1, h2]; push_cast; simp; ring
  · rw [if_neg h]
    simp only [monthAt] at h ⊢
    have h1 : (m0 - 1 + (j + 1)) / 12 = (m0 - 1 + j) / 12 := by omega
    have h2 : (m0 - 1 + (j + 1)) % 12 = (m0 - 1 + j) % 12 + 1 := by omega
    rw [h1, h2]

example : monthAt 1999 12 1 = (2000, 1) := by decide

/-- a year has 365 days, 366 in a leap year -/
theorem days_in_year (y : Int) :
    ((List.range 12).map fun m => daysInMonth y (m + 1)).sum = if isLeap y then 366 else 365 := by
  cases h : isLeap y <;> simp [List.range, List.range.loop, daysInMonth, h]

example : isLeap 2000 = true ∧ isLeap 1900 = false ∧ isLeap 2024 = true ∧ isLeap 2023 = false := by decide

/-- the Gregorian leap rule: every 4th year, except centuries not divisible by 400 -/
theorem isLeap_iff (y : Int) : isLeap y = true ↔ (y % 4 = 0 ∧ (y % 100 ≠ 0 ∨ y % 400 = 0)) := by
  simp [isLeap]

/-! ### monthly2daily -/
section m2d
set_option linter.unusedSectionVars false
variable {α : Type} [Field α] [LinearOrder α] [IsStrictOrderedRing α]

/-- flat, one month: a non-negative monthly value is spread evenly, nothing is masked, the days add up to it -/
theorem flatMonth_spec (v : α) (hv : 0 ≤ v) (n : Nat) (hn : 0 < n) :
    flatMonth 0 (some v) n = List.replicate n (some (v / (n : α))) ∧
      (vals (flatMonth 0 (some v) n)).sum = v := by
  have hn' : (0 : α) < (n : α) := by exact_mod_cast hn
  have hd : ¬ v / (n : α) < 0 := not_lt.mpr (div_nonneg hv hn'.le)
  have h1 : flatMonth 0 (some v) n = List.replicate n (some (v / (n : α))) := by
    simp [flatMonth, hd]
  refine ⟨h1, ?_⟩
  rw [h1]
  have : vals (List.replicate n (some (v / (n : α)))) = List.replicate n (v / (n : α)) := by
    induction n with
    | zero => simp [vals]
    | succ k ih => simp [vals, List.replicate_succ]
  rw [this, List.sum_replicate, nsmul_eq_mul]
  field_simp

example : (vals (flatMonth (0 : ℚ) (some 62) 31)).sum = 62 := (flatMonth_spec 62 (by norm_num) 31 (by norm_num)).2

/-- **monthly2daily, flat**: a complete non-negative month-start series gives, month by month, one value per
calendar day of that month, none missing, adding up to the monthly input -/
theorem m2dFlat_spec (y0 : Int) (m0 : Nat) (h1 : 1 ≤ m0) (h12 : m0 ≤ 12) (ys : List α) (hne : ys ≠ [])
    (hpos : ∀ y ∈ ys, 0 ≤ y) :
    ∃ months, m2dFlat y0 m0 0 (ys.map some) = .ok months ∧ months.length = ys.length ∧
      ∀ (j : Nat) (hj : j < ys.length) (hj' : j < months.length),
        months[j].length = ndaysAt y0 m0 j ∧ (∀ o ∈ months[j], o ≠ none) ∧
        (vals months[j]).sum = ys[j] := by
  have hm : ¬ (m0 < 1 ∨ 12 < m0) := by omega
  have hrun : m2dFlat y0 m0 (0 : α) (ys.map some) =
      .ok (List.zipWith (flatMonth 0) (ys.map some) (monthLengths y0 m0 (ys.map some).length)) := by
    unfold m2dFlat
    rw [if_neg hm, if_neg (by simpa using hne)]
  refine ⟨_, hrun, by simp [monthLengths_length], ?_⟩
  intro j hj hj'
  have hy := hpos ys[j] (List.getElem_mem hj)
  have hn := ndaysAt_pos y0 m0 j
  obtain ⟨e1, e2⟩ := flatMonth_spec ys[j] hy (ndaysAt y0 m0 j) hn
  simp only [List.getElem_zipWith, List.getElem_map, List.length_map, monthLengths_getElem]
  refine ⟨by rw [e1]; simp, ?_, e2⟩
  rw [e1]
  intro o ho
  rw [List.mem_replicate] at ho
  rw [ho.2]; simp

example := m2dFlat_spec (α := ℚ) 2024 2 (by norm_num) (by norm_num) [29, 0, 30] (by simp) (by decide +kernel)

/-- cubic, one month: one value per day, and the daily differences of the cumulative cubic telescope to the
monthly value — for ANY derivative constraints `c1`, `c2` -/
theorem cubicMonth_spec (m : Month α) (hn : 0 < m.n) :
    (cubicMonth m).length = m.n ∧ (cubicMonth m).sum = m.y := by
  refine ⟨by simp [cubicMonth], ?_⟩
  unfold cubicMonth
  rw [sum_range_diff (cum m) m.n, cum_end m hn, cum_zero]
  ring

example : (cubicMonth ({ y := 28, n := 28, c1 := 5, c2 := -7 } : Month ℚ)).sum = 28 :=
  (cubicMonth_spec _ (by norm_num)).2

/-- **monthly2daily, cubic**: every month-start series (any values) gives, month by month, one value per
calendar day of that month adding up to the monthly input -/
theorem m2dCubic_spec (y0 : Int) (m0 : Nat) (h1 : 1 ≤ m0) (h12 : m0 ≤ 12) (minthr : α) (ys : List α)
    (hne : ys ≠ []) :
    ∃ months, m2dCubic y0 m0 minthr (ys.map some) = .ok months ∧ months.length = ys.length ∧
      ∀ (j : Nat) (hj : j < ys.length) (hj' : j < months.length),
        months[j].length = ndaysAt y0 m0 j ∧ months[j].sum = ys[j] := by
  have hm : ¬ (m0 < 1 ∨ 12 < m0) := by omega
  have hlen : ys.length = (monthLengths y0 m0 ys.length).length := by simp [monthLengths_length]
  have hyn : (sweep (cubicInit ys (monthLengths y0 m0 ys.length))).map (fun m => (m.y, m.n)) =
      ys.zip (monthLengths y0 m0 ys.length) := by
    rw [sweep_yn, cubicInit_yn ys _ hlen]
  have hl : (sweep (cubicInit ys (monthLengths y0 m0 ys.length))).length = ys.length := by
    have := congrArg List.length hyn
    simpa [monthLengths_length] using this
  have hys : (ys.map some).map (fillMissing minthr) = ys := by
    simp [List.map_map, Function.comp_def, fillMissing]
  have hrun : m2dCubic y0 m0 minthr (ys.map some) =
      .ok ((sweep (cubicInit ys (monthLengths y0 m0 ys.length))).map cubicMonth) := by
    unfold m2dCubic
    rw [if_neg hm, if_neg (by simpa using hne)]
    simp only [hys]
  refine ⟨_, hrun, by simp [hl], ?_⟩
  intro j hj hj'
  simp only [List.getElem_map]
  have hj2 : j < (sweep (cubicInit ys (monthLengths y0 m0 ys.length))).length := by omega
  have hel := congrArg (fun l => l[j]?) hyn
  simp only [List.getElem?_map, List.getElem?_eq_getElem hj2, Option.map_some] at hel
  rw [List.getElem?_eq_getElem (by simp [monthLengths_length]; exact hj)] at hel
  simp only [List.getElem_zip, monthLengths_getElem, Option.some.injEq, Prod.mk.injEq] at hel
  obtain ⟨ey, en⟩ := hel
  have hn : 0 < (sweep (cubicInit ys (monthLengths y0 m0 ys.length)))[j].n := by
    rw [en]; exact ndaysAt_pos y0 m0 j
  obtain ⟨e1, e2⟩ := cubicMonth_spec _ hn
  exact ⟨by rw [e1, en], by rw [e2, ey]⟩

example := m2dCubic_spec 1900 2 (by norm_num) (by norm_num) (0 : ℚ) [28, 62] (by simp)

/-- **monthly2daily through its entry point** (`interpolation = "flat"` or `"cubic"`, default threshold 0):
a complete non-negative month-start series gives, month by month, one non-missing value per calendar day of that
month, adding up to the monthly input; any other interpolation name is rejected -/
theorem m2d_spec (interp : String) (hi : interp = "flat" ∨ interp = "cubic") (y0 : Int) (m0 : Nat)
    (h1 : 1 ≤ m0) (h12 : m0 ≤ 12) (ys : List α) (hne : ys ≠ []) (hpos : ∀ y ∈ ys, 0 ≤ y) :
    ∃ months, m2d interp y0 m0 0 (ys.map some) = .ok months ∧ months.length = ys.length ∧
      ∀ (j : Nat) (hj : j < ys.length) (hj' : j < months.length),
        months[j].length = ndaysAt y0 m0 j ∧ (∀ o ∈ months[j], o ≠ none) ∧
        (vals months[j]).sum = ys[j] := by
  rcases hi with rfl | rfl
  · simpa [m2d] using m2dFlat_spec y0 m0 h1 h12 ys hne hpos
  · obtain ⟨ms, hrun, hlen, hj⟩ := m2dCubic_spec y0 m0 h1 h12 (0 : α) ys hne
    have hne' : ("cubic" : String) ≠ "flat" := by decide
    refine ⟨ms.map fun d => d.map some, by simp [m2d, hne', hrun], by simpa using hlen, ?_⟩
    intro j hj1 hj2
    have hj3 : j < ms.length := by simpa using hj2
    obtain ⟨e1, e2⟩ := hj j hj1 hj3
    simp only [List.getElem_map]
    refine ⟨by simpa using e1, by simp, ?_⟩
    have : vals (ms[j].map some) = ms[j] := by
      simp [vals, List.filterMap_map]
    rw [this, e2]

example := m2d_spec (α := ℚ) "cubic" (Or.inr rfl) 2024 2 (by norm_num) (by norm_num) [29, 62] (by simp)
  (by decide +kernel)

theorem m2d_rejects_other_interpolation (interp : String) (hf : interp ≠ "flat") (hc : interp ≠ "cubic")
    (y0 : Int) (m0 : Nat) (minthr : α) (vs : List (Option α)) :
    m2d interp y0 m0 minthr vs = .error .badInterpolation := by
  simp [m2d, hf, hc]

example : m2d (α := ℚ) "linear" 2024 2 0 [some 1] = .error .badInterpolation :=
  m2d_rejects_other_interpolation "linear" (by decide) (by decide) _ _ _ _

end m2d


/-! ### round 7 — rounding: statements that are true of IEEE doubles -/
section rounding
set_option linter.unusedSectionVars false
variable {β : Type} [Add β] [Div β] [LT β] [DecidableLT β] [OfNat β 0] [NatCast β]

/-- `aggregate_spec` over ANY carrier whose addition satisfies `x + 0 = x` (no other law: not associativity, not
commutativity, nothing about `/` or `<`): one value per distinct index value, in order, the left-to-right reduction
`red` of the non-missing values of its group under the NaN policy.  Ordered fields, the rounded arithmetic `Fl R`
below and IEEE doubles (where `x + 0 = x` for every non-NaN `x` but `-0`, which a running sum started at `+0` never
holds) are instances; the right-hand side is what the driver evaluates in `Float` (request `aggspec`) -/
theorem aggregate_spec_of_add_zero (h0 : ∀ x : β, x + 0 = x) (op maxnan : Int) (hop0 : 0 ≤ op) (hop3 : op ≤ 3)
    (l : List (Int × Option β)) (hne : l ≠ []) (hs : (l.map Prod.fst).Pairwise (· ≤ ·)) :
    aggregate op maxnan l = .ok (aggregateSpec op maxnan l) := by
  rw [aggregate_eq_groups op maxnan l hne hs, groups_eq l hs, List.map_map]
  congr 1
  apply List.map_congr_left
  intro k _
  simp [flush_accOf_of_add_zero h0 op maxnan hop0 hop3]

example : aggregate 1 1 ℓ₀ = .ok (aggregateSpec 1 1 ℓ₀) :=
  aggregate_spec_of_add_zero (fun x => add_zero x) 1 1 (by norm_num) (by norm_num) ℓ₀ (by simp) (by decide +kernel)

/-- max and tail involve no arithmetic at all: over ANY carrier the kernel returns the specification's `maxOf` /
last non-missing value of each group (so these two operators are exact in floating point) -/
theorem aggregate_spec_max_tail_any_carrier (op maxnan : Int) (hop : op = 2 ∨ op = 3)
    (l : List (Int × Option β)) (hne : l ≠ []) (hs : (l.map Prod.fst).Pairwise (· ≤ ·)) :
    aggregate op maxnan l = .ok (aggregateSpec op maxnan l) := by
  rw [aggregate_eq_groups op maxnan l hne hs, groups_eq l hs, List.map_map]
  congr 1
  apply List.map_congr_left
  intro k _
  exact flush_accOf_max_tail op maxnan hop _

example : aggregate 2 1 ℓ₀ = .ok (aggregateSpec 2 1 ℓ₀) :=
  aggregate_spec_max_tail_any_carrier 2 1 (Or.inl rfl) ℓ₀ (by simp) (by decide +kernel)
example : aggregateSpec 2 1 ℓ₀ = [some (-1), some 5] ∧ aggregateSpec 3 1 ℓ₀ = [some (-1), some 5] := by decide +kernel

/-- `flathomogen_spec` over any carrier with `x + 0 = x` -/
theorem flathomogen_spec_of_add_zero (h0 : ∀ x : β, x + 0 = x) (maxnan : Int) (l : List (Int × Option β))
    (hne : l ≠ []) (hs : (l.map Prod.fst).Pairwise (· ≤ ·)) :
    flathomogen maxnan l = .ok (flathomogenSpec maxnan l) := by
  rw [flathomogen_eq_groups maxnan l hne hs]
  congr 1
  have hl := groups_keyed l
  have hmap := congrArg (List.map fun p : Int × Option β => cell maxnan (groupOf l p.1) p.2) hl
  unfold flathomogenSpec
  rw [← hmap, groups_eq l hs]
  simp only [List.flatMap_map, List.map_flatMap, List.map_map, hcells_eq_of_add_zero h0]
  rfl

example : flathomogen 1 ℓ₀ = .ok (flathomogenSpec 1 ℓ₀) :=
  flathomogen_spec_of_add_zero (fun x => add_zero x) 1 ℓ₀ (by simp) (by decide +kernel)

/-- what `maxOf` is, over any linear order (no arithmetic): a member of the list that bounds every member -/
theorem maxOf_spec_linear_order {γ : Type} [LinearOrder γ] [OfNat γ 0] (v : List γ) (hv : v ≠ []) :
    maxOf v ∈ v ∧ ∀ x ∈ v, x ≤ maxOf v :=
  maxOf_mem_and_ge v hv

example : maxOf ([-3, -1, -2] : List ℚ) = -1 := by decide +kernel

end rounding

section rounded
set_option linter.unusedSectionVars false
variable {α : Type} [Field α] [LinearOrder α] [IsStrictOrderedRing α] {R : Rounding α}

/-- rounded arithmetic (`a + b := rnd (a + b)`, `a / b := rnd (a / b)`, `(n) := rnd n` for a monotone idempotent rounding
with `rnd 0 = 0`, e.g. IEEE round-to-nearest without overflow): the kernel is the left-to-right rounded reduction of
each group — every operator 0..3, every `maxnan` -/
theorem aggregate_spec_rounded (op maxnan : Int) (hop0 : 0 ≤ op) (hop3 : op ≤ 3) (l : List (Int × Option (Fl R)))
    (hne : l ≠ []) (hs : (l.map Prod.fst).Pairwise (· ≤ ·)) :
    aggregate op maxnan l = .ok (aggregateSpec op maxnan l) :=
  aggregate_spec_of_add_zero Fl.add_zero op maxnan hop0 hop3 l hne hs

/-- … and `flathomogen` writes the rounded group mean -/
theorem flathomogen_spec_rounded (maxnan : Int) (l : List (Int × Option (Fl R))) (hne : l ≠ [])
    (hs : (l.map Prod.fst).Pairwise (· ≤ ·)) : flathomogen maxnan l = .ok (flathomogenSpec maxnan l) :=
  flathomogen_spec_of_add_zero Fl.add_zero maxnan l hne hs

/-- the rounded sum of non-negative values is non-negative and at least every one of them … -/
theorem rounded_sum_nonneg_dominates (v : List (Fl R)) (hv : ∀ x ∈ v, 0 ≤ x.val) :
    0 ≤ (red 0 v).val ∧ ∀ x ∈ v, x.val ≤ (red 0 v).val := by
  simpa [red] using sumL_nonneg_dominates v hv

/-- … so is their rounded mean (what `aggregate` operator 1 and `flathomogen` return) -/
theorem rounded_mean_nonneg (v : List (Fl R)) (hv : ∀ x ∈ v, 0 ≤ x.val) : 0 ≤ (red 1 v).val := by
  by_cases he : v = []
  · subst he; simp [red]
  · have h1 := (sumL_nonneg_dominates v hv).1
    have h2 : (0 : α) ≤ R.rnd (v.length : α) := rnd_nonneg (Nat.cast_nonneg _)
    simp only [red, show (1 : Int) ≠ 0 by decide, if_false, if_true, List.isEmpty_iff, he, Fl.div_val,
      Fl.natCast_val]
    exact rnd_nonneg (div_nonneg h1 h2)

/-- the rounded sum is monotone in every term -/
theorem rounded_sum_mono (v w : List (Fl R)) (h : List.Forall₂ (fun a b => a.val ≤ b.val) v w) :
    (red 0 v).val ≤ (red 0 w).val := by
  simpa [red] using sumL_mono v w h

/-- the rounded sum is the exact sum whenever every partial sum is representable (integers below 2^53, dyadic
values of one scale, one-value groups …) -/
theorem rounded_sum_exact (v : List (Fl R))
    (hrep : ∀ n ≤ v.length, R.rnd (((v.take n).map Fl.val).sum) = ((v.take n).map Fl.val).sum) :
    (red 0 v).val = (v.map Fl.val).sum := by
  simpa [red] using sumL_exact v hrep

/-- forward error of the rounded sum when `rnd` has relative error `u` (IEEE: `u = 2^-53`, additions never
underflow): `|fl(Σx) − Σx| ≤ ((1+u)^n − 1)·Σ|x|` -/
theorem rounded_sum_error_bound (u : α) (hu : 0 ≤ u) (herr : ∀ a, |R.rnd a - a| ≤ u * |a|) (v : List (Fl R)) :
    |(red 0 v).val - (v.map Fl.val).sum| ≤ ((1 + u) ^ v.length - 1) * (v.map fun x => |x.val|).sum := by
  simpa [red] using sumL_error_bound u hu herr v

/-- … which is within the correspondence budget `n·2u·Σ|x|` (`n·2^-52·Σ|x|` for doubles) as long as `2nu ≤ 1` -/
theorem rounded_sum_error_budget (u : α) (hu : 0 ≤ u) (herr : ∀ a, |R.rnd a - a| ≤ u * |a|) (v : List (Fl R))
    (hn : 2 * (v.length : α) * u ≤ 1) :
    |(red 0 v).val - (v.map Fl.val).sum| ≤ 2 * (v.length : α) * u * (v.map fun x => |x.val|).sum := by
  have hA : 0 ≤ (v.map fun x => |x.val|).sum := by
    apply List.sum_nonneg
    intro x hx
    obtain ⟨y, _, rfl⟩ := List.mem_map.mp hx
    exact abs_nonneg _
  exact le_trans (rounded_sum_error_bound u hu herr v)
    (mul_le_mul_of_nonneg_right (pow_one_add_sub_one_le u hu v.length hn) hA)

/-- **totals are conserved up to rounding**: the rounded group sums add up (exactly, as the oracle adds them) to the
exact total of the inputs within the sum of the per-group error bounds -/
theorem rounded_totals_conserved_within (u : α) (hu : 0 ≤ u) (herr : ∀ a, |R.rnd a - a| ≤ u * |a|)
    (gs : List (List (Fl R))) :
    |(gs.map fun v => (red 0 v).val).sum - (gs.map fun v => (v.map Fl.val).sum).sum| ≤
      (gs.map fun v => ((1 + u) ^ v.length - 1) * (v.map fun x => |x.val|).sum).sum := by
  induction gs with
  | nil => simp
  | cons v rest ih =>
    simp only [List.map_cons, List.sum_cons]
    have h1 := rounded_sum_error_bound u hu herr v
    have : (red 0 v).val + (rest.map fun v => (red 0 v).val).sum -
        ((v.map Fl.val).sum + (rest.map fun v => (v.map Fl.val).sum).sum) =
        ((red 0 v).val - (v.map Fl.val).sum) +
        ((rest.map fun v => (red 0 v).val).sum - (rest.map fun v => (v.map Fl.val).sum).sum) := by ring
    rw [this]
    exact le_trans (abs_add_le _ _) (add_le_add h1 ih)

end rounded

/-- a genuinely lossy rounding for the `example`s: round down to an integer -/
def floorRounding : Rounding ℚ where
  rnd := fun a => ((⌊a⌋ : Int) : ℚ)
  mono := fun a b h => by exact_mod_cast Int.floor_mono h
  idem := fun a => by simp
  zero := by simp

/-- the exact "rounding" -/
def idRounding : Rounding ℚ where
  rnd := id
  mono := fun _ _ h => h
  idem := fun _ => rfl
  zero := rfl

def flInt (n : Int) : Fl floorRounding := ⟨(n : ℚ), by simp [floorRounding]⟩
def flQ (q : ℚ) : Fl idRounding := ⟨q, rfl⟩

-- rounded mean of 1, 2 (round down): ⌊3/2⌋ = 1, the field mean is 3/2
example : (red 1 [flInt 1, flInt 2]).val = 1 ∧ (red 0 [flInt 1, flInt 2]).val = 3 := by decide +kernel
example : 0 ≤ (red 1 [flInt 1, flInt 2]).val :=
  rounded_mean_nonneg _ (by intro x hx; simp at hx; rcases hx with rfl | rfl <;> simp [flInt])
example := rounded_sum_nonneg_dominates [flInt 1, flInt 2]
  (by intro x hx; simp at hx; rcases hx with rfl | rfl <;> simp [flInt])
example := rounded_sum_mono [flInt 1, flInt 2] [flInt 1, flInt 5]
  (by refine .cons ?_ (.cons ?_ .nil) <;> norm_num [flInt])
example := rounded_sum_exact [flInt 1, flInt (-4), flInt 2] (by
  intro n hn
  have : n = 0 ∨ n = 1 ∨ n = 2 ∨ n = 3 := by simp at hn; omega
  rcases this with rfl | rfl | rfl | rfl <;> decide +kernel)
example := rounded_sum_error_budget (R := idRounding) (1 / 8) (by norm_num) (by intro a; simp [idRounding])
  [flQ (1 / 3), flQ (-2), flQ 5] (by norm_num)
example := rounded_totals_conserved_within (R := idRounding) (1 / 8) (by norm_num) (by intro a; simp [idRounding])
  [[flQ (1 / 3), flQ (-2)], [flQ 5]]
example := aggregate_spec_rounded (R := floorRounding) 1 0 (by norm_num) (by norm_num)
  [(1, some (flInt 1)), (1, some (flInt 2)), (4, some (flInt (-3)))] (by simp) (by simp)

/-! ### round 7 — the kernels at buffer level, the Cython layer, the wrappers written through them -/
section buffers
set_option linter.unusedSectionVars false
variable {β : Type} [Add β] [Div β] [LT β] [DecidableLT β] [OfNat β 0] [NatCast β]

/-- **what `c_aggregate` leaves in the caller's arrays** on a non-decreasing index (any carrier, any operator, any
previous content of `outputs` / `iend`): return code 0, one value per distinct index value at the head of `outputs`,
the rest of `outputs` untouched, `iend[0]` = the number of distinct index values -/
theorem cAggregate_on_nondecreasing (op maxnan : Int) (l : List (Int × Option β)) (hne : l ≠ [])
    (hs : (l.map Prod.fst).Pairwise (· ≤ ·)) (buf : List (Option β)) (i0 : Int) :
    cAggregate op maxnan l buf i0 =
      { ierr := none, outputs := aggregatePerGroup op maxnan l ++ buf.drop (keys l).length,
        iend := ((keys l).length : Int) } := by
  have h := aggregate_per_group_any_carrier op maxnan l hne hs
  have := cAggregate_of_ok op maxnan l buf i0 _ h
  simpa [aggregatePerGroup] using this

example : cAggregate 0 1 ℓ₀ [some 9, some 9, some 9, some 9, some 9] 77 =
    { ierr := none, outputs := [some (-4), some 5, some 9, some 9, some 9], iend := 2 } := by decide +kernel

/-- … and on any rejected input: the code of `aggregate`, `iend[0]` untouched, `outputs` untouched beyond the groups
closed before the error -/
theorem cAggregate_on_error (op maxnan : Int) (l : List (Int × Option β)) (buf : List (Option β)) (i0 : Int)
    (e : Err) (h : aggregate op maxnan l = .error e) :
    (cAggregate op maxnan l buf i0).ierr = some e ∧ (cAggregate op maxnan l buf i0).iend = i0 ∧
      ∃ w, (cAggregate op maxnan l buf i0).outputs = w ++ buf.drop w.length :=
  cAggregate_of_error op maxnan l buf i0 e h

example : cAggregate (α := ℚ) 0 0 [(1, some 1), (2, some 2), (1, some 3)] [some 9, some 9, some 9] 77 =
    { ierr := some .decreasingIndex, outputs := [some 1, some 9, some 9], iend := 77 } := by decide +kernel

/-- `c_flathomogen` at buffer level: every position of `outputs` is overwritten on success (any carrier) … -/
theorem cFlathomogen_on_nondecreasing (maxnan : Int) (l : List (Int × Option β)) (hne : l ≠ [])
    (hs : (l.map Prod.fst).Pairwise (· ≤ ·)) (buf : List (Option β)) (hb : buf.length = l.length) :
    cFlathomogen maxnan l buf = (none, flathomogenPerGroup maxnan l) := by
  have h := flathomogen_per_group_any_carrier maxnan l hne hs
  have hlen := flathomogen_length maxnan l _ h
  have := cFlathomogen_of_ok maxnan l buf _ h
  rw [this, List.drop_of_length_le (by omega)]
  simp [flathomogenPerGroup]

/-- … and untouched beyond the groups closed before a decrease -/
theorem cFlathomogen_on_error (maxnan : Int) (l : List (Int × Option β)) (buf : List (Option β))
    (e : Err) (h : flathomogen maxnan l = .error e) :
    (cFlathomogen maxnan l buf).1 = some e ∧ ∃ w, (cFlathomogen maxnan l buf).2 = w ++ buf.drop w.length :=
  cFlathomogen_of_error maxnan l buf e h

example : cFlathomogen (α := ℚ) 0 [(1, some 1), (2, some 2), (2, some 4), (1, some 3)] [some 9, some 9, some 9, some 9] =
    (some .decreasingIndex, [some 1, some 9, some 9, some 9]) := by decide +kernel
example : cFlathomogen 1 ℓ₀ [none, none, none, none, none] = (none, flathomogenPerGroup 1 ℓ₀) :=
  cFlathomogen_on_nondecreasing 1 ℓ₀ (by simp) (by decide +kernel) _ rfl

/-- the Cython layer rejects buffers of unequal lengths before the kernel can index past their end -/
theorem pyx_rejects_mismatched_buffers (op maxnan : Int) (hop : inInt32 op = true) (hmx : inInt32 maxnan = true)
    (idx : List Int) (vals buf : List (Option β)) (iend : List Int)
    (h : idx.length ≠ vals.length ∨ idx.length ≠ buf.length ∨ iend.length ≠ 1) :
    pyxAggregate op maxnan idx vals buf iend = .error .assertFailed ∧
    (idx.length ≠ vals.length ∨ idx.length ≠ buf.length →
      pyxFlathomogen maxnan idx vals buf = .error .assertFailed) := by
  constructor
  · simp [pyxAggregate, hop, hmx, h]
  · intro h'
    simp [pyxFlathomogen, hmx, h']

example : pyxAggregate (α := ℚ) 0 0 [1, 2] [some 1, some 2] [some 0] [0] = .error .assertFailed := by decide +kernel

variable [Mul β]

/-- **`dutils.aggregate` line by line** (`outputs = 0.*inputs`, `iend = [0]`, the Cython call on these buffers,
`ierr > 0` → ValueError, `outputs[:iend[0]]`) returns exactly what the kernel model `aggregateW` returns — for every
argument, accepted or not: the truncation keeps the results and nothing of the scratch buffer -/
theorem aggregateWB_eq_aggregateW (op maxnan : Int) (idx : List Int) (vals : List (Option β)) :
    aggregateWB op maxnan idx vals = aggregateW op maxnan idx vals := by
  unfold aggregateWB aggregateW
  by_cases hlen : idx.length ≠ vals.length
  · rw [if_pos hlen, if_pos hlen]
  rw [if_neg hlen, if_neg hlen]
  by_cases hov : (!(inInt32 op) || !(inInt32 maxnan)) = true
  · rw [if_pos hov, if_pos hov]
  rw [if_neg hov, if_neg hov]
  have hlen' : idx.length = vals.length := not_not.mp hlen
  have hg : ¬ ((idx.map wrap32).length ≠ vals.length ∨ (idx.map wrap32).length ≠ (vals.map zeroTimes).length ∨
      ([0] : List Int).length ≠ 1) := by simp [hlen']
  simp only [pyxAggregate, if_neg hov, if_neg hg]
  cases h : aggregate op maxnan ((idx.map wrap32).zip vals) with
  | ok out =>
    rw [cAggregate_of_ok _ _ _ _ _ _ h]
    simp
  | error e =>
    obtain ⟨h1, _, _⟩ := cAggregate_of_error op maxnan _ (vals.map zeroTimes) (([0] : List Int).headD 0) e h
    generalize cAggregate op maxnan ((idx.map wrap32).zip vals) (vals.map zeroTimes) (([0] : List Int).headD 0) = k at h1
    obtain ⟨ie, o, ien⟩ := k
    simp only at h1
    subst h1
    rfl

/-- the same for `dutils.flathomogen` -/
theorem flathomogenWB_eq_flathomogenW (maxnan : Int) (idx : List Int) (vals : List (Option β)) :
    flathomogenWB maxnan idx vals = flathomogenW maxnan idx vals := by
  unfold flathomogenWB flathomogenW
  by_cases hlen : idx.length ≠ vals.length
  · rw [if_pos hlen, if_pos hlen]
  rw [if_neg hlen, if_neg hlen]
  by_cases hov : (!(inInt32 maxnan)) = true
  · rw [if_pos hov, if_pos hov]
  rw [if_neg hov, if_neg hov]
  have hlen' : idx.length = vals.length := not_not.mp hlen
  have hg : ¬ ((idx.map wrap32).length ≠ vals.length ∨ (idx.map wrap32).length ≠ (vals.map zeroTimes).length) := by
    simp [hlen']
  simp only [pyxFlathomogen, if_neg hov, if_neg hg]
  cases h : flathomogen maxnan ((idx.map wrap32).zip vals) with
  | ok out =>
    have hl := flathomogen_length maxnan _ _ h
    rw [cFlathomogen_of_ok _ _ _ _ h, List.drop_of_length_le (by simp [hl, hlen'])]
    simp
  | error e =>
    obtain ⟨h1, _⟩ := cFlathomogen_of_error maxnan _ (vals.map zeroTimes) e h
    generalize cFlathomogen maxnan ((idx.map wrap32).zip vals) (vals.map zeroTimes) = k at h1
    obtain ⟨ie, o⟩ := k
    simp only at h1
    subst h1
    rfl

example : aggregateWB (α := ℚ) 2 1 [3, 3, 4] [some (-3), none, some 7] = .ok [some (-3), some 7] := by decide +kernel
example : flathomogenWB (α := ℚ) 1 [3, 3, 4] [some 1, none, some 7] = .ok [some 1, none, some 7] := by decide +kernel
example : aggregateWB (α := ℚ) 0 0 [3, 2] [some 1, some 7] = .error .decreasingIndex := by decide +kernel

end buffers

/-! ### round 7 — histories on one set of arrays (any carrier): in-place edits of the arguments and of returned arrays,
calls of either function with any arguments, accepted or rejected, in any order -/
section histories
set_option linter.unusedSectionVars false
variable {β : Type} [Add β] [Div β] [LT β] [DecidableLT β] [OfNat β 0] [NatCast β]

/-- the arguments after ANY history are what the caller's own assignments made them: no call, accepted or rejected,
and no edit of a returned array ever writes `aggindex` or `inputs` -/
theorem histRun_arguments (s : Hist β) (ops : List (HOp β)) :
    (histRun s ops).1.idx = ops.foldl (fun a o => match o with | .setIdx i k => a.set i k | _ => a) s.idx ∧
    (histRun s ops).1.vals = ops.foldl (fun a o => match o with | .setVal i v => a.set i v | _ => a) s.vals := by
  induction ops generalizing s with
  | nil => exact ⟨rfl, rfl⟩
  | cons o rest ih =>
    obtain ⟨h1, h2⟩ := histStep_args s o
    obtain ⟨i1, i2⟩ := ih (histStep s o).1
    simp only [histRun, List.foldl_cons]
    rw [i1, i2, h1, h2]
    exact ⟨rfl, rfl⟩

/-- every answer in a history is the wrapper applied to the arrays as they are at the moment of the call — nothing
of the earlier calls, their operators, their results or their failures is remembered -/
theorem histRun_answer (s : Hist β) (pre : List (HOp β)) :
    (∀ op maxnan, (histRun s (pre ++ [.callAgg op maxnan])).2 =
      (histRun s pre).2 ++ [aggregateW op maxnan (histRun s pre).1.idx (histRun s pre).1.vals]) ∧
    (∀ maxnan, (histRun s (pre ++ [.callHomog maxnan])).2 =
      (histRun s pre).2 ++ [flathomogenW maxnan (histRun s pre).1.idx (histRun s pre).1.vals]) := by
  constructor
  · intro op maxnan
    rw [histRun_append]
    simp only [histRun, histStep]
    cases aggregateW op maxnan (histRun s pre).1.idx (histRun s pre).1.vals <;> rfl
  · intro maxnan
    rw [histRun_append]
    simp only [histRun, histStep]
    cases flathomogenW maxnan (histRun s pre).1.idx (histRun s pre).1.vals <;> rfl

/-- a rejected call (decreasing index, length mismatch, scalar overflow) leaves the whole state as it was … -/
theorem histStep_rejected_changes_nothing (s : Hist β) (o : HOp β) (e : Err)
    (h : (histStep s o).2 = some (.error e)) : (histStep s o).1 = s := by
  cases o with
  | setVal i v => simp [histStep] at h
  | setIdx i k => simp [histStep] at h
  | scribble r v => simp [histStep] at h
  | callAgg op maxnan =>
    simp only [histStep] at h ⊢
    cases h' : aggregateW op maxnan s.idx s.vals with
    | ok out => rw [h'] at h; simp at h
    | error e' => rfl
  | callHomog maxnan =>
    simp only [histStep] at h ⊢
    cases h' : flathomogenW maxnan s.idx s.vals with
    | ok out => rw [h'] at h; simp at h
    | error e' => rfl

/-- … and no operation but the caller's own overwrite changes an array handed out earlier: an accepted call appends
its fresh result, everything else keeps the list of results -/
theorem histStep_keeps_earlier_results (s : Hist β) (o : HOp β) (ho : ∀ r v, o ≠ .scribble r v) :
    s.outs <+: (histStep s o).1.outs := by
  cases o with
  | setVal i v => exact List.prefix_refl _
  | setIdx i k => exact List.prefix_refl _
  | scribble r v => exact absurd rfl (ho r v)
  | callAgg op maxnan =>
    simp only [histStep]
    cases aggregateW op maxnan s.idx s.vals with
    | ok out => exact List.prefix_append _ _
    | error e => exact List.prefix_refl _
  | callHomog maxnan =>
    simp only [histStep]
    cases flathomogenW maxnan s.idx s.vals with
    | ok out => exact List.prefix_append _ _
    | error e => exact List.prefix_refl _

/-- the same call twice in a row gives the same answer twice -/
theorem histRun_call_repeatable (s : Hist β) (pre : List (HOp β)) (op maxnan : Int) :
    ∃ a, (histRun s (pre ++ [.callAgg op maxnan, .callAgg op maxnan])).2 = (histRun s pre).2 ++ [a, a] := by
  have happ : pre ++ [HOp.callAgg op maxnan, HOp.callAgg op maxnan] =
      (pre ++ [HOp.callAgg (α := β) op maxnan]) ++ [HOp.callAgg op maxnan] := by simp
  have h1 := (histRun_answer s (pre ++ [HOp.callAgg (α := β) op maxnan])).1 op maxnan
  have h2 := (histRun_answer s pre).1 op maxnan
  rw [happ, h1, h2]
  have hargs := histRun_arguments s (pre ++ [HOp.callAgg (α := β) op maxnan])
  have hargs0 := histRun_arguments s pre
  simp only [List.foldl_append, List.foldl_cons, List.foldl_nil] at hargs
  rw [hargs.1, hargs.2, ← hargs0.1, ← hargs0.2]
  exact ⟨aggregateW op maxnan (histRun s pre).1.idx (histRun s pre).1.vals, by simp⟩

-- a history over ℚ: call, overwrite the result, edit an input, make the index decrease (rejected), repair it, call again
example : (histRun (α := ℚ) ⟨[1, 1, 2], [some 1, some 2, some 4], []⟩
    [.callAgg 0 0, .scribble 0 (some (-7)), .setVal 0 (some 10), .callHomog 0, .setIdx 2 0, .callAgg 2 0,
     .setIdx 2 5, .callAgg 2 0]) =
    (⟨[1, 1, 5], [some 10, some 2, some 4], [[some (-7), some (-7)], [some 6, some 6, some 4], [some 10, some 4]]⟩,
     [.ok [some 3, some 4], .ok [some 6, some 6, some 4], .error .decreasingIndex, .ok [some 10, some 4]]) := by
  decide +kernel

end histories

/-! ### round 7 — a floating-point aggregation index (`astype(np.int32)` truncates toward zero) -/
section floatindex
set_option linter.unusedSectionVars false
variable {β : Type} [Add β] [Div β] [LT β] [DecidableLT β] [OfNat β 0] [NatCast β]

/-- the C cast is monotone on the values whose integer part fits int32 … -/
theorem castIdx_mono (p q : Rat) (h : p ≤ q) (hp : inInt32 (truncQ p) = true) (hq : inInt32 (truncQ q) = true) :
    castIdx (some p) ≤ castIdx (some q) := by
  simp only [castIdx, hp, hq, if_true]
  exact truncQ_mono p q h

/-- … and the identity on integer-valued floats -/
theorem castIdx_intCast (n : Int) (hn : inInt32 n = true) : castIdx (some (n : Rat)) = n := by
  simp [castIdx, truncQ_intCast, hn]

example : castIdx (some (19 / 10)) = 1 ∧ castIdx (some (-1 / 2)) = 0 ∧ castIdx (some (-3 / 2)) = -1 ∧
    castIdx (some 3000000000) = -2147483648 ∧ castIdx none = -2147483648 := by decide +kernel

/-- **a non-decreasing float64 index is never rejected** (values whose integer part fits int32; it is aggregated by
integer part, so that all of (-1, 1) is one group) -/
theorem aggregateWF_accepts_nondecreasing (op maxnan : Int) (hop : inInt32 op = true) (hmx : inInt32 maxnan = true)
    (idx : List Rat) (vals : List (Option β)) (hlen : idx.length = vals.length) (hne : idx ≠ [])
    (hr : ∀ q ∈ idx, inInt32 (truncQ q) = true) (hs : idx.Pairwise (· ≤ ·)) :
    aggregateWF op maxnan (idx.map some) vals =
      .ok (aggregatePerGroup op maxnan ((idx.map truncQ).zip vals)) := by
  have hcast : (idx.map some).map castIdx = idx.map truncQ := by
    rw [List.map_map]
    apply List.map_congr_left
    intro q hq
    simp [castIdx, hr q hq]
  have hlen' : ¬ (idx.map some).length ≠ vals.length := by simpa using hlen
  simp only [aggregateWF, if_neg hlen', hop, hmx, Bool.not_true, Bool.or_self, Bool.false_eq_true, if_false, hcast]
  apply aggregate_per_group_any_carrier
  · cases idx with
    | nil => exact absurd rfl hne
    | cons a r => cases vals with
      | nil => simp at hlen
      | cons v w => simp
  · rw [List.map_fst_zip (by simp [hlen]), List.pairwise_map]
    exact hs.imp fun hab => truncQ_mono _ _ hab

example : aggregateWF (α := ℚ) 0 0 [some (-1 / 2), some (1 / 2), some (19 / 10), some 2] [some 1, some 2, some 4, some 8] =
    .ok [some 3, some 4, some 8] := by decide +kernel

/-- an integer-valued float index in int32 behaves as the integer index -/
theorem aggregateWF_on_integer_valued_index (op maxnan : Int) (idx : List Int) (vals : List (Option β))
    (hidx : ∀ i ∈ idx, inInt32 i = true) :
    aggregateWF op maxnan (idx.map fun i : Int => some (Int.cast i : Rat)) vals = aggregateW op maxnan idx vals := by
  have h1 : (idx.map fun i : Int => some (Int.cast i : Rat)).map castIdx = idx := by
    rw [List.map_map]
    conv_rhs => rw [← List.map_id idx]
    apply List.map_congr_left
    intro i hi
    simp [castIdx_intCast i (hidx i hi)]
  have h2 : idx.map wrap32 = idx := by
    conv_rhs => rw [← List.map_id idx]
    apply List.map_congr_left
    intro i hi
    exact wrap32_id i (hidx i hi)
  simp [aggregateWF, aggregateW, h1, h2]

example := aggregateWF_on_integer_valued_index (β := ℚ) 2 0 [3, 3, 4] [some 1, some 5, some 2] (by decide)

end floatindex

/-! ### round 7 — `compute_aggindex` through its entry point: the `AS-MMM` hypothesis discharged from the parser -/

/-- the month position an accepted `AS-MMM` time step carries is 1..12 (the hypothesis `he` of the `aggIndex_*`
theorems follows from the code's own `assert mth in allowed`) -/
theorem parseStep_ASm_range (s : List Char) (e : Nat) (h : parseStep s = .ok (.ASm e)) : 1 ≤ e ∧ e ≤ 12 := by
  unfold parseStep at h
  split at h <;> try (cases h)
  split at h
  · rename_i i hi
    cases h
    obtain ⟨hlt, _⟩ := List.idxOf?_eq_some_iff.mp hi
    have : monthAbbr.length = 12 := rfl
    omega
  · cases h

example : parseStep "AS-JUL".toList = .ok (.ASm 7) := by decide

/-- chronological order checked stamp against next stamp is chronological order of every pair -/
theorem chrono_iff_pairwise (ts : List Stamp) : chrono ts = true ↔ ts.Pairwise Stamp.le := by
  have trans : ∀ a b c : Stamp, Stamp.le a b → Stamp.le b c → Stamp.le a c := by
    intro a b c hab hbc
    unfold Stamp.le at *
    omega
  induction ts with
  | nil => simp [chrono]
  | cons a tl ih =>
    cases tl with
    | nil => simp [chrono]
    | cons b r =>
      simp only [chrono, Bool.and_eq_true, decide_eq_true_eq, ih, List.pairwise_cons]
      constructor
      · rintro ⟨hab, hb, hr⟩
        refine ⟨?_, hb, hr⟩
        intro c hc
        rcases List.mem_cons.mp hc with rfl | hc
        · exact hab
        · exact trans a b c hab (hb c hc)
      · rintro ⟨ha, hb, hr⟩
        exact ⟨ha b (List.mem_cons_self ..), hb, hr⟩

example : chrono [⟨1999, 12, 31, 23⟩, ⟨2000, 1, 1, 0⟩, ⟨2000, 1, 1, 0⟩] = true ∧
    chrono [⟨2000, 1, 1, 0⟩, ⟨1999, 12, 31, 23⟩] = false := by decide

/-- **`compute_aggindex` never produces an index that `aggregate` rejects**: whatever time step it accepts,
chronological valid time stamps of years within ±2147 are mapped to a non-decreasing index (no side condition on the time
step left; beyond 2147 the hourly index wraps: `aggIndex_H_wraps_beyond_2147`) -/
theorem computeAggindex_nondecreasing (timestep : List Char) (ts : List Stamp) (idx : List Int)
    (h : computeAggindex timestep ts = .ok idx) (hv : ∀ t ∈ ts, t.valid ∧ -2147 ≤ t.y ∧ t.y ≤ 2147)
    (hc : chrono ts = true) : idx.Pairwise (· ≤ ·) := by
  unfold computeAggindex at h
  split at h
  · cases h
  · rename_i st hst
    cases h
    exact aggIndex_nondecreasing st (fun e he => parseStep_ASm_range timestep e (he ▸ hst)) ts hv
      ((chrono_iff_pairwise ts).mp hc)

example : computeAggindex "AS-JUL".toList [⟨1999, 7, 31, 0⟩, ⟨1999, 8, 1, 0⟩] = .ok [1998, 1999] := by decide
example := computeAggindex_nondecreasing "AS-JUL".toList [⟨1999, 7, 31, 0⟩, ⟨1999, 8, 1, 0⟩] [1998, 1999]
  (by decide) (by decide) (by decide)

section chain2
set_option linter.unusedSectionVars false
variable {α : Type} [Field α] [LinearOrder α] [IsStrictOrderedRing α]

/-- end to end from the time-step STRING: `aggregate(compute_aggindex(time, timestep), inputs, operator, maxnan)` on
chronological stamps of years within ±2147 is the per-period reduction (no hypothesis on the parsed step) -/
theorem aggregateW_on_compute_aggindex (op maxnan : Int) (h0 : 0 ≤ op) (h3 : op ≤ 3) (hmx : inInt32 maxnan = true)
    (timestep : List Char) (ts : List Stamp) (idx : List Int) (h : computeAggindex timestep ts = .ok idx)
    (vals : List (Option α)) (hlen : ts.length = vals.length) (hne : ts ≠ [])
    (hv : ∀ t ∈ ts, t.valid ∧ -2147 ≤ t.y ∧ t.y ≤ 2147) (hc : chrono ts = true) :
    aggregateW op maxnan idx vals = .ok (aggregateSpec op maxnan (idx.zip vals)) := by
  unfold computeAggindex at h
  split at h
  · cases h
  · rename_i st hst
    cases h
    exact aggregateW_on_time_index op maxnan h0 h3 hmx st
      (fun e he => parseStep_ASm_range timestep e (he ▸ hst)) ts vals hlen hne hv ((chrono_iff_pairwise ts).mp hc)

example := aggregateW_on_compute_aggindex (α := ℚ) 1 0 (by norm_num) (by norm_num) (by decide) "MS".toList
  [⟨1999, 12, 31, 23⟩, ⟨2000, 1, 1, 0⟩, ⟨2000, 1, 1, 5⟩] [199912, 200001, 200001] (by decide)
  [some 1, some 2, some 4] rfl (by simp) (by decide) (by decide)

end chain2

/-! ### round 7 — monthly2daily as the daily Series it returns: values WITH their calendar-day stamps -/

/-- the day after a calendar day is a calendar day: the next day of the month, or the 1st of the next month
(January of the next year after December) -/
theorem nextDay_spec (t : Date) (hm1 : 1 ≤ t.m) (hm12 : t.m ≤ 12) :
    (1 ≤ (nextDay t).m ∧ (nextDay t).m ≤ 12 ∧ 1 ≤ (nextDay t).d ∧
      (nextDay t).d ≤ daysInMonth (nextDay t).y (nextDay t).m) ∧
    (if t.d < daysInMonth t.y t.m then nextDay t = { y := t.y, m := t.m, d := t.d + 1 }
     else if t.m < 12 then nextDay t = { y := t.y, m := t.m + 1, d := 1 }
     else nextDay t = { y := t.y + 1, m := 1, d := 1 }) := by
  unfold nextDay
  split
  · simp; omega
  · split
    · have := daysInMonth_range t.y (t.m + 1) (by omega) (by omega)
      simp; omega
    · have := daysInMonth_range (t.y + 1) 1 (by omega) (by omega)
      simp; omega

example : nextDay ⟨2024, 2, 28⟩ = ⟨2024, 2, 29⟩ ∧ nextDay ⟨2023, 2, 28⟩ = ⟨2023, 3, 1⟩ ∧
    nextDay ⟨1999, 12, 31⟩ = ⟨2000, 1, 1⟩ := by decide

/-- **consecutive days are the calendar days of consecutive months**: the `date_range` of the total length of `k`
months from the 1st of the starting month is, month after month, day 1 … `daysInMonth` of each month of the series -/
theorem daysFrom_covers_months (y0 : Int) (m0 : Nat) (h1 : 1 ≤ m0) (h12 : m0 ≤ 12) (k : Nat) :
    daysFrom { y := y0, m := m0, d := 1 } (monthLengths y0 m0 k).sum =
      (List.range k).flatMap fun j => monthDays (monthAt y0 m0 j).1 (monthAt y0 m0 j).2 := by
  have := daysFrom_months y0 m0 h1 h12 k 0
  simpa [daysFrom] using this

example : daysFrom ⟨2024, 2, 1⟩ (29 + 31) = monthDays 2024 2 ++ monthDays 2024 3 := by decide +kernel
example : (monthLengths 2024 2 2).sum = 60 := by decide

section series
set_option linter.unusedSectionVars false
variable {α : Type} [Field α] [LinearOrder α] [IsStrictOrderedRing α]

/-- the daily Series `monthly2daily` returns (flat: fictive month, `resample("D").ffill()`, division by the
`days_in_month` of every DAY's own stamp, threshold mask, last day dropped; cubic: 31-column grid, columns beyond the
month blanked, NaN filter, `date_range` of the number of values that are left) is, for EVERY input — missing months and
thresholds included — the per-month lists of `m2d` stamped with the calendar days of their months -/
theorem m2dSeries_eq_stamped (isnan : α → Bool) (hnan : ∀ x, isnan x = false) (interp : String) (y0 : Int)
    (m0 : Nat) (minthr : α) (vs : List (Option α)) :
    m2dSeries isnan interp y0 m0 minthr vs =
      match m2d interp y0 m0 minthr vs with
      | .ok months => .ok (stampMonths y0 m0 months)
      | .error e => .error e := by
  unfold m2dSeries m2d
  by_cases hf : interp = "flat"
  · rw [if_pos hf, if_pos hf]
    exact m2dFlatSeries_eq y0 m0 minthr vs
  rw [if_neg hf, if_neg hf]
  by_cases hc : interp = "cubic"
  · rw [if_pos hc, if_pos hc, m2dCubicSeries_eq isnan hnan y0 m0 minthr vs]
    cases m2dCubic y0 m0 minthr vs with
    | error e => rfl
    | ok ms =>
      simp only [stampMonths, List.length_map, List.map_flatMap]
      congr 1
      apply List.flatMap_congr
      intro j hj
      have hj' : j < ms.length := List.mem_range.mp hj
      simp [List.getD_eq_getElem?_getD, List.getElem?_eq_getElem hj', List.zip_map_right]
  · rw [if_neg hc, if_neg hc]

/-- **monthly2daily returns one value per calendar day whose sum over each month is the monthly input**, at the
level of the returned Series: for a complete non-negative month-start series (flat or cubic) the stamps are every
calendar day of the covered months, once, in order; no value is missing; and the values stamped with the days of
month `j` add up to the `j`-th monthly input -/
theorem m2dSeries_spec (isnan : α → Bool) (hnan : ∀ x, isnan x = false) (interp : String)
    (hi : interp = "flat" ∨ interp = "cubic") (y0 : Int) (m0 : Nat) (h1 : 1 ≤ m0) (h12 : m0 ≤ 12) (ys : List α)
    (hne : ys ≠ []) (hpos : ∀ y ∈ ys, 0 ≤ y) :
    ∃ out, m2dSeries isnan interp y0 m0 0 (ys.map some) = .ok out ∧
      out.map Prod.fst = daysFrom { y := y0, m := m0, d := 1 } (monthLengths y0 m0 ys.length).sum ∧
      (∀ p ∈ out, p.2 ≠ none) ∧
      ∀ (j : Nat) (hj : j < ys.length),
        (vals ((out.filter fun p => monthIndex y0 m0 p.1 == (j : Int)).map Prod.snd)).sum = ys[j] := by
  obtain ⟨months, hrun, hlen, hmon⟩ := m2d_spec interp hi y0 m0 h1 h12 ys hne hpos
  have hser := m2dSeries_eq_stamped isnan hnan interp y0 m0 (0 : α) (ys.map some)
  rw [hrun] at hser
  refine ⟨_, hser, ?_, ?_, ?_⟩
  · -- stamps
    rw [daysFrom_covers_months y0 m0 h1 h12, stampMonths, hlen, List.map_flatMap]
    apply List.flatMap_congr
    intro j hj
    have hj' : j < ys.length := List.mem_range.mp hj
    have hj2 : j < months.length := by omega
    rw [List.getD_eq_getElem?_getD, List.getElem?_eq_getElem hj2, Option.getD_some]
    apply List.map_fst_zip
    rw [monthDays_length, (hmon j hj' hj2).1, ndaysAt]
  · -- nothing missing
    intro p hp
    rw [stampMonths] at hp
    obtain ⟨j, hj, hpj⟩ := List.mem_flatMap.mp hp
    have hj2 : j < months.length := List.mem_range.mp hj
    rw [List.getD_eq_getElem?_getD, List.getElem?_eq_getElem hj2, Option.getD_some] at hpj
    exact (hmon j (by omega) hj2).2.1 p.2 (List.of_mem_zip hpj).2
  · -- monthly sums
    intro j hj
    have hj2 : j < months.length := by omega
    have hblock := filter_flatMap_block
      (fun i => (monthDays (monthAt y0 m0 i).1 (monthAt y0 m0 i).2).zip (months.getD i []))
      (fun p => (monthIndex y0 m0 p.1).toNat) months.length j hj2 (by
        intro i _ b hb
        have := monthIndex_monthAt y0 m0 h1 h12 i b.1 (List.of_mem_zip hb).1
        simp [this])
    have hfil : ((stampMonths y0 m0 months).filter fun p => monthIndex y0 m0 p.1 == (j : Int)) =
        (stampMonths y0 m0 months).filter fun p => (monthIndex y0 m0 p.1).toNat == j := by
      apply List.filter_congr
      intro p hp
      rw [stampMonths] at hp
      obtain ⟨i, _, hpi⟩ := List.mem_flatMap.mp hp
      have := monthIndex_monthAt y0 m0 h1 h12 i p.1 (List.of_mem_zip hpi).1
      simp [this]
    rw [hfil]
    unfold stampMonths
    rw [hblock, List.getD_eq_getElem?_getD, List.getElem?_eq_getElem hj2, Option.getD_some,
      List.map_snd_zip (by rw [monthDays_length, (hmon j hj hj2).1, ndaysAt])]
    exact (hmon j hj hj2).2.2

example := m2dSeries_spec (α := ℚ) (fun _ => false) (fun _ => rfl) "cubic" (Or.inr rfl) 2024 2 (by norm_num)
  (by norm_num) [29, 62] (by simp) (by decide +kernel)
example : (match m2dSeries (α := ℚ) (fun _ => false) "flat" 2023 2 0 [some 28, some 62] with
    | .ok out => out.map fun p => (p.1.m, p.1.d, p.2)
    | .error _ => []) =
    ((List.range 28).map fun d => (2, d + 1, some 1)) ++ ((List.range 31).map fun d => (3, d + 1, some 2)) := by
  decide +kernel

/-- why the property asks for non-negative values: the flat branch masks a negative month entirely (every day of it
is missing), so the hypothesis `0 ≤ y` of `m2dFlat_spec` / `m2d_spec` / `m2dSeries_spec` cannot be dropped -/
theorem flatMonth_negative_masked (v : α) (hv : v < 0) (n : Nat) (hn : 0 < n) :
    flatMonth 0 (some v) n = List.replicate n none := by
  have hn' : (0 : α) < (n : α) := by exact_mod_cast hn
  have : v / (n : α) < 0 := div_neg_of_neg_of_pos hv hn'
  simp [flatMonth, this]

example : flatMonth (0 : ℚ) (some (-31)) 31 = List.replicate 31 none :=
  flatMonth_negative_masked (-31) (by norm_num) 31 (by norm_num)

end series

-- why `flathomogen_group_total` needs the group to be within the NaN allowance: beyond it the group is written
-- all-NaN (total 0), while its non-missing inputs add up to -4
example : flathomogen 0 ℓ₀ = .ok [none, none, none, none, none] ∧ (vals (groupOf ℓ₀ 1)).sum = -4 := by decide +kernel

/-! ### non-vacuity: the hypotheses are met by concrete non-trivial inputs (evaluated over ℚ) -/

-- a non-empty, non-decreasing index with negative values, a NaN inside and at the end of a group
example : ([(1, some (-3)), (1, none), (1, some (-1)), (2, some 5), (2, none)] : List (Int × Option ℚ)) ≠ [] ∧
    (([(1, some (-3)), (1, none), (1, some (-1)), (2, some 5), (2, none)] : List (Int × Option ℚ)).map
      Prod.fst).Pairwise (· ≤ ·) := by decide +kernel
-- sum, mean, max, tail on it with maxnan = 1; maxnan = 0 flushes both groups to NaN
example : aggregate (α := ℚ) 0 1 [(1, some (-3)), (1, none), (1, some (-1)), (2, some 5), (2, none)]
    = .ok [some (-4), some 5] := by decide +kernel
example : aggregate (α := ℚ) 1 1 [(1, some (-3)), (1, none), (1, some (-1)), (2, some 5), (2, none)]
    = .ok [some (-2), some 5] := by decide +kernel
example : aggregate (α := ℚ) 2 1 [(1, some (-3)), (1, none), (1, some (-1)), (2, some 5), (2, none)]
    = .ok [some (-1), some 5] := by decide +kernel
example : aggregate (α := ℚ) 3 1 [(1, some (-3)), (1, none), (1, some (-1)), (2, some 5), (2, none)]
    = .ok [some (-1), some 5] := by decide +kernel
example : aggregate (α := ℚ) 3 0 [(1, some (-3)), (1, none), (1, some (-1)), (2, some 5), (2, none)]
    = .ok [none, none] := by decide +kernel
example : keys ([(1, some (-3)), (1, none), (1, some (-1)), (2, some 5), (2, none)] : List (Int × Option ℚ))
    = [1, 2] := by decide +kernel
-- a decreasing index exists and is rejected
example : ¬ (([(2, some 1), (1, some 2)] : List (Int × Option ℚ)).map Prod.fst).Pairwise (· ≤ ·) := by decide +kernel
example : aggregate (α := ℚ) 0 0 [(2, some 1), (1, some 2)] = .error .decreasingIndex := by decide +kernel
example : flathomogen (α := ℚ) 0 [(2, some 1), (1, some 2)] = .error .decreasingIndex := by decide +kernel
-- flathomogen: group means, missing kept, totals 1 and 8 preserved
example : flathomogen (α := ℚ) 1 [(1, some 1), (1, none), (2, some 3), (2, some 5)]
    = .ok [some 1, none, some 4, some 4] := by decide +kernel
-- monthly2daily: February of a leap year then March; each month adds up to its input
example : m2dFlat (α := ℚ) 2024 2 0 [some 29, some 62]
    = .ok [List.replicate 29 (some 1), List.replicate 31 (some 2)] := by decide +kernel
example : (match m2dCubic (α := ℚ) 1900 2 0 [some 28, some 62] with
    | .ok ms => ms.map fun d => (d.length, d.sum)
    | .error _ => []) = [(28, 28), (31, 62)] := by decide +kernel
example : ndaysAt 2100 2 0 = 28 ∧ ndaysAt 2000 2 0 = 29 ∧ ndaysAt 1999 12 1 = 31 ∧
    monthAt 1999 12 1 = (2000, 1) := by decide +kernel

end HydroVerif.C08
