/-
C08 — property theorems (only). Model: `HydroVerif/Model/C08.lean`; vocabulary and loop invariants:
`HydroVerif/Lemmas/C08.lean`.

Vocabulary used in the statements (all defined in `Lemmas/C08.lean`, independent of the kernels' loops):
* `keys l`        the distinct index values in order of first appearance (`eraseDups` of the index column);
* `groupOf l k`   the inputs whose index is `k`, in order (`filter`);
* `vals g`, `nmiss g`  the non-missing values / the number of missing values of a group;
* `reduce op maxnan g` `none` (NaN) when `nmiss g > maxnan`, else `red op (vals g)` with
  `red 0 = sum`, `red 1 = sum / length`, `red 2 = List.maximum`, `red 3 = getLast` (0 for an empty list);
* `cell maxnan g x`    what flathomogen writes at an entry `x` of group `g`.
All theorems hold for every ordered field `α` (ℚ, ℝ, …), every list length, every operator / `maxnan` stated.
-/
import HydroVerif.Lemmas.C08

namespace HydroVerif.C08

section agg
variable {α : Type} [Field α] [LinearOrder α] [IsStrictOrderedRing α]

/-! ### what the specification vocabulary means -/

/-- distinct index values of a non-decreasing index come out strictly increasing … -/
theorem keys_strictly_increasing {β : Type} (l : List (Int × β))
    (hs : (l.map Prod.fst).Pairwise (· ≤ ·)) : (keys l).Pairwise (· < ·) := by
  unfold keys
  generalize hn : (l.map Prod.fst).length = n
  generalize l.map Prod.fst = xs at hs hn
  induction n using Nat.strong_induction_on generalizing xs with
  | _ n ih =>
    cases xs with
    | nil => simp
    | cons i tl =>
      rw [List.eraseDups_cons, List.pairwise_cons]
      rw [List.pairwise_cons] at hs
      constructor
      · intro b hb
        rw [List.mem_eraseDups, List.mem_filter] at hb
        have h1 := hs.1 b hb.1
        have h2 : b ≠ i := by simpa using hb.2
        omega
      · have hlen : (tl.filter fun b => !b == i).length < n := by
          have := List.length_filter_le (fun b => !b == i) tl
          simp only [List.length_cons] at hn
          omega
        exact ih _ hlen _ (hs.2.filter _) rfl

/-- … and are exactly the index values that occur: one key per distinct index value, in order -/
theorem mem_keys {β : Type} (l : List (Int × β)) (k : Int) : k ∈ keys l ↔ ∃ p ∈ l, p.1 = k := by
  simp [keys]

/-- the maximum operator's reduction is the greatest non-missing value -/
theorem red_max_spec (v : List α) (hv : v ≠ []) : red 2 v ∈ v ∧ ∀ x ∈ v, x ≤ red 2 v := by
  obtain ⟨m, hm⟩ := WithBot.ne_bot_iff_exists.mp (List.maximum_ne_bot_of_ne_nil hv)
  have h := List.maximum_eq_coe_iff.mp hm.symm
  have : red 2 v = m := by simp [red, ← hm]
  rw [this]; exact h

/-- the tail operator's reduction is the last non-missing value -/
theorem red_last_spec (v : List α) (hv : v ≠ []) : red 3 v = v.getLast hv := by
  simp [red, List.getLast?_eq_getLast_of_ne_nil hv]

/-- the mean operator's reduction times the number of non-missing values is their sum -/
theorem red_mean_spec (v : List α) (hv : v ≠ []) : red 1 v * (v.length : α) = v.sum := by
  have : (v.length : α) ≠ 0 := by
    have : 0 < v.length := List.length_pos_iff.mpr hv
    exact_mod_cast this.ne'
  simp [red, hv]
  field_simp

theorem red_sum_spec (v : List α) : red 0 v = v.sum := by simp [red]

/-! ### aggregate -/

/-- **aggregate reduces by group**: for a non-decreasing index, every operator 0..3 and every `maxnan`,
the result is one value per distinct index value, in order, equal to the reduction of the non-missing
inputs of that group, or NaN when the group holds more than `maxnan` missing values -/
theorem aggregate_spec (op maxnan : Int) (h0 : 0 ≤ op) (h3 : op ≤ 3) (l : List (Int × Option α))
    (hne : l ≠ []) (hs : (l.map Prod.fst).Pairwise (· ≤ ·)) :
    aggregate op maxnan l = .ok ((keys l).map fun k => reduce op maxnan (groupOf l k)) := by
  rw [aggregate_eq_groups op maxnan l hne hs, groups_eq l hs, List.map_map]
  congr 1
  apply List.map_congr_left
  intro k _
  simp [flush_accOf op maxnan h0 h3]

/-- an aggregation index that decreases anywhere is rejected with the decreasing-index error … -/
theorem aggregate_rejects_decreasing (op maxnan : Int) (l : List (Int × Option α)) (hne : l ≠ [])
    (hs : ¬ (l.map Prod.fst).Pairwise (· ≤ ·)) :
    aggregate op maxnan l = .error .decreasingIndex :=
  aggregate_err op maxnan l hne hs

/-- … and nothing else is: on length ≥ 1 the call succeeds iff the index is non-decreasing
(in particular the `count >= nval` guard of the kernel can never fire) -/
theorem aggregate_ok_iff (op maxnan : Int) (l : List (Int × Option α)) (hne : l ≠ []) :
    (∃ out, aggregate op maxnan l = .ok out) ↔ (l.map Prod.fst).Pairwise (· ≤ ·) := by
  constructor
  · rintro ⟨out, h⟩
    by_contra hs
    rw [aggregate_err op maxnan l hne hs] at h
    cases h
  · intro hs
    exact ⟨_, aggregate_eq_groups op maxnan l hne hs⟩

/-- "decreases anywhere" = some element is smaller than its predecessor -/
theorem not_sorted_iff_adjacent_decrease (xs : List Int) :
    ¬ xs.Pairwise (· ≤ ·) ↔ ∃ i, ∃ h : i + 1 < xs.length, xs[i + 1] < xs[i] := by
  induction xs with
  | nil => simp
  | cons a tl ih =>
    cases tl with
    | nil => simp
    | cons b r =>
      have hpw : (a :: b :: r).Pairwise (· ≤ ·) ↔ a ≤ b ∧ (b :: r).Pairwise (· ≤ ·) := by
        rw [List.pairwise_cons]
        constructor
        · rintro ⟨h1, h2⟩; exact ⟨h1 b (List.mem_cons_self ..), h2⟩
        · rintro ⟨h1, h2⟩
          refine ⟨?_, h2⟩
          intro c hc
          rcases List.mem_cons.mp hc with rfl | hc
          · exact h1
          · exact le_trans h1 ((List.pairwise_cons.mp h2).1 c hc)
      rw [hpw, not_and_or, ih]
      constructor
      · rintro (h | ⟨i, hi, hlt⟩)
        · exact ⟨0, by simp, by simpa using h⟩
        · exact ⟨i + 1, by simpa using hi, by simpa using hlt⟩
      · rintro ⟨i, hi, hlt⟩
        cases i with
        | zero => left; simpa using hlt
        | succ j => right; exact ⟨j, by simpa using hi, by simpa using hlt⟩

/-- the number of outputs is the number of distinct index values (any operator value, any `maxnan`) -/
theorem aggregate_length (op maxnan : Int) (l : List (Int × Option α)) (out : List (Option α))
    (hs : (l.map Prod.fst).Pairwise (· ≤ ·)) (h : aggregate op maxnan l = .ok out) :
    out.length = (keys l).length := by
  have hne : l ≠ [] := by rintro rfl; simp [aggregate] at h
  rw [aggregate_eq_groups op maxnan l hne hs, groups_eq l hs] at h
  cases h
  simp

/-- the groups partition the input: concatenated in key order they give back the input column -/
theorem groups_partition (l : List (Int × Option α)) (hs : (l.map Prod.fst).Pairwise (· ≤ ·)) :
    (keys l).flatMap (groupOf l) = l.map Prod.snd := by
  have := groups_flatten l
  rw [groups_eq l hs] at this
  simpa [List.flatMap_map] using this

/-- **totals are conserved**: when no group is flushed to NaN the aggregated sums add up to the sum of
the non-missing inputs -/
theorem aggregate_sum_conserved (maxnan : Int) (l : List (Int × Option α)) (out : List (Option α))
    (hs : (l.map Prod.fst).Pairwise (· ≤ ·)) (h : aggregate 0 maxnan l = .ok out)
    (hall : ∀ o ∈ out, o ≠ none) : (vals out).sum = (vals (l.map Prod.snd)).sum := by
  have hne : l ≠ [] := by rintro rfl; simp [aggregate] at h
  rw [aggregate_spec 0 maxnan le_rfl (by norm_num) l hne hs] at h
  cases h
  rw [← groups_partition l hs, vals_flatMap, sum_flatMap]
  congr 1
  have hk : ∀ k ∈ keys l, reduce 0 maxnan (groupOf l k) = some ((vals (groupOf l k)).sum) := by
    intro k hk
    have := hall (reduce 0 maxnan (groupOf l k)) (List.mem_map.mpr ⟨k, hk, rfl⟩)
    unfold reduce at this ⊢
    split
    · rename_i hlt; simp [hlt] at this
    · simp [red]
  generalize keys l = ks at hk
  induction ks with
  | nil => simp [vals]
  | cons k t ih =>
    have h1 := hk k (List.mem_cons_self ..)
    have h2 := ih fun k' hk' => hk k' (List.mem_cons_of_mem _ hk')
    simp only [List.map_cons, vals, List.filterMap_cons, h1, id] at h2 ⊢
    rw [h2]

/-- no group is flushed once `maxnan` is at least the total number of missing inputs -/
theorem aggregate_sum_conserved_of_maxnan_ge (maxnan : Int) (l : List (Int × Option α))
    (hne : l ≠ []) (hs : (l.map Prod.fst).Pairwise (· ≤ ·))
    (hm : (nmiss (l.map Prod.snd) : Int) ≤ maxnan) :
    ∃ out, aggregate 0 maxnan l = .ok out ∧ (∀ o ∈ out, o ≠ none) ∧
      (vals out).sum = (vals (l.map Prod.snd)).sum := by
  have h := aggregate_spec 0 maxnan le_rfl (by norm_num) l hne hs
  refine ⟨_, h, ?_, ?_⟩
  · intro o ho
    obtain ⟨k, _, rfl⟩ := List.mem_map.mp ho
    have hsub : (groupOf l k).Sublist (l.map Prod.snd) := by
      unfold groupOf
      exact (List.filter_sublist).map _
    have hle : nmiss (groupOf l k) ≤ nmiss (l.map Prod.snd) := hsub.countP_le
    have : ¬ maxnan < (nmiss (groupOf l k) : Int) := by omega
    simp [reduce, this]
  · apply aggregate_sum_conserved maxnan l _ hs h
    intro o ho
    obtain ⟨k, _, rfl⟩ := List.mem_map.mp ho
    have hsub : (groupOf l k).Sublist (l.map Prod.snd) := by
      unfold groupOf
      exact (List.filter_sublist).map _
    have hle : nmiss (groupOf l k) ≤ nmiss (l.map Prod.snd) := hsub.countP_le
    have : ¬ maxnan < (nmiss (groupOf l k) : Int) := by omega
    simp [reduce, this]

/-! ### flathomogen -/

/-- **flathomogen**: for a non-decreasing index, every entry is rewritten from its own group only —
missing stays missing, a non-missing entry becomes the mean of the non-missing values of its group
(NaN when the group holds more than `maxnan` missing values) -/
theorem flathomogen_spec (maxnan : Int) (l : List (Int × Option α)) (hne : l ≠ [])
    (hs : (l.map Prod.fst).Pairwise (· ≤ ·)) :
    flathomogen maxnan l = .ok (l.map fun p => cell maxnan (groupOf l p.1) p.2) := by
  rw [flathomogen_eq_groups maxnan l hne hs]
  congr 1
  have hl := groups_keyed l
  have hmap := congrArg (List.map fun p : Int × Option α => cell maxnan (groupOf l p.1) p.2) hl
  rw [← hmap, groups_eq l hs]
  simp only [List.flatMap_map, List.map_flatMap, List.map_map, hcells_eq]
  rfl

theorem flathomogen_rejects_decreasing (maxnan : Int) (l : List (Int × Option α)) (hne : l ≠ [])
    (hs : ¬ (l.map Prod.fst).Pairwise (· ≤ ·)) :
    flathomogen maxnan l = .error .decreasingIndex :=
  flathomogen_err maxnan l hne hs

theorem flathomogen_ok_iff (maxnan : Int) (l : List (Int × Option α)) (hne : l ≠ []) :
    (∃ out, flathomogen maxnan l = .ok out) ↔ (l.map Prod.fst).Pairwise (· ≤ ·) := by
  constructor
  · rintro ⟨out, h⟩
    by_contra hs
    rw [flathomogen_err maxnan l hne hs] at h
    cases h
  · intro hs
    exact ⟨_, flathomogen_eq_groups maxnan l hne hs⟩

/-- same length; missing entries stay missing; within the NaN budget non-missing entries become the group mean -/
theorem flathomogen_pointwise (maxnan : Int) (l : List (Int × Option α)) (out : List (Option α))
    (hs : (l.map Prod.fst).Pairwise (· ≤ ·)) (h : flathomogen maxnan l = .ok out) :
    out.length = l.length ∧
    ∀ (i : Nat) (hi : i < l.length) (ho : i < out.length),
      (l[i].2 = none → out[i] = none) ∧
      (∀ v, l[i].2 = some v → (nmiss (groupOf l l[i].1) : Int) ≤ maxnan →
        out[i] = some ((vals (groupOf l l[i].1)).sum / ((vals (groupOf l l[i].1)).length : α))) := by
  have hne : l ≠ [] := by rintro rfl; simp [flathomogen] at h
  rw [flathomogen_spec maxnan l hne hs] at h
  cases h
  refine ⟨by simp, ?_⟩
  intro i hi ho
  simp only [List.getElem_map]
  constructor
  · intro hx; simp [cell, hx]
  · intro v hx hm
    have : ¬ maxnan < (nmiss (groupOf l l[i].1) : Int) := by omega
    simp [cell, hx, this]

/-- **flathomogen preserves each group's total** (groups within the NaN budget): the non-missing outputs
of a group add up to the non-missing inputs of that group -/
theorem flathomogen_group_total (maxnan : Int) (l : List (Int × Option α)) (out : List (Option α))
    (hs : (l.map Prod.fst).Pairwise (· ≤ ·)) (h : flathomogen maxnan l = .ok out) (k : Int)
    (hm : (nmiss (groupOf l k) : Int) ≤ maxnan) :
    (vals (groupOf ((l.map Prod.fst).zip out) k)).sum = (vals (groupOf l k)).sum := by
  have hne : l ≠ [] := by rintro rfl; simp [flathomogen] at h
  rw [flathomogen_spec maxnan l hne hs] at h
  cases h
  have hzip : (l.map Prod.fst).zip (l.map fun p => cell maxnan (groupOf l p.1) p.2) =
      l.map fun p => (p.1, cell maxnan (groupOf l p.1) p.2) := by
    rw [List.zip_map']
  have hgrp : groupOf (l.map fun p => (p.1, cell maxnan (groupOf l p.1) p.2)) k =
      (groupOf l k).map (cell maxnan (groupOf l k)) := by
    unfold groupOf
    rw [List.filter_map, List.map_map, List.map_map]
    apply List.map_congr_left
    intro p hp
    have : p.1 = k := by simpa using (List.mem_filter.mp hp).2
    simp [this]
  rw [hzip, hgrp]
  have hnot : ¬ maxnan < (nmiss (groupOf l k) : Int) := by omega
  generalize hg : groupOf l k = g at hnot
  -- the non-missing outputs are `length (vals g)` copies of the mean
  have hv : vals (g.map (cell maxnan g)) =
      List.replicate (vals g).length ((vals g).sum / ((vals g).length : α)) := by
    generalize (vals g).sum / ((vals g).length : α) = m at *
    have : ∀ g' : List (Option α), vals (g'.map fun x => match x with | none => none | some _ => some m) =
        List.replicate (vals g').length m := by
      intro g'
      induction g' with
      | nil => simp [vals]
      | cons x t ih =>
        cases x with
        | none => simpa [vals] using ih
        | some v =>
          simp only [vals, List.map_cons, List.filterMap_cons, id, List.length_cons,
            List.replicate_succ] at ih ⊢
          rw [ih]
    have hc : (cell maxnan g) = fun x => match x with | none => none | some _ => some m := by
      funext x
      cases x <;> simp [cell, hnot]
      assumption
    rw [hc, this]
  rw [hv, List.sum_replicate, nsmul_eq_mul]
  by_cases hz : (vals g).length = 0
  · have : vals g = [] := List.length_eq_zero_iff.mp hz
    simp [this]
  · have : ((vals g).length : α) ≠ 0 := by exact_mod_cast hz
    field_simp

end agg

end HydroVerif.C08
