import HydroVerif.Model.C08
namespace HydroVerif.C08
theorem stub_daysInMonth_le (y : Int) (m : Nat) : daysInMonth y m ≤ 31 := by
  unfold daysInMonth; split <;> (try split) <;> omega
end HydroVerif.C08
