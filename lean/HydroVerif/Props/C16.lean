/-
C16 — property theorems (only). Model: `HydroVerif/Model/C16.lean` (+ grid geometry of `Model/C07.lean`);
helper lemmas: `Lemmas/C16.lean`, `Lemmas/C07Grid.lean`, `Lemmas/C07Coord.lean`.

Part A holds for every numeric instance of the model (also the `Float` one the driver runs): it only uses the
integer structure of the loops. Parts B–E are over any ordered field with a floor function (`ℚ`, `ℝ`): exact
arithmetic; IEEE rounding is covered by the correspondence, not by these theorems. Every statement holds for all
grid shapes, all cell lists (any length, any order, repeats, invalid numbers where stated), all point lists.
Every model function named here is executed by `Drivers/C16.lean` and compared with the real code.

Clause of the property -> theorems -> what stays outside the theorems
* Intersecting a catchment with a coarser grid assigns every catchment cell whose centre falls inside the grid to exactly one grid cell (all cell sets, all grids, arbitrary offsets, partial or no overlap)
    theorems: centre_inside_listed_once, centre_outside_not_counted, cellOfPt_nonneg_iff, cellOfPt_eq_iff, cIntersect_mem_keys_iff, intersect_error_iff (no overlap <-> the ValueError)
    outside: exact arithmetic (ordered field with floor); a centre within 1e-9 cells of a coarse edge may be located differently in IEEE arithmetic (Float correspondence only). 'inside' = half-open extent, footprints half-open: an edge centre goes right/up.
* its weight is the number of such cells times the ratio of cell areas
    theorems: intersect_result_weight (on the returned lists, any cell list), intersect_weight_counts_centres_any, intersect_weight_counts_centres, cIntersect_weight
    outside: rounding of the repeated addition (Float correspondence, bit-exact on the unchanged tree)
* weights times grid-cell area sum to the catchment area inside the grid
    theorems: intersect_result_area (on the returned weights), intersect_area_conserved_any, intersect_area_conserved, cIntersect_total
    outside: rounding
* each grid cell appears once
    theorems: intersect_result_nodup, cIntersect_keys_nodup (every numeric instance, also Float), cIntersect_keys_valid, cIntersect_length_le (buffers large enough)
    outside: nothing
* the returned weight grid places every weight at the matching row and column of the parent grid
    theorems: intersect_weight_placed, intersect_zero_elsewhere, intersect_entry_cases (every entry is a listed weight at its parent row/col, or 0), intersect_subgrid_range (attained bounds, shape), intersect_subgrid_corner, intersect_subgrid_cell_centre (sub-grid cell (i,j) = parent cell (i+rows_start, j+cols_start)), intersect_lists
    outside: numpy fancy-index assignment, np.min/np.max/np.unique, Grid constructor/data setter are modelled (sequential element assignment, folds), tied by the correspondence; parent name/ncols/nrows/cellsize/corner attributes copied by set_parent_attributes are checked by the oracle only (plain attribute copies)
* filled / unfilled area
    theorems: catchment_intersect_selects, catchment_intersect_error_iff, voronoiPy_points (Voronoi always uses the unfilled area)
    outside: how the two lists are produced (delineate_area, binary_fill_holes, from_dict): C06 / C13
* Voronoi weights are non-negative
    theorems: cVoronoi_nonneg, cVoronoi_ok_inv
    outside: needs >= 1 cell (0 cells: NaN in the code, `none` in the model: cVoronoi_noCells)
* Voronoi weights sum to 1
    theorems: cVoronoi_sum_one
    outside: rounding of count/ncells and of the sum (oracle: 1e-12)
* Voronoi weights equal the fraction of catchment cells closest to each point; equidistant ties resolved to the lowest index; 1 to 6 points anywhere (any number in the theorems)
    theorems: cVoronoi_weight, nearest_is_closest_lowest_index, voronoiPy_points, voronoiPy_flat_pair
    outside: the distance function is a parameter (any function; sqrt(dx*dx+dy*dy) in the driver): two distinct points within rounding of a tie may be ordered differently in IEEE arithmetic; NaN / inf coordinates are outside the quantifier and not sent to the model
* (implicit) rejected input of the wrappers: no overlap, no points, grid without rows/columns, catchment not delineated, points argument without two columns
    theorems: intersect_error_iff, catchment_intersect_error_iff, cVoronoi_error_iff, cVoronoi_noPoints, voronoiPy_error_iff
    outside: exception classes and messages are incidental: the correspondence requires a rejection where the model rejects and the named guard when the harness can attribute it; 3-D points arrays, ragged lists, non-numeric input: numpy's own errors, not modelled
-/
import HydroVerif.Lemmas.C16
import Mathlib.Data.Rat.Floor
import Mathlib.Data.List.Perm.Subperm

set_option linter.unusedSectionVars false

namespace HydroVerif.C16
open HydroVerif.C07

/-! ### A. the list of intersected cells (any arithmetic) -/

section Generic
variable {α : Type} [Add α] [Sub α] [Mul α] [Div α] [OfNat α 1] [C07.Trunc α]

/-- each grid cell appears once in `idxcells` -/
theorem cIntersect_keys_nodup (g : Geom α) (ca : α) (pts : List (Option (α × α))) :
    ((cIntersect g ca pts).map Prod.fst).Nodup := by
  rw [cIntersect_eq]
  exact nodup_keys_foldl_bump _ _ [] List.nodup_nil

/-- a cell is listed exactly when `c_coord2cell` maps some point to it (and it is not the `-1` flag) -/
theorem cIntersect_mem_keys_iff (g : Geom α) (ca : α) (pts : List (Option (α × α))) (k : Int) :
    k ∈ (cIntersect g ca pts).map Prod.fst ↔ 0 ≤ k ∧ ∃ p ∈ pts, cellOfPt g p = k := by
  rw [cIntersect_eq]
  have := mem_keys_foldl_bump (areafactor g.csz ca) (hits g pts) [] k
  unfold keys at this
  rw [this, mem_hits]
  simp

/-- every listed cell is a valid cell of the grid: the `cell2coord` / `cell2rowcol` calls that follow in
`Catchment.intersect` never see an invalid number -/
theorem cIntersect_keys_valid (g : Geom α) (ca : α) (pts : List (Option (α × α))) (k : Int)
    (hk : k ∈ (cIntersect g ca pts).map Prod.fst) : validCell g.nrows g.ncols k = true := by
  obtain ⟨h0, p, -, rfl⟩ := (cIntersect_mem_keys_iff g ca pts k).1 hk
  rcases cellOfPt_neg_one_or_valid g p with h | h
  · omega
  · exact h

/-- the kernel writes at most `nrows*ncols` entries: the buffers `Catchment.intersect` allocates are large enough -/
theorem cIntersect_length_le (g : Geom α) (ca : α) (pts : List (Option (α × α))) :
    (cIntersect g ca pts).length ≤ (g.nrows * g.ncols).toNat := by
  have hnd := cIntersect_keys_nodup g ca pts
  have hv := cIntersect_keys_valid g ca pts
  have hlen : (cIntersect g ca pts).length = ((cIntersect g ca pts).map Prod.fst).length := by simp
  rw [hlen]
  generalize (cIntersect g ca pts).map Prod.fst = ks at hnd hv
  have hv' : ∀ k ∈ ks, 0 ≤ k ∧ k < g.nrows * g.ncols := fun k hk => validCell_iff.1 (hv k hk)
  generalize g.nrows * g.ncols = n at hv'
  have h1 : (ks.map Int.toNat).Nodup := by
    apply List.Nodup.map_on _ hnd
    intro a ha b hb hab
    have := hv' a ha
    have := hv' b hb
    omega
  have h2 : ks.map Int.toNat ⊆ List.range n.toNat := by
    intro x hx
    obtain ⟨k, hk, rfl⟩ := List.mem_map.1 hx
    have := hv' k hk
    rw [List.mem_range]
    omega
  have := (h1.subperm h2).length_le
  simpa using this

end Generic

/-! ### B. weights of `c_intersect` (exact arithmetic) -/

section Weights
variable {α : Type} [Field α] [LinearOrder α] [IsStrictOrderedRing α] [FloorRing α]

/-- the weight of a listed cell is the ratio of cell areas times the number of points `c_coord2cell` maps to it,
and that number is at least one -/
theorem cIntersect_weight {g : Geom α} {ca : α} {pts : List (Option (α × α))} {k : Int} {w : α}
    (h : (k, w) ∈ cIntersect g ca pts) :
    w = (ca / g.csz) ^ 2 * (((pts.map (cellOfPt g)).count k : Nat) : α) ∧
      1 ≤ (pts.map (cellOfPt g)).count k := by
  have hk : k ∈ (cIntersect g ca pts).map Prod.fst := List.mem_map.2 ⟨(k, w), h, rfl⟩
  obtain ⟨h0, p, hp, hpk⟩ := (cIntersect_mem_keys_iff g ca pts k).1 hk
  have hcount : (hits g pts).count k = (pts.map (cellOfPt g)).count k := by
    unfold hits
    rw [List.count_filter]
    simpa using h0
  refine ⟨?_, ?_⟩
  · have hw := wOf_of_mem (cIntersect_keys_nodup g ca pts) h
    rw [cIntersect_eq, wOf_foldl_bump, hcount] at hw
    rw [← hw]
    simp [wOf, areafactor, sq]
  · exact List.count_pos_iff.2 (List.mem_map.2 ⟨p, hp, hpk⟩)

/-- weights times grid-cell area sum to (number of accepted points) times the catchment-cell area -/
theorem cIntersect_total {g : Geom α} (hcsz : g.csz ≠ 0) (ca : α) (pts : List (Option (α × α))) :
    ((cIntersect g ca pts).map fun kw => kw.2 * (g.csz * g.csz)).sum =
      ((pts.countP fun p => decide (0 ≤ cellOfPt g p) : Nat) : α) * (ca * ca) := by
  have h1 : ((cIntersect g ca pts).map fun kw => kw.2 * (g.csz * g.csz)).sum =
      sumW (cIntersect g ca pts) * (g.csz * g.csz) := sum_map_snd_mul _ _
  have h2 : (hits g pts).length = pts.countP fun p => decide (0 ≤ cellOfPt g p) := by
    unfold hits
    rw [← List.countP_eq_length_filter, List.countP_map]
    rfl
  rw [h1, cIntersect_eq, sumW_foldl_bump, h2]
  simp only [sumW, List.map_nil, List.sum_nil, zero_add, areafactor]
  field_simp

/-- a point is accepted exactly when it lies in the extent of the grid (`xlim × ylim`, half-open) -/
theorem cellOfPt_nonneg_iff {g : Geom α} (hcsz : 0 < g.csz) (x y : α) :
    0 ≤ cellOfPt g (some (x, y)) ↔ InExtent g x y :=
  coord2cell_nonneg_iff hcsz

/-- and it is counted for the cell whose (half-open) footprint contains it, for no other -/
theorem cellOfPt_eq_iff {g : Geom α} (hcsz : 0 < g.csz) (hc : 0 < g.ncols) {c : Int}
    (hv : validCell g.nrows g.ncols c = true) (x y : α) :
    cellOfPt g (some (x, y)) = c ↔ InFootprint g c x y :=
  coord2cell_eq_iff hcsz hc hv

end Weights

/-! ### C. catchment cells against the coarse grid (exact arithmetic) -/

section Catchment
variable {α : Type} [Field α] [LinearOrder α] [IsStrictOrderedRing α] [FloorRing α]

/-- the weight of a listed grid cell is `(csz_area/csz)²` times the number of catchment cells whose centre lies
in the footprint of that grid cell -/
theorem intersect_weight_counts_centres {coarse fine : Geom α} (hcsz : 0 < coarse.csz) (hc : 0 < coarse.ncols)
    {cells : List Int} (hcells : ∀ c ∈ cells, validCell fine.nrows fine.ncols c = true) {k : Int} {w : α}
    (h : (k, w) ∈ cIntersect coarse fine.csz (cells.map (cell2coord fine))) :
    w = (fine.csz / coarse.csz) ^ 2 *
      ((cells.countP fun c => decide (InFootprint coarse k (getcoord fine c).1 (getcoord fine c).2) : Nat) : α) := by
  have hk : k ∈ (cIntersect coarse fine.csz (cells.map (cell2coord fine))).map Prod.fst :=
    List.mem_map.2 ⟨(k, w), h, rfl⟩
  have hv := cIntersect_keys_valid _ _ _ k hk
  rw [(cIntersect_weight h).1]
  congr 2
  rw [List.count_eq_countP, List.countP_map, List.countP_map]
  apply List.countP_congr
  intro c hcm
  simp only [Function.comp, beq_iff_eq, decide_eq_true_eq]
  unfold cell2coord
  rw [if_pos (hcells c hcm)]
  exact cellOfPt_eq_iff hcsz hc hv _ _

/-- area conservation: weights times grid-cell area sum to the area of the catchment cells whose centre lies in
the extent of the grid -/
theorem intersect_area_conserved {coarse fine : Geom α} (hcsz : 0 < coarse.csz)
    {cells : List Int} (hcells : ∀ c ∈ cells, validCell fine.nrows fine.ncols c = true) :
    ((cIntersect coarse fine.csz (cells.map (cell2coord fine))).map fun kw => kw.2 * (coarse.csz * coarse.csz)).sum =
      ((cells.countP fun c => decide (InExtent coarse (getcoord fine c).1 (getcoord fine c).2) : Nat) : α) *
        (fine.csz * fine.csz) := by
  rw [cIntersect_total hcsz.ne', List.countP_map]
  congr 2
  apply List.countP_congr
  intro c hcm
  simp only [Function.comp, decide_eq_true_eq]
  unfold cell2coord
  rw [if_pos (hcells c hcm)]
  exact cellOfPt_nonneg_iff hcsz _ _

/-- a catchment cell whose centre falls inside the grid is assigned to exactly one listed grid cell -/
theorem centre_inside_listed_once {coarse fine : Geom α} (hcsz : 0 < coarse.csz) (hc : 0 < coarse.ncols)
    {cells : List Int} {c : Int} (hcm : c ∈ cells) (hv : validCell fine.nrows fine.ncols c = true)
    (hin : InExtent coarse (getcoord fine c).1 (getcoord fine c).2) :
    ∃! k, k ∈ (cIntersect coarse fine.csz (cells.map (cell2coord fine))).map Prod.fst ∧
      InFootprint coarse k (getcoord fine c).1 (getcoord fine c).2 := by
  obtain ⟨hv0, hfp⟩ := coord2cell_of_inExtent hcsz hin
  refine ⟨coord2cell coarse (getcoord fine c).1 (getcoord fine c).2, ⟨?_, hfp⟩, ?_⟩
  · rw [cIntersect_mem_keys_iff]
    refine ⟨(validCell_iff.1 hv0).1, cell2coord fine c, List.mem_map_of_mem hcm, ?_⟩
    unfold cell2coord
    rw [if_pos hv]
    rfl
  · rintro k ⟨hk, hkf⟩
    have hvk := cIntersect_keys_valid _ _ _ k hk
    exact (coord2cell_of_inFootprint hcsz hc hvk hkf).symm

/-- a catchment cell whose centre falls outside the grid is counted for no listed cell -/
theorem centre_outside_not_counted {coarse fine : Geom α} (hcsz : 0 < coarse.csz) (hc : 0 < coarse.ncols)
    {cells : List Int} {c : Int}
    (hout : ¬ InExtent coarse (getcoord fine c).1 (getcoord fine c).2) (k : Int)
    (hk : k ∈ (cIntersect coarse fine.csz (cells.map (cell2coord fine))).map Prod.fst) :
    ¬ InFootprint coarse k (getcoord fine c).1 (getcoord fine c).2 := fun hkf =>
  hout (inExtent_of_inFootprint hcsz hc (cIntersect_keys_valid _ _ _ k hk) hkf)

/-- the same for an arbitrary cell list (repeats, invalid numbers): a cell number that is not a cell of the
flow-direction grid has no centre (`cell2coord` gives NaN) and is counted nowhere -/
theorem intersect_weight_counts_centres_any {coarse fine : Geom α} (hcsz : 0 < coarse.csz) (hc : 0 < coarse.ncols)
    {cells : List Int} {k : Int} {w : α}
    (h : (k, w) ∈ cIntersect coarse fine.csz (cells.map (cell2coord fine))) :
    w = (fine.csz / coarse.csz) ^ 2 *
      ((cells.countP fun c => validCell fine.nrows fine.ncols c &&
        decide (InFootprint coarse k (getcoord fine c).1 (getcoord fine c).2) : Nat) : α) := by
  have hk : k ∈ (cIntersect coarse fine.csz (cells.map (cell2coord fine))).map Prod.fst :=
    List.mem_map.2 ⟨(k, w), h, rfl⟩
  have hv := cIntersect_keys_valid _ _ _ k hk
  rw [(cIntersect_weight h).1]
  congr 2
  rw [List.count_eq_countP, List.countP_map, List.countP_map]
  apply List.countP_congr
  intro c _
  simp only [Function.comp, beq_iff_eq, Bool.and_eq_true, decide_eq_true_eq]
  unfold cell2coord
  by_cases hvc : validCell fine.nrows fine.ncols c = true
  · rw [if_pos hvc]
    simp only [hvc, true_and]
    exact cellOfPt_eq_iff hcsz hc hv _ _
  · rw [if_neg hvc]
    have := (validCell_iff.1 hv).1
    constructor
    · intro hneg
      have : (-1 : Int) = k := hneg
      omega
    · rintro ⟨hvt, -⟩
      exact absurd hvt hvc

/-- area conservation for an arbitrary cell list -/
theorem intersect_area_conserved_any {coarse fine : Geom α} (hcsz : 0 < coarse.csz) (cells : List Int) :
    ((cIntersect coarse fine.csz (cells.map (cell2coord fine))).map fun kw => kw.2 * (coarse.csz * coarse.csz)).sum =
      ((cells.countP fun c => validCell fine.nrows fine.ncols c &&
        decide (InExtent coarse (getcoord fine c).1 (getcoord fine c).2) : Nat) : α) * (fine.csz * fine.csz) := by
  rw [cIntersect_total hcsz.ne', List.countP_map]
  congr 2
  apply List.countP_congr
  intro c _
  simp only [Function.comp, decide_eq_true_eq, Bool.and_eq_true]
  unfold cell2coord
  by_cases hvc : validCell fine.nrows fine.ncols c = true
  · rw [if_pos hvc]
    simp only [hvc, true_and]
    exact cellOfPt_nonneg_iff hcsz _ _
  · rw [if_neg hvc]
    constructor
    · intro hneg
      have : (0 : Int) ≤ -1 := hneg
      omega
    · rintro ⟨hvt, -⟩
      exact absurd hvt hvc

end Catchment

/-! ### D. `Catchment.intersect`: lists, sub-grid, scatter (exact arithmetic) -/

section Python
variable {α : Type} [Field α] [LinearOrder α] [IsStrictOrderedRing α] [FloorRing α]

/-- `intersect` fails (the `ValueError` of `np.min` on an empty array) exactly when no catchment-cell centre is
accepted by the grid; it fails in no other way -/
theorem intersect_error_iff (coarse fine : Geom α) (cells : List Int) (e : Err) :
    intersect coarse fine cells = .error e ↔
      e = .noOverlap ∧ ∀ c ∈ cells, cellOfPt coarse (cell2coord fine c) < 0 := by
  constructor
  · intro h
    obtain ⟨he, hnil⟩ := intersect_eq_error h
    refine ⟨he, fun c hc => ?_⟩
    by_contra hge
    have : cellOfPt coarse (cell2coord fine c) ∈
        (cIntersect coarse fine.csz (cells.map (cell2coord fine))).map Prod.fst := by
      rw [cIntersect_mem_keys_iff]
      exact ⟨by omega, _, List.mem_map_of_mem hc, rfl⟩
    rw [hnil] at this
    cases this
  · rintro ⟨rfl, hneg⟩
    cases hres : intersect coarse fine cells with
    | error e' => rw [(intersect_eq_error hres).1]
    | ok a =>
      obtain ⟨kw0, rest, heq, -⟩ := intersect_eq_ok hres
      have : kw0.1 ∈ (cIntersect coarse fine.csz (cells.map (cell2coord fine))).map Prod.fst := by
        rw [heq]; simp
      obtain ⟨h0, p, hp, hpk⟩ := (cIntersect_mem_keys_iff _ _ _ _).1 this
      obtain ⟨c, hc, rfl⟩ := List.mem_map.1 hp
      have := hneg c hc
      omega

/-- the returned `idxcells`, `weights` are the kernel's lists: everything proved in parts A–C applies to them -/
theorem intersect_lists {coarse fine : Geom α} {cells : List Int} {a : AreaGrid α}
    (h : intersect coarse fine cells = .ok a) :
    a.keys.zip a.weights = cIntersect coarse fine.csz (cells.map (cell2coord fine)) ∧
      a.keys.length = a.weights.length ∧ a.keys ≠ [] := by
  obtain ⟨kw0, rest, heq, hk, hw, -⟩ := intersect_eq_ok h
  rw [hk, hw, heq]
  exact ⟨zip_map_fst_snd _, by simp, by simp⟩

/-- the sub-grid spans exactly the rows and columns of the listed cells: the bounds are attained and every
listed cell is within them; the data array has that shape -/
theorem intersect_subgrid_range {coarse fine : Geom α} {cells : List Int} {a : AreaGrid α}
    (h : intersect coarse fine cells = .ok a) :
    (∀ k ∈ a.keys, a.rowStart ≤ prow coarse k ∧ prow coarse k ≤ a.rowEnd ∧
        a.colStart ≤ pcol coarse k ∧ pcol coarse k ≤ a.colEnd) ∧
    (∃ k ∈ a.keys, prow coarse k = a.rowStart) ∧ (∃ k ∈ a.keys, prow coarse k = a.rowEnd) ∧
    (∃ k ∈ a.keys, pcol coarse k = a.colStart) ∧ (∃ k ∈ a.keys, pcol coarse k = a.colEnd) ∧
    a.nrows = a.rowEnd - a.rowStart + 1 ∧ a.ncols = a.colEnd - a.colStart + 1 ∧
    a.data.length = a.nrows.toNat ∧ ∀ r ∈ a.data, r.length = a.ncols.toNat := by
  obtain ⟨kw0, rest, -, hk, -, hrs, hre, hcs, hce, -, -, hnr, hnc, hd⟩ := intersect_eq_ok h
  have mem_of : ∀ (f : Int → Int) (m : Int),
      (m = f kw0.1 ∨ m ∈ rest.map fun kw => f kw.1) → ∃ k ∈ a.keys, f k = m := by
    intro f m hm
    rw [hk]
    rcases hm with rfl | hm
    · exact ⟨kw0.1, by simp, rfl⟩
    · obtain ⟨kw, hkw, rfl⟩ := List.mem_map.1 hm
      exact ⟨kw.1, by simp only [List.map_cons, List.mem_cons, List.mem_map]; right; exact ⟨kw, hkw, rfl⟩, rfl⟩
  have s1 := listMin_spec (prow coarse kw0.1) (rest.map fun kw => prow coarse kw.1)
  have s2 := listMax_spec (prow coarse kw0.1) (rest.map fun kw => prow coarse kw.1)
  have s3 := listMin_spec (pcol coarse kw0.1) (rest.map fun kw => pcol coarse kw.1)
  have s4 := listMax_spec (pcol coarse kw0.1) (rest.map fun kw => pcol coarse kw.1)
  rw [← hrs] at s1; rw [← hre] at s2; rw [← hcs] at s3; rw [← hce] at s4
  refine ⟨?_, mem_of (prow coarse) _ s1.1, mem_of (prow coarse) _ s2.1, mem_of (pcol coarse) _ s3.1,
    mem_of (pcol coarse) _ s4.1, hnr, hnc, ?_, ?_⟩
  · intro k hkm
    rw [hk] at hkm
    rcases List.mem_cons.1 hkm with rfl | hkm
    · exact ⟨s1.2.1, s2.2.1, s3.2.1, s4.2.1⟩
    · obtain ⟨kw, hkw, rfl⟩ := List.mem_map.1 hkm
      exact ⟨s1.2.2 _ (List.mem_map.2 ⟨kw, hkw, rfl⟩), s2.2.2 _ (List.mem_map.2 ⟨kw, hkw, rfl⟩),
        s3.2.2 _ (List.mem_map.2 ⟨kw, hkw, rfl⟩), s4.2.2 _ (List.mem_map.2 ⟨kw, hkw, rfl⟩)⟩
  · rw [hd]; simp
  · intro r hr
    rw [hd] at hr
    obtain ⟨i, -, rfl⟩ := List.mem_map.1 hr
    simp

/-- the weight grid holds the weight of every listed cell at `(row - rows_start, col - cols_start)`, its row and
column in the parent grid shifted by the recorded starts -/
theorem intersect_weight_placed {coarse fine : Geom α} {cells : List Int} {a : AreaGrid α}
    (hc : 0 < coarse.ncols) (h : intersect coarse fine cells = .ok a) {k : Int} {w : α}
    (hkw : (k, w) ∈ a.keys.zip a.weights) :
    0 ≤ prow coarse k - a.rowStart ∧ 0 ≤ pcol coarse k - a.colStart ∧
    a.at (prow coarse k - a.rowStart).toNat (pcol coarse k - a.colStart).toNat = some w := by
  obtain ⟨kw0, rest, heq, -, -, -, -, -, -, -, -, hnr, hnc, hd⟩ := intersect_eq_ok h
  rw [(intersect_lists h).1, heq] at hkw
  have hkm : k ∈ a.keys := by
    have := (intersect_lists h).1
    rw [heq] at this
    have h2 : k ∈ (a.keys.zip a.weights).map Prod.fst := by
      rw [this]; exact List.mem_map.2 ⟨(k, w), hkw, rfl⟩
    rw [List.map_fst_zip (by rw [(intersect_lists h).2.1])] at h2
    exact h2
  obtain ⟨r0, r1, c0, c1⟩ := (intersect_subgrid_range h).1 k hkm
  have hnd : (keys (kw0 :: rest)).Nodup := by
    have := cIntersect_keys_nodup coarse fine.csz (cells.map (cell2coord fine))
    rwa [heq] at this
  have hv : ∀ k' ∈ keys (kw0 :: rest), validCell coarse.nrows coarse.ncols k' = true := by
    intro k' hk'
    apply cIntersect_keys_valid coarse fine.csz (cells.map (cell2coord fine))
    rw [heq]; exact hk'
  refine ⟨by omega, by omega, ?_⟩
  rw [AreaGrid.at_of_data hd (by omega) (by omega), scatterFn_eq,
    Int.toNat_of_nonneg (by omega), Int.toNat_of_nonneg (by omega)]
  exact congrArg some (foldl_assign_mem hc _ _ hnd hv hkw)

/-- every other entry of the weight grid is 0 -/
theorem intersect_zero_elsewhere {coarse fine : Geom α} {cells : List Int} {a : AreaGrid α}
    (h : intersect coarse fine cells = .ok a) {i j : Nat} (hi : i < a.nrows.toNat) (hj : j < a.ncols.toNat)
    (hno : ∀ k ∈ a.keys, ¬ (prow coarse k = a.rowStart + i ∧ pcol coarse k = a.colStart + j)) :
    a.at i j = some 0 := by
  obtain ⟨kw0, rest, -, hk, -, -, -, -, -, -, -, -, -, hd⟩ := intersect_eq_ok h
  rw [AreaGrid.at_of_data hd hi hj, scatterFn_eq, foldl_assign_untouched]
  intro k hkm hpos
  apply hno k (by rw [hk]; exact hkm)
  simp only [prow, pcol]
  constructor <;> omega

/-- the corner of the weight grid is the lower-left corner of the parent cell at `(rows_end, cols_start)` -/
theorem intersect_subgrid_corner {coarse fine : Geom α} {cells : List Int} {a : AreaGrid α}
    (hcsz : 0 < coarse.csz) (h : intersect coarse fine cells = .ok a) :
    a.xll = coarse.xll + coarse.csz * (a.colStart : α) ∧
    a.yll = coarse.yll + coarse.csz * ((coarse.nrows - 1 - a.rowEnd : Int) : α) := by
  obtain ⟨kw0, rest, heq, -, -, -, hre, hcs, -, hx, hy, -⟩ := intersect_eq_ok h
  have hv : ∀ kw ∈ kw0 :: rest, validCell coarse.nrows coarse.ncols kw.1 = true := by
    intro kw hkw
    apply cIntersect_keys_valid coarse fine.csz (cells.map (cell2coord fine))
    rw [heq]; exact List.mem_map.2 ⟨kw, hkw, rfl⟩
  have hcol : ∀ kw ∈ kw0 :: rest, pcol coarse kw.1 = colOf coarse.ncols kw.1 := by
    intro kw hkw; unfold pcol cell2rowcol; rw [if_pos (hv kw hkw)]
  have hrow : ∀ kw ∈ kw0 :: rest, prow coarse kw.1 = rowOf coarse.ncols kw.1 := by
    intro kw hkw; unfold prow cell2rowcol; rw [if_pos (hv kw hkw)]
  let fx : Int → α := fun c => coarse.xll + coarse.csz * ((c : α) + 1 / 2)
  let fy : Int → α := fun r => coarse.yll + coarse.csz * (((coarse.nrows - 1 - r : Int) : α) + 1 / 2)
  have mfx : Monotone fx := by
    intro p q hpq
    have : (p : α) ≤ (q : α) := by exact_mod_cast hpq
    simp only [fx]; nlinarith
  have mfy : Antitone fy := by
    intro p q hpq
    have : ((coarse.nrows - 1 - q : Int) : α) ≤ ((coarse.nrows - 1 - p : Int) : α) := by
      exact_mod_cast (by omega : coarse.nrows - 1 - q ≤ coarse.nrows - 1 - p)
    simp only [fy]; nlinarith
  have ex : ∀ kw ∈ kw0 :: rest, (getcoord coarse kw.1).1 = fx (pcol coarse kw.1) := by
    intro kw hkw; rw [hcol kw hkw]; simp [getcoord, fx]
  have ey : ∀ kw ∈ kw0 :: rest, (getcoord coarse kw.1).2 = fy (prow coarse kw.1) := by
    intro kw hkw; rw [hrow kw hkw]; simp [getcoord, fy]
  have lx : (rest.map fun kw => (getcoord coarse kw.1).1) = (rest.map fun kw => pcol coarse kw.1).map fx := by
    rw [List.map_map]
    exact List.map_congr_left fun kw hkw => ex kw (List.mem_cons_of_mem _ hkw)
  have ly : (rest.map fun kw => (getcoord coarse kw.1).2) = (rest.map fun kw => prow coarse kw.1).map fy := by
    rw [List.map_map]
    exact List.map_congr_left fun kw hkw => ey kw (List.mem_cons_of_mem _ hkw)
  constructor
  · rw [hx, ex kw0 (by simp), lx, listMin_map_mono mfx, ← hcs]
    simp only [fx]; ring
  · rw [hy, ey kw0 (by simp), ly, listMin_map_anti mfy, ← hre]
    simp only [fy]; ring

/-- cell `(i, j)` of the weight grid is the parent cell `(i + rows_start, j + cols_start)`: that parent cell
exists and both have the same centre (hence, with the common cell size, the same footprint) -/
theorem intersect_subgrid_cell_centre {coarse fine : Geom α} {cells : List Int} {a : AreaGrid α}
    (hcsz : 0 < coarse.csz) (hc : 0 < coarse.ncols) (h : intersect coarse fine cells = .ok a) {i j : Int}
    (hi : 0 ≤ i ∧ i < a.nrows) (hj : 0 ≤ j ∧ j < a.ncols) :
    validCell coarse.nrows coarse.ncols ((i + a.rowStart) * coarse.ncols + (j + a.colStart)) = true ∧
    getcoord (⟨a.nrows, a.ncols, a.xll, a.yll, coarse.csz⟩ : Geom α) (i * a.ncols + j) =
      getcoord coarse ((i + a.rowStart) * coarse.ncols + (j + a.colStart)) := by
  obtain ⟨-, ⟨k1, hk1, e1⟩, ⟨k2, hk2, e2⟩, ⟨k3, hk3, e3⟩, ⟨k4, hk4, e4⟩, hnr, hnc, -⟩ := intersect_subgrid_range h
  have hvk : ∀ k ∈ a.keys, validCell coarse.nrows coarse.ncols k = true := by
    intro k hk
    obtain ⟨kw0, rest, heq, hkeys, -⟩ := intersect_eq_ok h
    apply cIntersect_keys_valid coarse fine.csz (cells.map (cell2coord fine))
    rw [heq, ← hkeys]; exact hk
  have rc : ∀ k ∈ a.keys, 0 ≤ prow coarse k ∧ prow coarse k < coarse.nrows ∧ 0 ≤ pcol coarse k ∧
      pcol coarse k < coarse.ncols := by
    intro k hk
    have hv := hvk k hk
    obtain ⟨r0, r1, c0, c1, -⟩ := valid_rowcol hc hv
    simp only [prow, pcol, cell2rowcol, if_pos hv]
    exact ⟨r0, r1, c0, c1⟩
  have b1 := rc k1 hk1; have b2 := rc k2 hk2; have b3 := rc k3 hk3; have b4 := rc k4 hk4
  rw [e1] at b1; rw [e2] at b2; rw [e3] at b3; rw [e4] at b4
  obtain ⟨hx, hy⟩ := intersect_subgrid_corner hcsz h
  have hr0 : 0 ≤ i + a.rowStart := by omega
  have hr1 : i + a.rowStart < coarse.nrows := by omega
  have hc0 : 0 ≤ j + a.colStart := by omega
  have hc1 : j + a.colStart < coarse.ncols := by omega
  refine ⟨validCell_cellOf hr0 hr1 hc0 hc1, ?_⟩
  have s1 : colOf a.ncols (i * a.ncols + j) = j := colOf_cellOf hi.1 hj.1 hj.2
  have s2 : rowOf a.ncols (i * a.ncols + j) = i := rowOf_cellOf hi.1 hj.1 hj.2
  have p1 : colOf coarse.ncols ((i + a.rowStart) * coarse.ncols + (j + a.colStart)) = j + a.colStart :=
    colOf_cellOf hr0 hc0 hc1
  have p2 : rowOf coarse.ncols ((i + a.rowStart) * coarse.ncols + (j + a.colStart)) = i + a.rowStart :=
    rowOf_cellOf hr0 hc0 hc1
  unfold getcoord
  simp only [s1, s2, p1, p2, hx, hy, hnr, ofInt_eq, half_eq]
  apply Prod.ext
  · simp only []; push_cast; ring
  · simp only []; push_cast; ring

/-! #### the property's clauses stated on what `Catchment.intersect` returns -/

/-- each grid cell appears once in the returned `idxcells` -/
theorem intersect_result_nodup {coarse fine : Geom α} {cells : List Int} {a : AreaGrid α}
    (h : intersect coarse fine cells = .ok a) : a.keys.Nodup := by
  obtain ⟨kw0, rest, heq, hk, -⟩ := intersect_eq_ok h
  have := cIntersect_keys_nodup coarse fine.csz (cells.map (cell2coord fine))
  rw [heq] at this
  rw [hk]; exact this

/-- every returned weight is the ratio of cell areas times the number of catchment cells whose centre lies in the
footprint of its grid cell -/
theorem intersect_result_weight {coarse fine : Geom α} (hcsz : 0 < coarse.csz) (hc : 0 < coarse.ncols)
    {cells : List Int} {a : AreaGrid α} (h : intersect coarse fine cells = .ok a) {k : Int} {w : α}
    (hkw : (k, w) ∈ a.keys.zip a.weights) :
    w = (fine.csz / coarse.csz) ^ 2 *
      ((cells.countP fun c => validCell fine.nrows fine.ncols c &&
        decide (InFootprint coarse k (getcoord fine c).1 (getcoord fine c).2) : Nat) : α) := by
  rw [(intersect_lists h).1] at hkw
  exact intersect_weight_counts_centres_any hcsz hc hkw

/-- the returned weights times the grid-cell area sum to the area of the catchment cells whose centre lies in the
grid -/
theorem intersect_result_area {coarse fine : Geom α} (hcsz : 0 < coarse.csz)
    {cells : List Int} {a : AreaGrid α} (h : intersect coarse fine cells = .ok a) :
    (a.weights.map fun w => w * (coarse.csz * coarse.csz)).sum =
      ((cells.countP fun c => validCell fine.nrows fine.ncols c &&
        decide (InExtent coarse (getcoord fine c).1 (getcoord fine c).2) : Nat) : α) * (fine.csz * fine.csz) := by
  rw [← intersect_area_conserved_any hcsz cells]
  obtain ⟨kw0, rest, heq, -, hw, -⟩ := intersect_eq_ok h
  rw [hw, heq, List.map_map]
  rfl

/-- and so does the weight grid: the sum of all its entries is the sum of the weights (each weight placed once,
zero elsewhere) — stated through the entries: an entry is a listed weight or 0 -/
theorem intersect_entry_cases {coarse fine : Geom α} {cells : List Int} {a : AreaGrid α}
    (hc : 0 < coarse.ncols) (h : intersect coarse fine cells = .ok a) {i j : Nat}
    (hi : i < a.nrows.toNat) (hj : j < a.ncols.toNat) :
    (∃ k w, (k, w) ∈ a.keys.zip a.weights ∧ prow coarse k = a.rowStart + i ∧ pcol coarse k = a.colStart + j ∧
        a.at i j = some w) ∨
    ((∀ k ∈ a.keys, ¬ (prow coarse k = a.rowStart + i ∧ pcol coarse k = a.colStart + j)) ∧ a.at i j = some 0) := by
  by_cases hex : ∃ k ∈ a.keys, prow coarse k = a.rowStart + i ∧ pcol coarse k = a.colStart + j
  · left
    obtain ⟨k, hk, hr, hcl⟩ := hex
    have hlen := (intersect_lists h).2.1
    obtain ⟨n, hn, rfl⟩ := List.getElem_of_mem hk
    have hn' : n < a.weights.length := by omega
    have hz : (a.keys[n], a.weights[n]) ∈ a.keys.zip a.weights := by
      rw [List.mem_iff_getElem]
      exact ⟨n, by simp [hn, hn'], by simp⟩
    obtain ⟨-, -, hat⟩ := intersect_weight_placed hc h hz
    refine ⟨_, _, hz, hr, hcl, ?_⟩
    rw [hr, hcl] at hat
    simpa using hat
  · right
    have hno : ∀ k ∈ a.keys, ¬ (prow coarse k = a.rowStart + i ∧ pcol coarse k = a.colStart + j) :=
      fun k hk hkk => hex ⟨k, hk, hkk⟩
    exact ⟨hno, intersect_zero_elsewhere h hi hj hno⟩

/-! #### `catchment.intersect(grid, filled)` -/

/-- `filled` selects the cell list: the filled area when `True`, the delineated area when `False`; everything
above applies to the selected list -/
theorem catchment_intersect_selects (ca : Catchment α) (grid : Geom α) (filled : Bool) {cells : List Int}
    (hsel : (if filled then ca.filled else ca.area) = some cells) :
    ca.intersect grid filled = intersect grid ca.fine cells := by
  unfold Catchment.intersect
  rw [hsel]

/-- on a catchment whose selected list is `None` (not delineated) `intersect` fails (numpy `TypeError`), and that
is the only additional failure -/
theorem catchment_intersect_error_iff (ca : Catchment α) (grid : Geom α) (filled : Bool) (e : Err) :
    ca.intersect grid filled = .error e ↔
      (e = .cellsNone ∧ (if filled then ca.filled else ca.area) = none) ∨
      ∃ cells, (if filled then ca.filled else ca.area) = some cells ∧ e = .noOverlap ∧
        ∀ c ∈ cells, cellOfPt grid (cell2coord ca.fine c) < 0 := by
  unfold Catchment.intersect
  cases hsel : (if filled then ca.filled else ca.area) with
  | none => simp [eq_comm]
  | some cells =>
    simp only [reduceCtorEq, and_false, false_or, Option.some.injEq, exists_eq_left']
    exact intersect_error_iff grid ca.fine cells e

end Python

/-! ### E. Voronoi weights (exact arithmetic; any distance function) -/

section Voronoi
variable {α : Type} [Field α] [LinearOrder α] [IsStrictOrderedRing α] [FloorRing α]
variable (dist : α → α → α)

/-- the point credited with a cell is the closest one, the lowest index among equidistant points: its distance
is a minimum over all points and strictly below the distance of every point with a lower index — and it is the
only index with that property -/
theorem nearest_is_closest_lowest_index (g : Geom α) {pts : List (α × α)} (hp : pts ≠ []) (c : Int) (j : Nat) :
    nearest (dists dist g pts c) = j ↔
      ∃ p, pts[j]? = some p ∧
        (∀ (k : Nat) (q : α × α), pts[k]? = some q →
          dist ((getcoord g c).1 - p.1) ((getcoord g c).2 - p.2) ≤ dist ((getcoord g c).1 - q.1) ((getcoord g c).2 - q.2)) ∧
        (∀ (k : Nat) (q : α × α), k < j → pts[k]? = some q →
          dist ((getcoord g c).1 - p.1) ((getcoord g c).2 - p.2) < dist ((getcoord g c).1 - q.1) ((getcoord g c).2 - q.2)) := by
  have hne : dists dist g pts c ≠ [] := by
    unfold dists; simpa using hp
  rw [nearest_eq_iff hne]
  unfold IsFirstArgmin dists
  simp only [List.getElem?_map]
  constructor
  · rintro ⟨m, h1, h2, h3⟩
    cases hpj : pts[j]? with
    | none => rw [hpj] at h1; cases h1
    | some p =>
      rw [hpj] at h1
      simp only [Option.map_some, Option.some.injEq] at h1
      subst h1
      refine ⟨p, rfl, ?_, ?_⟩
      · intro k q hq; exact h2 k _ (by rw [hq]; rfl)
      · intro k q hk hq; exact h3 k _ hk (by rw [hq]; rfl)
  · rintro ⟨p, hpj, h2, h3⟩
    refine ⟨_, by rw [hpj]; rfl, ?_, ?_⟩
    · intro k x hx
      cases hq : pts[k]? with
      | none => rw [hq] at hx; cases hx
      | some q =>
        rw [hq] at hx
        simp only [Option.map_some, Option.some.injEq] at hx
        subst hx
        exact h2 k q hq
    · intro k x hk hx
      cases hq : pts[k]? with
      | none => rw [hq] at hx; cases hx
      | some q =>
        rw [hq] at hx
        simp only [Option.map_some, Option.some.injEq] at hx
        subst hx
        exact h3 k q hk hq

/-- `c_voronoi` rejects exactly two kinds of input, in this order: an empty list of points, then a grid without
rows or columns (error code of the kernel, `ValueError` in `grid.voronoi`) -/
theorem cVoronoi_error_iff (g : Geom α) (cells : List Int) (pts : List (α × α)) (e : Err) :
    cVoronoi dist g cells pts = .error e ↔
      (e = .noPoints ∧ pts = []) ∨ (e = .badGrid ∧ pts ≠ [] ∧ (g.nrows < 1 ∨ g.ncols < 1)) := by
  rw [cVoronoi_unfold]
  by_cases hp : pts = []
  · simp [hp, eq_comm]
  · by_cases hg : g.nrows < 1 ∨ g.ncols < 1
    · simp [hp, hg, eq_comm]
    · by_cases hc : cells = [] <;> simp [hp, hg, hc]

theorem cVoronoi_noPoints (g : Geom α) (cells : List Int) : cVoronoi dist g cells [] = .error .noPoints :=
  (cVoronoi_error_iff dist g cells [] _).2 (Or.inl ⟨rfl, rfl⟩)

/-- with no catchment cell every weight is NaN (`0.0/0.0`) -/
theorem cVoronoi_noCells (g : Geom α) (hr : 0 < g.nrows) (hc : 0 < g.ncols) {pts : List (α × α)} (hp : pts ≠ []) :
    cVoronoi dist g [] pts = .ok (pts.map fun _ => none) := by
  rw [cVoronoi_unfold, if_neg hp, if_neg (by omega)]
  simp

/-- with at least one point and one cell (on a grid with at least one row and column): one weight per point, none
of them NaN, and weight `j` is the fraction of catchment cells whose closest point (lowest index on ties,
`nearest_is_closest_lowest_index`) is point `j` -/
theorem cVoronoi_weight (g : Geom α) (hr : 0 < g.nrows) (hc : 0 < g.ncols) {cells : List Int}
    {pts : List (α × α)} (hp : pts ≠ []) (hcells : cells ≠ []) :
    ∃ ws, cVoronoi dist g cells pts = .ok ws ∧ ws.length = pts.length ∧
      ∀ j, j < pts.length →
        ws[j]? = some (some (((cells.countP fun c => decide (nearest (dists dist g pts c) = j) : Nat) : α) /
          (cells.length : α))) := by
  refine ⟨_, by rw [cVoronoi_unfold, if_neg hp, if_neg (by omega), if_neg hcells], ?_, ?_⟩
  · simp [counts, foldl_incr_length]
  · intro j hj
    unfold counts
    rw [List.getElem?_map, foldl_incr_getElem? (fun c => nearest (dists dist g pts c))]
    simp [hj]

/-- whenever `c_voronoi` returns weights for a non-empty catchment, they are exactly those of `cVoronoi_weight`
(the guards are implied by the success) -/
theorem cVoronoi_ok_inv (g : Geom α) {cells : List Int} {pts : List (α × α)} {ws : List (Option α)}
    (h : cVoronoi dist g cells pts = .ok ws) : pts ≠ [] ∧ 0 < g.nrows ∧ 0 < g.ncols := by
  refine ⟨?_, ?_, ?_⟩
  · rintro rfl
    rw [cVoronoi_noPoints] at h; cases h
  all_goals
    by_contra hn
    have := (cVoronoi_error_iff dist g cells pts .badGrid).2
      (Or.inr ⟨rfl, (by rintro rfl; rw [cVoronoi_noPoints] at h; cases h), (by omega)⟩)
    rw [this] at h; cases h

/-- Voronoi weights are non-negative -/
theorem cVoronoi_nonneg (g : Geom α) {cells : List Int} {pts : List (α × α)} {ws : List (Option α)}
    (hcells : cells ≠ []) (h : cVoronoi dist g cells pts = .ok ws) : ∀ w ∈ ws, ∃ x, w = some x ∧ 0 ≤ x := by
  obtain ⟨hp, hr, hc⟩ := cVoronoi_ok_inv dist g h
  obtain ⟨ws', h', hlen, hw⟩ := cVoronoi_weight dist g hr hc hp hcells
  rw [h] at h'
  injection h' with h'
  subst h'
  intro w hwm
  obtain ⟨j, hj, rfl⟩ := List.getElem_of_mem hwm
  have := hw j (by omega)
  rw [List.getElem?_eq_getElem hj] at this
  injection this with this
  exact ⟨_, this, div_nonneg (Nat.cast_nonneg _) (Nat.cast_nonneg _)⟩

/-- Voronoi weights sum to 1 -/
theorem cVoronoi_sum_one (g : Geom α) {cells : List Int} {pts : List (α × α)} {ws : List (Option α)}
    (hcells : cells ≠ []) (h : cVoronoi dist g cells pts = .ok ws) :
    (ws.map fun w => w.getD 0).sum = 1 := by
  obtain ⟨hp, hr, hc⟩ := cVoronoi_ok_inv dist g h
  rw [cVoronoi_unfold, if_neg hp, if_neg (by omega), if_neg hcells] at h
  injection h with h
  subst h
  have hsum : (counts dist g cells pts).sum = (cells.length : α) := by
    unfold counts
    rw [foldl_incr_sum (fun c => nearest (dists dist g pts c))]
    · simp
    · intro c _
      have hne : dists dist g pts c ≠ [] := by unfold dists; simpa using hp
      have := nearest_lt_length hne
      simpa [dists] using this
  have hn : (cells.length : α) ≠ 0 := by
    have : cells.length ≠ 0 := fun e => hcells (List.length_eq_zero_iff.1 e)
    exact_mod_cast this
  rw [List.map_map]
  have hf : ((fun w : Option α => w.getD 0) ∘ fun w : α => some (w / (cells.length : α))) =
      fun w => w / (cells.length : α) := by
    funext w; simp
  rw [hf, sum_map_div, hsum, div_self hn]

/-! #### the wrapper `grid.voronoi` -/

/-- `grid.voronoi` rejects: a catchment that is not delineated (`ValueError`), a points argument that does not have
two columns after `np.atleast_2d` (`AssertionError` of the Cython wrapper), and what the kernel rejects; nothing else -/
theorem voronoiPy_error_iff (g : Geom α) (area : Option (List Int)) (arg : PtsArg α) (e : Err) :
    voronoiPy dist g area arg = .error e ↔
      (e = .notDelineated ∧ area = none) ∨
      ∃ cells, area = some cells ∧
        ((e = .badShape ∧ arg.shape2d.1 ≠ 2) ∨
         (arg.shape2d.1 = 2 ∧ cVoronoi dist g cells (rowsToPts arg.shape2d.2) = .error e)) := by
  unfold voronoiPy
  cases area with
  | none => simp [eq_comm]
  | some cells =>
    simp only [Option.some.injEq, exists_eq_left', reduceCtorEq, and_false, false_or]
    by_cases hw : arg.shape2d.1 = 2
    · simp [hw]
    · simp [hw, eq_comm]

/-- on an `(n, 2)` array of points the wrapper returns what the kernel returns for those points and the
*unfilled* area — all the Voronoi theorems above apply to `grid.voronoi` -/
theorem voronoiPy_points (g : Geom α) (cells : List Int) (pts : List (α × α)) :
    voronoiPy dist g (some cells) (.rows 2 (pts.map fun p => [p.1, p.2])) = cVoronoi dist g cells pts := by
  simp [voronoiPy, PtsArg.shape2d, rowsToPts_map]

/-- a single point may be given flat, `[x, y]` -/
theorem voronoiPy_flat_pair (g : Geom α) (cells : List Int) (x y : α) :
    voronoiPy dist g (some cells) (.flat [x, y]) = cVoronoi dist g cells [(x, y)] := by
  simp [voronoiPy, PtsArg.shape2d, rowsToPts]

end Voronoi

/-! ### the hypotheses are satisfiable: a 6×6 catchment grid against a 2×3 grid of cell size 2 shifted by (1, 1) -/

/- at `ℚ` the theorems' `Trunc` instance (cast, floor of the ordered field) is preferred over the driver's `truncRat` -/
attribute [local instance 2000] C07.fieldTrunc

def exCoarse : Geom ℚ := ⟨2, 3, 1, 1, 2⟩
def exFine : Geom ℚ := ⟨6, 6, 0, 0, 1⟩

example : (0 : ℚ) < exCoarse.csz ∧ 0 < exCoarse.ncols ∧
    ∀ c ∈ [27, 28, 21, 0], validCell exFine.nrows exFine.ncols c = true := by
  refine ⟨by norm_num [exCoarse], by decide, by decide⟩

/-- the centre of catchment cell 27 (row 4, column 3) is `(7/2, 3/2)`, inside the extent `[1,7) × [1,5)` -/
example : getcoord exFine 27 = (7 / 2, 3 / 2) ∧ InExtent exCoarse (7 / 2) (3 / 2) := by
  have h1 : colOf exFine.ncols 27 = 3 := by decide
  have h2 : rowOf exFine.ncols 27 = 4 := by decide
  constructor
  · unfold getcoord
    rw [h1, h2]
    norm_num [exFine, ofInt_eq]
  · unfold InExtent
    norm_num [exCoarse]

/-- the centre of catchment cell 0 (top-left) is `(1/2, 11/2)`, outside it -/
example : getcoord exFine 0 = (1 / 2, 11 / 2) ∧ ¬ InExtent exCoarse (1 / 2) (11 / 2) := by
  have h1 : colOf exFine.ncols 0 = 0 := by decide
  have h2 : rowOf exFine.ncols 0 = 0 := by decide
  constructor
  · unfold getcoord
    rw [h1, h2]
    norm_num [exFine, ofInt_eq]
  · unfold InExtent
    norm_num [exCoarse]

/-- so `intersect` succeeds on a cell list holding cell 27 -/
example : ∃ a, intersect exCoarse exFine [27, 28, 21, 0] = .ok a := by
  cases h : intersect exCoarse exFine [27, 28, 21, 0] with
  | ok a => exact ⟨a, rfl⟩
  | error e =>
    exfalso
    have hneg := ((intersect_error_iff _ _ _ _).1 h).2 27 (by simp)
    have hv : validCell exFine.nrows exFine.ncols 27 = true := by decide
    have h1 : colOf exFine.ncols 27 = 3 := by decide
    have h2 : rowOf exFine.ncols 27 = 4 := by decide
    have hin : InExtent exCoarse (getcoord exFine 27).1 (getcoord exFine 27).2 := by
      unfold getcoord InExtent
      rw [h1, h2]
      norm_num [exFine, exCoarse, ofInt_eq]
    have := (cellOfPt_nonneg_iff (g := exCoarse) (by norm_num [exCoarse]) _ _).2 hin
    unfold cell2coord at hneg
    rw [if_pos hv] at hneg
    have e : (some (getcoord exFine 27) : Option (ℚ × ℚ)) = some ((getcoord exFine 27).1, (getcoord exFine 27).2) := rfl
    rw [e] at hneg
    omega

/-- the hypotheses `(k, w) ∈ a.keys.zip a.weights` / `k ∈ a.keys` are met: a successful intersection lists at
least one cell, with its weight -/
example {a : AreaGrid ℚ} (h : intersect exCoarse exFine [27, 28, 21, 0] = .ok a) :
    ∃ k w, (k, w) ∈ a.keys.zip a.weights := by
  obtain ⟨hz, hl, hne⟩ := intersect_lists h
  cases hk : a.keys with
  | nil => exact absurd hk hne
  | cons k t =>
    cases hw : a.weights with
    | nil => rw [hk, hw] at hl; simp at hl
    | cons w t' => exact ⟨k, w, by simp⟩

/-- a delineated catchment with a hole (cell 14 of the ring 7..21): `filled` selects a different list -/
def exCa : Catchment ℚ := ⟨exFine, some [7, 8, 9, 13, 15, 19, 20, 21], some [7, 8, 9, 13, 14, 15, 19, 20, 21]⟩

example : (if true then exCa.filled else exCa.area) = some [7, 8, 9, 13, 14, 15, 19, 20, 21] ∧
    (if false then exCa.filled else exCa.area) = some [7, 8, 9, 13, 15, 19, 20, 21] := ⟨rfl, rfl⟩

/-- shapes of the points argument after `np.atleast_2d`: `[x, y]` and an `(n, 2)` array pass, a scalar, a flat
triple and an `(n, 3)` array do not; the grid guards of the Voronoi theorems hold for the example grid -/
example : (PtsArg.flat [1, 2] : PtsArg ℚ).shape2d.1 = 2 ∧ (PtsArg.rows 2 [[1, 2], [3, 4]] : PtsArg ℚ).shape2d.1 = 2 ∧
    (PtsArg.scalar 3 : PtsArg ℚ).shape2d.1 ≠ 2 ∧ (PtsArg.flat [1, 2, 3] : PtsArg ℚ).shape2d.1 ≠ 2 ∧
    (PtsArg.rows 3 [[1, 2, 3]] : PtsArg ℚ).shape2d.1 ≠ 2 ∧ 0 < exFine.nrows ∧ 0 < exFine.ncols := by
  refine ⟨rfl, rfl, by decide, by decide, by decide, by decide, by decide⟩

/-- two equidistant points: the first one wins; a strictly closer later point wins -/
example : nearest ([1, 1] : List ℚ) = 0 ∧ nearest ([2, 1, 1] : List ℚ) = 1 := by
  constructor <;> simp [nearest, nearestLoop]

example : ([(0, 0), (5, 5)] : List (ℚ × ℚ)) ≠ [] ∧ ([27, 28] : List Int) ≠ [] := by simp

end HydroVerif.C16
