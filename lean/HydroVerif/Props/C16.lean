/-
C16 — property theorems (only). Model: `HydroVerif/Model/C16.lean`, `Model/C16Hist.lean` (+ grid geometry of
`Model/C07.lean`); helper lemmas: `Lemmas/C16.lean`, `Lemmas/C16Rnd.lean`, `Lemmas/C16Hist.lean`, `Lemmas/C07Grid.lean`,
`Lemmas/C07Coord.lean`.

Part A holds for every numeric instance of the model (also the `Float` one the driver runs): it only uses the
integer structure of the loops and the order of the loop's own additions. Parts B–E are over any ordered field with a
floor function (`ℚ`, `ℝ`): exact arithmetic. Part F is about the model instantiated at rounded arithmetic (`Fl r`,
`Lemmas/C16Rnd.lean`: any monotone idempotent rounding operator that is exact on small naturals — IEEE-754
round-to-nearest is one): ranges, order, exact integer counts and error bounds that are true of the floating-point
computation itself. Part G is about histories of operations on live objects (`Model/C16Hist.lean`), for every numeric
instance. Every statement holds for all grid shapes, all cell lists (any length, any order, repeats, invalid numbers
where stated), all point lists, all operation lists. Every model function named here is executed by
`Drivers/C16.lean` and compared with the real code (`specWeight`/`specArea`: request `specQ`; `repAdd`: `repadd`;
`hrun`/`hfinal`/`Op.isMutator`: `hist`).

Clause of the property -> theorems -> what stays outside the theorems
* Intersecting a catchment with a coarser grid assigns every catchment cell whose centre falls inside the grid to exactly one grid cell (all cell sets, all grids, arbitrary offsets, partial or no overlap)
    theorems: centre_inside_listed_once, centre_outside_not_counted, cellOfPt_nonneg_iff, cellOfPt_eq_iff, cIntersect_mem_keys_iff, intersect_error_iff (no overlap <-> the ValueError), cIntersect_dims_pos / intersect_ok_dims (a listed cell implies nrows, ncols > 0: no hypothesis on the shape), cellOfPt_rounded_mono (rounded arithmetic: locating is monotone in each coordinate; a centre is never moved past another centre's cell), cellOfPt_iff_needs_pos_csz (the hypothesis 0 < cell size is needed; the code does not guard it)
    outside: exact arithmetic (ordered field with floor); a centre within 1e-9 cells of a coarse edge may be located differently in IEEE arithmetic (Float correspondence only). 'inside' = half-open extent, footprints half-open: an edge centre goes right/up. Cell size <= 0 (plain attribute, never validated) is outside the quantifier: correspondence only (stream `degenerate`).
* its weight is the number of such cells times the ratio of cell areas
    theorems: intersect_result_weight (on the returned lists, any cell list), intersect_matches_spec (= the executable statement specWeight the driver evaluates), intersect_weight_counts_centres_any, intersect_weight_counts_centres, cIntersect_weight, cIntersect_weight_repAdd (EVERY arithmetic, also Float: the weight is areafactor, then += areafactor, count - 1 times, in this order), cIntersect_rounded_weight_ge / _mono / _error (rounded arithmetic: weight >= areafactor >= 0, order of counts preserved, |w - n af| <= ((1+u)^(n-1) - 1) n af)
    outside: nothing but the instance: that IEEE-754 double arithmetic is a `Rounding` (monotone, idempotent, exact on naturals <= 2^53, relative error 2^-53) is not formalised; the Float instance is executed and compared bit for bit, the weights also against repAdd at the oracle's exact counts
* weights times grid-cell area sum to the catchment area inside the grid
    theorems: intersect_result_area (on the returned weights), intersect_matches_spec (= specArea), intersect_area_conserved_any, intersect_area_conserved, cIntersect_total, history_intersect_conserves_area (after any history of edits, clones, combinations, rejected operations and other calls)
    outside: rounding of the sum (each term bounded by cIntersect_rounded_weight_error)
* each grid cell appears once
    theorems: intersect_result_nodup, cIntersect_keys_nodup (every numeric instance, also Float), cIntersect_keys_valid, cIntersect_length_le (buffers large enough), intersect_never_overflow_or_badData (the model's memory-safety error value is never returned)
    outside: nothing
* the returned weight grid places every weight at the matching row and column of the parent grid
    theorems: intersect_weight_placed, intersect_zero_elsewhere, intersect_entry_cases (every entry is a listed weight at its parent row/col, or 0), intersect_subgrid_range (attained bounds, shape), intersect_subgrid_corner, intersect_subgrid_cell_centre (sub-grid cell (i,j) = parent cell (i+rows_start, j+cols_start), with the weight grid's own cell size), intersect_parent_attributes (cellsize and parentgrid_nrows/ncols/cellsize/xllcorner/yllcorner are the intersected grid's), intersect_never_overflow_or_badData (the shape guards of the Grid.data setter never fire), intersect_lists
    outside: numpy fancy-index assignment, np.min/np.max/np.unique are modelled (sequential element assignment, folds), tied by the correspondence; parentgrid_name and the comment string are not modelled (strings the property does not constrain)
* filled / unfilled area
    theorems: catchment_intersect_selects, catchment_intersect_default (no argument = unfilled), catchment_intersect_error_iff, voronoiPy_points (Voronoi always uses the unfilled area), catchment_add_area / catchment_sub_area (which cells a sum / difference of catchments has: union / difference of the FILLED areas, left operand's grid and filled area)
    outside: how delineate_area / binary_fill_holes / from_dict produce the two lists: C06 / C13
* Voronoi weights are non-negative
    theorems: cVoronoi_nonneg, cVoronoi_rounded_range (rounded arithmetic: every weight in [0, 1]), cVoronoi_ok_inv
    outside: needs >= 1 cell (0 cells: NaN in the code, `none` in the model: cVoronoi_noCells)
* Voronoi weights sum to 1
    theorems: cVoronoi_sum_one, cVoronoi_rounded_sum (rounded arithmetic: |sum - 1| <= u, the sum taken exactly), cVoronoi_rounded_weight (counts are exact integers, weight j = rnd(count_j / ncells))
    outside: the rounding of the final summation by the caller (oracle: exact sum of the returned doubles within 1e-12)
* Voronoi weights equal the fraction of catchment cells closest to each point; equidistant ties resolved to the lowest index; 1 to 6 points anywhere (any number in the theorems)
    theorems: cVoronoi_weight, nearest_is_closest_lowest_index, nearest_rounded_is_first_argmin (rounded arithmetic: smallest COMPUTED distance, lowest index among equal computed distances), cVoronoi_rounded_weight, voronoiPy_points, voronoiPy_flat_pair
    outside: the distance function is a parameter (any function; sqrt(dx*dx+dy*dy) in the driver): two distinct points within rounding of a tie may be ordered differently in IEEE arithmetic than in exact arithmetic; NaN / inf coordinates are outside the quantifier and not sent to the model. How the points are laid out in memory (C / Fortran order, strided views, lists, tuples) is not modelled: the harness hands every representation to grid.voronoi and requires the same answer (defect fixed on fix-C16: Fortran-ordered arrays were rejected)
* (implicit) rejected input of the wrappers: no overlap, no points, grid without rows/columns, catchment not delineated, points argument without two columns, negative buffer size
    theorems: intersect_error_iff, catchment_intersect_error_iff, cVoronoi_error_iff, cVoronoi_noPoints, voronoiPy_error_iff
    outside: which guard / exception class / message rejects is incidental: the correspondence requires a rejection exactly where the model rejects; 3-D points arrays, ragged lists, non-numeric input: numpy's own errors, not modelled
* (implicit) the answers depend on the objects as they are at the time of the call, on nothing else: histories of calls, in-place edits of held and returned arrays, re-assigned geometry, clones, sums / differences of catchments, rejected operations
    theorems: hstep_call_keeps_objects, hstep_rejected_keeps_objects, hfinal_eq_filter, hrun_reply, hrun_length, history_intersect_reply, history_voronoi_reply, hstep_other_objects (a clone and its original are independent), history_intersect_conserves_area
    outside: that the Python objects behave as the model's World (attribute assignment, deepcopy, pickle) is tied by the history stream: every call's answer is compared with hrun on the same operation list, the state is tracked from the assigned values and never re-read after a call
-/
import HydroVerif.Lemmas.C16
import HydroVerif.Lemmas.C16Rnd
import HydroVerif.Lemmas.C16Hist
import Mathlib.Data.Rat.Floor
import Mathlib.Data.List.Perm.Subperm

set_option linter.unusedSectionVars false

namespace HydroVerif.C16
open HydroVerif.C07

/-! ### A. the list of intersected cells (any arithmetic) -/

section Generic
variable {α : Type} [Add α] [Sub α] [Mul α] [Div α] [OfNat α 1] [C07.Trunc α]

/-- each grid cell appears once in `idxcells` -/
theorem cIntersect_keys_nodup (g : Geom α) (ca : α) (pts : List (Option (α × α))) :
    ((cIntersect g ca pts).map Prod.fst).Nodup := by
  rw [cIntersect_eq]
  exact nodup_keys_foldl_bump _ _ [] List.nodup_nil

/-- a cell is listed exactly when `c_coord2cell` maps some point to it (and it is not the `-1` flag) -/
theorem cIntersect_mem_keys_iff (g : Geom α) (ca : α) (pts : List (Option (α × α))) (k : Int) :
    k ∈ (cIntersect g ca pts).map Prod.fst ↔ 0 ≤ k ∧ ∃ p ∈ pts, cellOfPt g p = k := by
  rw [cIntersect_eq]
  have := mem_keys_foldl_bump (areafactor g.csz ca) (hits g pts) [] k
  unfold keys at this
  rw [this, mem_hits]
  simp

/-- every listed cell is a valid cell of the grid: the `cell2coord` / `cell2rowcol` calls that follow in
`Catchment.intersect` never see an invalid number -/
theorem cIntersect_keys_valid (g : Geom α) (ca : α) (pts : List (Option (α × α))) (k : Int)
    (hk : k ∈ (cIntersect g ca pts).map Prod.fst) : validCell g.nrows g.ncols k = true := by
  obtain ⟨h0, p, -, rfl⟩ := (cIntersect_mem_keys_iff g ca pts k).1 hk
  rcases cellOfPt_neg_one_or_valid g p with h | h
  · omega
  · exact h

/-- the kernel writes at most `nrows*ncols` entries: the buffers `Catchment.intersect` allocates are large enough -/
theorem cIntersect_length_le (g : Geom α) (ca : α) (pts : List (Option (α × α))) :
    (cIntersect g ca pts).length ≤ (g.nrows * g.ncols).toNat := by
  have hnd := cIntersect_keys_nodup g ca pts
  have hv := cIntersect_keys_valid g ca pts
  have hlen : (cIntersect g ca pts).length = ((cIntersect g ca pts).map Prod.fst).length := by simp
  rw [hlen]
  generalize (cIntersect g ca pts).map Prod.fst = ks at hnd hv
  have hv' : ∀ k ∈ ks, 0 ≤ k ∧ k < g.nrows * g.ncols := fun k hk => validCell_iff.1 (hv k hk)
  generalize g.nrows * g.ncols = n at hv'
  have h1 : (ks.map Int.toNat).Nodup := by
    apply List.Nodup.map_on _ hnd
    intro a ha b hb hab
    have := hv' a ha
    have := hv' b hb
    omega
  have h2 : ks.map Int.toNat ⊆ List.range n.toNat := by
    intro x hx
    obtain ⟨k, hk, rfl⟩ := List.mem_map.1 hx
    have := hv' k hk
    rw [List.mem_range]
    omega
  have := (h1.subperm h2).length_le
  simpa using this

/-- a grid that lists a cell has rows and columns: the hypothesis `0 < ncols` of the theorems below follows from
the kernel's own range test whenever a cell is listed -/
theorem cIntersect_dims_pos (g : Geom α) (ca : α) (pts : List (Option (α × α))) (k : Int)
    (hk : k ∈ (cIntersect g ca pts).map Prod.fst) : 0 < g.nrows ∧ 0 < g.ncols :=
  cIntersect_dims g ca pts k hk

/-- the weight of a listed cell *as the loop computes it*, in every arithmetic (also `Float`): the cell was met
`n + 1` times (at least once) and its weight is `areafactor`, then `+= areafactor` `n` times, in this order -/
theorem cIntersect_weight_repAdd (g : Geom α) (ca : α) (pts : List (Option (α × α))) {k : Int} {w : α}
    (h : (k, w) ∈ cIntersect g ca pts) :
    ∃ n, (pts.map (cellOfPt g)).count k = n + 1 ∧ w = repAdd (areafactor g.csz ca) n := by
  have hk : k ∈ keys (cIntersect g ca pts) := List.mem_map.2 ⟨(k, w), h, rfl⟩
  obtain ⟨h0, -⟩ := (cIntersect_mem_keys g ca pts k).1 hk
  have hcount : (hits g pts).count k = (pts.map (cellOfPt g)).count k := by
    unfold hits
    rw [List.count_filter]
    simpa using h0
  have hw := wLook_of_mem (cIntersect_nodup g ca pts) h
  rw [cIntersect_eq, wLook_foldl_bump, hcount] at hw
  cases hn : (pts.map (cellOfPt g)).count k with
  | zero =>
    rw [hn] at hw
    simp [wLook] at hw
  | succ n =>
    rw [hn] at hw
    simp only [wLook] at hw
    injection hw with hw
    exact ⟨n, rfl, hw.symm⟩

end Generic

/-! ### B. weights of `c_intersect` (exact arithmetic) -/

section Weights
variable {α : Type} [Field α] [LinearOrder α] [IsStrictOrderedRing α] [FloorRing α]

/-- the weight of a listed cell is the ratio of cell areas times the number of points `c_coord2cell` maps to it,
and that number is at least one -/
theorem cIntersect_weight {g : Geom α} {ca : α} {pts : List (Option (α × α))} {k : Int} {w : α}
    (h : (k, w) ∈ cIntersect g ca pts) :
    w = (ca / g.csz) ^ 2 * (((pts.map (cellOfPt g)).count k : Nat) : α) ∧
      1 ≤ (pts.map (cellOfPt g)).count k := by
  have hk : k ∈ (cIntersect g ca pts).map Prod.fst := List.mem_map.2 ⟨(k, w), h, rfl⟩
  obtain ⟨h0, p, hp, hpk⟩ := (cIntersect_mem_keys_iff g ca pts k).1 hk
  have hcount : (hits g pts).count k = (pts.map (cellOfPt g)).count k := by
    unfold hits
    rw [List.count_filter]
    simpa using h0
  refine ⟨?_, ?_⟩
  · have hw := wOf_of_mem (cIntersect_keys_nodup g ca pts) h
    rw [cIntersect_eq, wOf_foldl_bump, hcount] at hw
    rw [← hw]
    simp [wOf, areafactor, sq]
  · exact List.count_pos_iff.2 (List.mem_map.2 ⟨p, hp, hpk⟩)

/-- weights times grid-cell area sum to (number of accepted points) times the catchment-cell area -/
theorem cIntersect_total {g : Geom α} (hcsz : g.csz ≠ 0) (ca : α) (pts : List (Option (α × α))) :
    ((cIntersect g ca pts).map fun kw => kw.2 * (g.csz * g.csz)).sum =
      ((pts.countP fun p => decide (0 ≤ cellOfPt g p) : Nat) : α) * (ca * ca) := by
  have h1 : ((cIntersect g ca pts).map fun kw => kw.2 * (g.csz * g.csz)).sum =
      sumW (cIntersect g ca pts) * (g.csz * g.csz) := sum_map_snd_mul _ _
  have h2 : (hits g pts).length = pts.countP fun p => decide (0 ≤ cellOfPt g p) := by
    unfold hits
    rw [← List.countP_eq_length_filter, List.countP_map]
    rfl
  rw [h1, cIntersect_eq, sumW_foldl_bump, h2]
  simp only [sumW, List.map_nil, List.sum_nil, zero_add, areafactor]
  field_simp

/-- a point is accepted exactly when it lies in the extent of the grid (`xlim × ylim`, half-open) -/
theorem cellOfPt_nonneg_iff {g : Geom α} (hcsz : 0 < g.csz) (x y : α) :
    0 ≤ cellOfPt g (some (x, y)) ↔ InExtent g x y :=
  coord2cell_nonneg_iff hcsz

/-- and it is counted for the cell whose (half-open) footprint contains it, for no other -/
theorem cellOfPt_eq_iff {g : Geom α} (hcsz : 0 < g.csz) (hc : 0 < g.ncols) {c : Int}
    (hv : validCell g.nrows g.ncols c = true) (x y : α) :
    cellOfPt g (some (x, y)) = c ↔ InFootprint g c x y :=
  coord2cell_eq_iff hcsz hc hv

end Weights

/-! ### C. catchment cells against the coarse grid (exact arithmetic) -/

section Catchment
variable {α : Type} [Field α] [LinearOrder α] [IsStrictOrderedRing α] [FloorRing α]

/-- the weight of a listed grid cell is `(csz_area/csz)²` times the number of catchment cells whose centre lies
in the footprint of that grid cell -/
theorem intersect_weight_counts_centres {coarse fine : Geom α} (hcsz : 0 < coarse.csz)
    {cells : List Int} (hcells : ∀ c ∈ cells, validCell fine.nrows fine.ncols c = true) {k : Int} {w : α}
    (h : (k, w) ∈ cIntersect coarse fine.csz (cells.map (cell2coord fine))) :
    w = (fine.csz / coarse.csz) ^ 2 *
      ((cells.countP fun c => decide (InFootprint coarse k (getcoord fine c).1 (getcoord fine c).2) : Nat) : α) := by
  have hk : k ∈ (cIntersect coarse fine.csz (cells.map (cell2coord fine))).map Prod.fst :=
    List.mem_map.2 ⟨(k, w), h, rfl⟩
  have hc := (cIntersect_dims_pos _ _ _ k hk).2
  have hv := cIntersect_keys_valid _ _ _ k hk
  rw [(cIntersect_weight h).1]
  congr 2
  rw [List.count_eq_countP, List.countP_map, List.countP_map]
  apply List.countP_congr
  intro c hcm
  simp only [Function.comp, beq_iff_eq, decide_eq_true_eq]
  unfold cell2coord
  rw [if_pos (hcells c hcm)]
  exact cellOfPt_eq_iff hcsz hc hv _ _

/-- area conservation: weights times grid-cell area sum to the area of the catchment cells whose centre lies in
the extent of the grid -/
theorem intersect_area_conserved {coarse fine : Geom α} (hcsz : 0 < coarse.csz)
    {cells : List Int} (hcells : ∀ c ∈ cells, validCell fine.nrows fine.ncols c = true) :
    ((cIntersect coarse fine.csz (cells.map (cell2coord fine))).map fun kw => kw.2 * (coarse.csz * coarse.csz)).sum =
      ((cells.countP fun c => decide (InExtent coarse (getcoord fine c).1 (getcoord fine c).2) : Nat) : α) *
        (fine.csz * fine.csz) := by
  rw [cIntersect_total hcsz.ne', List.countP_map]
  congr 2
  apply List.countP_congr
  intro c hcm
  simp only [Function.comp, decide_eq_true_eq]
  unfold cell2coord
  rw [if_pos (hcells c hcm)]
  exact cellOfPt_nonneg_iff hcsz _ _

/-- a catchment cell whose centre falls inside the grid is assigned to exactly one listed grid cell -/
theorem centre_inside_listed_once {coarse fine : Geom α} (hcsz : 0 < coarse.csz)
    {cells : List Int} {c : Int} (hcm : c ∈ cells) (hv : validCell fine.nrows fine.ncols c = true)
    (hin : InExtent coarse (getcoord fine c).1 (getcoord fine c).2) :
    ∃! k, k ∈ (cIntersect coarse fine.csz (cells.map (cell2coord fine))).map Prod.fst ∧
      InFootprint coarse k (getcoord fine c).1 (getcoord fine c).2 := by
  obtain ⟨hv0, hfp⟩ := coord2cell_of_inExtent hcsz hin
  have hc := (coord2cell_nonneg_dims coarse _ _ (validCell_iff.1 hv0).1).2
  refine ⟨coord2cell coarse (getcoord fine c).1 (getcoord fine c).2, ⟨?_, hfp⟩, ?_⟩
  · rw [cIntersect_mem_keys_iff]
    refine ⟨(validCell_iff.1 hv0).1, cell2coord fine c, List.mem_map_of_mem hcm, ?_⟩
    unfold cell2coord
    rw [if_pos hv]
    rfl
  · rintro k ⟨hk, hkf⟩
    have hvk := cIntersect_keys_valid _ _ _ k hk
    exact (coord2cell_of_inFootprint hcsz hc hvk hkf).symm

/-- a catchment cell whose centre falls outside the grid is counted for no listed cell -/
theorem centre_outside_not_counted {coarse fine : Geom α} (hcsz : 0 < coarse.csz)
    {cells : List Int} {c : Int}
    (hout : ¬ InExtent coarse (getcoord fine c).1 (getcoord fine c).2) (k : Int)
    (hk : k ∈ (cIntersect coarse fine.csz (cells.map (cell2coord fine))).map Prod.fst) :
    ¬ InFootprint coarse k (getcoord fine c).1 (getcoord fine c).2 := fun hkf =>
  hout (inExtent_of_inFootprint hcsz (cIntersect_dims_pos _ _ _ k hk).2 (cIntersect_keys_valid _ _ _ k hk) hkf)

/-- the same for an arbitrary cell list (repeats, invalid numbers): a cell number that is not a cell of the
flow-direction grid has no centre (`cell2coord` gives NaN) and is counted nowhere -/
theorem intersect_weight_counts_centres_any {coarse fine : Geom α} (hcsz : 0 < coarse.csz)
    {cells : List Int} {k : Int} {w : α}
    (h : (k, w) ∈ cIntersect coarse fine.csz (cells.map (cell2coord fine))) :
    w = (fine.csz / coarse.csz) ^ 2 *
      ((cells.countP fun c => validCell fine.nrows fine.ncols c &&
        decide (InFootprint coarse k (getcoord fine c).1 (getcoord fine c).2) : Nat) : α) := by
  have hk : k ∈ (cIntersect coarse fine.csz (cells.map (cell2coord fine))).map Prod.fst :=
    List.mem_map.2 ⟨(k, w), h, rfl⟩
  have hc := (cIntersect_dims_pos _ _ _ k hk).2
  have hv := cIntersect_keys_valid _ _ _ k hk
  rw [(cIntersect_weight h).1]
  congr 2
  rw [List.count_eq_countP, List.countP_map, List.countP_map]
  apply List.countP_congr
  intro c _
  simp only [Function.comp, beq_iff_eq, Bool.and_eq_true, decide_eq_true_eq]
  unfold cell2coord
  by_cases hvc : validCell fine.nrows fine.ncols c = true
  · rw [if_pos hvc]
    simp only [hvc, true_and]
    exact cellOfPt_eq_iff hcsz hc hv _ _
  · rw [if_neg hvc]
    have := (validCell_iff.1 hv).1
    constructor
    · intro hneg
      have : (-1 : Int) = k := hneg
      omega
    · rintro ⟨hvt, -⟩
      exact absurd hvt hvc

/-- area conservation for an arbitrary cell list -/
theorem intersect_area_conserved_any {coarse fine : Geom α} (hcsz : 0 < coarse.csz) (cells : List Int) :
    ((cIntersect coarse fine.csz (cells.map (cell2coord fine))).map fun kw => kw.2 * (coarse.csz * coarse.csz)).sum =
      ((cells.countP fun c => validCell fine.nrows fine.ncols c &&
        decide (InExtent coarse (getcoord fine c).1 (getcoord fine c).2) : Nat) : α) * (fine.csz * fine.csz) := by
  rw [cIntersect_total hcsz.ne', List.countP_map]
  congr 2
  apply List.countP_congr
  intro c _
  simp only [Function.comp, decide_eq_true_eq, Bool.and_eq_true]
  unfold cell2coord
  by_cases hvc : validCell fine.nrows fine.ncols c = true
  · rw [if_pos hvc]
    simp only [hvc, true_and]
    exact cellOfPt_nonneg_iff hcsz _ _
  · rw [if_neg hvc]
    constructor
    · intro hneg
      have : (0 : Int) ≤ -1 := hneg
      omega
    · rintro ⟨hvt, -⟩
      exact absurd hvt hvc

end Catchment

/-! ### D. `Catchment.intersect`: lists, sub-grid, scatter (exact arithmetic) -/

section Python
variable {α : Type} [Field α] [LinearOrder α] [IsStrictOrderedRing α] [FloorRing α]

/-- `intersect` fails in exactly two ways: `np.zeros` rejects a negative buffer size (`nrows*ncols < 0`: outside the
property's quantifier), and otherwise the `ValueError` of `np.min` on an empty array, exactly when no catchment-cell
centre is accepted by the grid. The kernel never writes past the buffers it is given (`bufferOverflow`) and the
weight array always passes the shape guards of the `Grid.data` setter (`badData`): those error values are never
returned -/
theorem intersect_error_iff (coarse fine : Geom α) (cells : List Int) (e : Err) :
    intersect coarse fine cells = .error e ↔
      (e = .badBuffer ∧ coarse.nrows * coarse.ncols < 0) ∨
      (e = .noOverlap ∧ 0 ≤ coarse.nrows * coarse.ncols ∧ ∀ c ∈ cells, cellOfPt coarse (cell2coord fine c) < 0) := by
  constructor
  · intro h
    rcases intersect_eq_error h with ⟨he, hneg⟩ | ⟨he, hpos, hnil⟩
    · exact Or.inl ⟨he, hneg⟩
    · refine Or.inr ⟨he, hpos, fun c hc => ?_⟩
      by_contra hge
      have : cellOfPt coarse (cell2coord fine c) ∈
          (cIntersect coarse fine.csz (cells.map (cell2coord fine))).map Prod.fst := by
        rw [cIntersect_mem_keys_iff]
        exact ⟨by omega, _, List.mem_map_of_mem hc, rfl⟩
      rw [hnil] at this
      cases this
  · rintro (⟨rfl, hneg⟩ | ⟨rfl, hpos, hneg⟩)
    · rw [intersect_unfold, if_pos hneg]
    · cases hres : intersect coarse fine cells with
      | error e' =>
        rcases intersect_eq_error hres with ⟨-, hn⟩ | ⟨he, -, -⟩
        · omega
        · rw [he]
      | ok a =>
        obtain ⟨kw0, rest, heq, -⟩ := intersect_eq_ok hres
        have : kw0.1 ∈ (cIntersect coarse fine.csz (cells.map (cell2coord fine))).map Prod.fst := by
          rw [heq]; simp
        obtain ⟨h0, p, hp, hpk⟩ := (cIntersect_mem_keys_iff _ _ _ _).1 this
        obtain ⟨c, hc, rfl⟩ := List.mem_map.1 hp
        have := hneg c hc
        omega

/-- the two guards of the model that stand for memory safety and for the `Grid.data` setter never fire -/
theorem intersect_never_overflow_or_badData (coarse fine : Geom α) (cells : List Int) :
    intersect coarse fine cells ≠ .error .bufferOverflow ∧ intersect coarse fine cells ≠ .error .badData := by
  constructor <;> intro h <;> rcases (intersect_error_iff _ _ _ _).1 h with ⟨he, -⟩ | ⟨he, -⟩ <;> cases he

/-- a successful intersection implies that the grid has rows and columns (the kernel's range test accepted a
centre): the theorems below need no hypothesis on `nrows`, `ncols` -/
theorem intersect_ok_dims {coarse fine : Geom α} {cells : List Int} {a : AreaGrid α}
    (h : intersect coarse fine cells = .ok a) : 0 < coarse.nrows ∧ 0 < coarse.ncols := by
  obtain ⟨kw0, rest, heq, -⟩ := intersect_eq_ok h
  apply cIntersect_dims_pos coarse fine.csz (cells.map (cell2coord fine)) kw0.1
  rw [heq]; simp

/-- `area_grid.cellsize` and the `parentgrid_*` attributes are those of the intersected grid -/
theorem intersect_parent_attributes {coarse fine : Geom α} {cells : List Int} {a : AreaGrid α}
    (h : intersect coarse fine cells = .ok a) : a.csz = coarse.csz ∧ a.parent = coarse :=
  intersect_eq_ok_parent h

/-- the returned `idxcells`, `weights` are the kernel's lists: everything proved in parts A–C applies to them -/
theorem intersect_lists {coarse fine : Geom α} {cells : List Int} {a : AreaGrid α}
    (h : intersect coarse fine cells = .ok a) :
    a.keys.zip a.weights = cIntersect coarse fine.csz (cells.map (cell2coord fine)) ∧
      a.keys.length = a.weights.length ∧ a.keys ≠ [] := by
  obtain ⟨kw0, rest, heq, hk, hw, -⟩ := intersect_eq_ok h
  rw [hk, hw, heq]
  exact ⟨zip_map_fst_snd _, by simp, by simp⟩

/-- the sub-grid spans exactly the rows and columns of the listed cells: the bounds are attained and every
listed cell is within them; the data array has that shape -/
theorem intersect_subgrid_range {coarse fine : Geom α} {cells : List Int} {a : AreaGrid α}
    (h : intersect coarse fine cells = .ok a) :
    (∀ k ∈ a.keys, a.rowStart ≤ prow coarse k ∧ prow coarse k ≤ a.rowEnd ∧
        a.colStart ≤ pcol coarse k ∧ pcol coarse k ≤ a.colEnd) ∧
    (∃ k ∈ a.keys, prow coarse k = a.rowStart) ∧ (∃ k ∈ a.keys, prow coarse k = a.rowEnd) ∧
    (∃ k ∈ a.keys, pcol coarse k = a.colStart) ∧ (∃ k ∈ a.keys, pcol coarse k = a.colEnd) ∧
    a.nrows = a.rowEnd - a.rowStart + 1 ∧ a.ncols = a.colEnd - a.colStart + 1 ∧
    a.data.length = a.nrows.toNat ∧ ∀ r ∈ a.data, r.length = a.ncols.toNat := by
  obtain ⟨kw0, rest, -, hk, -, hrs, hre, hcs, hce, -, -, hnr, hnc, hd⟩ := intersect_eq_ok h
  have mem_of : ∀ (f : Int → Int) (m : Int),
      (m = f kw0.1 ∨ m ∈ rest.map fun kw => f kw.1) → ∃ k ∈ a.keys, f k = m := by
    intro f m hm
    rw [hk]
    rcases hm with rfl | hm
    · exact ⟨kw0.1, by simp, rfl⟩
    · obtain ⟨kw, hkw, rfl⟩ := List.mem_map.1 hm
      exact ⟨kw.1, by simp only [List.map_cons, List.mem_cons, List.mem_map]; right; exact ⟨kw, hkw, rfl⟩, rfl⟩
  have s1 := listMin_spec (prow coarse kw0.1) (rest.map fun kw => prow coarse kw.1)
  have s2 := listMax_spec (prow coarse kw0.1) (rest.map fun kw => prow coarse kw.1)
  have s3 := listMin_spec (pcol coarse kw0.1) (rest.map fun kw => pcol coarse kw.1)
  have s4 := listMax_spec (pcol coarse kw0.1) (rest.map fun kw => pcol coarse kw.1)
  rw [← hrs] at s1; rw [← hre] at s2; rw [← hcs] at s3; rw [← hce] at s4
  refine ⟨?_, mem_of (prow coarse) _ s1.1, mem_of (prow coarse) _ s2.1, mem_of (pcol coarse) _ s3.1,
    mem_of (pcol coarse) _ s4.1, hnr, hnc, ?_, ?_⟩
  · intro k hkm
    rw [hk] at hkm
    rcases List.mem_cons.1 hkm with rfl | hkm
    · exact ⟨s1.2.1, s2.2.1, s3.2.1, s4.2.1⟩
    · obtain ⟨kw, hkw, rfl⟩ := List.mem_map.1 hkm
      exact ⟨s1.2.2 _ (List.mem_map.2 ⟨kw, hkw, rfl⟩), s2.2.2 _ (List.mem_map.2 ⟨kw, hkw, rfl⟩),
        s3.2.2 _ (List.mem_map.2 ⟨kw, hkw, rfl⟩), s4.2.2 _ (List.mem_map.2 ⟨kw, hkw, rfl⟩)⟩
  · rw [hd]; simp
  · intro r hr
    rw [hd] at hr
    obtain ⟨i, -, rfl⟩ := List.mem_map.1 hr
    simp

/-- the weight grid holds the weight of every listed cell at `(row - rows_start, col - cols_start)`, its row and
column in the parent grid shifted by the recorded starts -/
theorem intersect_weight_placed {coarse fine : Geom α} {cells : List Int} {a : AreaGrid α}
    (h : intersect coarse fine cells = .ok a) {k : Int} {w : α}
    (hkw : (k, w) ∈ a.keys.zip a.weights) :
    0 ≤ prow coarse k - a.rowStart ∧ 0 ≤ pcol coarse k - a.colStart ∧
    a.at (prow coarse k - a.rowStart).toNat (pcol coarse k - a.colStart).toNat = some w := by
  have hc := (intersect_ok_dims h).2
  obtain ⟨kw0, rest, heq, -, -, -, -, -, -, -, -, hnr, hnc, hd⟩ := intersect_eq_ok h
  rw [(intersect_lists h).1, heq] at hkw
  have hkm : k ∈ a.keys := by
    have := (intersect_lists h).1
    rw [heq] at this
    have h2 : k ∈ (a.keys.zip a.weights).map Prod.fst := by
      rw [this]; exact List.mem_map.2 ⟨(k, w), hkw, rfl⟩
    rw [List.map_fst_zip (by rw [(intersect_lists h).2.1])] at h2
    exact h2
  obtain ⟨r0, r1, c0, c1⟩ := (intersect_subgrid_range h).1 k hkm
  have hnd : (keys (kw0 :: rest)).Nodup := by
    have := cIntersect_keys_nodup coarse fine.csz (cells.map (cell2coord fine))
    rwa [heq] at this
  have hv : ∀ k' ∈ keys (kw0 :: rest), validCell coarse.nrows coarse.ncols k' = true := by
    intro k' hk'
    apply cIntersect_keys_valid coarse fine.csz (cells.map (cell2coord fine))
    rw [heq]; exact hk'
  refine ⟨by omega, by omega, ?_⟩
  rw [AreaGrid.at_of_data hd (by omega) (by omega), scatterFn_eq,
    Int.toNat_of_nonneg (by omega), Int.toNat_of_nonneg (by omega)]
  exact congrArg some (foldl_assign_mem hc _ _ hnd hv hkw)

/-- every other entry of the weight grid is 0 -/
theorem intersect_zero_elsewhere {coarse fine : Geom α} {cells : List Int} {a : AreaGrid α}
    (h : intersect coarse fine cells = .ok a) {i j : Nat} (hi : i < a.nrows.toNat) (hj : j < a.ncols.toNat)
    (hno : ∀ k ∈ a.keys, ¬ (prow coarse k = a.rowStart + i ∧ pcol coarse k = a.colStart + j)) :
    a.at i j = some 0 := by
  obtain ⟨kw0, rest, -, hk, -, -, -, -, -, -, -, -, -, hd⟩ := intersect_eq_ok h
  rw [AreaGrid.at_of_data hd hi hj, scatterFn_eq, foldl_assign_untouched]
  intro k hkm hpos
  apply hno k (by rw [hk]; exact hkm)
  simp only [prow, pcol]
  constructor <;> omega

/-- the corner of the weight grid is the lower-left corner of the parent cell at `(rows_end, cols_start)` -/
theorem intersect_subgrid_corner {coarse fine : Geom α} {cells : List Int} {a : AreaGrid α}
    (hcsz : 0 < coarse.csz) (h : intersect coarse fine cells = .ok a) :
    a.xll = coarse.xll + coarse.csz * (a.colStart : α) ∧
    a.yll = coarse.yll + coarse.csz * ((coarse.nrows - 1 - a.rowEnd : Int) : α) := by
  obtain ⟨kw0, rest, heq, -, -, -, hre, hcs, -, hx, hy, -⟩ := intersect_eq_ok h
  have hv : ∀ kw ∈ kw0 :: rest, validCell coarse.nrows coarse.ncols kw.1 = true := by
    intro kw hkw
    apply cIntersect_keys_valid coarse fine.csz (cells.map (cell2coord fine))
    rw [heq]; exact List.mem_map.2 ⟨kw, hkw, rfl⟩
  have hcol : ∀ kw ∈ kw0 :: rest, pcol coarse kw.1 = colOf coarse.ncols kw.1 := by
    intro kw hkw; unfold pcol cell2rowcol; rw [if_pos (hv kw hkw)]
  have hrow : ∀ kw ∈ kw0 :: rest, prow coarse kw.1 = rowOf coarse.ncols kw.1 := by
    intro kw hkw; unfold prow cell2rowcol; rw [if_pos (hv kw hkw)]
  let fx : Int → α := fun c => coarse.xll + coarse.csz * ((c : α) + 1 / 2)
  let fy : Int → α := fun r => coarse.yll + coarse.csz * (((coarse.nrows - 1 - r : Int) : α) + 1 / 2)
  have mfx : Monotone fx := by
    intro p q hpq
    have : (p : α) ≤ (q : α) := by exact_mod_cast hpq
    simp only [fx]; nlinarith
  have mfy : Antitone fy := by
    intro p q hpq
    have : ((coarse.nrows - 1 - q : Int) : α) ≤ ((coarse.nrows - 1 - p : Int) : α) := by
      exact_mod_cast (by omega : coarse.nrows - 1 - q ≤ coarse.nrows - 1 - p)
    simp only [fy]; nlinarith
  have ex : ∀ kw ∈ kw0 :: rest, (getcoord coarse kw.1).1 = fx (pcol coarse kw.1) := by
    intro kw hkw; rw [hcol kw hkw]; simp [getcoord, fx]
  have ey : ∀ kw ∈ kw0 :: rest, (getcoord coarse kw.1).2 = fy (prow coarse kw.1) := by
    intro kw hkw; rw [hrow kw hkw]; simp [getcoord, fy]
  have lx : (rest.map fun kw => (getcoord coarse kw.1).1) = (rest.map fun kw => pcol coarse kw.1).map fx := by
    rw [List.map_map]
    exact List.map_congr_left fun kw hkw => ex kw (List.mem_cons_of_mem _ hkw)
  have ly : (rest.map fun kw => (getcoord coarse kw.1).2) = (rest.map fun kw => prow coarse kw.1).map fy := by
    rw [List.map_map]
    exact List.map_congr_left fun kw hkw => ey kw (List.mem_cons_of_mem _ hkw)
  constructor
  · rw [hx, ex kw0 (by simp), lx, listMin_map_mono mfx, ← hcs]
    simp only [fx]; ring
  · rw [hy, ey kw0 (by simp), ly, listMin_map_anti mfy, ← hre]
    simp only [fy]; ring

/-- cell `(i, j)` of the weight grid is the parent cell `(i + rows_start, j + cols_start)`: that parent cell
exists and both have the same centre (hence, with the common cell size, the same footprint) -/
theorem intersect_subgrid_cell_centre {coarse fine : Geom α} {cells : List Int} {a : AreaGrid α}
    (hcsz : 0 < coarse.csz) (h : intersect coarse fine cells = .ok a) {i j : Int}
    (hi : 0 ≤ i ∧ i < a.nrows) (hj : 0 ≤ j ∧ j < a.ncols) :
    validCell coarse.nrows coarse.ncols ((i + a.rowStart) * coarse.ncols + (j + a.colStart)) = true ∧
    getcoord (⟨a.nrows, a.ncols, a.xll, a.yll, a.csz⟩ : Geom α) (i * a.ncols + j) =
      getcoord coarse ((i + a.rowStart) * coarse.ncols + (j + a.colStart)) := by
  have hc := (intersect_ok_dims h).2
  rw [(intersect_parent_attributes h).1]
  obtain ⟨-, ⟨k1, hk1, e1⟩, ⟨k2, hk2, e2⟩, ⟨k3, hk3, e3⟩, ⟨k4, hk4, e4⟩, hnr, hnc, -⟩ := intersect_subgrid_range h
  have hvk : ∀ k ∈ a.keys, validCell coarse.nrows coarse.ncols k = true := by
    intro k hk
    obtain ⟨kw0, rest, heq, hkeys, -⟩ := intersect_eq_ok h
    apply cIntersect_keys_valid coarse fine.csz (cells.map (cell2coord fine))
    rw [heq, ← hkeys]; exact hk
  have rc : ∀ k ∈ a.keys, 0 ≤ prow coarse k ∧ prow coarse k < coarse.nrows ∧ 0 ≤ pcol coarse k ∧
      pcol coarse k < coarse.ncols := by
    intro k hk
    have hv := hvk k hk
    obtain ⟨r0, r1, c0, c1, -⟩ := valid_rowcol hc hv
    simp only [prow, pcol, cell2rowcol, if_pos hv]
    exact ⟨r0, r1, c0, c1⟩
  have b1 := rc k1 hk1; have b2 := rc k2 hk2; have b3 := rc k3 hk3; have b4 := rc k4 hk4
  rw [e1] at b1; rw [e2] at b2; rw [e3] at b3; rw [e4] at b4
  obtain ⟨hx, hy⟩ := intersect_subgrid_corner hcsz h
  have hr0 : 0 ≤ i + a.rowStart := by omega
  have hr1 : i + a.rowStart < coarse.nrows := by omega
  have hc0 : 0 ≤ j + a.colStart := by omega
  have hc1 : j + a.colStart < coarse.ncols := by omega
  refine ⟨validCell_cellOf hr0 hr1 hc0 hc1, ?_⟩
  have s1 : colOf a.ncols (i * a.ncols + j) = j := colOf_cellOf hi.1 hj.1 hj.2
  have s2 : rowOf a.ncols (i * a.ncols + j) = i := rowOf_cellOf hi.1 hj.1 hj.2
  have p1 : colOf coarse.ncols ((i + a.rowStart) * coarse.ncols + (j + a.colStart)) = j + a.colStart :=
    colOf_cellOf hr0 hc0 hc1
  have p2 : rowOf coarse.ncols ((i + a.rowStart) * coarse.ncols + (j + a.colStart)) = i + a.rowStart :=
    rowOf_cellOf hr0 hc0 hc1
  unfold getcoord
  simp only [s1, s2, p1, p2, hx, hy, hnr, ofInt_eq, half_eq]
  apply Prod.ext
  · simp only []; push_cast; ring
  · simp only []; push_cast; ring

/-! #### the property's clauses stated on what `Catchment.intersect` returns -/

/-- each grid cell appears once in the returned `idxcells` -/
theorem intersect_result_nodup {coarse fine : Geom α} {cells : List Int} {a : AreaGrid α}
    (h : intersect coarse fine cells = .ok a) : a.keys.Nodup := by
  obtain ⟨kw0, rest, heq, hk, -⟩ := intersect_eq_ok h
  have := cIntersect_keys_nodup coarse fine.csz (cells.map (cell2coord fine))
  rw [heq] at this
  rw [hk]; exact this

/-- every returned weight is the ratio of cell areas times the number of catchment cells whose centre lies in the
footprint of its grid cell -/
theorem intersect_result_weight {coarse fine : Geom α} (hcsz : 0 < coarse.csz)
    {cells : List Int} {a : AreaGrid α} (h : intersect coarse fine cells = .ok a) {k : Int} {w : α}
    (hkw : (k, w) ∈ a.keys.zip a.weights) :
    w = (fine.csz / coarse.csz) ^ 2 *
      ((cells.countP fun c => validCell fine.nrows fine.ncols c &&
        decide (InFootprint coarse k (getcoord fine c).1 (getcoord fine c).2) : Nat) : α) := by
  rw [(intersect_lists h).1] at hkw
  exact intersect_weight_counts_centres_any hcsz hkw

/-- the returned weights times the grid-cell area sum to the area of the catchment cells whose centre lies in the
grid -/
theorem intersect_result_area {coarse fine : Geom α} (hcsz : 0 < coarse.csz)
    {cells : List Int} {a : AreaGrid α} (h : intersect coarse fine cells = .ok a) :
    (a.weights.map fun w => w * (coarse.csz * coarse.csz)).sum =
      ((cells.countP fun c => validCell fine.nrows fine.ncols c &&
        decide (InExtent coarse (getcoord fine c).1 (getcoord fine c).2) : Nat) : α) * (fine.csz * fine.csz) := by
  rw [← intersect_area_conserved_any hcsz cells]
  obtain ⟨kw0, rest, heq, -, hw, -⟩ := intersect_eq_ok h
  rw [hw, heq, List.map_map]
  rfl

/-- and so does the weight grid: the sum of all its entries is the sum of the weights (each weight placed once,
zero elsewhere) — stated through the entries: an entry is a listed weight or 0 -/
theorem intersect_entry_cases {coarse fine : Geom α} {cells : List Int} {a : AreaGrid α}
    (h : intersect coarse fine cells = .ok a) {i j : Nat}
    (hi : i < a.nrows.toNat) (hj : j < a.ncols.toNat) :
    (∃ k w, (k, w) ∈ a.keys.zip a.weights ∧ prow coarse k = a.rowStart + i ∧ pcol coarse k = a.colStart + j ∧
        a.at i j = some w) ∨
    ((∀ k ∈ a.keys, ¬ (prow coarse k = a.rowStart + i ∧ pcol coarse k = a.colStart + j)) ∧ a.at i j = some 0) := by
  by_cases hex : ∃ k ∈ a.keys, prow coarse k = a.rowStart + i ∧ pcol coarse k = a.colStart + j
  · left
    obtain ⟨k, hk, hr, hcl⟩ := hex
    have hlen := (intersect_lists h).2.1
    obtain ⟨n, hn, rfl⟩ := List.getElem_of_mem hk
    have hn' : n < a.weights.length := by omega
    have hz : (a.keys[n], a.weights[n]) ∈ a.keys.zip a.weights := by
      rw [List.mem_iff_getElem]
      exact ⟨n, by simp [hn, hn'], by simp⟩
    obtain ⟨-, -, hat⟩ := intersect_weight_placed h hz
    refine ⟨_, _, hz, hr, hcl, ?_⟩
    rw [hr, hcl] at hat
    simpa using hat
  · right
    have hno : ∀ k ∈ a.keys, ¬ (prow coarse k = a.rowStart + i ∧ pcol coarse k = a.colStart + j) :=
      fun k hk hkk => hex ⟨k, hk, hkk⟩
    exact ⟨hno, intersect_zero_elsewhere h hi hj hno⟩

/-! #### `catchment.intersect(grid, filled)` -/

/-- `filled` selects the cell list: the filled area when `True`, the delineated area when `False`; everything
above applies to the selected list -/
theorem catchment_intersect_selects (ca : Catchment α) (grid : Geom α) (filled : Bool) {cells : List Int}
    (hsel : (if filled then ca.filled else ca.area) = some cells) :
    ca.intersect grid filled = intersect grid ca.fine cells := by
  unfold Catchment.intersect
  rw [hsel]

/-- `catchment.intersect(grid)` without `filled` intersects the delineated (unfilled) area -/
theorem catchment_intersect_default (ca : Catchment α) (grid : Geom α) {cells : List Int}
    (hsel : ca.area = some cells) : ca.intersectDefault grid = intersect grid ca.fine cells :=
  catchment_intersect_selects ca grid false hsel

/-- on a catchment whose selected list is `None` (not delineated) `intersect` fails (numpy `TypeError`), and that
is the only additional failure -/
theorem catchment_intersect_error_iff (ca : Catchment α) (grid : Geom α) (filled : Bool) (e : Err) :
    ca.intersect grid filled = .error e ↔
      (e = .cellsNone ∧ (if filled then ca.filled else ca.area) = none) ∨
      ∃ cells, (if filled then ca.filled else ca.area) = some cells ∧
        ((e = .badBuffer ∧ grid.nrows * grid.ncols < 0) ∨
         (e = .noOverlap ∧ 0 ≤ grid.nrows * grid.ncols ∧ ∀ c ∈ cells, cellOfPt grid (cell2coord ca.fine c) < 0)) := by
  unfold Catchment.intersect
  cases hsel : (if filled then ca.filled else ca.area) with
  | none => simp [eq_comm]
  | some cells =>
    simp only [reduceCtorEq, and_false, false_or, Option.some.injEq, exists_eq_left']
    exact intersect_error_iff grid ca.fine cells e

/-- the property as an executable statement (`specWeight`, `specArea` of `Model/C16.lean`, run by the driver next to
the model): every returned weight is the number of catchment cells with their centre in the half-open footprint of
its cell times the ratio of cell areas, and the weights times the grid-cell area sum to the catchment area inside
the grid -/
theorem intersect_matches_spec {coarse fine : Geom α} (hcsz : 0 < coarse.csz)
    {cells : List Int} {a : AreaGrid α} (h : intersect coarse fine cells = .ok a) :
    (∀ k w, (k, w) ∈ a.keys.zip a.weights → w = specWeight coarse fine cells k) ∧
    (a.weights.map fun w => w * (coarse.csz * coarse.csz)).sum = specArea coarse fine cells := by
  constructor
  · intro k w hkw
    rw [intersect_result_weight hcsz h hkw]
    unfold specWeight
    rw [specCount_eq, ofInt_eq, Int.cast_natCast, sq]
  · rw [intersect_result_area hcsz h]
    unfold specArea
    rw [specInside_eq, ofInt_eq, Int.cast_natCast]

end Python

/-! ### E. Voronoi weights (exact arithmetic; any distance function) -/

section Voronoi
variable {α : Type} [Field α] [LinearOrder α] [IsStrictOrderedRing α] [FloorRing α]
variable (dist : α → α → α)

/-- the point credited with a cell is the closest one, the lowest index among equidistant points: its distance
is a minimum over all points and strictly below the distance of every point with a lower index — and it is the
only index with that property -/
theorem nearest_is_closest_lowest_index (g : Geom α) {pts : List (α × α)} (hp : pts ≠ []) (c : Int) (j : Nat) :
    nearest (dists dist g pts c) = j ↔
      ∃ p, pts[j]? = some p ∧
        (∀ (k : Nat) (q : α × α), pts[k]? = some q →
          dist ((getcoord g c).1 - p.1) ((getcoord g c).2 - p.2) ≤ dist ((getcoord g c).1 - q.1) ((getcoord g c).2 - q.2)) ∧
        (∀ (k : Nat) (q : α × α), k < j → pts[k]? = some q →
          dist ((getcoord g c).1 - p.1) ((getcoord g c).2 - p.2) < dist ((getcoord g c).1 - q.1) ((getcoord g c).2 - q.2)) := by
  have hne : dists dist g pts c ≠ [] := by
    unfold dists; simpa using hp
  rw [nearest_eq_iff hne]
  unfold IsFirstArgmin dists
  simp only [List.getElem?_map]
  constructor
  · rintro ⟨m, h1, h2, h3⟩
    cases hpj : pts[j]? with
    | none => rw [hpj] at h1; cases h1
    | some p =>
      rw [hpj] at h1
      simp only [Option.map_some, Option.some.injEq] at h1
      subst h1
      refine ⟨p, rfl, ?_, ?_⟩
      · intro k q hq; exact h2 k _ (by rw [hq]; rfl)
      · intro k q hk hq; exact h3 k _ hk (by rw [hq]; rfl)
  · rintro ⟨p, hpj, h2, h3⟩
    refine ⟨_, by rw [hpj]; rfl, ?_, ?_⟩
    · intro k x hx
      cases hq : pts[k]? with
      | none => rw [hq] at hx; cases hx
      | some q =>
        rw [hq] at hx
        simp only [Option.map_some, Option.some.injEq] at hx
        subst hx
        exact h2 k q hq
    · intro k x hk hx
      cases hq : pts[k]? with
      | none => rw [hq] at hx; cases hx
      | some q =>
        rw [hq] at hx
        simp only [Option.map_some, Option.some.injEq] at hx
        subst hx
        exact h3 k q hk hq

/-- `c_voronoi` rejects exactly two kinds of input, in this order: an empty list of points, then a grid without
rows or columns (error code of the kernel, `ValueError` in `grid.voronoi`) -/
theorem cVoronoi_error_iff (g : Geom α) (cells : List Int) (pts : List (α × α)) (e : Err) :
    cVoronoi dist g cells pts = .error e ↔
      (e = .noPoints ∧ pts = []) ∨ (e = .badGrid ∧ pts ≠ [] ∧ (g.nrows < 1 ∨ g.ncols < 1)) := by
  rw [cVoronoi_unfold]
  by_cases hp : pts = []
  · simp [hp, eq_comm]
  · by_cases hg : g.nrows < 1 ∨ g.ncols < 1
    · simp [hp, hg, eq_comm]
    · by_cases hc : cells = [] <;> simp [hp, hg, hc]

theorem cVoronoi_noPoints (g : Geom α) (cells : List Int) : cVoronoi dist g cells [] = .error .noPoints :=
  (cVoronoi_error_iff dist g cells [] _).2 (Or.inl ⟨rfl, rfl⟩)

/-- with no catchment cell every weight is NaN (`0.0/0.0`) -/
theorem cVoronoi_noCells (g : Geom α) (hr : 0 < g.nrows) (hc : 0 < g.ncols) {pts : List (α × α)} (hp : pts ≠ []) :
    cVoronoi dist g [] pts = .ok (pts.map fun _ => none) := by
  rw [cVoronoi_unfold, if_neg hp, if_neg (by omega)]
  simp

/-- with at least one point and one cell (on a grid with at least one row and column): one weight per point, none
of them NaN, and weight `j` is the fraction of catchment cells whose closest point (lowest index on ties,
`nearest_is_closest_lowest_index`) is point `j` -/
theorem cVoronoi_weight (g : Geom α) (hr : 0 < g.nrows) (hc : 0 < g.ncols) {cells : List Int}
    {pts : List (α × α)} (hp : pts ≠ []) (hcells : cells ≠ []) :
    ∃ ws, cVoronoi dist g cells pts = .ok ws ∧ ws.length = pts.length ∧
      ∀ j, j < pts.length →
        ws[j]? = some (some (((cells.countP fun c => decide (nearest (dists dist g pts c) = j) : Nat) : α) /
          (cells.length : α))) := by
  refine ⟨_, by rw [cVoronoi_unfold, if_neg hp, if_neg (by omega), if_neg hcells], ?_, ?_⟩
  · simp [counts, foldl_incr_length]
  · intro j hj
    unfold counts
    rw [List.getElem?_map, foldl_incr_getElem? (fun c => nearest (dists dist g pts c))]
    simp [hj]

/-- whenever `c_voronoi` returns weights for a non-empty catchment, they are exactly those of `cVoronoi_weight`
(the guards are implied by the success) -/
theorem cVoronoi_ok_inv (g : Geom α) {cells : List Int} {pts : List (α × α)} {ws : List (Option α)}
    (h : cVoronoi dist g cells pts = .ok ws) : pts ≠ [] ∧ 0 < g.nrows ∧ 0 < g.ncols := by
  refine ⟨?_, ?_, ?_⟩
  · rintro rfl
    rw [cVoronoi_noPoints] at h; cases h
  all_goals
    by_contra hn
    have := (cVoronoi_error_iff dist g cells pts .badGrid).2
      (Or.inr ⟨rfl, (by rintro rfl; rw [cVoronoi_noPoints] at h; cases h), (by omega)⟩)
    rw [this] at h; cases h

/-- Voronoi weights are non-negative -/
theorem cVoronoi_nonneg (g : Geom α) {cells : List Int} {pts : List (α × α)} {ws : List (Option α)}
    (hcells : cells ≠ []) (h : cVoronoi dist g cells pts = .ok ws) : ∀ w ∈ ws, ∃ x, w = some x ∧ 0 ≤ x := by
  obtain ⟨hp, hr, hc⟩ := cVoronoi_ok_inv dist g h
  obtain ⟨ws', h', hlen, hw⟩ := cVoronoi_weight dist g hr hc hp hcells
  rw [h] at h'
  injection h' with h'
  subst h'
  intro w hwm
  obtain ⟨j, hj, rfl⟩ := List.getElem_of_mem hwm
  have := hw j (by omega)
  rw [List.getElem?_eq_getElem hj] at this
  injection this with this
  exact ⟨_, this, div_nonneg (Nat.cast_nonneg _) (Nat.cast_nonneg _)⟩

/-- Voronoi weights sum to 1 -/
theorem cVoronoi_sum_one (g : Geom α) {cells : List Int} {pts : List (α × α)} {ws : List (Option α)}
    (hcells : cells ≠ []) (h : cVoronoi dist g cells pts = .ok ws) :
    (ws.map fun w => w.getD 0).sum = 1 := by
  obtain ⟨hp, hr, hc⟩ := cVoronoi_ok_inv dist g h
  rw [cVoronoi_unfold, if_neg hp, if_neg (by omega), if_neg hcells] at h
  injection h with h
  subst h
  have hsum : (counts dist g cells pts).sum = (cells.length : α) := by
    unfold counts
    rw [foldl_incr_sum (fun c => nearest (dists dist g pts c))]
    · simp
    · intro c _
      have hne : dists dist g pts c ≠ [] := by unfold dists; simpa using hp
      have := nearest_lt_length hne
      simpa [dists] using this
  have hn : (cells.length : α) ≠ 0 := by
    have : cells.length ≠ 0 := fun e => hcells (List.length_eq_zero_iff.1 e)
    exact_mod_cast this
  rw [List.map_map]
  have hf : ((fun w : Option α => w.getD 0) ∘ fun w : α => some (w / (cells.length : α))) =
      fun w => w / (cells.length : α) := by
    funext w; simp
  rw [hf, sum_map_div, hsum, div_self hn]

/-! #### the wrapper `grid.voronoi` -/

/-- `grid.voronoi` rejects: a catchment that is not delineated (`ValueError`), a points argument that does not have
two columns after `np.atleast_2d` (`AssertionError` of the Cython wrapper), and what the kernel rejects; nothing else -/
theorem voronoiPy_error_iff (g : Geom α) (area : Option (List Int)) (arg : PtsArg α) (e : Err) :
    voronoiPy dist g area arg = .error e ↔
      (e = .notDelineated ∧ area = none) ∨
      ∃ cells, area = some cells ∧
        ((e = .badShape ∧ arg.shape2d.1 ≠ 2) ∨
         (arg.shape2d.1 = 2 ∧ cVoronoi dist g cells (rowsToPts arg.shape2d.2) = .error e)) := by
  unfold voronoiPy
  cases area with
  | none => simp [eq_comm]
  | some cells =>
    simp only [Option.some.injEq, exists_eq_left', reduceCtorEq, and_false, false_or]
    by_cases hw : arg.shape2d.1 = 2
    · simp [hw]
    · simp [hw, eq_comm]

/-- on an `(n, 2)` array of points the wrapper returns what the kernel returns for those points and the
*unfilled* area — all the Voronoi theorems above apply to `grid.voronoi` -/
theorem voronoiPy_points (g : Geom α) (cells : List Int) (pts : List (α × α)) :
    voronoiPy dist g (some cells) (.rows 2 (pts.map fun p => [p.1, p.2])) = cVoronoi dist g cells pts := by
  simp [voronoiPy, PtsArg.shape2d, rowsToPts_map]

/-- a single point may be given flat, `[x, y]` -/
theorem voronoiPy_flat_pair (g : Geom α) (cells : List Int) (x y : α) :
    voronoiPy dist g (some cells) (.flat [x, y]) = cVoronoi dist g cells [(x, y)] := by
  simp [voronoiPy, PtsArg.shape2d, rowsToPts]

end Voronoi

/-! ### F. rounded arithmetic: what stays true of the floating-point computation itself

`Fl r` (`Lemmas/C16Rnd.lean`) is the model's numeric type with every `+ - * /` rounded by a monotone, idempotent
rounding operator `r.rnd` that is exact on the naturals `0 .. r.N` — IEEE-754 round-to-nearest on doubles is one
(`N = 2^53`). The generic model text instantiates at `Fl r` as it does at `Float`. -/

section Rounded
variable {α : Type} [Field α] [LinearOrder α] [IsStrictOrderedRing α] [FloorRing α] {r : Rounding α}

/-- the area factor computed in rounded arithmetic is non-negative, and every listed weight is at least the area
factor: no weight is negative or smaller than one cell's share, whatever the rounding -/
theorem cIntersect_rounded_weight_ge (g : Geom (Fl r)) (ca : Fl r) (pts : List (Option (Fl r × Fl r))) {k : Int}
    {w : Fl r} (h : (k, w) ∈ cIntersect g ca pts) :
    0 ≤ (areafactor g.csz ca).val ∧ (areafactor g.csz ca).val ≤ w.val := by
  have h0 : 0 ≤ (areafactor g.csz ca).val := by
    unfold areafactor
    rw [Fl.mul_val]
    exact Fl.rnd_nonneg (mul_self_nonneg _)
  obtain ⟨n, -, rfl⟩ := cIntersect_weight_repAdd g ca pts h
  exact ⟨h0, repAdd_val_ge _ h0 n⟩

/-- a cell holding at least as many centres as another one has at least its weight (rounding never reverses the
order of two weights) -/
theorem cIntersect_rounded_weight_mono (g : Geom (Fl r)) (ca : Fl r) (pts : List (Option (Fl r × Fl r)))
    {k k' : Int} {w w' : Fl r} (h : (k, w) ∈ cIntersect g ca pts) (h' : (k', w') ∈ cIntersect g ca pts)
    (hle : (pts.map (cellOfPt g)).count k ≤ (pts.map (cellOfPt g)).count k') : w.val ≤ w'.val := by
  have h0 := (cIntersect_rounded_weight_ge g ca pts h).1
  obtain ⟨n, hn, rfl⟩ := cIntersect_weight_repAdd g ca pts h
  obtain ⟨n', hn', rfl⟩ := cIntersect_weight_repAdd g ca pts h'
  exact repAdd_val_monotone _ h0 (by omega)

/-- the rounding of the repeated addition, bounded: with a relative error `u` per operation the weight of a cell
holding `n + 1` centres is within `((1+u)^n - 1) (n+1) af` of `(n+1) af`, `af` the computed area factor
(`u = 2^-53`, `n + 1 <= 144`: a relative `1.6e-14`, inside the oracle's `1e-11`) -/
theorem cIntersect_rounded_weight_error (g : Geom (Fl r)) (ca : Fl r) (pts : List (Option (Fl r × Fl r))) {k : Int}
    {w : Fl r} (h : (k, w) ∈ cIntersect g ca pts) {u : α} (hu : 0 ≤ u) (herr : ∀ x, |r.rnd x - x| ≤ u * |x|) :
    ∃ n, (pts.map (cellOfPt g)).count k = n + 1 ∧
      |w.val - ((n : α) + 1) * (areafactor g.csz ca).val| ≤
        ((1 + u) ^ n - 1) * (((n : α) + 1) * (areafactor g.csz ca).val) := by
  have h0 := (cIntersect_rounded_weight_ge g ca pts h).1
  obtain ⟨n, hn, rfl⟩ := cIntersect_weight_repAdd g ca pts h
  exact ⟨n, hn, repAdd_val_error _ h0 hu herr n⟩

/-- locating centres in rounded arithmetic is monotone (cell size > 0): of two accepted points, the one further
right is never placed in a column further left, the one further up never in a row further down — whatever the
rounding of `(x - xll) / csz`, a centre can only be moved across an edge it (nearly) sits on, never past another
centre's cell -/
theorem cellOfPt_rounded_mono (g : Geom (Fl r)) (hcsz : 0 < g.csz.val) {x x' y y' : Fl r}
    (hx : x.val ≤ x'.val) (hy : y.val ≤ y'.val)
    (h : 0 ≤ cellOfPt g (some (x, y))) (h' : 0 ≤ cellOfPt g (some (x', y'))) :
    colOf g.ncols (cellOfPt g (some (x, y))) ≤ colOf g.ncols (cellOfPt g (some (x', y'))) ∧
    rowOf g.ncols (cellOfPt g (some (x', y'))) ≤ rowOf g.ncols (cellOfPt g (some (x, y))) :=
  coord2cell_rounded_mono_aux g hcsz hx hy h h'

/-- Voronoi in rounded arithmetic, any distance function (the computed one): as long as the number of cells is
representable (`<= N`), the counts are exact integers and weight `j` is the *rounded* fraction
`rnd (count_j / ncells)` of the cells whose computed distances credit point `j` -/
theorem cVoronoi_rounded_weight (dist : Fl r → Fl r → Fl r) (g : Geom (Fl r)) {cells : List Int}
    {pts : List (Fl r × Fl r)} (hcells : cells ≠ []) (hN : cells.length ≤ r.N) {ws : List (Option (Fl r))}
    (h : cVoronoi dist g cells pts = .ok ws) :
    ws.length = pts.length ∧ ∀ j, j < pts.length → ∃ x : Fl r, ws[j]? = some (some x) ∧
      x.val = r.rnd (((cells.countP fun c => decide (nearest (dists dist g pts c) = j) : ℕ) : α) / (cells.length : α)) := by
  have hp : ¬ pts.length < 1 := by
    intro hp; unfold cVoronoi at h; rw [if_pos hp] at h; cases h
  have hg : ¬ (g.nrows < 1 ∨ g.ncols < 1) := by
    intro hg; unfold cVoronoi at h; rw [if_neg hp, if_pos hg] at h; cases h
  have hc : ¬ cells.length = 0 := by rw [List.length_eq_zero_iff]; exact hcells
  unfold cVoronoi at h
  rw [if_neg hp, if_neg hg, if_neg hc] at h
  injection h with h
  subst h
  refine ⟨by simp [counts, foldl_incr_length'], ?_⟩
  intro j hj
  have hv := foldl_incr_val (r := r) (fun c => nearest (dists dist g pts c)) cells (pts.map fun _ => (0 : Fl r)) j
    (by
      intro w hw
      obtain ⟨p, -, rfl⟩ := List.mem_map.1 hw
      exact ⟨0, by simp, by simpa using hN⟩)
  have hlen : (counts dist g cells pts).length = pts.length := by simp [counts, foldl_incr_length']
  obtain ⟨cj, hcj⟩ : ∃ cj, (counts dist g cells pts)[j]? = some cj :=
    ⟨(counts dist g cells pts)[j]'(by omega), List.getElem?_eq_getElem (by omega)⟩
  have hcjv : cj.val = ((cells.countP fun c => decide (nearest (dists dist g pts c) = j) : ℕ) : α) := by
    unfold counts at hcj
    rw [hcj] at hv
    simp only [List.getElem?_map, List.getElem?_eq_getElem hj, Option.map_some, Fl.zero_val, zero_add,
      Option.some.injEq] at hv
    exact hv
  refine ⟨cj / C07.Trunc.ofInt (cells.length : Int), ?_, ?_⟩
  · rw [List.getElem?_map, hcj]; rfl
  · rw [Fl.div_val, hcjv, Fl.ofInt_natCast_val _ hN]

/-- every Voronoi weight computed in rounded arithmetic lies in `[0, 1]` -/
theorem cVoronoi_rounded_range (dist : Fl r → Fl r → Fl r) (g : Geom (Fl r)) {cells : List Int}
    {pts : List (Fl r × Fl r)} (hcells : cells ≠ []) (hN : cells.length ≤ r.N) {ws : List (Option (Fl r))}
    (h : cVoronoi dist g cells pts = .ok ws) : ∀ w ∈ ws, ∃ x : Fl r, w = some x ∧ 0 ≤ x.val ∧ x.val ≤ 1 := by
  obtain ⟨hlen, hw⟩ := cVoronoi_rounded_weight dist g hcells hN h
  intro w hwm
  obtain ⟨j, hj, rfl⟩ := List.getElem_of_mem hwm
  obtain ⟨x, hx, hxv⟩ := hw j (by omega)
  rw [List.getElem?_eq_getElem hj] at hx
  injection hx with hx
  have hn : (0 : α) < (cells.length : α) := by
    have : 0 < cells.length := List.length_pos_iff.2 hcells
    exact_mod_cast this
  have hcnt : ((cells.countP fun c => decide (nearest (dists dist g pts c) = j) : ℕ) : α) ≤ (cells.length : α) := by
    exact_mod_cast List.countP_le_length
  refine ⟨x, hx, ?_, ?_⟩
  · rw [hxv]; exact Fl.rnd_nonneg (div_nonneg (Nat.cast_nonneg _) hn.le)
  · rw [hxv]
    have := r.mono ((div_le_one hn).2 hcnt)
    rwa [Fl.rnd_one] at this

/-- the Voronoi weights computed in rounded arithmetic sum (exactly, as field elements) to 1 within one relative
rounding error `u` — the tolerance of the oracle (`1e-12`) is far above `2^-53` -/
theorem cVoronoi_rounded_sum (dist : Fl r → Fl r → Fl r) (g : Geom (Fl r)) {cells : List Int}
    {pts : List (Fl r × Fl r)} (hcells : cells ≠ []) (hN : cells.length ≤ r.N) {ws : List (Option (Fl r))}
    (h : cVoronoi dist g cells pts = .ok ws) {u : α} (herr : ∀ x, |r.rnd x - x| ≤ u * |x|) :
    |(ws.map fun w => ((w.map Fl.val).getD 0 : α)).sum - 1| ≤ u := by
  obtain ⟨hlen, hw⟩ := cVoronoi_rounded_weight dist g hcells hN h
  have hp : pts ≠ [] := by
    rintro rfl
    unfold cVoronoi at h
    simp at h
  set cnt : ℕ → ℕ := fun j => cells.countP fun c => decide (nearest (dists dist g pts c) = j) with hcnt
  have hn : (cells.length : α) ≠ 0 := by
    have : cells.length ≠ 0 := fun e => hcells (List.length_eq_zero_iff.1 e)
    exact_mod_cast this
  have hlist : (ws.map fun w => ((w.map Fl.val).getD 0 : α)) =
      ((List.range pts.length).map fun j => ((cnt j : ℕ) : α) / (cells.length : α)).map r.rnd := by
    apply List.ext_getElem?
    intro j
    by_cases hj : j < pts.length
    · obtain ⟨x, hx, hxv⟩ := hw j hj
      simp only [List.getElem?_map, hx, Option.map_some, Option.getD_some, hxv,
        List.getElem?_range hj]
      rfl
    · rw [List.getElem?_eq_none (by simp; omega), List.getElem?_eq_none (by simp; omega)]
  have hsum : ((List.range pts.length).map fun j => ((cnt j : ℕ) : α) / (cells.length : α)).sum = 1 := by
    have h1 := sum_countP_eq_length (fun c => nearest (dists dist g pts c)) cells pts.length (by
      intro c _
      have hne : dists dist g pts c ≠ [] := by unfold dists; simpa using hp
      have := nearest_lt_length hne
      simpa [dists] using this)
    have h2 : ((List.range pts.length).map fun j => ((cnt j : ℕ) : α) / (cells.length : α)) =
        ((List.range pts.length).map fun j => ((cnt j : ℕ) : α)).map fun x => x / (cells.length : α) := by
      rw [List.map_map]; rfl
    rw [h2, sum_map_div]
    have hcast : ∀ l : List ℕ, (l.map fun n => ((n : ℕ) : α)).sum = ((l.sum : ℕ) : α) := by
      intro l
      induction l with
      | nil => simp
      | cons x t ih => simp only [List.map_cons, List.sum_cons, ih, Nat.cast_add]
    have h3 : ((List.range pts.length).map fun j => ((cnt j : ℕ) : α)).sum =
        (((List.range pts.length).map cnt).sum : ℕ) := by
      rw [← hcast, List.map_map]; rfl
    rw [h3]
    have h4 : ((List.range pts.length).map cnt).sum = cells.length := h1
    rw [h4, div_self hn]
  rw [hlist]
  have := abs_sum_rnd_sub_le (r := r) herr
    ((List.range pts.length).map fun j => ((cnt j : ℕ) : α) / (cells.length : α)) (by
      intro x hx
      obtain ⟨j, -, rfl⟩ := List.mem_map.1 hx
      exact div_nonneg (Nat.cast_nonneg _) (Nat.cast_nonneg _))
  rw [hsum, mul_one] at this
  exact this

/-- the credited point, in rounded arithmetic: the one whose *computed* distance is smallest, the lowest index among
equal computed distances (`nearest_is_closest_lowest_index` needs only the order of the distances) -/
theorem nearest_rounded_is_first_argmin (ds : List (Fl r)) (hne : ds ≠ []) (j : Nat) :
    nearest ds = j ↔ ∃ m, ds[j]? = some m ∧ (∀ (k : Nat) (x : Fl r), ds[k]? = some x → m.val ≤ x.val) ∧
      (∀ (k : Nat) (x : Fl r), k < j → ds[k]? = some x → m.val < x.val) :=
  nearest_eq_iff hne j

end Rounded

/-! ### G. histories: calls on live objects, between edits, clones and combinations (any arithmetic) -/

section Histories
variable {α : Type} [Add α] [Sub α] [Mul α] [Div α] [OfNat α 0] [OfNat α 1] [LT α] [DecidableLT α] [C07.Trunc α]
variable (dist : α → α → α)

/-- a call (`intersect`, `voronoi`) and an in-place edit of anything a call returned change no object -/
theorem hstep_call_keeps_objects (w : World α) (op : Op α) (h : op.isMutator = false) : (hstep dist w op).1 = w := by
  cases op <;> simp [Op.isMutator] at h <;> simp only [hstep]
  · split <;> rfl
  · split <;> rfl

/-- a rejected operation changes no object -/
theorem hstep_rejected_keeps_objects (w : World α) (op : Op α) (e : HErr)
    (h : (hstep dist w op).2 = .rejected e) : (hstep dist w op).1 = w := by
  cases op <;> simp only [hstep, combine] at h ⊢
  all_goals (repeat' split) <;> first | rfl | (exfalso; simp_all)

/-- the objects a history ends with depend on its mutators only: calls can be removed from, or inserted into, a
history without changing what later calls see -/
theorem hfinal_eq_filter (w : World α) (ops : List (Op α)) :
    hfinal dist w ops = hfinal dist w (ops.filter Op.isMutator) := by
  unfold hfinal
  induction ops generalizing w with
  | nil => rfl
  | cons op t ih =>
    rw [List.foldl_cons, List.filter_cons]
    cases hm : op.isMutator with
    | true => simp only [if_true, List.foldl_cons]; exact ih _
    | false =>
      simp only [Bool.false_eq_true, if_false]
      rw [hstep_call_keeps_objects dist w op hm]
      exact ih w

theorem hrun_length (w : World α) (ops : List (Op α)) : (hrun dist w ops).length = ops.length := by
  induction ops generalizing w with
  | nil => rfl
  | cons op t ih => simp [hrun, ih]

/-- the answer of an operation anywhere in a history is the answer of that operation on the objects left by the
*mutators* before it: no answer depends on which calls were made earlier, how often, or what was done to their results -/
theorem hrun_reply (w : World α) (pre post : List (Op α)) (op : Op α) :
    (hrun dist w (pre ++ op :: post))[pre.length]? =
      some (hstep dist (hfinal dist w (pre.filter Op.isMutator)) op).2 := by
  rw [← hfinal_eq_filter]
  unfold hfinal
  induction pre generalizing w with
  | nil => simp [hrun]
  | cons p t ih =>
    simp only [List.cons_append, hrun, List.length_cons, List.getElem?_cons_succ, List.foldl_cons]
    exact ih _

/-- what `intersect` answers in a history is `Catchment.intersect` of the model on the catchment and the grid as
they are at that moment; every theorem of parts A-D applies to it -/
theorem history_intersect_reply (w : World α) (pre post : List (Op α)) (i j : Nat) (filled : Bool)
    {c : Catchment α} {g : Geom α}
    (hc : (hfinal dist w (pre.filter Op.isMutator)).cats[i]? = some c)
    (hg : (hfinal dist w (pre.filter Op.isMutator)).grids[j]? = some g) :
    (hrun dist w (pre ++ Op.intersect i j filled :: post))[pre.length]? = some (.isect (c.intersect g filled)) := by
  rw [hrun_reply]
  simp only [hstep, hc, hg]

/-- and what `voronoi` answers is `voronoiPy` on the unfilled area, the flow-direction grid and the points as they
are at that moment -/
theorem history_voronoi_reply (w : World α) (pre post : List (Op α)) (i : Nat) {c : Catchment α}
    (hc : (hfinal dist w (pre.filter Op.isMutator)).cats[i]? = some c) :
    (hrun dist w (pre ++ Op.voronoi i :: post))[pre.length]? =
      some (.vor (voronoiPy dist c.fine c.area
        (.rows 2 ((hfinal dist w (pre.filter Op.isMutator)).pts.map fun p => [p.1, p.2])))) := by
  rw [hrun_reply]
  simp only [hstep, hc]

/-- objects are independent: an operation changes at most the object it names (`setFlowdir i`, `setCells i`:
catchment `i`; `setGrid j`: grid `j`); clones and combinations only append. A clone is not affected by later
edits of the original, nor the original by edits of the clone -/
theorem hstep_other_objects (w : World α) (op : Op α) :
    (∀ k, k < w.cats.length → (∀ g, op ≠ .setFlowdir k g) → (∀ a f, op ≠ .setCells k a f) →
      (hstep dist w op).1.cats[k]? = w.cats[k]?) ∧
    (∀ k, k < w.grids.length → (∀ g, op ≠ .setGrid k g) → (hstep dist w op).1.grids[k]? = w.grids[k]?) := by
  refine ⟨?_, ?_⟩
  · intro k hk h1 h2
    cases op <;> simp only [hstep, combine]
    case setGrid j g => split <;> rfl
    case setFlowdir i g =>
      split
      · have : k ≠ i := by rintro rfl; exact h1 g rfl
        exact setAt_getElem?_ne _ _ _ _ this
      · rfl
    case setCells i a f =>
      split
      · have : k ≠ i := by rintro rfl; exact h2 a f rfl
        exact setAt_getElem?_ne _ _ _ _ this
      · rfl
    case cloneCat i =>
      split
      · exact List.getElem?_append_left hk
      · rfl
    case cloneGrid j => split <;> rfl
    case addCat i k' =>
      split
      · split
        · exact List.getElem?_append_left hk
        · rfl
      · rfl
    case subCat i k' =>
      split
      · split
        · exact List.getElem?_append_left hk
        · rfl
      · rfl
    case intersect i j f => split <;> rfl
    case voronoi i => split <;> rfl
  · intro k hk h1
    cases op <;> simp only [hstep, combine]
    case setGrid j g =>
      split
      · have : k ≠ j := by rintro rfl; exact h1 g rfl
        exact setAt_getElem?_ne _ _ _ _ this
      · rfl
    case setFlowdir i g => split <;> rfl
    case setCells i a f => split <;> rfl
    case cloneCat i => split <;> rfl
    case cloneGrid j =>
      split
      · exact List.getElem?_append_left hk
      · rfl
    case addCat i k' =>
      split
      · split <;> rfl
      · rfl
    case subCat i k' =>
      split
      · split <;> rfl
      · rfl
    case intersect i j f => split <;> rfl
    case voronoi i => split <;> rfl

end Histories

section HistoriesExact
variable {α : Type} [Field α] [LinearOrder α] [IsStrictOrderedRing α] [FloorRing α] (dist : α → α → α)

/-- the property over arbitrary histories: whatever was done before (edits, re-assignments, clones, combinations,
rejected operations, other calls and edits of their results), an `intersect` that succeeds lists every grid cell
once and its weights times the grid-cell area sum to the area of the catchment cells — of the catchment as it is
at that moment — whose centre lies in the grid as it is at that moment -/
theorem history_intersect_conserves_area (w : World α) (pre post : List (Op α)) (i j : Nat) (filled : Bool)
    {c : Catchment α} {g : Geom α} {cells : List Int} {a : AreaGrid α}
    (hc : (hfinal dist w (pre.filter Op.isMutator)).cats[i]? = some c)
    (hg : (hfinal dist w (pre.filter Op.isMutator)).grids[j]? = some g)
    (hsel : (if filled then c.filled else c.area) = some cells) (hcsz : 0 < g.csz)
    (hr : (hrun dist w (pre ++ Op.intersect i j filled :: post))[pre.length]? = some (.isect (.ok a))) :
    a.keys.Nodup ∧
    (a.weights.map fun x => x * (g.csz * g.csz)).sum =
      ((cells.countP fun k => validCell c.fine.nrows c.fine.ncols k &&
        decide (InExtent g (getcoord c.fine k).1 (getcoord c.fine k).2) : Nat) : α) * (c.fine.csz * c.fine.csz) := by
  rw [history_intersect_reply dist w pre post i j filled hc hg, catchment_intersect_selects c g filled hsel] at hr
  injection hr with hr
  injection hr with hr
  exact ⟨intersect_result_nodup hr, intersect_result_area hcsz hr⟩

/-- `Catchment.__add__`: when both catchments have an area, the area of the sum holds a cell exactly when one of
the two *filled* areas does, each cell once, in increasing order; flow-direction grid and filled area are those of
the left operand -/
theorem catchment_add_area {a b c : Catchment α} {fa fb : List Int} (ha : a.area.isSome) (hb : b.area.isSome)
    (hfa : a.filled = some fa) (hfb : b.filled = some fb) (h : Catchment.add a b = .ok c) :
    c.fine = a.fine ∧ c.filled = a.filled ∧
    ∃ l, c.area = some l ∧ l.Pairwise (· < ·) ∧ ∀ x, x ∈ l ↔ x ∈ fa ∨ x ∈ fb := by
  unfold Catchment.add at h
  cases haa : a.area with
  | none => rw [haa] at ha; cases ha
  | some la =>
    cases hbb : b.area with
    | none => rw [hbb] at hb; cases hb
    | some lb =>
      rw [haa, hbb, hfa, hfb] at h
      simp only [] at h
      injection h with h
      subst h
      exact ⟨rfl, hfa.symm, _, rfl, sortDedup_sorted _, fun x => mem_union1d x fa fb⟩

/-- `Catchment.__sub__`: the area of the difference holds the cells of the left filled area that are not in the
right one, each once, in increasing order -/
theorem catchment_sub_area {a b c : Catchment α} {fa fb : List Int}
    (hfa : a.filled = some fa) (hfb : b.filled = some fb) (h : Catchment.sub a b = .ok c) :
    c.fine = a.fine ∧ c.filled = a.filled ∧
    ∃ l, c.area = some l ∧ l.Nodup ∧ ∀ x, x ∈ l ↔ x ∈ fa ∧ x ∉ fb := by
  unfold Catchment.sub at h
  rw [hfa, hfb] at h
  simp only [] at h
  injection h with h
  subst h
  exact ⟨rfl, hfa.symm, _, rfl, setdiff1d_nodup _ _, fun x => mem_setdiff1d x fa fb⟩

end HistoriesExact

/-! ### the hypothesis `0 < cell size` is needed and is not guarded by the code -/

attribute [local instance 2000] C07.fieldTrunc

/-- `Grid.cellsize` is a plain attribute: nothing rejects a negative value. With `csz = -1` the kernel accepts the
point `(-1/2, -1/2)` into cell 0 of a one-cell grid whose footprint (as `[left, left + csz)`) and extent are empty:
the characterisations `cellOfPt_nonneg_iff` / `cellOfPt_eq_iff` fail without `0 < csz` (the harness probes the real
code on grids with negative and zero cell size: stream `degenerate`) -/
theorem cellOfPt_iff_needs_pos_csz :
    ∃ g : Geom ℚ, g.csz < 0 ∧ 0 < g.ncols ∧ validCell g.nrows g.ncols 0 = true ∧
      cellOfPt g (some (-1 / 2, -1 / 2)) = 0 ∧ ¬ InFootprint g 0 (-1 / 2) (-1 / 2) ∧ ¬ InExtent g (-1 / 2) (-1 / 2) := by
  refine ⟨⟨1, 1, 0, 0, -1⟩, by norm_num, by decide, by decide, ?_, ?_, ?_⟩
  · show coord2cell (⟨1, 1, 0, 0, -1⟩ : Geom ℚ) (-1 / 2) (-1 / 2) = 0
    unfold coord2cell
    simp only [floorToInt_eq]
    have : ⌊((-1 / 2 : ℚ) - 0) / -1⌋ = 0 := by
      rw [Int.floor_eq_iff]; norm_num
    rw [this]
    decide
  · rintro ⟨h1, -⟩
    have hc0 : colOf 1 0 = 0 := by decide
    unfold cellLeft at h1
    simp only [hc0] at h1
    norm_num at h1
  · rintro ⟨h1, -⟩
    norm_num at h1

/-! ### the hypotheses are satisfiable: a 6×6 catchment grid against a 2×3 grid of cell size 2 shifted by (1, 1) -/

/- at `ℚ` the theorems' `Trunc` instance (cast, floor of the ordered field) is preferred over the driver's `truncRat`
(attribute set above) -/

def exCoarse : Geom ℚ := ⟨2, 3, 1, 1, 2⟩
def exFine : Geom ℚ := ⟨6, 6, 0, 0, 1⟩

example : (0 : ℚ) < exCoarse.csz ∧ 0 < exCoarse.ncols ∧
    ∀ c ∈ [27, 28, 21, 0], validCell exFine.nrows exFine.ncols c = true := by
  refine ⟨by norm_num [exCoarse], by decide, by decide⟩

/-- the centre of catchment cell 27 (row 4, column 3) is `(7/2, 3/2)`, inside the extent `[1,7) × [1,5)` -/
example : getcoord exFine 27 = (7 / 2, 3 / 2) ∧ InExtent exCoarse (7 / 2) (3 / 2) := by
  have h1 : colOf exFine.ncols 27 = 3 := by decide
  have h2 : rowOf exFine.ncols 27 = 4 := by decide
  constructor
  · unfold getcoord
    rw [h1, h2]
    norm_num [exFine, ofInt_eq]
  · unfold InExtent
    norm_num [exCoarse]

/-- the centre of catchment cell 0 (top-left) is `(1/2, 11/2)`, outside it -/
example : getcoord exFine 0 = (1 / 2, 11 / 2) ∧ ¬ InExtent exCoarse (1 / 2) (11 / 2) := by
  have h1 : colOf exFine.ncols 0 = 0 := by decide
  have h2 : rowOf exFine.ncols 0 = 0 := by decide
  constructor
  · unfold getcoord
    rw [h1, h2]
    norm_num [exFine, ofInt_eq]
  · unfold InExtent
    norm_num [exCoarse]

/-- so `intersect` succeeds on a cell list holding cell 27 -/
example : ∃ a, intersect exCoarse exFine [27, 28, 21, 0] = .ok a := by
  cases h : intersect exCoarse exFine [27, 28, 21, 0] with
  | ok a => exact ⟨a, rfl⟩
  | error e =>
    exfalso
    have hall : ∀ c ∈ [27, 28, 21, 0], cellOfPt exCoarse (cell2coord exFine c) < 0 := by
      rcases (intersect_error_iff _ _ _ _).1 h with ⟨-, hn⟩ | ⟨-, -, hn⟩
      · simp [exCoarse] at hn
      · exact hn
    have hneg := hall 27 (by simp)
    have hv : validCell exFine.nrows exFine.ncols 27 = true := by decide
    have h1 : colOf exFine.ncols 27 = 3 := by decide
    have h2 : rowOf exFine.ncols 27 = 4 := by decide
    have hin : InExtent exCoarse (getcoord exFine 27).1 (getcoord exFine 27).2 := by
      unfold getcoord InExtent
      rw [h1, h2]
      norm_num [exFine, exCoarse, ofInt_eq]
    have := (cellOfPt_nonneg_iff (g := exCoarse) (by norm_num [exCoarse]) _ _).2 hin
    unfold cell2coord at hneg
    rw [if_pos hv] at hneg
    have e : (some (getcoord exFine 27) : Option (ℚ × ℚ)) = some ((getcoord exFine 27).1, (getcoord exFine 27).2) := rfl
    rw [e] at hneg
    omega

/-- the hypotheses `(k, w) ∈ a.keys.zip a.weights` / `k ∈ a.keys` are met: a successful intersection lists at
least one cell, with its weight -/
example {a : AreaGrid ℚ} (h : intersect exCoarse exFine [27, 28, 21, 0] = .ok a) :
    ∃ k w, (k, w) ∈ a.keys.zip a.weights := by
  obtain ⟨hz, hl, hne⟩ := intersect_lists h
  cases hk : a.keys with
  | nil => exact absurd hk hne
  | cons k t =>
    cases hw : a.weights with
    | nil => rw [hk, hw] at hl; simp at hl
    | cons w t' => exact ⟨k, w, by simp⟩

/-- a delineated catchment with a hole (cell 14 of the ring 7..21): `filled` selects a different list -/
def exCa : Catchment ℚ := ⟨exFine, some [7, 8, 9, 13, 15, 19, 20, 21], some [7, 8, 9, 13, 14, 15, 19, 20, 21]⟩

example : (if true then exCa.filled else exCa.area) = some [7, 8, 9, 13, 14, 15, 19, 20, 21] ∧
    (if false then exCa.filled else exCa.area) = some [7, 8, 9, 13, 15, 19, 20, 21] := ⟨rfl, rfl⟩

/-- shapes of the points argument after `np.atleast_2d`: `[x, y]` and an `(n, 2)` array pass, a scalar, a flat
triple and an `(n, 3)` array do not; the grid guards of the Voronoi theorems hold for the example grid -/
example : (PtsArg.flat [1, 2] : PtsArg ℚ).shape2d.1 = 2 ∧ (PtsArg.rows 2 [[1, 2], [3, 4]] : PtsArg ℚ).shape2d.1 = 2 ∧
    (PtsArg.scalar 3 : PtsArg ℚ).shape2d.1 ≠ 2 ∧ (PtsArg.flat [1, 2, 3] : PtsArg ℚ).shape2d.1 ≠ 2 ∧
    (PtsArg.rows 3 [[1, 2, 3]] : PtsArg ℚ).shape2d.1 ≠ 2 ∧ 0 < exFine.nrows ∧ 0 < exFine.ncols := by
  refine ⟨rfl, rfl, by decide, by decide, by decide, by decide, by decide⟩

/-- two equidistant points: the first one wins; a strictly closer later point wins -/
example : nearest ([1, 1] : List ℚ) = 0 ∧ nearest ([2, 1, 1] : List ℚ) = 1 := by
  constructor <;> simp [nearest, nearestLoop]

example : ([(0, 0), (5, 5)] : List (ℚ × ℚ)) ≠ [] ∧ ([27, 28] : List Int) ≠ [] := by simp

/-- `repAdd`: a cell met three times holds `(af + af) + af` -/
example : repAdd (1 / 4 : ℚ) 2 = 3 / 4 := by norm_num [repAdd]

/-- rounding operators exist: the identity (exact arithmetic, relative error `u = 0`, any `N`) … -/
def exRndId : Rounding ℚ where
  rnd := id
  mono := monotone_id
  idem := fun _ => rfl
  N := 2 ^ 53
  nat_exact := fun _ _ => rfl
  one_le_N := by norm_num

example : ∀ x : ℚ, |exRndId.rnd x - x| ≤ 0 * |x| := by intro x; simp [exRndId]

/-- … and a proper one: rounding down to multiples of `1/8` (monotone, idempotent, exact on every natural) -/
def exRndGrid : Rounding ℚ where
  rnd := fun x => (⌊x * 8⌋ : ℚ) / 8
  mono := by
    intro a b hab
    have : ⌊a * 8⌋ ≤ ⌊b * 8⌋ := Int.floor_le_floor (by linarith)
    have h8 : (0 : ℚ) < 8 := by norm_num
    exact div_le_div_of_nonneg_right (by exact_mod_cast this) h8.le
  idem := by
    intro x
    have : ((⌊x * 8⌋ : ℚ) / 8) * 8 = (⌊x * 8⌋ : ℚ) := by field_simp
    simp only [this, Int.floor_intCast]
  N := 1000
  nat_exact := by
    intro n _
    have : ((n : ℚ) * 8) = ((n * 8 : ℤ) : ℚ) := by push_cast; ring
    simp only [this, Int.floor_intCast]
    push_cast; field_simp
  one_le_N := by norm_num

/-- it does round: `0.3 -> 0.25`; a representable area factor and a cell list short enough for exact counts -/
example : exRndGrid.rnd (3 / 10) = 1 / 4 := by
  show ((⌊(3 / 10 : ℚ) * 8⌋ : ℚ) / 8) = 1 / 4
  have : ⌊(3 / 10 : ℚ) * 8⌋ = 2 := by rw [Int.floor_eq_iff]; norm_num
  rw [this]; norm_num

example : ([27, 28] : List Int).length ≤ exRndGrid.N := by decide

/-- a geometry in that rounded arithmetic with cell size > 0 and a point it accepts (hypotheses of part F) -/
def exGeomFl : Geom (Fl exRndGrid) := ⟨1, 1, Fl.ofField 0, Fl.ofField 0, Fl.ofField 1⟩

example : (0 : ℚ) < exGeomFl.csz.val ∧
    0 ≤ cellOfPt exGeomFl (some ((Fl.ofField (1 / 2) : Fl exRndGrid), (Fl.ofField (1 / 2) : Fl exRndGrid))) := by
  have e1 : exRndGrid.rnd 1 = 1 := Fl.rnd_one
  have e0 : exRndGrid.rnd 0 = 0 := Fl.rnd_zero
  have eh : exRndGrid.rnd (1 / 2) = 1 / 2 := by
    show ((⌊(1 / 2 : ℚ) * 8⌋ : ℚ) / 8) = 1 / 2
    have : ⌊(1 / 2 : ℚ) * 8⌋ = 4 := by rw [Int.floor_eq_iff]; norm_num
    rw [this]; norm_num
  have hv : ((((Fl.ofField (1 / 2) : Fl exRndGrid) - (Fl.ofField 0 : Fl exRndGrid)) / (Fl.ofField 1 : Fl exRndGrid)).val) = 1 / 2 := by
    simp only [Fl.div_val, Fl.sub_val, Fl.ofField, e0, e1, eh, sub_zero, div_one]
  have hf : (C07.Trunc.floorToInt (((Fl.ofField (1 / 2) : Fl exRndGrid) - (Fl.ofField 0 : Fl exRndGrid)) / (Fl.ofField 1 : Fl exRndGrid)) : Int) = 0 := by
    show ⌊_⌋ = 0
    rw [hv, Int.floor_eq_iff]; norm_num
  refine ⟨?_, ?_⟩
  · show (0 : ℚ) < exRndGrid.rnd 1
    rw [e1]; norm_num
  · show 0 ≤ coord2cell exGeomFl _ _
    unfold coord2cell exGeomFl
    simp only [hf]
    decide

/-- a history: call, clone, re-assign the grid, edit what was returned, a rejected operation, call on the clone -/
def exWorld : World ℚ := ⟨[exCa], [exCoarse], [(0, 0), (5, 5)]⟩
def exPre : List (Op ℚ) :=
  [.intersect 0 0 true, .cloneCat 0, .setGrid 0 ⟨3, 3, 0, 0, 2⟩, .editReturned, .setCells 7 none none, .voronoi 0,
   .setCells 0 none none]

example : (hfinal (fun dx dy : ℚ => dx * dx + dy * dy) exWorld (exPre.filter Op.isMutator)).cats[1]? = some exCa ∧
    (hfinal (fun dx dy : ℚ => dx * dx + dy * dy) exWorld (exPre.filter Op.isMutator)).cats[0]? =
      some { exCa with area := none, filled := none } ∧
    (hfinal (fun dx dy : ℚ => dx * dx + dy * dy) exWorld (exPre.filter Op.isMutator)).grids[0]? =
      some ⟨3, 3, 0, 0, 2⟩ ∧
    (if true then exCa.filled else exCa.area) = some [7, 8, 9, 13, 14, 15, 19, 20, 21] ∧
    (0 : ℚ) < (⟨3, 3, 0, 0, 2⟩ : Geom ℚ).csz := by
  refine ⟨rfl, rfl, rfl, rfl, by norm_num⟩

/-- the rejected operation of that history is rejected, and the call made before the clone does not matter -/
example : (hstep (fun dx dy : ℚ => dx * dx + dy * dy) exWorld (.setCells 7 none none)).2 = .rejected .noSuchObject ∧
    Op.isMutator (.intersect 0 0 true : Op ℚ) = false ∧ Op.isMutator (.cloneCat 0 : Op ℚ) = true :=
  ⟨rfl, rfl, rfl⟩

/-- `Catchment.__add__` / `__sub__` on two delineated catchments -/
example : (Catchment.add exCa ({ exCa with filled := some [14, 2] } : Catchment ℚ)).toOption.map (·.area) =
      some (some [2, 7, 8, 9, 13, 14, 15, 19, 20, 21]) ∧
    (Catchment.sub exCa ({ exCa with filled := some [14, 2, 7] } : Catchment ℚ)).toOption.map (·.area) =
      some (some [8, 9, 13, 15, 19, 20, 21]) := by
  constructor <;> decide

end HydroVerif.C16
