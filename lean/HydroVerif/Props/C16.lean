/-
C16 — property theorems (only). Model: `HydroVerif/Model/C16.lean` (+ grid geometry of `Model/C07.lean`);
helper lemmas: `Lemmas/C16.lean`, `Lemmas/C07Grid.lean`, `Lemmas/C07Coord.lean`.

Part A holds for every numeric instance of the model (also the `Float` one the driver runs): it only uses the
integer structure of the loops. Parts B–D are over any ordered field with a floor function (`ℚ`, `ℝ`): exact
arithmetic; IEEE rounding is covered by the correspondence, not by these theorems. Every statement holds for all
grid shapes, all cell lists (any length, any order, repeats allowed), all point lists.
-/
import HydroVerif.Lemmas.C16
import Mathlib.Data.Rat.Floor
import Mathlib.Data.List.Perm.Subperm

set_option linter.unusedSectionVars false

namespace HydroVerif.C16
open HydroVerif.C07

/-! ### A. the list of intersected cells (any arithmetic) -/

section Generic
variable {α : Type} [Add α] [Sub α] [Mul α] [Div α] [OfNat α 1] [C07.Trunc α]

/-- each grid cell appears once in `idxcells` -/
theorem cIntersect_keys_nodup (g : Geom α) (ca : α) (pts : List (Option (α × α))) :
    ((cIntersect g ca pts).map Prod.fst).Nodup := by
  rw [cIntersect_eq]
  exact nodup_keys_foldl_bump _ _ [] List.nodup_nil

/-- a cell is listed exactly when `c_coord2cell` maps some point to it (and it is not the `-1` flag) -/
theorem cIntersect_mem_keys_iff (g : Geom α) (ca : α) (pts : List (Option (α × α))) (k : Int) :
    k ∈ (cIntersect g ca pts).map Prod.fst ↔ 0 ≤ k ∧ ∃ p ∈ pts, cellOfPt g p = k := by
  rw [cIntersect_eq]
  have := mem_keys_foldl_bump (areafactor g.csz ca) (hits g pts) [] k
  unfold keys at this
  rw [this, mem_hits]
  simp

/-- every listed cell is a valid cell of the grid: the `cell2coord` / `cell2rowcol` calls that follow in
`Catchment.intersect` never see an invalid number -/
theorem cIntersect_keys_valid (g : Geom α) (ca : α) (pts : List (Option (α × α))) (k : Int)
    (hk : k ∈ (cIntersect g ca pts).map Prod.fst) : validCell g.nrows g.ncols k = true := by
  obtain ⟨h0, p, -, rfl⟩ := (cIntersect_mem_keys_iff g ca pts k).1 hk
  rcases cellOfPt_neg_one_or_valid g p with h | h
  · omega
  · exact h

/-- the kernel writes at most `nrows*ncols` entries: the buffers `Catchment.intersect` allocates are large enough -/
theorem cIntersect_length_le (g : Geom α) (ca : α) (pts : List (Option (α × α))) :
    (cIntersect g ca pts).length ≤ (g.nrows * g.ncols).toNat := by
  have hnd := cIntersect_keys_nodup g ca pts
  have hv := cIntersect_keys_valid g ca pts
  generalize (cIntersect g ca pts).map Prod.fst = ks at hnd hv
  have hlen : (cIntersect g ca pts).length = ((cIntersect g ca pts).map Prod.fst).length := by simp
  sorry

end Generic

end HydroVerif.C16
