/-
C16 — property theorems (only). Model: `HydroVerif/Model/C16.lean` (+ grid geometry of `Model/C07.lean`);
helper lemmas: `Lemmas/C16.lean`, `Lemmas/C07Grid.lean`, `Lemmas/C07Coord.lean`.

Part A holds for every numeric instance of the model (also the `Float` one the driver runs): it only uses the
integer structure of the loops. Parts B–D are over any ordered field with a floor function (`ℚ`, `ℝ`): exact
arithmetic; IEEE rounding is covered by the correspondence, not by these theorems. Every statement holds for all
grid shapes, all cell lists (any length, any order, repeats allowed), all point lists.
-/
import HydroVerif.Lemmas.C16
import Mathlib.Data.Rat.Floor
import Mathlib.Data.List.Perm.Subperm

set_option linter.unusedSectionVars false

namespace HydroVerif.C16
open HydroVerif.C07

/-! ### A. the list of intersected cells (any arithmetic) -/

section Generic
variable {α : Type} [Add α] [Sub α] [Mul α] [Div α] [OfNat α 1] [C07.Trunc α]

/-- each grid cell appears once in `idxcells` -/
theorem cIntersect_keys_nodup (g : Geom α) (ca : α) (pts : List (Option (α × α))) :
    ((cIntersect g ca pts).map Prod.fst).Nodup := by
  rw [cIntersect_eq]
  exact nodup_keys_foldl_bump _ _ [] List.nodup_nil

/-- a cell is listed exactly when `c_coord2cell` maps some point to it (and it is not the `-1` flag) -/
theorem cIntersect_mem_keys_iff (g : Geom α) (ca : α) (pts : List (Option (α × α))) (k : Int) :
    k ∈ (cIntersect g ca pts).map Prod.fst ↔ 0 ≤ k ∧ ∃ p ∈ pts, cellOfPt g p = k := by
  rw [cIntersect_eq]
  have := mem_keys_foldl_bump (areafactor g.csz ca) (hits g pts) [] k
  unfold keys at this
  rw [this, mem_hits]
  simp

/-- every listed cell is a valid cell of the grid: the `cell2coord` / `cell2rowcol` calls that follow in
`Catchment.intersect` never see an invalid number -/
theorem cIntersect_keys_valid (g : Geom α) (ca : α) (pts : List (Option (α × α))) (k : Int)
    (hk : k ∈ (cIntersect g ca pts).map Prod.fst) : validCell g.nrows g.ncols k = true := by
  obtain ⟨h0, p, -, rfl⟩ := (cIntersect_mem_keys_iff g ca pts k).1 hk
  rcases cellOfPt_neg_one_or_valid g p with h | h
  · omega
  · exact h

/-- the kernel writes at most `nrows*ncols` entries: the buffers `Catchment.intersect` allocates are large enough -/
theorem cIntersect_length_le (g : Geom α) (ca : α) (pts : List (Option (α × α))) :
    (cIntersect g ca pts).length ≤ (g.nrows * g.ncols).toNat := by
  have hnd := cIntersect_keys_nodup g ca pts
  have hv := cIntersect_keys_valid g ca pts
  have hlen : (cIntersect g ca pts).length = ((cIntersect g ca pts).map Prod.fst).length := by simp
  rw [hlen]
  generalize (cIntersect g ca pts).map Prod.fst = ks at hnd hv
  have hv' : ∀ k ∈ ks, 0 ≤ k ∧ k < g.nrows * g.ncols := fun k hk => validCell_iff.1 (hv k hk)
  generalize g.nrows * g.ncols = n at hv'
  have h1 : (ks.map Int.toNat).Nodup := by
    apply List.Nodup.map_on _ hnd
    intro a ha b hb hab
    have := hv' a ha
    have := hv' b hb
    omega
  have h2 : ks.map Int.toNat ⊆ List.range n.toNat := by
    intro x hx
    obtain ⟨k, hk, rfl⟩ := List.mem_map.1 hx
    have := hv' k hk
    rw [List.mem_range]
    omega
  have := (h1.subperm h2).length_le
  simpa using this

end Generic

/-! ### B. weights of `c_intersect` (exact arithmetic) -/

section Weights
variable {α : Type} [Field α] [LinearOrder α] [IsStrictOrderedRing α] [FloorRing α]

/-- the weight of a listed cell is the ratio of cell areas times the number of points `c_coord2cell` maps to it,
and that number is at least one -/
theorem cIntersect_weight {g : Geom α} {ca : α} {pts : List (Option (α × α))} {k : Int} {w : α}
    (h : (k, w) ∈ cIntersect g ca pts) :
    w = (ca / g.csz) ^ 2 * (((pts.map (cellOfPt g)).count k : Nat) : α) ∧
      1 ≤ (pts.map (cellOfPt g)).count k := by
  have hk : k ∈ (cIntersect g ca pts).map Prod.fst := List.mem_map.2 ⟨(k, w), h, rfl⟩
  obtain ⟨h0, p, hp, hpk⟩ := (cIntersect_mem_keys_iff g ca pts k).1 hk
  have hcount : (hits g pts).count k = (pts.map (cellOfPt g)).count k := by
    unfold hits
    rw [List.count_filter]
    simpa using h0
  refine ⟨?_, ?_⟩
  · have hw := wOf_of_mem (cIntersect_keys_nodup g ca pts) h
    rw [cIntersect_eq, wOf_foldl_bump, hcount] at hw
    rw [← hw]
    simp [wOf, areafactor, sq]
  · exact List.count_pos_iff.2 (List.mem_map.2 ⟨p, hp, hpk⟩)

/-- weights times grid-cell area sum to (number of accepted points) times the catchment-cell area -/
theorem cIntersect_total {g : Geom α} (hcsz : g.csz ≠ 0) (ca : α) (pts : List (Option (α × α))) :
    ((cIntersect g ca pts).map fun kw => kw.2 * (g.csz * g.csz)).sum =
      ((pts.countP fun p => decide (0 ≤ cellOfPt g p) : Nat) : α) * (ca * ca) := by
  have h1 : ((cIntersect g ca pts).map fun kw => kw.2 * (g.csz * g.csz)).sum =
      sumW (cIntersect g ca pts) * (g.csz * g.csz) := sum_map_snd_mul _ _
  have h2 : (hits g pts).length = pts.countP fun p => decide (0 ≤ cellOfPt g p) := by
    unfold hits
    rw [← List.countP_eq_length_filter, List.countP_map]
    rfl
  rw [h1, cIntersect_eq, sumW_foldl_bump, h2]
  simp only [sumW, List.map_nil, List.sum_nil, zero_add, areafactor]
  field_simp

/-- a point is accepted exactly when it lies in the extent of the grid (`xlim × ylim`, half-open) -/
theorem cellOfPt_nonneg_iff {g : Geom α} (hcsz : 0 < g.csz) (x y : α) :
    0 ≤ cellOfPt g (some (x, y)) ↔ InExtent g x y :=
  coord2cell_nonneg_iff hcsz

/-- and it is counted for the cell whose (half-open) footprint contains it, for no other -/
theorem cellOfPt_eq_iff {g : Geom α} (hcsz : 0 < g.csz) (hc : 0 < g.ncols) {c : Int}
    (hv : validCell g.nrows g.ncols c = true) (x y : α) :
    cellOfPt g (some (x, y)) = c ↔ InFootprint g c x y :=
  coord2cell_eq_iff hcsz hc hv

end Weights

end HydroVerif.C16
