/-
C16 — property theorems (only). Model: `HydroVerif/Model/C16.lean` (+ grid geometry of `Model/C07.lean`);
helper lemmas: `Lemmas/C16.lean`, `Lemmas/C07Grid.lean`, `Lemmas/C07Coord.lean`.

Part A holds for every numeric instance of the model (also the `Float` one the driver runs): it only uses the
integer structure of the loops. Parts B–D are over any ordered field with a floor function (`ℚ`, `ℝ`): exact
arithmetic; IEEE rounding is covered by the correspondence, not by these theorems. Every statement holds for all
grid shapes, all cell lists (any length, any order, repeats allowed), all point lists.
-/
import HydroVerif.Lemmas.C16
import Mathlib.Data.Rat.Floor
import Mathlib.Data.List.Perm.Subperm

set_option linter.unusedSectionVars false

namespace HydroVerif.C16
open HydroVerif.C07

/-! ### A. the list of intersected cells (any arithmetic) -/

section Generic
variable {α : Type} [Add α] [Sub α] [Mul α] [Div α] [OfNat α 1] [C07.Trunc α]

/-- each grid cell appears once in `idxcells` -/
theorem cIntersect_keys_nodup (g : Geom α) (ca : α) (pts : List (Option (α × α))) :
    ((cIntersect g ca pts).map Prod.fst).Nodup := by
  rw [cIntersect_eq]
  exact nodup_keys_foldl_bump _ _ [] List.nodup_nil

/-- a cell is listed exactly when `c_coord2cell` maps some point to it (and it is not the `-1` flag) -/
theorem cIntersect_mem_keys_iff (g : Geom α) (ca : α) (pts : List (Option (α × α))) (k : Int) :
    k ∈ (cIntersect g ca pts).map Prod.fst ↔ 0 ≤ k ∧ ∃ p ∈ pts, cellOfPt g p = k := by
  rw [cIntersect_eq]
  have := mem_keys_foldl_bump (areafactor g.csz ca) (hits g pts) [] k
  unfold keys at this
  rw [this, mem_hits]
  simp

/-- every listed cell is a valid cell of the grid: the `cell2coord` / `cell2rowcol` calls that follow in
`Catchment.intersect` never see an invalid number -/
theorem cIntersect_keys_valid (g : Geom α) (ca : α) (pts : List (Option (α × α))) (k : Int)
    (hk : k ∈ (cIntersect g ca pts).map Prod.fst) : validCell g.nrows g.ncols k = true := by
  obtain ⟨h0, p, -, rfl⟩ := (cIntersect_mem_keys_iff g ca pts k).1 hk
  rcases cellOfPt_neg_one_or_valid g p with h | h
  · omega
  · exact h

/-- the kernel writes at most `nrows*ncols` entries: the buffers `Catchment.intersect` allocates are large enough -/
theorem cIntersect_length_le (g : Geom α) (ca : α) (pts : List (Option (α × α))) :
    (cIntersect g ca pts).length ≤ (g.nrows * g.ncols).toNat := by
  have hnd := cIntersect_keys_nodup g ca pts
  have hv := cIntersect_keys_valid g ca pts
  have hlen : (cIntersect g ca pts).length = ((cIntersect g ca pts).map Prod.fst).length := by simp
  rw [hlen]
  generalize (cIntersect g ca pts).map Prod.fst = ks at hnd hv
  have hv' : ∀ k ∈ ks, 0 ≤ k ∧ k < g.nrows * g.ncols := fun k hk => validCell_iff.1 (hv k hk)
  generalize g.nrows * g.ncols = n at hv'
  have h1 : (ks.map Int.toNat).Nodup := by
    apply List.Nodup.map_on _ hnd
    intro a ha b hb hab
    have := hv' a ha
    have := hv' b hb
    omega
  have h2 : ks.map Int.toNat ⊆ List.range n.toNat := by
    intro x hx
    obtain ⟨k, hk, rfl⟩ := List.mem_map.1 hx
    have := hv' k hk
    rw [List.mem_range]
    omega
  have := (h1.subperm h2).length_le
  simpa using this

end Generic

/-! ### B. weights of `c_intersect` (exact arithmetic) -/

section Weights
variable {α : Type} [Field α] [LinearOrder α] [IsStrictOrderedRing α] [FloorRing α]

/-- the weight of a listed cell is the ratio of cell areas times the number of points `c_coord2cell` maps to it,
and that number is at least one -/
theorem cIntersect_weight {g : Geom α} {ca : α} {pts : List (Option (α × α))} {k : Int} {w : α}
    (h : (k, w) ∈ cIntersect g ca pts) :
    w = (ca / g.csz) ^ 2 * (((pts.map (cellOfPt g)).count k : Nat) : α) ∧
      1 ≤ (pts.map (cellOfPt g)).count k := by
  have hk : k ∈ (cIntersect g ca pts).map Prod.fst := List.mem_map.2 ⟨(k, w), h, rfl⟩
  obtain ⟨h0, p, hp, hpk⟩ := (cIntersect_mem_keys_iff g ca pts k).1 hk
  have hcount : (hits g pts).count k = (pts.map (cellOfPt g)).count k := by
    unfold hits
    rw [List.count_filter]
    simpa using h0
  refine ⟨?_, ?_⟩
  · have hw := wOf_of_mem (cIntersect_keys_nodup g ca pts) h
    rw [cIntersect_eq, wOf_foldl_bump, hcount] at hw
    rw [← hw]
    simp [wOf, areafactor, sq]
  · exact List.count_pos_iff.2 (List.mem_map.2 ⟨p, hp, hpk⟩)

/-- weights times grid-cell area sum to (number of accepted points) times the catchment-cell area -/
theorem cIntersect_total {g : Geom α} (hcsz : g.csz ≠ 0) (ca : α) (pts : List (Option (α × α))) :
    ((cIntersect g ca pts).map fun kw => kw.2 * (g.csz * g.csz)).sum =
      ((pts.countP fun p => decide (0 ≤ cellOfPt g p) : Nat) : α) * (ca * ca) := by
  have h1 : ((cIntersect g ca pts).map fun kw => kw.2 * (g.csz * g.csz)).sum =
      sumW (cIntersect g ca pts) * (g.csz * g.csz) := sum_map_snd_mul _ _
  have h2 : (hits g pts).length = pts.countP fun p => decide (0 ≤ cellOfPt g p) := by
    unfold hits
    rw [← List.countP_eq_length_filter, List.countP_map]
    rfl
  rw [h1, cIntersect_eq, sumW_foldl_bump, h2]
  simp only [sumW, List.map_nil, List.sum_nil, zero_add, areafactor]
  field_simp

/-- a point is accepted exactly when it lies in the extent of the grid (`xlim × ylim`, half-open) -/
theorem cellOfPt_nonneg_iff {g : Geom α} (hcsz : 0 < g.csz) (x y : α) :
    0 ≤ cellOfPt g (some (x, y)) ↔ InExtent g x y :=
  coord2cell_nonneg_iff hcsz

/-- and it is counted for the cell whose (half-open) footprint contains it, for no other -/
theorem cellOfPt_eq_iff {g : Geom α} (hcsz : 0 < g.csz) (hc : 0 < g.ncols) {c : Int}
    (hv : validCell g.nrows g.ncols c = true) (x y : α) :
    cellOfPt g (some (x, y)) = c ↔ InFootprint g c x y :=
  coord2cell_eq_iff hcsz hc hv

end Weights

/-! ### C. catchment cells against the coarse grid (exact arithmetic) -/

section Catchment
variable {α : Type} [Field α] [LinearOrder α] [IsStrictOrderedRing α] [FloorRing α]

/-- the weight of a listed grid cell is `(csz_area/csz)²` times the number of catchment cells whose centre lies
in the footprint of that grid cell -/
theorem intersect_weight_counts_centres {coarse fine : Geom α} (hcsz : 0 < coarse.csz) (hc : 0 < coarse.ncols)
    {cells : List Int} (hcells : ∀ c ∈ cells, validCell fine.nrows fine.ncols c = true) {k : Int} {w : α}
    (h : (k, w) ∈ cIntersect coarse fine.csz (cells.map (cell2coord fine))) :
    w = (fine.csz / coarse.csz) ^ 2 *
      ((cells.countP fun c => decide (InFootprint coarse k (getcoord fine c).1 (getcoord fine c).2) : Nat) : α) := by
  have hk : k ∈ (cIntersect coarse fine.csz (cells.map (cell2coord fine))).map Prod.fst :=
    List.mem_map.2 ⟨(k, w), h, rfl⟩
  have hv := cIntersect_keys_valid _ _ _ k hk
  rw [(cIntersect_weight h).1]
  congr 2
  rw [List.count_eq_countP, List.countP_map, List.countP_map]
  apply List.countP_congr
  intro c hcm
  simp only [Function.comp, beq_iff_eq, decide_eq_true_eq]
  unfold cell2coord
  rw [if_pos (hcells c hcm)]
  exact cellOfPt_eq_iff hcsz hc hv _ _

/-- area conservation: weights times grid-cell area sum to the area of the catchment cells whose centre lies in
the extent of the grid -/
theorem intersect_area_conserved {coarse fine : Geom α} (hcsz : 0 < coarse.csz)
    {cells : List Int} (hcells : ∀ c ∈ cells, validCell fine.nrows fine.ncols c = true) :
    ((cIntersect coarse fine.csz (cells.map (cell2coord fine))).map fun kw => kw.2 * (coarse.csz * coarse.csz)).sum =
      ((cells.countP fun c => decide (InExtent coarse (getcoord fine c).1 (getcoord fine c).2) : Nat) : α) *
        (fine.csz * fine.csz) := by
  rw [cIntersect_total hcsz.ne', List.countP_map]
  congr 2
  apply List.countP_congr
  intro c hcm
  simp only [Function.comp, decide_eq_true_eq]
  unfold cell2coord
  rw [if_pos (hcells c hcm)]
  exact cellOfPt_nonneg_iff hcsz _ _

/-- a catchment cell whose centre falls inside the grid is assigned to exactly one listed grid cell -/
theorem centre_inside_listed_once {coarse fine : Geom α} (hcsz : 0 < coarse.csz) (hc : 0 < coarse.ncols)
    {cells : List Int} {c : Int} (hcm : c ∈ cells) (hv : validCell fine.nrows fine.ncols c = true)
    (hin : InExtent coarse (getcoord fine c).1 (getcoord fine c).2) :
    ∃! k, k ∈ (cIntersect coarse fine.csz (cells.map (cell2coord fine))).map Prod.fst ∧
      InFootprint coarse k (getcoord fine c).1 (getcoord fine c).2 := by
  obtain ⟨hv0, hfp⟩ := coord2cell_of_inExtent hcsz hin
  refine ⟨coord2cell coarse (getcoord fine c).1 (getcoord fine c).2, ⟨?_, hfp⟩, ?_⟩
  · rw [cIntersect_mem_keys_iff]
    refine ⟨(validCell_iff.1 hv0).1, cell2coord fine c, List.mem_map_of_mem hcm, ?_⟩
    unfold cell2coord
    rw [if_pos hv]
    rfl
  · rintro k ⟨hk, hkf⟩
    have hvk := cIntersect_keys_valid _ _ _ k hk
    exact (coord2cell_of_inFootprint hcsz hc hvk hkf).symm

/-- a catchment cell whose centre falls outside the grid is counted for no listed cell -/
theorem centre_outside_not_counted {coarse fine : Geom α} (hcsz : 0 < coarse.csz) (hc : 0 < coarse.ncols)
    {cells : List Int} {c : Int}
    (hout : ¬ InExtent coarse (getcoord fine c).1 (getcoord fine c).2) (k : Int)
    (hk : k ∈ (cIntersect coarse fine.csz (cells.map (cell2coord fine))).map Prod.fst) :
    ¬ InFootprint coarse k (getcoord fine c).1 (getcoord fine c).2 := fun hkf =>
  hout (inExtent_of_inFootprint hcsz hc (cIntersect_keys_valid _ _ _ k hk) hkf)

end Catchment

/-! ### D. `Catchment.intersect`: lists, sub-grid, scatter (exact arithmetic) -/

section Python
variable {α : Type} [Field α] [LinearOrder α] [IsStrictOrderedRing α] [FloorRing α]

/-- `intersect` fails (the `ValueError` of `np.min` on an empty array) exactly when no catchment-cell centre is
accepted by the grid; it fails in no other way -/
theorem intersect_error_iff (coarse fine : Geom α) (cells : List Int) (e : Err) :
    intersect coarse fine cells = .error e ↔
      e = .noOverlap ∧ ∀ c ∈ cells, cellOfPt coarse (cell2coord fine c) < 0 := by
  constructor
  · intro h
    obtain ⟨he, hnil⟩ := intersect_eq_error h
    refine ⟨he, fun c hc => ?_⟩
    by_contra hge
    have : cellOfPt coarse (cell2coord fine c) ∈
        (cIntersect coarse fine.csz (cells.map (cell2coord fine))).map Prod.fst := by
      rw [cIntersect_mem_keys_iff]
      exact ⟨by omega, _, List.mem_map_of_mem hc, rfl⟩
    rw [hnil] at this
    cases this
  · rintro ⟨rfl, hneg⟩
    cases hres : intersect coarse fine cells with
    | error e' => rw [(intersect_eq_error hres).1]
    | ok a =>
      obtain ⟨kw0, rest, heq, -⟩ := intersect_eq_ok hres
      have : kw0.1 ∈ (cIntersect coarse fine.csz (cells.map (cell2coord fine))).map Prod.fst := by
        rw [heq]; simp
      obtain ⟨h0, p, hp, hpk⟩ := (cIntersect_mem_keys_iff _ _ _ _).1 this
      obtain ⟨c, hc, rfl⟩ := List.mem_map.1 hp
      have := hneg c hc
      omega

/-- the returned `idxcells`, `weights` are the kernel's lists: everything proved in parts A–C applies to them -/
theorem intersect_lists {coarse fine : Geom α} {cells : List Int} {a : AreaGrid α}
    (h : intersect coarse fine cells = .ok a) :
    a.keys.zip a.weights = cIntersect coarse fine.csz (cells.map (cell2coord fine)) ∧
      a.keys.length = a.weights.length ∧ a.keys ≠ [] := by
  obtain ⟨kw0, rest, heq, hk, hw, -⟩ := intersect_eq_ok h
  rw [hk, hw, heq]
  exact ⟨zip_map_fst_snd _, by simp, by simp⟩

/-- the sub-grid spans exactly the rows and columns of the listed cells: the bounds are attained and every
listed cell is within them; the data array has that shape -/
theorem intersect_subgrid_range {coarse fine : Geom α} {cells : List Int} {a : AreaGrid α}
    (h : intersect coarse fine cells = .ok a) :
    (∀ k ∈ a.keys, a.rowStart ≤ prow coarse k ∧ prow coarse k ≤ a.rowEnd ∧
        a.colStart ≤ pcol coarse k ∧ pcol coarse k ≤ a.colEnd) ∧
    (∃ k ∈ a.keys, prow coarse k = a.rowStart) ∧ (∃ k ∈ a.keys, prow coarse k = a.rowEnd) ∧
    (∃ k ∈ a.keys, pcol coarse k = a.colStart) ∧ (∃ k ∈ a.keys, pcol coarse k = a.colEnd) ∧
    a.nrows = a.rowEnd - a.rowStart + 1 ∧ a.ncols = a.colEnd - a.colStart + 1 ∧
    a.data.length = a.nrows.toNat ∧ ∀ r ∈ a.data, r.length = a.ncols.toNat := by
  obtain ⟨kw0, rest, -, hk, -, hrs, hre, hcs, hce, -, -, hnr, hnc, hd⟩ := intersect_eq_ok h
  have mem_of : ∀ (f : Int → Int) (m : Int),
      (m = f kw0.1 ∨ m ∈ rest.map fun kw => f kw.1) → ∃ k ∈ a.keys, f k = m := by
    intro f m hm
    rw [hk]
    rcases hm with rfl | hm
    · exact ⟨kw0.1, by simp, rfl⟩
    · obtain ⟨kw, hkw, rfl⟩ := List.mem_map.1 hm
      exact ⟨kw.1, by simp only [List.map_cons, List.mem_cons, List.mem_map]; right; exact ⟨kw, hkw, rfl⟩, rfl⟩
  have s1 := listMin_spec (prow coarse kw0.1) (rest.map fun kw => prow coarse kw.1)
  have s2 := listMax_spec (prow coarse kw0.1) (rest.map fun kw => prow coarse kw.1)
  have s3 := listMin_spec (pcol coarse kw0.1) (rest.map fun kw => pcol coarse kw.1)
  have s4 := listMax_spec (pcol coarse kw0.1) (rest.map fun kw => pcol coarse kw.1)
  rw [← hrs] at s1; rw [← hre] at s2; rw [← hcs] at s3; rw [← hce] at s4
  refine ⟨?_, mem_of (prow coarse) _ s1.1, mem_of (prow coarse) _ s2.1, mem_of (pcol coarse) _ s3.1,
    mem_of (pcol coarse) _ s4.1, hnr, hnc, ?_, ?_⟩
  · intro k hkm
    rw [hk] at hkm
    rcases List.mem_cons.1 hkm with rfl | hkm
    · exact ⟨s1.2.1, s2.2.1, s3.2.1, s4.2.1⟩
    · obtain ⟨kw, hkw, rfl⟩ := List.mem_map.1 hkm
      exact ⟨s1.2.2 _ (List.mem_map.2 ⟨kw, hkw, rfl⟩), s2.2.2 _ (List.mem_map.2 ⟨kw, hkw, rfl⟩),
        s3.2.2 _ (List.mem_map.2 ⟨kw, hkw, rfl⟩), s4.2.2 _ (List.mem_map.2 ⟨kw, hkw, rfl⟩)⟩
  · rw [hd]; simp
  · intro r hr
    rw [hd] at hr
    obtain ⟨i, -, rfl⟩ := List.mem_map.1 hr
    simp

end Python

end HydroVerif.C16
