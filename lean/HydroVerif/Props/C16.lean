import HydroVerif.Model.C16
namespace HydroVerif.C16
theorem incr_length {α : Type} [Add α] [OfNat α 1] (ws : List α) (j : Nat) : (incr ws j).length = ws.length := by
  induction ws generalizing j with
  | nil => rfl
  | cons w t ih => cases j <;> simp [incr, ih]
end HydroVerif.C16
