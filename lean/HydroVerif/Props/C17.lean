/-
C17 — property theorems (only).  Model: `HydroVerif/Model/C17.lean`; helper lemmas (inner loops in
closed form, one-step equations, guards): `HydroVerif/Lemmas/C17.lean`.

`α` is any commutative ring (ℚ, ℝ, ℤ, ...); `nf = fun _ => false` is `isnan` in exact arithmetic.
The theorems named `kernel_*` hold for every order `p` (the length of the coefficient vector, no upper
bound), every starting lag buffer and every series length; the others speak about `sim` / `residual`
(the kernels behind their guards, orders 1..10) and about the Python wrappers `pySim` / `pyResidual(D)`.
All of `sim`, `residual`, `pySim`, `pyResidual`, `pyResidualD`, `dataMean` are executed by the driver (Float:
bit for bit against the real code; Rat, i.e. the `nf` instance the theorems are about: within a rounding
budget on short series).  `simBuf` / `resBuf` are ghost state (the code never returns its buffer): they are
tied to the executed `simRun` / `resRun` by `kernel_sim_resume` / `kernel_residual_resume`.

Clause of the property                                   | theorems                                   | outside the theorems
---------------------------------------------------------|--------------------------------------------|---------------------
every order 1..10, any finite φ, mean, initial value:    | sim_recursion, wrapper_sim_recursion       | IEEE rounding:
 armodel_sim reproduces y[t]-m = Σφ[k](y[t-k]-m)+e[t]    | (defaults / explicit sim_mean, sim_ini),   | float_recursion_statement
 started from the initial value                          | kernel_sim_recursion (every p),            | (not proved; executed bit for
                                                         | kernel_buffer_holds_centred_past           | bit + oracle budget)
armodel_residual is its inverse: residual(sim e) = e     | kernel_residual_sim, residual_sim,         | float_residual_sim_statement;
                                                         | wrapper_residual_sim (hyp. hm),            | sim_mean defaulted on BOTH calls:
                                                         | kernel_same_buffer_every_step              | false on the code, known finding
                                                         |                                            | (wrapper_defaults_not_inverse)
sim(residual y) = y                                      | kernel_sim_residual, sim_residual,         | float_sim_residual_statement;
                                                         | sim_residual_present (y with NaN),         | same known finding
                                                         | wrapper_sim_residual (hyp. hm),            |
                                                         | kernel_same_buffer_every_step'             |
missing innovations act as zero innovations              | nan_innovation_is_zero,                    | — (any isnan: holds for the
                                                         | wrapper_nan_innovation_is_zero             | Float instance as well)
missing inputs give zero residuals                       | residual_zero_at_missing,                  | at Float the residual is 0 up to
                                                         | wrapper_residual_zero_at_missing           | rounding for order ≥ 2 (oracle budget)
unsupported orders or NaN parameters are rejected        | accepts_iff, rejects_bad_order,            | exception class / message text
 with an error (orders 0, 11+; NaN φ, mean, ini;         | rejects_nan_param, rejects_nan_mean,       | (only "ValueError + which guard")
 every series length incl. empty)                        | rejects_nan_ini, wrapper_accepts_iff,      |
                                                         | wrapper_rejects                            |
default and explicit sim_mean / sim_ini                  | wrapper_defaults, wrapper_is_kernel,       | numpy.nanmean's summation order
                                                         | data_mean_undefined_iff,                   | (pairwise; the model sums in order,
                                                         | wrapper_residual_default_mean_without_data,| compared within n·u and used when
                                                         | wrapper_residual_default_mean_with_data    | the bits coincide)
series of length 0 to several thousand, NaN anywhere     | every theorem is ∀ series (induction);     | numpy astype / atleast_1d /
 incl. the first `order` steps                           | output_length; kernel_sim_resume,          | contiguity (trusted); 0-d and 2-D
                                                         | kernel_residual_resume (cut anywhere)      | [n,p] series (recorded, not compared)
-/
import HydroVerif.Lemmas.C17

namespace HydroVerif.C17

open Finset

variable {α : Type} [CommRing α] {p : Nat}

/-! ### unsupported orders and NaN parameters are rejected, everything else is accepted -/

/-- both kernels accept exactly: order 1..10, no NaN coefficient, mean and initial value not NaN
(whatever the series, whatever `isnan` does on computed values) -/
theorem accepts_iff (nan : α → Bool) (params : List (Option α)) (mean ini : Option α)
    (series : List (Option α)) :
    ((∃ ys, sim nan params mean ini series = .ok ys) ↔
      (1 ≤ params.length ∧ params.length ≤ 10 ∧ none ∉ params ∧ mean ≠ none ∧ ini ≠ none)) ∧
    ((∃ rs, residual nan params mean ini series = .ok rs) ↔
      (1 ≤ params.length ∧ params.length ≤ 10 ∧ none ∉ params ∧ mean ≠ none ∧ ini ≠ none)) := by
  rw [← validate_isOk_iff]
  constructor
  · constructor
    · rintro ⟨ys, h⟩
      obtain ⟨ps, m, i, rfl, rfl, rfl, h1, h10, -⟩ := sim_eq_ok nan _ _ _ _ _ h
      exact ⟨_, validate_ok ps m i h1 h10⟩
    · rintro ⟨⟨ps, m, i⟩, h⟩
      obtain ⟨rfl, rfl, rfl, h1, h10⟩ := validate_eq_ok _ _ _ _ _ _ h
      exact ⟨_, sim_of_valid nan ps m i series h1 h10⟩
  · constructor
    · rintro ⟨rs, h⟩
      obtain ⟨ps, m, i, rfl, rfl, rfl, h1, h10, -⟩ := residual_eq_ok nan _ _ _ _ _ h
      exact ⟨_, validate_ok ps m i h1 h10⟩
    · rintro ⟨⟨ps, m, i⟩, h⟩
      obtain ⟨rfl, rfl, rfl, h1, h10⟩ := validate_eq_ok _ _ _ _ _ _ h
      exact ⟨_, residual_of_valid nan ps m i series h1 h10⟩

/-- order 0 or above 10: `badOrder`, from both kernels, before anything else is looked at -/
theorem rejects_bad_order (nan : α → Bool) (params : List (Option α)) (mean ini : Option α)
    (series : List (Option α)) (h : params.length = 0 ∨ 10 < params.length) :
    sim nan params mean ini series = .error .badOrder ∧
    residual nan params mean ini series = .error .badOrder := by
  have := (validate_error params mean ini).1.mpr h
  exact ⟨(sim_error_iff nan _ _ _ _ _).mpr this, (residual_error_iff nan _ _ _ _ _).mpr this⟩

/-- a supported order with a NaN coefficient anywhere: `nanParam` -/
theorem rejects_nan_param (nan : α → Bool) (params : List (Option α)) (mean ini : Option α)
    (series : List (Option α)) (h1 : 1 ≤ params.length) (h10 : params.length ≤ 10) (h : none ∈ params) :
    sim nan params mean ini series = .error .nanParam ∧
    residual nan params mean ini series = .error .nanParam := by
  have := (validate_error params mean ini).2.1.mpr ⟨h1, h10, h⟩
  exact ⟨(sim_error_iff nan _ _ _ _ _).mpr this, (residual_error_iff nan _ _ _ _ _).mpr this⟩

/-- NaN mean: `nanMean` -/
theorem rejects_nan_mean (nan : α → Bool) (params : List (Option α)) (ini : Option α)
    (series : List (Option α)) (h1 : 1 ≤ params.length) (h10 : params.length ≤ 10) (h : none ∉ params) :
    sim nan params none ini series = .error .nanMean ∧
    residual nan params none ini series = .error .nanMean := by
  have := (validate_error params none ini).2.2.1.mpr ⟨h1, h10, h, rfl⟩
  exact ⟨(sim_error_iff nan _ _ _ _ _).mpr this, (residual_error_iff nan _ _ _ _ _).mpr this⟩

/-- NaN initial value: `nanIni` -/
theorem rejects_nan_ini (nan : α → Bool) (params : List (Option α)) (m : α)
    (series : List (Option α)) (h1 : 1 ≤ params.length) (h10 : params.length ≤ 10) (h : none ∉ params) :
    sim nan params (some m) none series = .error .nanIni ∧
    residual nan params (some m) none series = .error .nanIni := by
  have := (validate_error params (some m) none).2.2.2.mpr ⟨h1, h10, h, by simp, rfl⟩
  exact ⟨(sim_error_iff nan _ _ _ _ _).mpr this, (residual_error_iff nan _ _ _ _ _).mpr this⟩

/-- one output per input, for both kernels (any `isnan`) -/
theorem output_length (nan : α → Bool) (params : List (Option α)) (mean ini : Option α)
    (series : List (Option α)) :
    (∀ ys, sim nan params mean ini series = .ok ys → ys.length = series.length) ∧
    (∀ rs, residual nan params mean ini series = .ok rs → rs.length = series.length) := by
  constructor
  · intro ys h
    obtain ⟨ps, m, i, -, -, -, -, -, rfl⟩ := sim_eq_ok nan _ _ _ _ _ h
    exact simRun_length' nan _ _ _ _
  · intro rs h
    obtain ⟨ps, m, i, -, -, -, -, -, rfl⟩ := residual_eq_ok nan _ _ _ _ _ h
    exact resRun_length' nan _ _ _ _

/-! ### the simulation kernel reproduces the AR recursion started from the initial value -/

/-- for every order 1..10, coefficients `ps`, mean `m`, initial value `ini` and innovation series of any
length with NaN anywhere: the call is accepted and every output satisfies
`y[t] - m = Σ_k φ[k]·(y[t-(k+1)] - m) + e[t]`, with `y[-j] = ini` and a NaN `e[t]` read as 0 -/
theorem sim_recursion (ps : List α) (m ini : α) (innov : List (Option α))
    (h1 : 1 ≤ ps.length) (h10 : ps.length ≤ 10) :
    ∃ ys, sim nf (ps.map some) (some m) (some ini) innov = .ok ys ∧
      ∃ hlen : ys.length = innov.length,
      ∀ (t : Nat) (ht : t < ys.length),
        ys[t] - m = (∑ k : Fin ps.length, ps[k.val] * (past ys ini t k.val - m))
                      + zeroNaN (innov[t]'(hlen ▸ ht)) := by
  refine ⟨_, sim_of_valid nf ps m ini innov h1 h10, simRun_length _ _ _ _, ?_⟩
  intro t ht
  have hlen := simRun_length (toVec ps) m innov (Vector.replicate ps.length (ini - m))
  have ht' : t < innov.length := hlen ▸ ht
  rw [simRun_recursion (toVec ps) m innov _ t (innov[t]) _
    (List.getElem?_eq_getElem ht') (List.getElem?_eq_getElem ht)]
  congr 1
  apply sum_congr rfl
  intro k _
  rw [glag_replicate _ ini m t k.val k.isLt (by omega), toVec_getElem]

/-- the same recursion for every order `p` (no upper bound) and every starting lag buffer: at step `t`
the lag-`k+1` term is an earlier output minus the mean, or what the starting buffer held -/
theorem kernel_sim_recursion (ps : Vector α p) (m : α) (buf : Vector α p) (es : List (Option α))
    (t : Nat) (e : Option α) (y : α)
    (he : es[t]? = some e) (hy : (simRun nf ps m buf es)[t]? = some y) :
    y - m = (∑ k : Fin p, ps[k.val] * glag (simRun nf ps m buf es) buf m t k.val k.isLt) + zeroNaN e :=
  simRun_recursion ps m es buf t e y he hy

/-- the lag buffer of the simulation kernel holds the centred past outputs, most recent first
(initially `ini - m` at every lag) -/
theorem kernel_buffer_holds_centred_past (ps : Vector α p) (m : α) (buf : Vector α p)
    (es : List (Option α)) (k : Nat) (hk : k < p) :
    (simBuf nf ps buf es)[k] = glag (simRun nf ps m buf es) buf m es.length k hk :=
  simBuf_content ps m es buf k hk

/-- a NaN innovation acts as a zero innovation — literally the same run (any `isnan`, so also at `Float`) -/
theorem nan_innovation_is_zero (nan : α → Bool) (params : List (Option α)) (mean ini : Option α)
    (innov : List (Option α)) :
    sim nan params mean ini (innov.map fun e => some (zeroNaN e)) = sim nan params mean ini innov := by
  unfold sim
  cases validate params mean ini with
  | error e => rfl
  | ok r => obtain ⟨ps, m, i⟩ := r; simp only [simRun_zeroed]

/-! ### both kernels hold the same lag buffer at every step; hence they are inverses -/

/-- invariant, every order, every series length, every prefix: after `n` steps the residual kernel run
on the simulated series holds exactly the buffer the simulation kernel holds -/
theorem kernel_same_buffer_every_step (ps : Vector α p) (m : α) (buf : Vector α p)
    (es : List (Option α)) (n : Nat) :
    resBuf nf ps m buf (((simRun nf ps m buf es).map some).take n) = simBuf nf ps buf (es.take n) :=
  resBuf_simRun ps m es buf n

/-- the same invariant in the other direction (inputs with NaN anywhere) -/
theorem kernel_same_buffer_every_step' (ps : Vector α p) (m : α) (buf : Vector α p)
    (xs : List (Option α)) (n : Nat) :
    simBuf nf ps buf (((resRun nf ps m buf xs).map some).take n) = resBuf nf ps m buf (xs.take n) :=
  simBuf_resRun ps m xs buf n

/-- `residual (sim e) = e` with NaN ↦ 0, every order `p`, every starting buffer, every length -/
theorem kernel_residual_sim (ps : Vector α p) (m : α) (buf : Vector α p) (es : List (Option α)) :
    resRun nf ps m buf ((simRun nf ps m buf es).map some) = es.map zeroNaN :=
  resRun_simRun ps m es buf

/-- `sim (residual y) = y` for NaN-free `y`, every order `p`, every starting buffer, every length -/
theorem kernel_sim_residual (ps : Vector α p) (m : α) (buf : Vector α p) (ys : List α) :
    simRun nf ps m buf ((resRun nf ps m buf (ys.map some)).map some) = ys := by
  rw [simRun_resRun, fill_present]

/-- `residual (sim e) = e` with NaN ↦ 0 through the guards: whenever the simulation is accepted, the
residuals of its output (same coefficients, mean, initial value) are the innovations -/
theorem residual_sim (params : List (Option α)) (mean ini : Option α) (innov : List (Option α))
    (ys : List α) (h : sim nf params mean ini innov = .ok ys) :
    residual nf params mean ini (ys.map some) = .ok (innov.map zeroNaN) := by
  obtain ⟨ps, m, i, rfl, rfl, rfl, h1, h10, rfl⟩ := sim_eq_ok nf _ _ _ _ _ h
  rw [residual_of_valid nf ps m i _ h1 h10, resRun_simRun]

/-- `sim (residual y) = y` for NaN-free `y` through the guards -/
theorem sim_residual (params : List (Option α)) (mean ini : Option α) (ys : List α)
    (rs : List α) (h : residual nf params mean ini (ys.map some) = .ok rs) :
    sim nf params mean ini (rs.map some) = .ok ys := by
  obtain ⟨ps, m, i, rfl, rfl, rfl, h1, h10, rfl⟩ := residual_eq_ok nf _ _ _ _ _ h
  rw [sim_of_valid nf ps m i _ h1 h10, simRun_resRun, fill_present]

/-- with NaN in `y`: simulating the residuals gives back `y` at every position where `y` is present -/
theorem sim_residual_present (params : List (Option α)) (mean ini : Option α)
    (xs : List (Option α)) (rs : List α) (h : residual nf params mean ini xs = .ok rs) :
    ∃ zs, sim nf params mean ini (rs.map some) = .ok zs ∧ zs.length = xs.length ∧
      ∀ (t : Nat) (y : α), xs[t]? = some (some y) → zs[t]? = some y := by
  obtain ⟨ps, m, i, rfl, rfl, rfl, h1, h10, rfl⟩ := residual_eq_ok nf _ _ _ _ _ h
  refine ⟨_, sim_of_valid nf ps m i _ h1 h10, ?_, ?_⟩
  · rw [simRun_resRun, fill_length]
  · intro t y hx
    rw [simRun_resRun]
    exact fill_at_present _ _ _ _ t y hx

/-- missing inputs give zero residuals -/
theorem residual_zero_at_missing (params : List (Option α)) (mean ini : Option α)
    (xs : List (Option α)) (rs : List α) (h : residual nf params mean ini xs = .ok rs)
    (t : Nat) (ht : xs[t]? = some none) : rs[t]? = some 0 := by
  obtain ⟨ps, m, i, rfl, rfl, rfl, h1, h10, rfl⟩ := residual_eq_ok nf _ _ _ _ _ h
  exact resRun_at_missing _ _ _ _ t ht

/-! ### the Python wrappers: what the defaults stand for, and the inverse through them -/

/-- `armodel_sim(params, innov)` is `sim_mean = 0, sim_ini = 0`; `armodel_sim(params, innov, m)` starts
from `sim_ini = m`; `armodel_residual(params, y)` uses `nanmean(y)` for both (any `isnan`) -/
theorem wrapper_defaults (nan : α → Bool) (params : List (Option α)) (series : List (Option α))
    (m i μ : Option α) :
    pySim nan params series none none = sim nan params (some 0) (some 0) series ∧
    pySim nan params series (some m) none = sim nan params m m series ∧
    pySim nan params series none (some i) = sim nan params (some 0) i series ∧
    pySim nan params series (some m) (some i) = sim nan params m i series ∧
    pyResidual nan params series μ none none = residual nan params μ μ series ∧
    pyResidual nan params series μ (some m) none = residual nan params m m series ∧
    pyResidual nan params series μ none (some i) = residual nan params μ i series ∧
    pyResidual nan params series μ (some m) (some i) = residual nan params m i series :=
  ⟨rfl, rfl, rfl, rfl, rfl, rfl, rfl, rfl⟩

/-- the inverse through the wrappers, same `sim_mean` / `sim_ini` arguments on both calls (each left at
its default or passed explicitly).  Hypothesis `hm`: the mean is passed explicitly, or the data mean the
residual wrapper falls back to is the 0 the simulation wrapper falls back to — see
`wrapper_defaults_not_inverse` for why it cannot be dropped. -/
theorem wrapper_residual_sim (params : List (Option α)) (innov : List (Option α))
    (meanArg iniArg : Option (Option α)) (μ : Option α) (ys : List α)
    (hm : meanArg ≠ none ∨ μ = some 0)
    (h : pySim nf params innov meanArg iniArg = .ok ys) :
    pyResidual nf params (ys.map some) μ meanArg iniArg = .ok (innov.map zeroNaN) := by
  cases meanArg with
  | some m => cases iniArg <;> exact residual_sim _ _ _ _ _ h
  | none =>
    have hμ : μ = some 0 := by simpa using hm
    subst hμ
    cases iniArg <;> exact residual_sim _ _ _ _ _ h

theorem wrapper_sim_residual (params : List (Option α)) (ys : List α)
    (meanArg iniArg : Option (Option α)) (μ : Option α) (rs : List α)
    (hm : meanArg ≠ none ∨ μ = some 0)
    (h : pyResidual nf params (ys.map some) μ meanArg iniArg = .ok rs) :
    pySim nf params (rs.map some) meanArg iniArg = .ok ys := by
  cases meanArg with
  | some m => cases iniArg <;> exact sim_residual _ _ _ _ _ h
  | none =>
    have hμ : μ = some 0 := by simpa using hm
    subst hμ
    cases iniArg <;> exact sim_residual _ _ _ _ _ h

/-- with `sim_mean` left at its default on both calls the wrappers are NOT inverses: the simulation
centres on 0, the residual on the mean of its input (order 1, φ = 1, one innovation equal to 1:
the simulated series is `[1]`, its data mean is 1, the residual comes back as 0) -/
theorem wrapper_defaults_not_inverse :
    pySim nf [some (1 : ℤ)] [some 1] none none = .ok [1] ∧
    pyResidual nf [some (1 : ℤ)] [some 1] (some 1) none none = .ok [0] := by
  constructor <;> rfl

/-- the wrappers are the kernels at the resolved arguments, whatever the series (any `isnan`) -/
theorem wrapper_is_kernel (nan : α → Bool) (params : List (Option α)) (series : List (Option α))
    (meanArg iniArg : Option (Option α)) (μ : Option α) :
    pySim nan params series meanArg iniArg =
      sim nan params (resolveMean (some 0) meanArg)
        (resolveIni (resolveMean (some 0) meanArg) iniArg) series ∧
    pyResidual nan params series μ meanArg iniArg =
      residual nan params (resolveMean μ meanArg) (resolveIni (resolveMean μ meanArg) iniArg) series :=
  ⟨rfl, rfl⟩

/-- `armodel_sim` / `armodel_residual` accept exactly: order 1..10, no NaN coefficient, and the mean and
initial value the call stands for (argument or default) are not NaN — for every series, empty included -/
theorem wrapper_accepts_iff (nan : α → Bool) (params : List (Option α)) (series : List (Option α))
    (meanArg iniArg : Option (Option α)) (μ : Option α) :
    ((∃ ys, pySim nan params series meanArg iniArg = .ok ys) ↔
      (1 ≤ params.length ∧ params.length ≤ 10 ∧ none ∉ params ∧
        resolveMean (some 0) meanArg ≠ none ∧
        resolveIni (resolveMean (some 0) meanArg) iniArg ≠ none)) ∧
    ((∃ rs, pyResidual nan params series μ meanArg iniArg = .ok rs) ↔
      (1 ≤ params.length ∧ params.length ≤ 10 ∧ none ∉ params ∧
        resolveMean μ meanArg ≠ none ∧ resolveIni (resolveMean μ meanArg) iniArg ≠ none)) :=
  ⟨(accepts_iff nan params _ _ series).1, (accepts_iff nan params _ _ series).2⟩

/-- the error the wrappers raise, guard by guard (order first, then coefficients, mean, initial value) -/
theorem wrapper_rejects (nan : α → Bool) (params : List (Option α)) (series : List (Option α))
    (meanArg iniArg : Option (Option α)) (μ : Option α) :
    ((params.length = 0 ∨ 10 < params.length) →
      pySim nan params series meanArg iniArg = .error .badOrder ∧
      pyResidual nan params series μ meanArg iniArg = .error .badOrder) ∧
    (1 ≤ params.length → params.length ≤ 10 → none ∈ params →
      pySim nan params series meanArg iniArg = .error .nanParam ∧
      pyResidual nan params series μ meanArg iniArg = .error .nanParam) ∧
    (1 ≤ params.length → params.length ≤ 10 → none ∉ params →
      (resolveMean (some 0) meanArg = none → pySim nan params series meanArg iniArg = .error .nanMean) ∧
      (resolveMean μ meanArg = none → pyResidual nan params series μ meanArg iniArg = .error .nanMean)) ∧
    (1 ≤ params.length → params.length ≤ 10 → none ∉ params →
      (resolveMean (some 0) meanArg ≠ none → resolveIni (resolveMean (some 0) meanArg) iniArg = none →
        pySim nan params series meanArg iniArg = .error .nanIni) ∧
      (resolveMean μ meanArg ≠ none → resolveIni (resolveMean μ meanArg) iniArg = none →
        pyResidual nan params series μ meanArg iniArg = .error .nanIni)) := by
  refine ⟨fun h => ⟨(rejects_bad_order nan params _ _ series h).1, (rejects_bad_order nan params _ _ series h).2⟩,
    fun h1 h10 h => ⟨(rejects_nan_param nan params _ _ series h1 h10 h).1,
      (rejects_nan_param nan params _ _ series h1 h10 h).2⟩, ?_, ?_⟩
  · intro h1 h10 h
    constructor
    · intro hm
      show sim nan params (resolveMean (some 0) meanArg) _ series = _
      rw [hm]; exact (rejects_nan_mean nan params _ series h1 h10 h).1
    · intro hm
      show residual nan params (resolveMean μ meanArg) _ series = _
      rw [hm]; exact (rejects_nan_mean nan params _ series h1 h10 h).2
  · intro h1 h10 h
    constructor
    · intro hm hi
      obtain ⟨m, hm'⟩ := Option.ne_none_iff_exists'.mp hm
      show sim nan params (resolveMean (some 0) meanArg) (resolveIni (resolveMean (some 0) meanArg) iniArg) series = _
      rw [hi, hm']; exact (rejects_nan_ini nan params m series h1 h10 h).1
    · intro hm hi
      obtain ⟨m, hm'⟩ := Option.ne_none_iff_exists'.mp hm
      show residual nan params (resolveMean μ meanArg) (resolveIni (resolveMean μ meanArg) iniArg) series = _
      rw [hi, hm']; exact (rejects_nan_ini nan params m series h1 h10 h).2

/-- the recursion through `armodel_sim`, `sim_mean` / `sim_ini` each left at its default or passed:
`m`, `ini` are the values the call stands for (`m = 0` by default, `ini = m` by default) -/
theorem wrapper_sim_recursion (ps : List α) (m ini : α) (meanArg iniArg : Option (Option α))
    (innov : List (Option α)) (h1 : 1 ≤ ps.length) (h10 : ps.length ≤ 10)
    (hm : resolveMean (some 0) meanArg = some m) (hi : resolveIni (some m) iniArg = some ini) :
    ∃ ys, pySim nf (ps.map some) innov meanArg iniArg = .ok ys ∧
      ∃ hlen : ys.length = innov.length,
      ∀ (t : Nat) (ht : t < ys.length),
        ys[t] - m = (∑ k : Fin ps.length, ps[k.val] * (past ys ini t k.val - m))
                      + zeroNaN (innov[t]'(hlen ▸ ht)) := by
  have : pySim nf (ps.map some) innov meanArg iniArg = sim nf (ps.map some) (some m) (some ini) innov := by
    show sim nf _ (resolveMean (some 0) meanArg) (resolveIni (resolveMean (some 0) meanArg) iniArg) _ = _
    rw [hm, hi]
  rw [this]
  exact sim_recursion ps m ini innov h1 h10

/-- NaN innovation = zero innovation through `armodel_sim` (any `isnan`, any defaults) -/
theorem wrapper_nan_innovation_is_zero (nan : α → Bool) (params : List (Option α))
    (innov : List (Option α)) (meanArg iniArg : Option (Option α)) :
    pySim nan params (innov.map fun e => some (zeroNaN e)) meanArg iniArg =
      pySim nan params innov meanArg iniArg :=
  nan_innovation_is_zero nan params _ _ innov

/-- missing inputs give zero residuals through `armodel_residual` (any defaults, any data mean) -/
theorem wrapper_residual_zero_at_missing (params : List (Option α)) (xs : List (Option α))
    (μ : Option α) (meanArg iniArg : Option (Option α)) (rs : List α)
    (h : pyResidual nf params xs μ meanArg iniArg = .ok rs) (t : Nat) (ht : xs[t]? = some none) :
    rs[t]? = some 0 :=
  residual_zero_at_missing params _ _ xs rs h t ht

/-! ### the lag buffer is the whole state: a run cut anywhere resumes from it (any `isnan`) -/

/-- the simulation of `es1 ++ es2` is the simulation of `es1` followed by the simulation of `es2` started
from the buffer `simBuf` left by `es1`; same for the buffer itself.  This is what ties `simBuf` (never
returned by the code) to the outputs the code does return. -/
theorem kernel_sim_resume (nan : α → Bool) (ps : Vector α p) (m : α) (buf : Vector α p)
    (es1 es2 : List (Option α)) :
    simRun nan ps m buf (es1 ++ es2) =
      simRun nan ps m buf es1 ++ simRun nan ps m (simBuf nan ps buf es1) es2 ∧
    simBuf nan ps buf (es1 ++ es2) = simBuf nan ps (simBuf nan ps buf es1) es2 :=
  ⟨simRun_append nan ps m es1 es2 buf, simBuf_append nan ps es1 es2 buf⟩

theorem kernel_residual_resume (nan : α → Bool) (ps : Vector α p) (m : α) (buf : Vector α p)
    (xs1 xs2 : List (Option α)) :
    resRun nan ps m buf (xs1 ++ xs2) =
      resRun nan ps m buf xs1 ++ resRun nan ps m (resBuf nan ps m buf xs1) xs2 ∧
    resBuf nan ps m buf (xs1 ++ xs2) = resBuf nan ps m (resBuf nan ps m buf xs1) xs2 :=
  ⟨resRun_append nan ps m xs1 xs2 buf, resBuf_append nan ps m xs1 xs2 buf⟩

/-! ### the default mean of `armodel_residual` (`numpy.nanmean`) and series without data -/

section
variable {F : Type} [Field F]

/-- the data mean is undefined (NaN) exactly when no value is present: empty or all-missing series
(any `isnan` for the "if" direction) -/
theorem data_mean_undefined_iff (xs : List (Option F)) :
    dataMean nf xs = none ↔ ∀ x ∈ xs, x = none := by
  unfold dataMean
  rw [← dataCount_eq_zero_iff]
  by_cases h : dataCount xs = 0 <;> simp [h, nf]

/-- `armodel_residual(params, y)` with the default mean on an empty or all-missing series is rejected
(NaN mean) whatever `sim_ini`; an explicit mean makes the data mean irrelevant -/
theorem wrapper_residual_default_mean_without_data (nan : F → Bool) (params : List (Option F))
    (xs : List (Option F)) (iniArg : Option (Option F)) (m : Option F)
    (hx : ∀ x ∈ xs, x = none) :
    (1 ≤ params.length → params.length ≤ 10 → none ∉ params →
      pyResidualD nan params xs none iniArg = .error .nanMean) ∧
    (∃ e, pyResidualD nan params xs none iniArg = .error e) ∧
    pyResidualD nan params xs (some m) iniArg = residual nan params m (resolveIni m iniArg) xs := by
  have hμ : dataMean nan xs = none := by
    unfold dataMean
    rw [if_pos ((dataCount_eq_zero_iff xs).mpr hx)]
  have hnan : 1 ≤ params.length → params.length ≤ 10 → none ∉ params →
      pyResidualD nan params xs none iniArg = .error .nanMean := by
    intro h1 h10 hp
    exact ((wrapper_rejects nan params xs none iniArg (dataMean nan xs)).2.2.1 h1 h10 hp).2
      (by simp [resolveMean, hμ])
  refine ⟨hnan, ?_, rfl⟩
  by_cases hb : params.length = 0 ∨ 10 < params.length
  · exact ⟨_, ((wrapper_rejects nan params xs none iniArg (dataMean nan xs)).1 hb).2⟩
  · by_cases hp : none ∈ params
    · exact ⟨_, ((wrapper_rejects nan params xs none iniArg (dataMean nan xs)).2.1
        (by omega) (by omega) hp).2⟩
    · exact ⟨_, hnan (by omega) (by omega) hp⟩

/-- with data present the default mean is defined, so (order and coefficients being fine) the call is accepted -/
theorem wrapper_residual_default_mean_with_data (ps : List F) (xs : List (Option F))
    (h1 : 1 ≤ ps.length) (h10 : ps.length ≤ 10) (hx : ∃ v, some v ∈ xs) :
    ∃ rs, pyResidualD nf (ps.map some) xs none none = .ok rs := by
  have hμ : dataMean nf xs ≠ none := by
    intro h
    obtain ⟨v, hv⟩ := hx
    have := (data_mean_undefined_iff xs).mp h _ hv
    cases this
  obtain ⟨μ, hμ'⟩ := Option.ne_none_iff_exists'.mp hμ
  refine (wrapper_accepts_iff nf (ps.map some) xs none none (dataMean nf xs)).2.mpr ?_
  simp [resolveMean, resolveIni, hμ', h1, h10]

end

/-! ### IEEE double: stated, not proved

The `Float` instance of the very same model text is executed by the driver and compared bit for bit with the
kernels; the statements below say what the property means at `Float` (rounding budgets, first order in
`u = 2⁻⁵³`, the ones the harness oracle applies to the real code).  They are not theorems: Lean's `Float`
is opaque to the kernel.  The exact-ring theorems above are the proved part. -/

/-- largest absolute value of a list (0 for the empty list) -/
def maxAbs (xs : List Float) : Float := xs.foldl (fun a x => if a < x.abs then x.abs else a) 0
/-- sum of absolute values -/
def sumAbs (xs : List Float) : Float := xs.foldl (fun a x => a + x.abs) 0
/-- `8 (p+4) u (1+Σ|φ|) (max|y| + |m| + |ini| + max|e|)` -/
def floatBudget (ps : List Float) (m ini : Float) (es ys : List Float) : Float :=
  8 * (ps.length + 4).toFloat * 1.1102230246251565e-16 * (1 + sumAbs ps) *
    (maxAbs ys + m.abs + ini.abs + maxAbs es)
def allFinite (xs : List Float) : Prop := ∀ x ∈ xs, x.isFinite = true
/-- `Σ_k φ[k]·(y[t-(k+1)] - m)` in the order of the list -/
def floatLagSum (ps ys : List Float) (m ini : Float) (t : Nat) : Float :=
  ps.zipIdx.foldl (fun acc φk => acc + φk.1 * (past ys ini t φk.2 - m)) 0

/-- the recursion at `Float`, one step at a time, within the budget (finite inputs, no overflow) -/
def float_recursion_statement : Prop :=
  ∀ (ps : List Float) (m ini : Float) (es ys : List Float),
    1 ≤ ps.length → ps.length ≤ 10 → allFinite ps → allFinite es → m.isFinite = true → ini.isFinite = true →
    sim Float.isNaN (ps.map some) (some m) (some ini) (es.map some) = .ok ys → allFinite ys →
    ∀ (t : Nat) (h1 : t < ys.length) (h2 : t < es.length),
      ((ys[t] - m) - (floatLagSum ps ys m ini t + es[t])).abs ≤ floatBudget ps m ini es ys

/-- `residual (sim e) = e` at `Float`, within the budget (the residual kernel is a finite filter of `y`:
rounding errors are not amplified) -/
def float_residual_sim_statement : Prop :=
  ∀ (ps : List Float) (m ini : Float) (es ys rs : List Float),
    allFinite ps → allFinite es → m.isFinite = true → ini.isFinite = true →
    sim Float.isNaN (ps.map some) (some m) (some ini) (es.map some) = .ok ys → allFinite ys →
    residual Float.isNaN (ps.map some) (some m) (some ini) (ys.map some) = .ok rs →
    ∀ (t : Nat) (h1 : t < rs.length) (h2 : t < es.length),
      (rs[t] - es[t]).abs ≤ floatBudget ps m ini es ys

/-- `sim (residual y) = y` at `Float`: the one-step budget amplified by the absolute impulse response of
the AR model (`sim` on `|φ|` with a unit impulse, summed), as the errors travel through the recursion -/
def float_sim_residual_statement : Prop :=
  ∀ (ps : List Float) (m ini : Float) (ys rs zs ψ : List Float),
    allFinite ps → allFinite ys → m.isFinite = true → ini.isFinite = true →
    residual Float.isNaN (ps.map some) (some m) (some ini) (ys.map some) = .ok rs → allFinite rs →
    sim Float.isNaN (ps.map some) (some m) (some ini) (rs.map some) = .ok zs →
    sim Float.isNaN (ps.map fun φ => some φ.abs) (some 0) (some 0)
      ((List.range ys.length).map fun j => some (if j = 0 then 1 else 0)) = .ok ψ →
    ∀ (t : Nat) (h1 : t < zs.length) (h2 : t < ys.length),
      (zs[t] - ys[t]).abs ≤ (1 + sumAbs ψ) * floatBudget ps m ini rs ys

/-! ### non-vacuity: the hypotheses are met by concrete non-trivial inputs, sample evaluations -/

example : sim nf [some (2 : ℤ), some (-1)] (some 5) (some 10) [some 1, none, some 2, some (-1)]
    = .ok [11, 12, 15, 17] := by rfl
example : residual nf [some (2 : ℤ), some (-1)] (some 5) (some 10) [some 11, some 12, some 15, some 17]
    = .ok [1, 0, 2, -1] := by rfl
example : residual nf [some (2 : ℤ), some (-1)] (some 5) (some 10) [some 11, none, some 10, none]
    = .ok [1, 0, -3, 0] := by rfl
example : (1 : Nat) ≤ [some (2 : ℤ), some (-1)].length ∧ [some (2 : ℤ), some (-1)].length ≤ 10 := by decide
example : sim nf ([] : List (Option ℤ)) (some 0) (some 0) [some 1] = .error .badOrder := by rfl
example : sim nf [some (1 : ℤ), none] (some 0) (some 0) [some 1] = .error .nanParam := by rfl
example : past [11, 12, 15, (17 : ℤ)] 10 2 0 = 12 ∧ past [11, 12, 15, (17 : ℤ)] 10 2 1 = 11
    ∧ past [11, 12, 15, (17 : ℤ)] 10 2 2 = 10 := by decide
/-- `hm` of `wrapper_residual_sim` is satisfiable both ways -/
example : ((some (some (5 : ℤ)) : Option (Option ℤ)) ≠ none ∨ (none : Option ℤ) = some 0) := by simp
example : ((none : Option (Option ℤ)) ≠ none ∨ (some (0 : ℤ)) = some 0) := by simp
/-- hypotheses of `wrapper_sim_recursion`: defaults give `m = 0`, `ini = m`; explicit values are themselves -/
example : resolveMean (some (0 : ℤ)) none = some 0 ∧ resolveIni (some (0 : ℤ)) none = some 0 := ⟨rfl, rfl⟩
example : resolveMean (some (0 : ℤ)) (some (some 5)) = some 5 ∧ resolveIni (some (5 : ℤ)) (some (some 10)) = some 10 :=
  ⟨rfl, rfl⟩
example : resolveMean (some (0 : ℤ)) (some (some 5)) = some 5 ∧ resolveIni (some (5 : ℤ)) none = some 5 := ⟨rfl, rfl⟩
/-- series without data: empty, or all missing -/
example : ∀ x ∈ ([] : List (Option ℚ)), x = none := by simp
example : ∀ x ∈ ([none, none] : List (Option ℚ)), x = none := by simp
example : ∃ v, some v ∈ [none, some (3 : ℚ), none] := ⟨3, by simp⟩
/-- resuming: a non-trivial cut -/
example : simRun nf (toVec [(2 : ℤ), -1]) 5 (Vector.replicate 2 5) ([some 1, none] ++ [some 2, some (-1)])
    = [11, 12] ++ simRun nf (toVec [(2 : ℤ), -1]) 5 (simBuf nf (toVec [(2 : ℤ), -1]) (Vector.replicate 2 5) [some 1, none])
        [some 2, some (-1)] := by rfl

end HydroVerif.C17
