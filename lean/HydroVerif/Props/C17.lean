/-
C17 — property theorems (only).  Model: `HydroVerif/Model/C17.lean` (kernels, guards, wrappers), `Model/C17Spec.lean`
(the specification-side quantities, executable), `Model/C17Hist.lean` (histories of calls), `Model/C17Round.lean`
(rounding arithmetic `Fl rnd`, `rnd53`); helper lemmas: `HydroVerif/Lemmas/C17*.lean`.

`α` is any commutative ring (ℚ, ℝ, ℤ, ...); `nf = fun _ => false` is `isnan` in exact arithmetic.
The theorems named `kernel_*` hold for every order (the length of the coefficient vector, no upper bound), every
starting lag buffer and every series length; the others speak about `sim` / `residual` (the kernels behind their
guards, orders 1..10), about the Python wrappers `pySim` / `pyResidual(D)` and about histories of calls (`step`,
`run`, `exec`).  Everything a theorem mentions is executed by the driver on the correspondence stream: the Float
instance bit for bit against the real code (calls, histories, runs cut and resumed from `simBuf` / `resBuf`), the
Rat instance within a rounding budget, the `Fl rnd53` instance (53-bit rounding over Rat) value for value against
the real kernels, and the statements themselves (`specq`, `linq`, `boundr`: `past`, `glag`, `zeroNaN`, `scaleOpt`,
`shiftOpt`, `addInnov`, the two rounding budgets) evaluated on the model's runs.

Clause of the property                                   | theorems                                   | outside the theorems
---------------------------------------------------------|--------------------------------------------|---------------------
every order 1..10, any finite φ, mean, initial value:    | sim_recursion, wrapper_sim_recursion       | overflow / subnormal range at
 armodel_sim reproduces y[t]-m = Σφ[k](y[t-k]-m)+e[t]    | (defaults / explicit sim_mean, sim_ini),   | IEEE double (executed bit for
 started from the initial value                          | kernel_sim_recursion (every p),            | bit, oracle budget with an
                                                         | kernel_buffer_holds_centred_past;          | absolute floor); Lean's own
                                                         | any finite magnitude, sign, shift:         | `Float` is opaque:
                                                         | sim_homogeneous, wrapper_sim_homogeneous,  | float_recursion_statement
                                                         | sim_shift_invariant, kernel_sim_additive;  | stays a def
                                                         | IEEE rounding (standard model, u = 2^-53): |
                                                         | kernel_recursion_rounded (+ _from_ini),    |
                                                         | double_rounding_is_standard_model          |
armodel_residual is its inverse: residual(sim e) = e     | kernel_residual_sim, residual_sim,         | overflow / subnormal range;
                                                         | wrapper_residual_sim (hyp. hm),            | sim_mean defaulted on BOTH calls:
                                                         | kernel_same_buffer_every_step,             | false on the code, known finding
                                                         | residual_homogeneous,                      | (wrapper_defaults_not_inverse)
                                                         | residual_shift_invariant;                  |
                                                         | IEEE rounding: kernel_residual_sim_rounded,|
                                                         | kernel_residual_sim_double                 |
sim(residual y) = y                                      | kernel_sim_residual, sim_residual,         | IEEE rounding amplified by the AR
                                                         | sim_residual_present (y with NaN),         | impulse response:
                                                         | wrapper_sim_residual (hyp. hm),            | float_sim_residual_statement
                                                         | kernel_same_buffer_every_step'             | (stated, oracle budget); same
                                                         |                                            | known finding
missing innovations act as zero innovations              | nan_innovation_is_zero,                    | — (any isnan, any arithmetic:
                                                         | wrapper_nan_innovation_is_zero             | holds for Float / Fl as well)
missing inputs give zero residuals                       | residual_zero_at_missing,                  | order ≥ 2 at IEEE double: zero up
                                                         | wrapper_residual_zero_at_missing;          | to rounding only (ascending
                                                         | order 1, any arithmetic, exactly zero:     | prediction, descending
                                                         | residual_zero_at_missing_order1_any_arithmetic | subtraction; oracle budget)
unsupported orders or NaN parameters are rejected        | accepts_iff, rejects_bad_order,            | exception class / message text
 with an error (orders 0, 11+; NaN φ, mean, ini;         | rejects_nan_param, rejects_nan_mean,       | (only "ValueError + which guard")
 every series length incl. empty)                        | rejects_nan_ini, wrapper_accepts_iff,      |
                                                         | wrapper_rejects, wrapper_scalar_params;    |
                                                         | the isnan tests on computed values:        |
                                                         | kernel_sim_isnan_skip_dead,                |
                                                         | kernel_residual_isnan_dead                 |
default and explicit sim_mean / sim_ini                  | wrapper_defaults, wrapper_is_kernel,       | numpy.nanmean's summation order
                                                         | data_mean_undefined_iff,                   | (pairwise; the model sums in order,
                                                         | wrapper_residual_default_mean_without_data,| compared within n·u and used when
                                                         | wrapper_residual_default_mean_with_data    | the bits coincide)
series of length 0 to several thousand, NaN anywhere     | every theorem is ∀ series (induction);     | numpy astype / atleast_1d /
 incl. the first `order` steps                           | output_length; kernel_sim_resume,          | contiguity (trusted); 0-d and 2-D
                                                         | kernel_residual_resume (cut anywhere)      | [n,p] series (recorded, not compared)
the functions keep no state: every call answers for the  | history_call_reads_current_contents,       | Python object identity beyond the
 objects as they are, whatever happened before (valid,   | history_call_writes_no_argument,           | one alias the model has (the
 rejected, edited in place, fed back)                    | history_rejected_call_leaves_nothing,      | returned array handed back as the
                                                         | history_rejected_call_invisible,           | series)
                                                         | history_reply_at, history_inverse          |
-/
import HydroVerif.Lemmas.C17
import HydroVerif.Lemmas.C17Extra
import HydroVerif.Lemmas.C17Rnd53

namespace HydroVerif.C17

open Finset

variable {α : Type} [CommRing α] {p : Nat}

/-! ### unsupported orders and NaN parameters are rejected, everything else is accepted -/

/-- both kernels accept exactly: order 1..10, no NaN coefficient, mean and initial value not NaN
(whatever the series, whatever `isnan` does on computed values) -/
theorem accepts_iff (nan : α → Bool) (params : List (Option α)) (mean ini : Option α)
    (series : List (Option α)) :
    ((∃ ys, sim nan params mean ini series = .ok ys) ↔
      (1 ≤ params.length ∧ params.length ≤ 10 ∧ none ∉ params ∧ mean ≠ none ∧ ini ≠ none)) ∧
    ((∃ rs, residual nan params mean ini series = .ok rs) ↔
      (1 ≤ params.length ∧ params.length ≤ 10 ∧ none ∉ params ∧ mean ≠ none ∧ ini ≠ none)) := by
  rw [← validate_isOk_iff]
  constructor
  · constructor
    · rintro ⟨ys, h⟩
      obtain ⟨ps, m, i, rfl, rfl, rfl, h1, h10, -⟩ := sim_eq_ok nan _ _ _ _ _ h
      exact ⟨_, validate_ok ps m i h1 h10⟩
    · rintro ⟨⟨ps, m, i⟩, h⟩
      obtain ⟨rfl, rfl, rfl, h1, h10⟩ := validate_eq_ok _ _ _ _ _ _ h
      exact ⟨_, sim_of_valid nan ps m i series h1 h10⟩
  · constructor
    · rintro ⟨rs, h⟩
      obtain ⟨ps, m, i, rfl, rfl, rfl, h1, h10, -⟩ := residual_eq_ok nan _ _ _ _ _ h
      exact ⟨_, validate_ok ps m i h1 h10⟩
    · rintro ⟨⟨ps, m, i⟩, h⟩
      obtain ⟨rfl, rfl, rfl, h1, h10⟩ := validate_eq_ok _ _ _ _ _ _ h
      exact ⟨_, residual_of_valid nan ps m i series h1 h10⟩

/-- order 0 or above 10: `badOrder`, from both kernels, before anything else is looked at -/
theorem rejects_bad_order (nan : α → Bool) (params : List (Option α)) (mean ini : Option α)
    (series : List (Option α)) (h : params.length = 0 ∨ 10 < params.length) :
    sim nan params mean ini series = .error .badOrder ∧
    residual nan params mean ini series = .error .badOrder := by
  have := (validate_error params mean ini).1.mpr h
  exact ⟨(sim_error_iff nan _ _ _ _ _).mpr this, (residual_error_iff nan _ _ _ _ _).mpr this⟩

/-- a supported order with a NaN coefficient anywhere: `nanParam` -/
theorem rejects_nan_param (nan : α → Bool) (params : List (Option α)) (mean ini : Option α)
    (series : List (Option α)) (h1 : 1 ≤ params.length) (h10 : params.length ≤ 10) (h : none ∈ params) :
    sim nan params mean ini series = .error .nanParam ∧
    residual nan params mean ini series = .error .nanParam := by
  have := (validate_error params mean ini).2.1.mpr ⟨h1, h10, h⟩
  exact ⟨(sim_error_iff nan _ _ _ _ _).mpr this, (residual_error_iff nan _ _ _ _ _).mpr this⟩

/-- NaN mean: `nanMean` -/
theorem rejects_nan_mean (nan : α → Bool) (params : List (Option α)) (ini : Option α)
    (series : List (Option α)) (h1 : 1 ≤ params.length) (h10 : params.length ≤ 10) (h : none ∉ params) :
    sim nan params none ini series = .error .nanMean ∧
    residual nan params none ini series = .error .nanMean := by
  have := (validate_error params none ini).2.2.1.mpr ⟨h1, h10, h, rfl⟩
  exact ⟨(sim_error_iff nan _ _ _ _ _).mpr this, (residual_error_iff nan _ _ _ _ _).mpr this⟩

/-- NaN initial value: `nanIni` -/
theorem rejects_nan_ini (nan : α → Bool) (params : List (Option α)) (m : α)
    (series : List (Option α)) (h1 : 1 ≤ params.length) (h10 : params.length ≤ 10) (h : none ∉ params) :
    sim nan params (some m) none series = .error .nanIni ∧
    residual nan params (some m) none series = .error .nanIni := by
  have := (validate_error params (some m) none).2.2.2.mpr ⟨h1, h10, h, by simp, rfl⟩
  exact ⟨(sim_error_iff nan _ _ _ _ _).mpr this, (residual_error_iff nan _ _ _ _ _).mpr this⟩

/-- one output per input, for both kernels (any `isnan`) -/
theorem output_length (nan : α → Bool) (params : List (Option α)) (mean ini : Option α)
    (series : List (Option α)) :
    (∀ ys, sim nan params mean ini series = .ok ys → ys.length = series.length) ∧
    (∀ rs, residual nan params mean ini series = .ok rs → rs.length = series.length) := by
  constructor
  · intro ys h
    obtain ⟨ps, m, i, -, -, -, -, -, rfl⟩ := sim_eq_ok nan _ _ _ _ _ h
    exact simRun_length' nan _ _ _ _
  · intro rs h
    obtain ⟨ps, m, i, -, -, -, -, -, rfl⟩ := residual_eq_ok nan _ _ _ _ _ h
    exact resRun_length' nan _ _ _ _

/-! ### the simulation kernel reproduces the AR recursion started from the initial value -/

/-- for every order 1..10, coefficients `ps`, mean `m`, initial value `ini` and innovation series of any
length with NaN anywhere: the call is accepted and every output satisfies
`y[t] - m = Σ_k φ[k]·(y[t-(k+1)] - m) + e[t]`, with `y[-j] = ini` and a NaN `e[t]` read as 0 -/
theorem sim_recursion (ps : List α) (m ini : α) (innov : List (Option α))
    (h1 : 1 ≤ ps.length) (h10 : ps.length ≤ 10) :
    ∃ ys, sim nf (ps.map some) (some m) (some ini) innov = .ok ys ∧
      ∃ hlen : ys.length = innov.length,
      ∀ (t : Nat) (ht : t < ys.length),
        ys[t] - m = (∑ k : Fin ps.length, ps[k.val] * (past ys ini t k.val - m))
                      + zeroNaN (innov[t]'(hlen ▸ ht)) := by
  refine ⟨_, sim_of_valid nf ps m ini innov h1 h10, simRun_length _ _ _ _, ?_⟩
  intro t ht
  have hlen := simRun_length (toVec ps) m innov (Vector.replicate ps.length (ini - m))
  have ht' : t < innov.length := hlen ▸ ht
  rw [simRun_recursion (toVec ps) m innov _ t (innov[t]) _
    (List.getElem?_eq_getElem ht') (List.getElem?_eq_getElem ht)]
  congr 1
  apply sum_congr rfl
  intro k _
  rw [glag_replicate _ ini m t k.val k.isLt (by omega), toVec_getElem]

/-- the same recursion for every order `p` (no upper bound) and every starting lag buffer: at step `t`
the lag-`k+1` term is an earlier output minus the mean, or what the starting buffer held -/
theorem kernel_sim_recursion (ps : Vector α p) (m : α) (buf : Vector α p) (es : List (Option α))
    (t : Nat) (e : Option α) (y : α)
    (he : es[t]? = some e) (hy : (simRun nf ps m buf es)[t]? = some y) :
    y - m = (∑ k : Fin p, ps[k.val] * glag (simRun nf ps m buf es) buf m t k.val k.isLt) + zeroNaN e :=
  simRun_recursion ps m es buf t e y he hy

/-- the lag buffer of the simulation kernel holds the centred past outputs, most recent first
(initially `ini - m` at every lag) -/
theorem kernel_buffer_holds_centred_past (ps : Vector α p) (m : α) (buf : Vector α p)
    (es : List (Option α)) (k : Nat) (hk : k < p) :
    (simBuf nf ps buf es)[k] = glag (simRun nf ps m buf es) buf m es.length k hk :=
  simBuf_content ps m es buf k hk

/-- a NaN innovation acts as a zero innovation — literally the same run (any `isnan`, so also at `Float`) -/
theorem nan_innovation_is_zero (nan : α → Bool) (params : List (Option α)) (mean ini : Option α)
    (innov : List (Option α)) :
    sim nan params mean ini (innov.map fun e => some (zeroNaN e)) = sim nan params mean ini innov := by
  unfold sim
  cases validate params mean ini with
  | error e => rfl
  | ok r => obtain ⟨ps, m, i⟩ := r; simp only [simRun_zeroed]

/-! ### both kernels hold the same lag buffer at every step; hence they are inverses -/

/-- invariant, every order, every series length, every prefix: after `n` steps the residual kernel run
on the simulated series holds exactly the buffer the simulation kernel holds -/
theorem kernel_same_buffer_every_step (ps : Vector α p) (m : α) (buf : Vector α p)
    (es : List (Option α)) (n : Nat) :
    resBuf nf ps m buf (((simRun nf ps m buf es).map some).take n) = simBuf nf ps buf (es.take n) :=
  resBuf_simRun ps m es buf n

/-- the same invariant in the other direction (inputs with NaN anywhere) -/
theorem kernel_same_buffer_every_step' (ps : Vector α p) (m : α) (buf : Vector α p)
    (xs : List (Option α)) (n : Nat) :
    simBuf nf ps buf (((resRun nf ps m buf xs).map some).take n) = resBuf nf ps m buf (xs.take n) :=
  simBuf_resRun ps m xs buf n

/-- `residual (sim e) = e` with NaN ↦ 0, every order `p`, every starting buffer, every length -/
theorem kernel_residual_sim (ps : Vector α p) (m : α) (buf : Vector α p) (es : List (Option α)) :
    resRun nf ps m buf ((simRun nf ps m buf es).map some) = es.map zeroNaN :=
  resRun_simRun ps m es buf

/-- `sim (residual y) = y` for NaN-free `y`, every order `p`, every starting buffer, every length -/
theorem kernel_sim_residual (ps : Vector α p) (m : α) (buf : Vector α p) (ys : List α) :
    simRun nf ps m buf ((resRun nf ps m buf (ys.map some)).map some) = ys := by
  rw [simRun_resRun, fill_present]

/-- `residual (sim e) = e` with NaN ↦ 0 through the guards: whenever the simulation is accepted, the
residuals of its output (same coefficients, mean, initial value) are the innovations -/
theorem residual_sim (params : List (Option α)) (mean ini : Option α) (innov : List (Option α))
    (ys : List α) (h : sim nf params mean ini innov = .ok ys) :
    residual nf params mean ini (ys.map some) = .ok (innov.map zeroNaN) := by
  obtain ⟨ps, m, i, rfl, rfl, rfl, h1, h10, rfl⟩ := sim_eq_ok nf _ _ _ _ _ h
  rw [residual_of_valid nf ps m i _ h1 h10, resRun_simRun]

/-- `sim (residual y) = y` for NaN-free `y` through the guards -/
theorem sim_residual (params : List (Option α)) (mean ini : Option α) (ys : List α)
    (rs : List α) (h : residual nf params mean ini (ys.map some) = .ok rs) :
    sim nf params mean ini (rs.map some) = .ok ys := by
  obtain ⟨ps, m, i, rfl, rfl, rfl, h1, h10, rfl⟩ := residual_eq_ok nf _ _ _ _ _ h
  rw [sim_of_valid nf ps m i _ h1 h10, simRun_resRun, fill_present]

/-- with NaN in `y`: simulating the residuals gives back `y` at every position where `y` is present -/
theorem sim_residual_present (params : List (Option α)) (mean ini : Option α)
    (xs : List (Option α)) (rs : List α) (h : residual nf params mean ini xs = .ok rs) :
    ∃ zs, sim nf params mean ini (rs.map some) = .ok zs ∧ zs.length = xs.length ∧
      ∀ (t : Nat) (y : α), xs[t]? = some (some y) → zs[t]? = some y := by
  obtain ⟨ps, m, i, rfl, rfl, rfl, h1, h10, rfl⟩ := residual_eq_ok nf _ _ _ _ _ h
  refine ⟨_, sim_of_valid nf ps m i _ h1 h10, ?_, ?_⟩
  · rw [simRun_resRun, fill_length]
  · intro t y hx
    rw [simRun_resRun]
    exact fill_at_present _ _ _ _ t y hx

/-- missing inputs give zero residuals -/
theorem residual_zero_at_missing (params : List (Option α)) (mean ini : Option α)
    (xs : List (Option α)) (rs : List α) (h : residual nf params mean ini xs = .ok rs)
    (t : Nat) (ht : xs[t]? = some none) : rs[t]? = some 0 := by
  obtain ⟨ps, m, i, rfl, rfl, rfl, h1, h10, rfl⟩ := residual_eq_ok nf _ _ _ _ _ h
  exact resRun_at_missing _ _ _ _ t ht

/-! ### the Python wrappers: what the defaults stand for, and the inverse through them -/

/-- `armodel_sim(params, innov)` is `sim_mean = 0, sim_ini = 0`; `armodel_sim(params, innov, m)` starts
from `sim_ini = m`; `armodel_residual(params, y)` uses `nanmean(y)` for both (any `isnan`) -/
theorem wrapper_defaults (nan : α → Bool) (params : List (Option α)) (series : List (Option α))
    (m i μ : Option α) :
    pySim nan params series none none = sim nan params (some 0) (some 0) series ∧
    pySim nan params series (some m) none = sim nan params m m series ∧
    pySim nan params series none (some i) = sim nan params (some 0) i series ∧
    pySim nan params series (some m) (some i) = sim nan params m i series ∧
    pyResidual nan params series μ none none = residual nan params μ μ series ∧
    pyResidual nan params series μ (some m) none = residual nan params m m series ∧
    pyResidual nan params series μ none (some i) = residual nan params μ i series ∧
    pyResidual nan params series μ (some m) (some i) = residual nan params m i series :=
  ⟨rfl, rfl, rfl, rfl, rfl, rfl, rfl, rfl⟩

/-- the inverse through the wrappers, same `sim_mean` / `sim_ini` arguments on both calls (each left at
its default or passed explicitly).  Hypothesis `hm`: the mean is passed explicitly, or the data mean the
residual wrapper falls back to is the 0 the simulation wrapper falls back to — see
`wrapper_defaults_not_inverse` for why it cannot be dropped. -/
theorem wrapper_residual_sim (params : List (Option α)) (innov : List (Option α))
    (meanArg iniArg : Option (Option α)) (μ : Option α) (ys : List α)
    (hm : meanArg ≠ none ∨ μ = some 0)
    (h : pySim nf params innov meanArg iniArg = .ok ys) :
    pyResidual nf params (ys.map some) μ meanArg iniArg = .ok (innov.map zeroNaN) := by
  cases meanArg with
  | some m => cases iniArg <;> exact residual_sim _ _ _ _ _ h
  | none =>
    have hμ : μ = some 0 := by simpa using hm
    subst hμ
    cases iniArg <;> exact residual_sim _ _ _ _ _ h

theorem wrapper_sim_residual (params : List (Option α)) (ys : List α)
    (meanArg iniArg : Option (Option α)) (μ : Option α) (rs : List α)
    (hm : meanArg ≠ none ∨ μ = some 0)
    (h : pyResidual nf params (ys.map some) μ meanArg iniArg = .ok rs) :
    pySim nf params (rs.map some) meanArg iniArg = .ok ys := by
  cases meanArg with
  | some m => cases iniArg <;> exact sim_residual _ _ _ _ _ h
  | none =>
    have hμ : μ = some 0 := by simpa using hm
    subst hμ
    cases iniArg <;> exact sim_residual _ _ _ _ _ h

/-- with `sim_mean` left at its default on both calls the wrappers are NOT inverses: the simulation
centres on 0, the residual on the mean of its input (order 1, φ = 1, one innovation equal to 1:
the simulated series is `[1]`, its data mean is 1, the residual comes back as 0) -/
theorem wrapper_defaults_not_inverse :
    pySim nf [some (1 : ℤ)] [some 1] none none = .ok [1] ∧
    pyResidual nf [some (1 : ℤ)] [some 1] (some 1) none none = .ok [0] := by
  constructor <;> rfl

/-- the wrappers are the kernels at the resolved arguments, whatever the series (any `isnan`) -/
theorem wrapper_is_kernel (nan : α → Bool) (params : List (Option α)) (series : List (Option α))
    (meanArg iniArg : Option (Option α)) (μ : Option α) :
    pySim nan params series meanArg iniArg =
      sim nan params (resolveMean (some 0) meanArg)
        (resolveIni (resolveMean (some 0) meanArg) iniArg) series ∧
    pyResidual nan params series μ meanArg iniArg =
      residual nan params (resolveMean μ meanArg) (resolveIni (resolveMean μ meanArg) iniArg) series :=
  ⟨rfl, rfl⟩

/-- `armodel_sim` / `armodel_residual` accept exactly: order 1..10, no NaN coefficient, and the mean and
initial value the call stands for (argument or default) are not NaN — for every series, empty included -/
theorem wrapper_accepts_iff (nan : α → Bool) (params : List (Option α)) (series : List (Option α))
    (meanArg iniArg : Option (Option α)) (μ : Option α) :
    ((∃ ys, pySim nan params series meanArg iniArg = .ok ys) ↔
      (1 ≤ params.length ∧ params.length ≤ 10 ∧ none ∉ params ∧
        resolveMean (some 0) meanArg ≠ none ∧
        resolveIni (resolveMean (some 0) meanArg) iniArg ≠ none)) ∧
    ((∃ rs, pyResidual nan params series μ meanArg iniArg = .ok rs) ↔
      (1 ≤ params.length ∧ params.length ≤ 10 ∧ none ∉ params ∧
        resolveMean μ meanArg ≠ none ∧ resolveIni (resolveMean μ meanArg) iniArg ≠ none)) :=
  ⟨(accepts_iff nan params _ _ series).1, (accepts_iff nan params _ _ series).2⟩

/-- the error the wrappers raise, guard by guard (order first, then coefficients, mean, initial value) -/
theorem wrapper_rejects (nan : α → Bool) (params : List (Option α)) (series : List (Option α))
    (meanArg iniArg : Option (Option α)) (μ : Option α) :
    ((params.length = 0 ∨ 10 < params.length) →
      pySim nan params series meanArg iniArg = .error .badOrder ∧
      pyResidual nan params series μ meanArg iniArg = .error .badOrder) ∧
    (1 ≤ params.length → params.length ≤ 10 → none ∈ params →
      pySim nan params series meanArg iniArg = .error .nanParam ∧
      pyResidual nan params series μ meanArg iniArg = .error .nanParam) ∧
    (1 ≤ params.length → params.length ≤ 10 → none ∉ params →
      (resolveMean (some 0) meanArg = none → pySim nan params series meanArg iniArg = .error .nanMean) ∧
      (resolveMean μ meanArg = none → pyResidual nan params series μ meanArg iniArg = .error .nanMean)) ∧
    (1 ≤ params.length → params.length ≤ 10 → none ∉ params →
      (resolveMean (some 0) meanArg ≠ none → resolveIni (resolveMean (some 0) meanArg) iniArg = none →
        pySim nan params series meanArg iniArg = .error .nanIni) ∧
      (resolveMean μ meanArg ≠ none → resolveIni (resolveMean μ meanArg) iniArg = none →
        pyResidual nan params series μ meanArg iniArg = .error .nanIni)) := by
  refine ⟨fun h => ⟨(rejects_bad_order nan params _ _ series h).1, (rejects_bad_order nan params _ _ series h).2⟩,
    fun h1 h10 h => ⟨(rejects_nan_param nan params _ _ series h1 h10 h).1,
      (rejects_nan_param nan params _ _ series h1 h10 h).2⟩, ?_, ?_⟩
  · intro h1 h10 h
    constructor
    · intro hm
      show sim nan params (resolveMean (some 0) meanArg) _ series = _
      rw [hm]; exact (rejects_nan_mean nan params _ series h1 h10 h).1
    · intro hm
      show residual nan params (resolveMean μ meanArg) _ series = _
      rw [hm]; exact (rejects_nan_mean nan params _ series h1 h10 h).2
  · intro h1 h10 h
    constructor
    · intro hm hi
      obtain ⟨m, hm'⟩ := Option.ne_none_iff_exists'.mp hm
      show sim nan params (resolveMean (some 0) meanArg) (resolveIni (resolveMean (some 0) meanArg) iniArg) series = _
      rw [hi, hm']; exact (rejects_nan_ini nan params m series h1 h10 h).1
    · intro hm hi
      obtain ⟨m, hm'⟩ := Option.ne_none_iff_exists'.mp hm
      show residual nan params (resolveMean μ meanArg) (resolveIni (resolveMean μ meanArg) iniArg) series = _
      rw [hi, hm']; exact (rejects_nan_ini nan params m series h1 h10 h).2

/-- `params` given as a Python float is the order-1 coefficient vector (`np.atleast_1d`) -/
theorem wrapper_scalar_params (nan : α → Bool) (φ : Option α) (series : List (Option α))
    (meanArg iniArg : Option (Option α)) (μ : Option α) :
    paramsOf (.scalar φ) = [φ] ∧
    pySim nan (paramsOf (.scalar φ)) series meanArg iniArg = pySim nan [φ] series meanArg iniArg ∧
    pyResidual nan (paramsOf (.scalar φ)) series μ meanArg iniArg = pyResidual nan [φ] series μ meanArg iniArg ∧
    ((∃ ys, pySim nan (paramsOf (.scalar φ)) series meanArg iniArg = .ok ys) ↔
      (φ ≠ none ∧ resolveMean (some 0) meanArg ≠ none ∧ resolveIni (resolveMean (some 0) meanArg) iniArg ≠ none)) := by
  refine ⟨rfl, rfl, rfl, ?_⟩
  show (∃ ys, pySim nan [φ] series meanArg iniArg = .ok ys) ↔ _
  rw [(wrapper_accepts_iff nan [φ] series meanArg iniArg μ).1]
  cases φ <;> simp

/-- the recursion through `armodel_sim`, `sim_mean` / `sim_ini` each left at its default or passed:
`m`, `ini` are the values the call stands for (`m = 0` by default, `ini = m` by default) -/
theorem wrapper_sim_recursion (ps : List α) (m ini : α) (meanArg iniArg : Option (Option α))
    (innov : List (Option α)) (h1 : 1 ≤ ps.length) (h10 : ps.length ≤ 10)
    (hm : resolveMean (some 0) meanArg = some m) (hi : resolveIni (some m) iniArg = some ini) :
    ∃ ys, pySim nf (ps.map some) innov meanArg iniArg = .ok ys ∧
      ∃ hlen : ys.length = innov.length,
      ∀ (t : Nat) (ht : t < ys.length),
        ys[t] - m = (∑ k : Fin ps.length, ps[k.val] * (past ys ini t k.val - m))
                      + zeroNaN (innov[t]'(hlen ▸ ht)) := by
  have : pySim nf (ps.map some) innov meanArg iniArg = sim nf (ps.map some) (some m) (some ini) innov := by
    show sim nf _ (resolveMean (some 0) meanArg) (resolveIni (resolveMean (some 0) meanArg) iniArg) _ = _
    rw [hm, hi]
  rw [this]
  exact sim_recursion ps m ini innov h1 h10

/-- NaN innovation = zero innovation through `armodel_sim` (any `isnan`, any defaults) -/
theorem wrapper_nan_innovation_is_zero (nan : α → Bool) (params : List (Option α))
    (innov : List (Option α)) (meanArg iniArg : Option (Option α)) :
    pySim nan params (innov.map fun e => some (zeroNaN e)) meanArg iniArg =
      pySim nan params innov meanArg iniArg :=
  nan_innovation_is_zero nan params _ _ innov

/-- missing inputs give zero residuals through `armodel_residual` (any defaults, any data mean) -/
theorem wrapper_residual_zero_at_missing (params : List (Option α)) (xs : List (Option α))
    (μ : Option α) (meanArg iniArg : Option (Option α)) (rs : List α)
    (h : pyResidual nf params xs μ meanArg iniArg = .ok rs) (t : Nat) (ht : xs[t]? = some none) :
    rs[t]? = some 0 :=
  residual_zero_at_missing params _ _ xs rs h t ht

/-! ### the lag buffer is the whole state: a run cut anywhere resumes from it (any `isnan`) -/

/-- the simulation of `es1 ++ es2` is the simulation of `es1` followed by the simulation of `es2` started
from the buffer `simBuf` left by `es1`; same for the buffer itself.  This is what ties `simBuf` (never
returned by the code) to the outputs the code does return. -/
theorem kernel_sim_resume (nan : α → Bool) (ps : Vector α p) (m : α) (buf : Vector α p)
    (es1 es2 : List (Option α)) :
    simRun nan ps m buf (es1 ++ es2) =
      simRun nan ps m buf es1 ++ simRun nan ps m (simBuf nan ps buf es1) es2 ∧
    simBuf nan ps buf (es1 ++ es2) = simBuf nan ps (simBuf nan ps buf es1) es2 :=
  ⟨simRun_append nan ps m es1 es2 buf, simBuf_append nan ps es1 es2 buf⟩

theorem kernel_residual_resume (nan : α → Bool) (ps : Vector α p) (m : α) (buf : Vector α p)
    (xs1 xs2 : List (Option α)) :
    resRun nan ps m buf (xs1 ++ xs2) =
      resRun nan ps m buf xs1 ++ resRun nan ps m (resBuf nan ps m buf xs1) xs2 ∧
    resBuf nan ps m buf (xs1 ++ xs2) = resBuf nan ps m (resBuf nan ps m buf xs1) xs2 :=
  ⟨resRun_append nan ps m xs1 xs2 buf, resBuf_append nan ps m xs1 xs2 buf⟩

/-! ### the default mean of `armodel_residual` (`numpy.nanmean`) and series without data -/

section
variable {F : Type} [Field F]

/-- the data mean is undefined (NaN) exactly when no value is present: empty or all-missing series
(any `isnan` for the "if" direction) -/
theorem data_mean_undefined_iff (xs : List (Option F)) :
    dataMean nf xs = none ↔ ∀ x ∈ xs, x = none := by
  unfold dataMean
  rw [← dataCount_eq_zero_iff]
  by_cases h : dataCount xs = 0 <;> simp [h, nf]

/-- `armodel_residual(params, y)` with the default mean on an empty or all-missing series is rejected
(NaN mean) whatever `sim_ini`; an explicit mean makes the data mean irrelevant -/
theorem wrapper_residual_default_mean_without_data (nan : F → Bool) (params : List (Option F))
    (xs : List (Option F)) (iniArg : Option (Option F)) (m : Option F)
    (hx : ∀ x ∈ xs, x = none) :
    (1 ≤ params.length → params.length ≤ 10 → none ∉ params →
      pyResidualD nan params xs none iniArg = .error .nanMean) ∧
    (∃ e, pyResidualD nan params xs none iniArg = .error e) ∧
    pyResidualD nan params xs (some m) iniArg = residual nan params m (resolveIni m iniArg) xs := by
  have hμ : dataMean nan xs = none := by
    unfold dataMean
    rw [if_pos ((dataCount_eq_zero_iff xs).mpr hx)]
  have hnan : 1 ≤ params.length → params.length ≤ 10 → none ∉ params →
      pyResidualD nan params xs none iniArg = .error .nanMean := by
    intro h1 h10 hp
    exact ((wrapper_rejects nan params xs none iniArg (dataMean nan xs)).2.2.1 h1 h10 hp).2
      (by simp [resolveMean, hμ])
  refine ⟨hnan, ?_, rfl⟩
  by_cases hb : params.length = 0 ∨ 10 < params.length
  · exact ⟨_, ((wrapper_rejects nan params xs none iniArg (dataMean nan xs)).1 hb).2⟩
  · by_cases hp : none ∈ params
    · exact ⟨_, ((wrapper_rejects nan params xs none iniArg (dataMean nan xs)).2.1
        (by omega) (by omega) hp).2⟩
    · exact ⟨_, hnan (by omega) (by omega) hp⟩

/-- with data present the default mean is defined, so (order and coefficients being fine) the call is accepted -/
theorem wrapper_residual_default_mean_with_data (ps : List F) (xs : List (Option F))
    (h1 : 1 ≤ ps.length) (h10 : ps.length ≤ 10) (hx : ∃ v, some v ∈ xs) :
    ∃ rs, pyResidualD nf (ps.map some) xs none none = .ok rs := by
  have hμ : dataMean nf xs ≠ none := by
    intro h
    obtain ⟨v, hv⟩ := hx
    have := (data_mean_undefined_iff xs).mp h _ hv
    cases this
  obtain ⟨μ, hμ'⟩ := Option.ne_none_iff_exists'.mp hμ
  refine (wrapper_accepts_iff nf (ps.map some) xs none none (dataMean nf xs)).2.mpr ?_
  simp [resolveMean, resolveIni, hμ', h1, h10]

end

/-! ### the recursion is linear: scale freedom, a common shift, additivity

Every finite magnitude is inside the property's quantifier; these theorems are why one magnitude stands for
all of them in exact arithmetic, and the harness runs the real code on a ladder of powers of two from the
subnormal range to `1e270`. -/

/-- multiplying innovations, mean and initial value by `c` multiplies the simulated series by `c`
(missing stays missing; through the guards, every order, every length) -/
theorem sim_homogeneous (params : List (Option α)) (mean ini : Option α) (innov : List (Option α)) (c : α) :
    sim nf params (scaleOpt c mean) (scaleOpt c ini) (innov.map (scaleOpt c)) =
      (sim nf params mean ini innov).map (List.map (c * ·)) :=
  sim_homogeneous' params mean ini innov c

theorem residual_homogeneous (params : List (Option α)) (mean ini : Option α) (xs : List (Option α)) (c : α) :
    residual nf params (scaleOpt c mean) (scaleOpt c ini) (xs.map (scaleOpt c)) =
      (residual nf params mean ini xs).map (List.map (c * ·)) :=
  residual_homogeneous' params mean ini xs c

/-- the same through `armodel_sim`, `sim_mean` / `sim_ini` scaled when passed, left at their defaults otherwise -/
theorem wrapper_sim_homogeneous (params : List (Option α)) (innov : List (Option α))
    (meanArg iniArg : Option (Option α)) (c : α) :
    pySim nf params (innov.map (scaleOpt c)) (meanArg.map (scaleOpt c)) (iniArg.map (scaleOpt c)) =
      (pySim nf params innov meanArg iniArg).map (List.map (c * ·)) := by
  have h0 : scaleOpt c (some (0 : α)) = some 0 := by simp [scaleOpt]
  cases meanArg with
  | none =>
    cases iniArg with
    | none =>
      have := sim_homogeneous' params (some 0) (some 0) innov c
      rw [h0] at this
      exact this
    | some i =>
      have := sim_homogeneous' params (some 0) i innov c
      rw [h0] at this
      exact this
  | some m =>
    cases iniArg with
    | none => exact sim_homogeneous' params m m innov c
    | some i => exact sim_homogeneous' params m i innov c

/-- adding `d` to mean and initial value adds `d` to the simulated series; adding `d` to mean, initial value
and inputs leaves the residuals unchanged: only `ini - mean` and `y - mean` matter -/
theorem sim_shift_invariant (params : List (Option α)) (m i d : α) (innov : List (Option α)) :
    sim nf params (some (m + d)) (some (i + d)) innov =
      (sim nf params (some m) (some i) innov).map (List.map (· + d)) :=
  sim_shift' params m i d innov

theorem residual_shift_invariant (params : List (Option α)) (m i d : α) (xs : List (Option α)) :
    residual nf params (some (m + d)) (some (i + d)) (xs.map (shiftOpt d)) =
      residual nf params (some m) (some i) xs :=
  residual_shift' params m i d xs

/-- superposition: the run on the sum of two innovation series (means and lag buffers added) is the sum of
the two runs, every order `p` -/
theorem kernel_sim_additive (ps : Vector α p) (m m' : α) (es es' : List (Option α)) (buf buf' : Vector α p) :
    simRun nf ps (m + m') (Vector.zipWith (· + ·) buf buf') (addInnov es es') =
      List.zipWith (· + ·) (simRun nf ps m buf es) (simRun nf ps m' buf' es') :=
  simRun_add ps m m' es es' buf buf'

/-! ### the `isnan` tests on computed values never fire unless a computed value is NaN

The exact theorems above take `isnan = false` on computed values.  For any `isnan` (the `Float` one included):
as long as it is false on the lag buffer entries the simulation reads, resp. on `inputs[i] - sim_mean`, the run
is the run without those tests. -/

theorem kernel_sim_isnan_skip_dead (nan : α → Bool) (ps : Vector α p) (m : α) (es : List (Option α))
    (buf : Vector α p) (h : ∀ n k (hk : k < p), nan (simBuf nf ps buf (es.take n))[k] = false) :
    simRun nan ps m buf es = simRun nf ps m buf es :=
  simRun_nan_dead nan ps m es buf h

theorem kernel_residual_isnan_dead (nan : α → Bool) (ps : Vector α p) (m : α) (xs : List (Option α))
    (buf : Vector α p) (h : ∀ x, some x ∈ xs → nan (x - m) = false) :
    resRun nan ps m buf xs = resRun nf ps m buf xs :=
  resRun_nan_dead nan ps m xs buf h

/-! ### histories of calls on one set of argument objects (`Model/C17Hist.lean`)

The functions keep no state: a call reads the argument objects as they are, writes none of them, and a
rejected call leaves nothing behind.  `ops` is an arbitrary list of operations (in-place edits, other
objects, feeding a result back, calls of either function — accepted or rejected). -/

/-- the reply of a call is the wrapper applied to the contents of the objects at that moment -/
theorem history_call_reads_current_contents (nan : α → Bool) (s : St α) (nm : Option α)
    (ma ia : Option (Option α)) :
    (step nan s (.callSim ma ia)).2 = some (pySim nan s.params s.series ma ia) ∧
    (step nan s (.callRes nm ma ia)).2 = some (pyResidual nan s.params s.series nm ma ia) :=
  ⟨rfl, rfl⟩

/-- a call, accepted or rejected, writes neither the coefficient array nor the series -/
theorem history_call_writes_no_argument (nan : α → Bool) (s : St α) (op : Op α) (h : op.isCall = true) :
    (step nan s op).1.params = s.params ∧ (step nan s op).1.series = s.series :=
  step_call_args nan s op h

/-- fault path: a rejected call leaves every object as it was -/
theorem history_rejected_call_leaves_nothing (nan : α → Bool) (s : St α) (op : Op α) (e : Err)
    (h : (step nan s op).2 = some (.error e)) : (step nan s op).1 = s :=
  step_rejected nan s op e h

/-- the reply at position `n` of any history is the reply of that operation in the state the first `n`
operations lead to -/
theorem history_reply_at (nan : α → Bool) : ∀ (ops : List (Op α)) (s : St α) (n : Nat),
    (run nan s ops)[n]? = ops[n]?.map fun op => (step nan (exec nan s (ops.take n)) op).2 := by
  intro ops; induction ops with
  | nil => intro s n; simp [run]
  | cons op ops ih =>
    intro s n
    cases n with
    | zero => simp [run, exec]
    | succ n => simp [run, exec, ih]

/-- a rejected call anywhere in a history is invisible: every other reply and the final state are those of
the history without it -/
theorem history_rejected_call_invisible (nan : α → Bool) (s : St α) (ops1 ops2 : List (Op α)) (op : Op α)
    (e : Err) (h : (step nan (exec nan s ops1) op).2 = some (.error e)) :
    run nan s (ops1 ++ op :: ops2) = run nan s ops1 ++ some (.error e) :: run nan (exec nan s ops1) ops2 ∧
    run nan s (ops1 ++ ops2) = run nan s ops1 ++ run nan (exec nan s ops1) ops2 ∧
    exec nan s (ops1 ++ op :: ops2) = exec nan s (ops1 ++ ops2) := by
  have hs := step_rejected nan _ op e h
  refine ⟨?_, run_append nan ops1 ops2 s, ?_⟩
  · rw [run_append]; simp only [run, h, hs]
  · rw [exec_append, exec_append]; simp only [exec, hs]

/-- the inverse inside a history: simulate, hand the returned array over as the series, take the residuals
with the same `sim_mean` (passed explicitly) and `sim_ini` — whatever rejected calls happen in between -/
theorem history_inverse (params : List (Option α)) (innov : List (Option α)) (lst : Option (List (Option α)))
    (m : Option α) (ia : Option (Option α)) (μ : Option α) (ys : List α) (faults : List (Op α))
    (hf : ∀ f ∈ faults, ∀ s : St α, ∃ e, (step nf s f).2 = some (.error e))
    (h : pySim nf params innov (some m) ia = .ok ys) :
    (run nf { params := params, series := innov, last := lst }
        ([.callSim (some m) ia] ++ faults ++ [.feedBack] ++ faults ++ [.callRes μ (some m) ia])).getLast? =
      some (some (.ok (innov.map zeroNaN))) := by
  have hfaults : ∀ (fs : List (Op α)), (∀ f ∈ fs, ∀ s : St α, ∃ e, (step nf s f).2 = some (.error e)) →
      ∀ s : St α, exec nf s fs = s := by
    intro fs; induction fs with
    | nil => intro _ s; rfl
    | cons f fs ih =>
      intro hfs s
      obtain ⟨e, he⟩ := hfs f List.mem_cons_self s
      simp only [exec, step_rejected nf s f e he]
      exact ih (fun g hg => hfs g (List.mem_cons_of_mem _ hg)) s
  rw [List.getLast?_eq_getElem?, run_length]
  have hlen : ([Op.callSim (some m) ia] ++ faults ++ [Op.feedBack] ++ faults ++ [Op.callRes μ (some m) ia]).length - 1 =
      ([Op.callSim (some m) ia] ++ faults ++ [Op.feedBack] ++ faults).length := by simp; omega
  rw [hlen, history_reply_at, List.getElem?_append_right (Nat.le_refl _)]
  simp only [Nat.sub_self, List.getElem?_cons_zero, Option.map_some, List.take_left']
  rw [exec_append, exec_append, exec_append, hfaults faults hf]
  simp only [exec, step, h, afterCall]
  rw [hfaults faults hf]
  rw [wrapper_residual_sim params innov (some m) ia μ ys (Or.inl (by simp)) h]

/-! ### arithmetic that rounds: what is exact in any arithmetic, and budgets in the standard model

`Fl rnd` (`Model/C17Round.lean`) is the SAME model text with every `+ - *` followed by `rnd`.  The standard
model `StdModel rnd u` is `|rnd x - x| ≤ u |x|` (no overflow / underflow).  `rnd53` (53-bit significand,
ties to even, unbounded exponent) is proved to satisfy it with `u = 2^-53`, and the driver runs the kernels
at `Fl rnd53` against the real C kernels value for value — so the two budgets below are theorems about the
arithmetic the real code computes in, as long as nothing leaves the normal range. -/

section rounding
variable {F : Type} [Field F] [LinearOrder F] [IsStrictOrderedRing F] {rnd : F → F} {q : Nat}

/-- `residual(sim e) = e` in rounding arithmetic, every order `q`, every starting lag buffer, every length, NaN
innovations anywhere: with `S` bounding mean, innovations and the lag buffer of the simulation at every step,
every residual is within `2 (1 + Σ|φ|) ((1+u)^(2q+2) - 1) S` of its innovation (first order: `4(q+1)u(1+Σ|φ|)S`;
errors are NOT amplified along the series — the residual kernel is a finite filter of the output) -/
theorem kernel_residual_sim_rounded {u : F} (h : StdModel rnd u) (ps : Vector (Fl rnd) q) (m : Fl rnd)
    (buf : Vector (Fl rnd) q) (es : List (Option (Fl rnd))) (S : F)
    (hm : |m.val| ≤ S) (he : ∀ e ∈ es, |z0 e| ≤ S)
    (hb : ∀ n k (hk : k < q), |(simBuf nf ps buf (es.take n))[k].val| ≤ S)
    (t : Nat) (r : Fl rnd) (e : Option (Fl rnd))
    (hr : (resRun nf ps m buf ((simRun nf ps m buf es).map some))[t]? = some r) (het : es[t]? = some e) :
    |r.val - z0 e| ≤ 2 * (1 + absSum ps) * ((1 + u) ^ (2 * q + 2) - 1) * S := by
  have hS : 0 ≤ S := (abs_nonneg _).trans hm
  have hG := G_ge_one h.1
  have := coupled_run h ps m S hm es buf buf
    (fun k hk => by simp only [sub_self, abs_zero]; nlinarith) he hb t r e hr het
  have e2 : G u ^ (q + 1) = (1 + u) ^ (2 * q + 2) := by
    unfold G; rw [← pow_mul]; congr 1
  rw [← e2]; exact this

/-- the AR recursion in rounding arithmetic: every output misses `y[t]-m = Σ_k φ_k (y[t-k]-m) + e[t]`
(exact subtraction, exact sum, lags before the start = the starting buffer) by at most
`(1 + Σ|φ|) ((1+u)^(2q) - 1 + 2u) S` -/
theorem kernel_recursion_rounded {u : F} (h : StdModel rnd u) (ps : Vector (Fl rnd) q) (m : Fl rnd)
    (buf : Vector (Fl rnd) q) (es : List (Option (Fl rnd))) (S : F)
    (hm : |m.val| ≤ S) (he : ∀ e ∈ es, |z0 e| ≤ S)
    (hb : ∀ n k (hk : k < q), |(simBuf nf ps buf (es.take n))[k].val| ≤ S) :
    ∀ d ∈ recDefects ps m.val (buf.map Fl.val) (es.map z0) ((simRun nf ps m buf es).map Fl.val),
      |d| ≤ (1 + absSum ps) * ((1 + u) ^ (2 * q) - 1 + 2 * u) * S := by
  have hS : 0 ≤ S := (abs_nonneg _).trans hm
  have := recursion_run h ps m S hm es buf (buf.map Fl.val)
    (fun k hk => by
      simp only [Vector.getElem_map, sub_self, abs_zero]
      exact mul_nonneg (mul_nonneg (by norm_num) h.1) hS) he hb
  have e2 : G u ^ q = (1 + u) ^ (2 * q) := by unfold G; rw [← pow_mul]
  rw [← e2]; exact this

/-- the same started from the initial value, as `c_armodel_sim` does (lag buffer `fl(ini - m)` at every lag):
the lags before the start of the series are the EXACT `ini - m` -/
theorem kernel_recursion_rounded_from_ini {u : F} (h : StdModel rnd u) (ps : Vector (Fl rnd) q) (m ini : Fl rnd)
    (es : List (Option (Fl rnd))) (S : F)
    (hm : |m.val| ≤ S) (hi : |ini.val| ≤ S) (he : ∀ e ∈ es, |z0 e| ≤ S)
    (hb : ∀ n k (hk : k < q), |(simBuf nf ps (Vector.replicate q (ini - m)) (es.take n))[k].val| ≤ S) :
    ∀ d ∈ recDefects ps m.val (Vector.replicate q (ini.val - m.val)) (es.map z0)
        ((simRun nf ps m (Vector.replicate q (ini - m)) es).map Fl.val),
      |d| ≤ (1 + absSum ps) * ((1 + u) ^ (2 * q) - 1 + 2 * u) * S := by
  have := recursion_run h ps m S hm es (Vector.replicate q (ini - m)) (Vector.replicate q (ini.val - m.val))
    (fun k hk => by
      simp only [Vector.getElem_replicate, Fl.sub_val]
      rw [abs_sub_comm]
      refine (h.2 _).trans ?_
      have : |ini.val - m.val| ≤ S + S := (abs_sub _ _).trans (by linarith)
      have := mul_le_mul_of_nonneg_left this h.1
      linarith) he hb
  have e2 : G u ^ q = (1 + u) ^ (2 * q) := by unfold G; rw [← pow_mul]
  rw [← e2]; exact this

end rounding

/-- IEEE double rounding without range limits is an instance of the standard model, `u = 2^-53` -/
theorem double_rounding_is_standard_model : StdModel rnd53 ((2 : ℚ) ^ (-53 : ℤ)) := rnd53_std

/-- hence, in the arithmetic of the real kernels (nothing leaving the normal range): -/
theorem kernel_residual_sim_double {q : Nat} (ps : Vector (Fl rnd53) q) (m : Fl rnd53)
    (buf : Vector (Fl rnd53) q) (es : List (Option (Fl rnd53))) (S : ℚ)
    (hm : |m.val| ≤ S) (he : ∀ e ∈ es, |z0 e| ≤ S)
    (hb : ∀ n k (hk : k < q), |(simBuf nf ps buf (es.take n))[k].val| ≤ S)
    (t : Nat) (r : Fl rnd53) (e : Option (Fl rnd53))
    (hr : (resRun nf ps m buf ((simRun nf ps m buf es).map some))[t]? = some r) (het : es[t]? = some e) :
    |r.val - z0 e| ≤ 2 * (1 + absSum ps) * ((1 + (2 : ℚ) ^ (-53 : ℤ)) ^ (2 * q + 2) - 1) * S :=
  kernel_residual_sim_rounded rnd53_std ps m buf es S hm he hb t r e hr het

/-- order 1, ANY arithmetic in which `0 + x = x` and `x - x = 0` for finite `x` (IEEE double included, no
other law needed) and any `isnan`: the residual at a missing input is EXACTLY zero (for order ≥ 2 the
ascending prediction and the descending subtraction round differently: zero up to rounding only) -/
theorem residual_zero_at_missing_order1_any_arithmetic {β : Type} [Add β] [Sub β] [Mul β] [OfNat β 0]
    (nan : β → Bool) (fin : β → Prop) (h0 : ∀ x : β, 0 + x = x) (hs : ∀ x, fin x → x - x = 0)
    (ps : Vector β 1) (m : β) (xs : List (Option β)) (buf : Vector β 1) (t : Nat)
    (ht : xs[t]? = some none) (hfin : fin (ps[0] * (resBuf nan ps m buf (xs.take t))[0])) :
    (resRun nan ps m buf xs)[t]? = some 0 :=
  resRun_order1_missing_exact nan fin h0 hs ps m xs buf t ht hfin

/-! ### Lean's own `Float`: stated, not proved

The `Float` instance of the very same model text is executed by the driver and compared bit for bit with the
kernels; the statements below say what the property means at `Float` (rounding budgets, first order in
`u = 2⁻⁵³`, the ones the harness oracle applies to the real code).  They are not theorems: Lean's `Float`
is opaque to the kernel.  What IS proved about rounding: `kernel_recursion_rounded`, `kernel_residual_sim_rounded`
(any arithmetic meeting the standard model) and `double_rounding_is_standard_model` (`rnd53`, the rounding the
driver runs value for value against the real kernels) — i.e. the first two statements below for IEEE double
arithmetic without overflow / underflow, with the explicit constants of those theorems.  The third (`sim(residual y)`,
errors amplified by the impulse response) is stated only. -/

/-- largest absolute value of a list (0 for the empty list) -/
def maxAbs (xs : List Float) : Float := xs.foldl (fun a x => if a < x.abs then x.abs else a) 0
/-- sum of absolute values -/
def sumAbs (xs : List Float) : Float := xs.foldl (fun a x => a + x.abs) 0
/-- `8 (p+4) u (1+Σ|φ|) (max|y| + |m| + |ini| + max|e|)` -/
def floatBudget (ps : List Float) (m ini : Float) (es ys : List Float) : Float :=
  8 * (ps.length + 4).toFloat * 1.1102230246251565e-16 * (1 + sumAbs ps) *
    (maxAbs ys + m.abs + ini.abs + maxAbs es)
def allFinite (xs : List Float) : Prop := ∀ x ∈ xs, x.isFinite = true
/-- `Σ_k φ[k]·(y[t-(k+1)] - m)` in the order of the list -/
def floatLagSum (ps ys : List Float) (m ini : Float) (t : Nat) : Float :=
  ps.zipIdx.foldl (fun acc φk => acc + φk.1 * (past ys ini t φk.2 - m)) 0

/-- the recursion at `Float`, one step at a time, within the budget (finite inputs, no overflow) -/
def float_recursion_statement : Prop :=
  ∀ (ps : List Float) (m ini : Float) (es ys : List Float),
    1 ≤ ps.length → ps.length ≤ 10 → allFinite ps → allFinite es → m.isFinite = true → ini.isFinite = true →
    sim Float.isNaN (ps.map some) (some m) (some ini) (es.map some) = .ok ys → allFinite ys →
    ∀ (t : Nat) (h1 : t < ys.length) (h2 : t < es.length),
      ((ys[t] - m) - (floatLagSum ps ys m ini t + es[t])).abs ≤ floatBudget ps m ini es ys

/-- `residual (sim e) = e` at `Float`, within the budget (the residual kernel is a finite filter of `y`:
rounding errors are not amplified) -/
def float_residual_sim_statement : Prop :=
  ∀ (ps : List Float) (m ini : Float) (es ys rs : List Float),
    allFinite ps → allFinite es → m.isFinite = true → ini.isFinite = true →
    sim Float.isNaN (ps.map some) (some m) (some ini) (es.map some) = .ok ys → allFinite ys →
    residual Float.isNaN (ps.map some) (some m) (some ini) (ys.map some) = .ok rs →
    ∀ (t : Nat) (h1 : t < rs.length) (h2 : t < es.length),
      (rs[t] - es[t]).abs ≤ floatBudget ps m ini es ys

/-- `sim (residual y) = y` at `Float`: the one-step budget amplified by the absolute impulse response of
the AR model (`sim` on `|φ|` with a unit impulse, summed), as the errors travel through the recursion -/
def float_sim_residual_statement : Prop :=
  ∀ (ps : List Float) (m ini : Float) (ys rs zs ψ : List Float),
    allFinite ps → allFinite ys → m.isFinite = true → ini.isFinite = true →
    residual Float.isNaN (ps.map some) (some m) (some ini) (ys.map some) = .ok rs → allFinite rs →
    sim Float.isNaN (ps.map some) (some m) (some ini) (rs.map some) = .ok zs →
    sim Float.isNaN (ps.map fun φ => some φ.abs) (some 0) (some 0)
      ((List.range ys.length).map fun j => some (if j = 0 then 1 else 0)) = .ok ψ →
    ∀ (t : Nat) (h1 : t < zs.length) (h2 : t < ys.length),
      (zs[t] - ys[t]).abs ≤ (1 + sumAbs ψ) * floatBudget ps m ini rs ys

/-! ### non-vacuity: the hypotheses are met by concrete non-trivial inputs, sample evaluations -/

example : sim nf [some (2 : ℤ), some (-1)] (some 5) (some 10) [some 1, none, some 2, some (-1)]
    = .ok [11, 12, 15, 17] := by rfl
example : residual nf [some (2 : ℤ), some (-1)] (some 5) (some 10) [some 11, some 12, some 15, some 17]
    = .ok [1, 0, 2, -1] := by rfl
example : residual nf [some (2 : ℤ), some (-1)] (some 5) (some 10) [some 11, none, some 10, none]
    = .ok [1, 0, -3, 0] := by rfl
example : (1 : Nat) ≤ [some (2 : ℤ), some (-1)].length ∧ [some (2 : ℤ), some (-1)].length ≤ 10 := by decide
example : sim nf ([] : List (Option ℤ)) (some 0) (some 0) [some 1] = .error .badOrder := by rfl
example : sim nf [some (1 : ℤ), none] (some 0) (some 0) [some 1] = .error .nanParam := by rfl
example : past [11, 12, 15, (17 : ℤ)] 10 2 0 = 12 ∧ past [11, 12, 15, (17 : ℤ)] 10 2 1 = 11
    ∧ past [11, 12, 15, (17 : ℤ)] 10 2 2 = 10 := by decide
/-- `hm` of `wrapper_residual_sim` is satisfiable both ways -/
example : ((some (some (5 : ℤ)) : Option (Option ℤ)) ≠ none ∨ (none : Option ℤ) = some 0) := by simp
example : ((none : Option (Option ℤ)) ≠ none ∨ (some (0 : ℤ)) = some 0) := by simp
/-- hypotheses of `wrapper_sim_recursion`: defaults give `m = 0`, `ini = m`; explicit values are themselves -/
example : resolveMean (some (0 : ℤ)) none = some 0 ∧ resolveIni (some (0 : ℤ)) none = some 0 := ⟨rfl, rfl⟩
example : resolveMean (some (0 : ℤ)) (some (some 5)) = some 5 ∧ resolveIni (some (5 : ℤ)) (some (some 10)) = some 10 :=
  ⟨rfl, rfl⟩
example : resolveMean (some (0 : ℤ)) (some (some 5)) = some 5 ∧ resolveIni (some (5 : ℤ)) none = some 5 := ⟨rfl, rfl⟩
/-- series without data: empty, or all missing -/
example : ∀ x ∈ ([] : List (Option ℚ)), x = none := by simp
example : ∀ x ∈ ([none, none] : List (Option ℚ)), x = none := by simp
example : ∃ v, some v ∈ [none, some (3 : ℚ), none] := ⟨3, by simp⟩
/-- scale freedom and shift, a concrete instance (c = 3, d = 7) -/
example : sim nf [some (2 : ℤ), some (-1)] (scaleOpt 3 (some 5)) (scaleOpt 3 (some 10))
    ([some 1, none, some 2, some (-1)].map (scaleOpt 3)) = .ok [33, 36, 45, 51] := by rfl
example : sim nf [some (2 : ℤ), some (-1)] (some (5 + 7)) (some (10 + 7)) [some 1, none, some 2, some (-1)]
    = .ok [18, 19, 22, 24] := by rfl
example : addInnov [some (1 : ℤ), none] [none, some 2] = [some 1, some 2] := by rfl
/-- a history with a fault in the middle: valid call, NaN written into the coefficients (rejected call),
coefficient restored, the result of the first call fed back, residuals = innovations -/
example : run nf { params := [some (2 : ℤ), some (-1)], series := [some 1, none, some 2, some (-1)], last := none }
    [.callSim (some (some 5)) (some (some 10)), .setParam 0 none, .callSim (some (some 5)) (some (some 10)),
     .setParam 0 (some 2), .feedBack, .callRes none (some (some 5)) (some (some 10)), .newParams [],
     .callRes none (some (some 5)) (some (some 10))]
    = [some (.ok [11, 12, 15, 17]), none, some (.error .nanParam), none, none, some (.ok [1, 0, 2, -1]), none,
       some (.error .badOrder)] := by rfl
/-- hypothesis `hf` of `history_inverse`: operations that are rejected in every state exist (order 0 call after
nothing — here: a call whose mean argument is NaN) -/
example : ∀ s : St ℤ, ∃ e, (step nf s (.callSim (some none) none)).2 = some (.error e) := by
  intro s
  show ∃ e, some (sim nf s.params none none s.series) = some (.error e)
  cases h : sim nf s.params none none s.series with
  | error e => exact ⟨e, rfl⟩
  | ok ys => exact absurd rfl ((accepts_iff nf s.params none none s.series).1.mp ⟨ys, h⟩).2.2.2.1
/-- the dead `isnan` test: hypothesis met by an `isnan` that fires on a value never computed -/
example : ∀ x, some x ∈ [some (11 : ℤ), some 12] → (fun v : ℤ => v == 1000) (x - 5) = false := by
  intro x hx; simp at hx; rcases hx with rfl | rfl <;> rfl
/-- a rounding that is not the identity and meets the standard model: every result 0.1 % too large -/
example : StdModel (fun x : ℚ => x * (1 + 1 / 1000)) (1 / 1000) := by
  refine ⟨by norm_num, fun x => ?_⟩
  rw [show x * (1 + 1 / 1000) - x = 1 / 1000 * x by ring, abs_mul]
  norm_num
/-- all hypotheses of `kernel_residual_sim_rounded` / `kernel_recursion_rounded` at once, on a run in which every
operation does round (order 1, φ = 1/2, one innovation, `S = 2`) -/
example : ∀ r, (resRun nf (#v[(⟨1 / 2⟩ : Fl (fun x : ℚ => x * (1 + 1 / 1000)))]) ⟨0⟩ (#v[⟨0⟩])
      ((simRun nf (#v[(⟨1 / 2⟩ : Fl (fun x : ℚ => x * (1 + 1 / 1000)))]) ⟨0⟩ (#v[⟨0⟩]) [some ⟨1⟩]).map some))[0]? = some r →
    |r.val - 1| ≤ 2 * (1 + absSum (#v[(⟨1 / 2⟩ : Fl (fun x : ℚ => x * (1 + 1 / 1000)))])) *
      ((1 + 1 / 1000) ^ (2 * 1 + 2) - 1) * 2 := by
  intro r hr
  have hstd : StdModel (fun x : ℚ => x * (1 + 1 / 1000)) (1 / 1000) := by
    refine ⟨by norm_num, fun x => ?_⟩
    rw [show x * (1 + 1 / 1000) - x = 1 / 1000 * x by ring, abs_mul]
    norm_num
  refine kernel_residual_sim_rounded hstd _ _ _ [some ⟨1⟩] 2 (by simp) (by simp [z0]) ?_ 0 r (some ⟨1⟩) hr rfl
  intro n k hk
  obtain rfl : k = 0 := by omega
  rcases n with _ | n
  · simp [simBuf]
  · simp [simBuf, simLoop, nf]
    norm_num [abs_le]
/-- the hypotheses of `kernel_recursion_rounded_from_ini` on the same kind of run (mean 1, initial value 2) -/
example : ∀ d ∈ recDefects (#v[(⟨1 / 2⟩ : Fl (fun x : ℚ => x * (1 + 1 / 1000)))]) 1 (Vector.replicate 1 ((2 : ℚ) - 1)) [1]
      ((simRun nf (#v[(⟨1 / 2⟩ : Fl (fun x : ℚ => x * (1 + 1 / 1000)))]) ⟨1⟩ (Vector.replicate 1 ((⟨2⟩ : Fl _) - ⟨1⟩))
        [some ⟨1⟩]).map Fl.val),
    |d| ≤ (1 + absSum (#v[(⟨1 / 2⟩ : Fl (fun x : ℚ => x * (1 + 1 / 1000)))])) * ((1 + 1 / 1000) ^ (2 * 1) - 1 + 2 * (1 / 1000)) * 2 := by
  have hstd : StdModel (fun x : ℚ => x * (1 + 1 / 1000)) (1 / 1000) := by
    refine ⟨by norm_num, fun x => ?_⟩
    rw [show x * (1 + 1 / 1000) - x = 1 / 1000 * x by ring, abs_mul]
    norm_num
  refine kernel_recursion_rounded_from_ini hstd _ ⟨1⟩ ⟨2⟩ [some ⟨1⟩] 2 (by simp) (by simp) (by simp [z0]) ?_
  intro n k hk
  obtain rfl : k = 0 := by omega
  rcases n with _ | n
  · simp [simBuf]; norm_num [abs_le]
  · simp [simBuf, simLoop, nf]
    norm_num [abs_le]
/-- order 1 in plain integer arithmetic: the hypotheses of `residual_zero_at_missing_order1_any_arithmetic` -/
example : (resRun (fun _ : ℤ => false) (#v[3]) 5 (#v[2]) [some 9, none, some 4])[1]? = some 0 :=
  residual_zero_at_missing_order1_any_arithmetic (fun _ => false) (fun _ => True) (by intro x; simp)
    (by intro x _; simp) _ _ _ _ 1 rfl trivial
/-- resuming: a non-trivial cut -/
example : simRun nf (toVec [(2 : ℤ), -1]) 5 (Vector.replicate 2 5) ([some 1, none] ++ [some 2, some (-1)])
    = [11, 12] ++ simRun nf (toVec [(2 : ℤ), -1]) 5 (simBuf nf (toVec [(2 : ℤ), -1]) (Vector.replicate 2 5) [some 1, none])
        [some 2, some (-1)] := by rfl

end HydroVerif.C17
