import HydroVerif.Model.C17
namespace HydroVerif.C17
theorem stub : nparamsMax = 10 := rfl
end HydroVerif.C17
