#!/usr/bin/env python
"""Self-contained check of property C10 (rank- and PIT-based forecast
diagnostics depend only on ranks and stay in range).

Run as:  PYTHONPATH=<tree>/src /venv/bin/python demo.py
Exits 0 when every check passes, 1 otherwise. It is meant to pass on the
unmodified tree and on the rewritten tree alike: every expected value is
computed here from the textbook definitions, never from the library.
"""
import math
import sys
import warnings

import numpy as np

import c_hydrodiy_stat
from hydrodiy.stat import metrics

NCHECK = 0
FAILURES = []


def check(cond, label):
    global NCHECK
    NCHECK += 1
    if not cond:
        FAILURES.append(label)
        if len(FAILURES) <= 30:
            print("FAILED:", label)


# ---------------------------------------------------------------------------
# Input generators (inside the quantifier: values are exactly tied or
# separated by much more than the tie tolerance eps=1e-6)
# ---------------------------------------------------------------------------
RNG = np.random.default_rng(20260929)
EPS_TIE = 1e-6


def lattice(shape, nlevels, step=0.01, lo=-3.):
    """ values lo + k*step: exact ties when two draws share k, gaps of at
    least step (>> eps) otherwise. Few levels = heavy ties. """
    k = RNG.integers(0, nlevels, size=shape)
    return lo + k*step


def distinct(shape, step=0.01, lo=-3.):
    n = int(np.prod(shape))
    k = RNG.permutation(max(n, 600))[:n]
    return (lo + k*step).reshape(shape)


MAPS = {
    "exp": np.exp,
    "arctan": np.arctan,
    "cubic": lambda x: x**3 + x,
    "affine": lambda x: 2.5*x - 7.,
    "affine_big": lambda x: 1e3*x + 1e5,
}


def ensemble_cases():
    """ yields (label, sim[n, m]) """
    for n in [2, 3, 5, 9]:
        for m in [1, 2, 3, 7, 20]:
            yield f"distinct n={n} m={m}", distinct((n, m))
            yield f"ties n={n} m={m}", lattice((n, m), 6)
            yield f"heavyties n={n} m={m}", lattice((n, m), 2)
            yield f"mixed n={n} m={m}", lattice((n, m), 3*m)
            # ensembles identical across forecasts
            row = lattice((1, m), 5)
            yield f"identical n={n} m={m}", np.repeat(row, n, axis=0)
            # some identical, some not, some permuted copies
            sim = lattice((n, m), 8)
            sim[-1] = RNG.permutation(sim[0])
            yield f"permcopy n={n} m={m}", sim
            # constant ensembles (all members tied), different levels
            sim = np.repeat(lattice((n, 1), 4), m, axis=1)
            yield f"constant n={n} m={m}", sim
            # large magnitude (value+1 == value is not the case here, but
            # spacing of doubles is ~1e-10)
            yield f"large n={n} m={m}", 1e6 + lattice((n, m), 10, step=1.)
    yield "big n=40 m=15", lattice((40, 15), 40)
    yield "big n=25 m=60", lattice((25, 60), 500)
    yield "big distinct n=30 m=20", distinct((30, 20))


# ---------------------------------------------------------------------------
# References
# ---------------------------------------------------------------------------
def ref_ensrank(sim):
    """ Weigel and Mason (2011): F[i,j] = (sum of the mid-ranks of ensemble i
    in the pooled ensemble (i,j) - m(m+1)/2)/m^2, i.e.
    (#{a>b} + #{a==b}/2)/m^2; rank_i = 1 + sum_j u(F[i,j]) with
    u = 0, 0.5, 1 for F <, ==, > 0.5 """
    n, m = sim.shape
    F = np.zeros((n, n))
    ranks = np.ones(n)
    for i in range(n):
        for j in range(i+1, n):
            a = sim[i][:, None]
            b = sim[j][None, :]
            cross2 = 2*int(np.sum(a > b)) + int(np.sum(a == b))
            F[i, j] = cross2/2./m/m
            if cross2 > m*m:
                ranks[i] += 1
            elif cross2 < m*m:
                ranks[j] += 1
            else:
                ranks[i] += 0.5
                ranks[j] += 0.5
    return F, ranks


def ref_midrank_sum(a, b):
    """ literal version: pooled mid-ranks of a within a+b """
    pooled = np.concatenate([a, b])
    rk = np.array([1 + np.sum(pooled < v) + (np.sum(pooled == v)-1)/2.
                   for v in pooled])
    return rk[:len(a)].sum()


def run_ensrank(sim, eps=EPS_TIE):
    sim = np.ascontiguousarray(sim, dtype=np.float64)
    n = sim.shape[0]
    fmat = np.zeros((n, n))
    ranks = np.zeros(n)
    ierr = c_hydrodiy_stat.ensrank(np.float64(eps), sim, fmat, ranks)
    return ierr, fmat, ranks


def dscore(obs, sim):
    with warnings.catch_warnings():
        warnings.simplefilter("ignore")
        with np.errstate(all="ignore"):
            return float(metrics.dscore(obs, sim))


# ---------------------------------------------------------------------------
# 1. ensemble ranks == pairwise mid-rank comparison
# ---------------------------------------------------------------------------
def test_ensrank():
    cases = list(ensemble_cases())
    # two passes in different orders: results must not depend on the call
    # history
    first = {}
    for ipass in range(2):
        order = range(len(cases)) if ipass == 0 \
            else RNG.permutation(len(cases))
        for ic in order:
            label, sim = cases[ic]
            sim0 = sim.copy()
            ierr, fmat, ranks = run_ensrank(sim)
            check(ierr == 0, f"ensrank ierr {label}")
            check(np.array_equal(sim, sim0), f"ensrank input kept {label}")
            Fe, re = ref_ensrank(sim)
            iu = np.triu_indices(sim.shape[0], 1)
            check(np.allclose(fmat[iu], Fe[iu], rtol=0, atol=1e-12),
                  f"ensrank F {label}")
            check(np.array_equal(ranks, re), f"ensrank ranks {label}")
            check(np.all((fmat[iu] >= 0) & (fmat[iu] <= 1)),
                  f"ensrank F range {label}")
            check(abs(ranks.sum() - sim.shape[0]*(sim.shape[0]+1)/2.) < 1e-9,
                  f"ensrank rank total {label}")
            if ipass == 0:
                first[ic] = (fmat.copy(), ranks.copy())
            else:
                check(np.array_equal(fmat, first[ic][0]) and
                      np.array_equal(ranks, first[ic][1]),
                      f"ensrank history independence {label}")

    # literal rank-sum form on a few small cases
    for label, sim in cases[:40]:
        n, m = sim.shape
        _, fmat, _ = run_ensrank(sim)
        for i in range(n):
            for j in range(i+1, n):
                F = (ref_midrank_sum(sim[i], sim[j]) - m*(m+1)/2.)/m/m
                check(abs(F - fmat[i, j]) < 1e-12,
                      f"ensrank literal F {label} {i},{j}")

    # Weigel and Mason (2011) worked example
    sim = np.array([[22, 23, 26, 27, 32], [28, 31, 33, 34, 36],
                    [24, 25, 26, 27, 28]], dtype=np.float64)
    _, fmat, ranks = run_ensrank(sim)
    check(np.allclose(fmat[np.triu_indices(3, 1)], [0.08, 0.44, 0.98]),
          "ensrank Weigel F")
    check(np.array_equal(ranks, [1., 3., 2.]), "ensrank Weigel ranks")

    # ranks invariant under monotone maps and member permutations
    for label, sim in cases:
        if label.startswith("large"):
            continue
        _, fmat, ranks = run_ensrank(sim)
        for mname, fun in MAPS.items():
            _, fmat2, ranks2 = run_ensrank(fun(sim))
            check(np.array_equal(ranks, ranks2),
                  f"ensrank ranks map {mname} {label}")
            check(np.allclose(fmat, fmat2, rtol=0, atol=1e-12),
                  f"ensrank F map {mname} {label}")
        simp = np.array([RNG.permutation(row) for row in sim])
        _, fmat2, ranks2 = run_ensrank(simp)
        check(np.array_equal(ranks, ranks2), f"ensrank ranks perm {label}")
        check(np.allclose(fmat, fmat2, rtol=0, atol=1e-12),
              f"ensrank F perm {label}")


# ---------------------------------------------------------------------------
# 2. discrimination score
# ---------------------------------------------------------------------------
def test_dscore():
    ndefined = 0
    for label, sim in ensemble_cases():
        n, m = sim.shape
        obs = distinct((n,))
        obs0, sim0 = obs.copy(), sim.copy()
        D = dscore(obs, sim)
        check(np.array_equal(obs, obs0) and np.array_equal(sim, sim0),
              f"dscore inputs kept {label}")
        _, re = ref_ensrank(sim)
        if np.all(re == re[0]):
            # forecasts cannot be told apart: correlation undefined.
            check(np.isnan(D) or 0. <= D <= 1., f"dscore degenerate {label}")
            continue
        ndefined += 1
        check(0. <= D <= 1., f"dscore range {label} {D}")

        # definition: (1 + pearson(rank(obs), ensemble ranks))/2
        ro = np.argsort(np.argsort(obs)).astype(float)
        x = ro - ro.mean()
        y = re - re.mean()
        Dref = (1 + math.fsum(x*y)/math.sqrt(math.fsum(x*x)*math.fsum(y*y)))/2
        check(abs(D - Dref) < 1e-12, f"dscore definition {label}")

        # repeated call
        check(dscore(obs, sim) == D, f"dscore repeat {label}")

        # invariance: obs maps, sim maps, member permutations
        for mname, fun in MAPS.items():
            if label.startswith("large"):
                continue
            check(abs(dscore(fun(obs), sim) - D) < 1e-12,
                  f"dscore obs map {mname} {label}")
            check(abs(dscore(obs, fun(sim)) - D) < 1e-12,
                  f"dscore sim map {mname} {label}")
        simp = np.array([RNG.permutation(row) for row in sim])
        check(abs(dscore(obs, simp) - D) < 1e-12, f"dscore perm {label}")

        # tied observations: range only
        obst = lattice((n,), 2)
        Dt = dscore(obst, sim)
        check(np.isnan(Dt) or -1e-15 <= Dt <= 1+1e-15,
              f"dscore tied obs range {label}")

    check(ndefined > 100, "dscore enough defined cases")

    # perfect / inverse ordering
    for n in [2, 3, 4, 10, 57]:
        for m in [1, 2, 5, 33]:
            obs = distinct((n,))
            # members of forecast i all sit strictly between the levels of
            # neighbouring observations
            offs = lattice((n, m), 5, step=1e-4, lo=0.)
            D = dscore(obs, obs[:, None] + offs)
            check(abs(D - 1.) < 1e-12, f"dscore perfect n={n} m={m} {D}")
            check(D <= 1., f"dscore perfect <= 1 n={n} m={m}")
            D = dscore(obs, -obs[:, None] + offs)
            check(abs(D) < 1e-12, f"dscore inverse n={n} m={m} {D}")
            check(D >= 0., f"dscore inverse >= 0 n={n} m={m}")
            D = dscore(np.exp(obs), np.arctan(obs[:, None] + offs))
            check(abs(D - 1.) < 1e-12, f"dscore perfect mapped n={n} m={m}")
            # overlapping but stochastically ordered ensembles
            if m > 1:
                # (integer levels times one step: exact ties)
                lev = np.argsort(np.argsort(obs))[:, None] \
                    + np.arange(m)[None, :]
                sim = lev*0.01
                D = dscore(obs, sim)
                check(abs(D - 1.) < 1e-12, f"dscore shifted n={n} m={m}")

    # single member, with ties among forecasts
    obs = np.array([1., 2., 3., 4., 5., 6.])
    sim = np.array([[1.], [1.], [2.], [2.], [3.], [3.]])
    D = dscore(obs, sim)
    re = np.array([1.5, 1.5, 3.5, 3.5, 5.5, 5.5])
    ro = np.arange(6.)
    Dref = (1+np.corrcoef(ro, re)[0, 1])/2
    check(abs(D-Dref) < 1e-12, "dscore single member ties")


# ---------------------------------------------------------------------------
# 3. PIT
# ---------------------------------------------------------------------------
def test_pit():
    np.random.seed(5446)
    for n in [1, 2, 3, 10, 60]:
        for m in [1, 2, 3, 10, 41]:
            for tied in [False, True]:
                # members on even lattice levels; obs on odd levels (never
                # tied) or on any level (often tied)
                kens = RNG.integers(0, 12, size=(n, m))*2
                kobs = RNG.integers(-1, 13, size=n)*2 + (0 if tied else 1)
                for scale, shift in [(0.5, -2.), (1., 0.), (100., 1e6)]:
                    ens = shift + scale*kens
                    obs = shift + scale*kobs
                    below = np.sum(kens < kobs[:, None], axis=1)
                    atorbelow = np.sum(kens <= kobs[:, None], axis=1)
                    label = f"n={n} m={m} tied={tied} scale={scale}"

                    # --- deterministic PIT, the four scipy kinds
                    expected = {
                        "rank": (below+atorbelow+(below < atorbelow))*0.5/m,
                        "weak": atorbelow/m,
                        "strict": below/m,
                        "mean": (below+atorbelow)*0.5/m
                    }
                    for kind, exp in expected.items():
                        obs0, ens0 = obs.copy(), ens.copy()
                        pits, sudo = metrics.pit(obs, ens, kind=kind)
                        check(np.array_equal(obs, obs0) and
                              np.array_equal(ens, ens0),
                              f"pit inputs kept {label}")
                        pits = np.asarray(pits, dtype=float)
                        check(pits.shape == (n,), f"pit shape {label}")
                        check(np.all((pits >= 0) & (pits <= 1)),
                              f"pit range {kind} {label}")
                        check(np.allclose(pits, exp, rtol=0, atol=1e-12),
                              f"pit value {kind} {label}")
                    pits, _ = metrics.pit(obs, ens)
                    if not tied:
                        # strictly increasing with the number below
                        o = np.argsort(below, kind="stable")
                        db = np.diff(below[o])
                        dp = np.diff(pits[o])
                        check(np.all(dp[db > 0] > 0) and
                              np.all(dp[db == 0] == 0),
                              f"pit increasing {label}")

                    # --- randomised PIT
                    for cst in [0., 0.1, 0.3, 0.5]:
                        pits, sudo = metrics.pit(obs, ens, random=True,
                                                 cst=cst)
                        pits = np.asarray(pits, dtype=float)
                        check(np.all((pits >= 0) & (pits <= 1)),
                              f"rpit range cst={cst} {label}")
                        lo = (below+0.5-cst)/(1.-cst+m)
                        hi = (atorbelow+0.5-cst)/(1.-cst+m)
                        if not tied:
                            check(np.allclose(pits, lo, rtol=0, atol=1e-12),
                                  f"rpit value cst={cst} {label}")
                            o = np.argsort(below, kind="stable")
                            db = np.diff(below[o])
                            dp = np.diff(pits[o])
                            check(np.all(dp[db > 0] > 0) and
                                  np.all(np.abs(dp[db == 0]) < 1e-15),
                                  f"rpit increasing cst={cst} {label}")
                        else:
                            check(np.all(pits >= lo-1e-12) and
                                  np.all(pits <= hi+1e-12),
                                  f"rpit tie bracket cst={cst} {label}")
                            # value is one of the plotting positions
                            kk = pits*(1.-cst+m)-0.5+cst
                            check(np.allclose(kk, np.round(kk), atol=1e-9),
                                  f"rpit plotting position {label}")

                    # --- pseudo-PIT flag
                    for klev in [-4, 0, 5, 11, 22, 30]:
                        censor = shift + scale*klev
                        for rand in [False, True]:
                            _, sudo = metrics.pit(obs, ens, random=rand,
                                                  censor=censor)
                            sudo = np.asarray(sudo)
                            exp = (kobs <= klev) & \
                                np.any(kens <= klev, axis=1)
                            check(sudo.dtype == bool,
                                  f"pit flag dtype {label}")
                            check(np.array_equal(sudo, exp),
                                  f"pit flag c={klev} rand={rand} {label}")

    # default threshold 0 and the doc example of the test-suite
    pits, sudo = metrics.pit([3], [0, 0, 0, 1, 2, 3, 3, 3, 3, 3, 3, 4, 4, 4,
                                   4])
    check(abs(pits[0] - 0.5666666666666667) < 1e-12, "pit hassan")
    check(not sudo[0], "pit hassan flag")
    pits, sudo = metrics.pit([0., 0., 1., -1.], [[0., 1.], [1., 2.],
                                                 [0., 2.], [3., 4.]])
    check(np.array_equal(sudo, [True, False, False, False]),
          "pit default censor")


# ---------------------------------------------------------------------------
# 4. uniformity statistics
# ---------------------------------------------------------------------------
def ref_cvm(x):
    x = np.sort(np.asarray(x, dtype=float))
    n = len(x)
    return 1./(12*n) + math.fsum(((2*i-1.)/(2*n) - x[i-1])**2
                                 for i in range(1, n+1))


def ref_ad(x):
    x = np.sort(np.asarray(x, dtype=float))
    n = len(x)
    s = math.fsum((2*i-1)*(math.log(x[i-1]) + math.log1p(-x[n-i]))
                  for i in range(1, n+1))
    return -n - s/n


def uniform_samples():
    for n in [1, 2, 3, 4, 5, 7, 10, 20, 33, 100, 256, 400, 700]:
        yield f"uniform n={n}", RNG.uniform(0, 1, n)
        yield f"beta n={n}", RNG.beta(0.3, 2., n).clip(1e-12, 1-1e-12)
        yield f"even n={n}", (np.arange(n)+0.5)/n
        yield f"ties n={n}", RNG.integers(1, 5, n)/5.
        yield f"const n={n}", np.full(n, 0.25)
        yield f"near1 n={n}", 1 - RNG.uniform(0, 1, n)*1e-3
        yield f"near0 n={n}", RNG.uniform(0, 1, n)*1e-3
        yield f"sorted n={n}", np.sort(RNG.uniform(0, 1, n))
        yield f"reversed n={n}", np.sort(RNG.uniform(0, 1, n))[::-1].copy()
    yield "extreme", np.array([1e-300, 0.5, 1-1e-16])
    yield "tiny", np.array([1e-200])


def test_uniformity():
    samples = list(uniform_samples())
    first = {}
    for ipass in range(2):
        order = range(len(samples)) if ipass == 0 \
            else RNG.permutation(len(samples))
        for isamp in order:
            label, x = samples[isamp]
            x0 = x.copy()
            cv, cvp = metrics.cramer_von_mises_test(x)
            ad, adp = metrics.anderson_darling_test(x)
            check(np.array_equal(x, x0), f"uniformity input kept {label}")
            cv, cvp, ad, adp = float(cv), float(cvp), float(ad), float(adp)
            if ipass == 1:
                check((cv, cvp, ad, adp) == first[isamp],
                      f"uniformity history independence {label}")
                continue
            first[isamp] = (cv, cvp, ad, adp)

            r = ref_cvm(x)
            check(abs(cv-r) <= 1e-12*max(1., abs(r)), f"cvm stat {label}")
            check(0. <= cvp <= 1., f"cvm pvalue {label} {cvp}")
            r = ref_ad(x)
            check(abs(ad-r) <= 1e-9*max(1., abs(r)),
                  f"ad stat {label} {ad} {r}")
            check(0. <= adp <= 1., f"ad pvalue {label} {adp}")

            # any order of the data
            for _ in range(3):
                xp = RNG.permutation(x)
                cv2, cvp2 = metrics.cramer_von_mises_test(xp)
                ad2, adp2 = metrics.anderson_darling_test(xp)
                check(abs(cv2-cv) <= 1e-13*max(1., abs(cv)) and
                      abs(cvp2-cvp) <= 1e-12, f"cvm order {label}")
                check(abs(ad2-ad) <= 1e-10*max(1., abs(ad)) and
                      abs(adp2-adp) <= 1e-10, f"ad order {label}")

            # list input for AD
            ad3, adp3 = metrics.anderson_darling_test(list(x))
            check(float(ad3) == ad and float(adp3) == adp,
                  f"ad list input {label}")

            # rejection by the Anderson-Darling test
            n = len(x)
            for bad in [-1e-12, -0.5, 1+1e-12, 1.5, 10., -np.inf, np.inf,
                        np.nan]:
                for pos in sorted({0, n//2, n-1}):
                    xb = x.copy()
                    xb[pos] = bad
                    try:
                        metrics.anderson_darling_test(xb)
                        rejected = False
                    except Exception:
                        rejected = True
                    check(rejected, f"ad rejects {bad} at {pos} {label}")
            # ... and the library still works afterwards
            ad4, adp4 = metrics.anderson_darling_test(x)
            check(float(ad4) == ad and float(adp4) == adp,
                  f"ad after rejection {label}")

    # low level kernel: any order, rejection through the return code
    for label, x in samples:
        out = np.zeros(2)
        xx = RNG.permutation(x).astype(np.float64)
        ierr = c_hydrodiy_stat.ad_test(xx, out)
        check(ierr == 0, f"ad kernel ierr {label}")
        r = ref_ad(x)
        check(abs(out[0]-r) <= 1e-9*max(1., abs(r)), f"ad kernel {label}")
        check(0. <= out[1] <= 1., f"ad kernel pvalue {label}")
        for bad in [-0.1, 1.1, np.nan]:
            xx = RNG.permutation(x).astype(np.float64)
            xx[RNG.integers(0, len(xx))] = bad
            ierr = c_hydrodiy_stat.ad_test(xx, np.zeros(2))
            check(ierr != 0, f"ad kernel rejects {bad} {label}")


def test_alpha():
    np.random.seed(333)
    for n in [2, 5, 30, 200]:
        for m in [1, 3, 50]:
            for tied in [False, True]:
                kens = RNG.integers(0, 30, size=(n, m))*2
                kobs = RNG.integers(-1, 31, size=n)*2 + (0 if tied else 1)
                ens = 0.25*kens
                obs = 0.25*kobs
                for tp in ["CV", "KS", "AD"]:
                    for cst in [0., 0.3, 0.5]:
                        with warnings.catch_warnings():
                            warnings.simplefilter("ignore")
                            st, pv, sudo = metrics.alpha(obs, ens, cst=cst,
                                                         type=tp)
                        label = f"alpha {tp} n={n} m={m} tied={tied}"
                        check(0. <= float(pv) <= 1., f"pvalue {label} {pv}")
                        check(np.isfinite(float(st)), f"stat {label}")
                        exp = (kobs <= 0) & np.any(kens <= 0, axis=1)
                        check(np.array_equal(np.asarray(sudo), exp),
                              f"flag {label}")
                        if tp != "KS" and not tied:
                            # statistic == textbook formula on the PITs
                            below = np.sum(kens < kobs[:, None], axis=1)
                            p = (below+0.5-0.3)/(1.-0.3+m)
                            r = ref_cvm(p) if tp == "CV" else ref_ad(p)
                            check(abs(float(st)-r) <= 1e-9*max(1, abs(r)),
                                  f"stat value {label}")


def main():
    test_ensrank()
    test_dscore()
    test_pit()
    test_uniformity()
    test_alpha()
    print(f"{NCHECK} checks, {len(FAILURES)} failures")
    if FAILURES:
        sys.exit(1)
    print("C10 demo OK")
    sys.exit(0)


if __name__ == "__main__":
    main()
