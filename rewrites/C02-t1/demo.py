#!/usr/bin/env python
"""Demo / self-check for property C02 of hydrodiy.stat.transform.

  C02: for every transform and admissible parameters, jacobian(x) equals the
  derivative of forward at x (Softmax: determinant of the matrix of partial
  derivatives) to a relative accuracy of 1e-4 and is strictly positive on
  the domain; equivalently forward is strictly increasing.

Run as:   PYTHONPATH=<tree>/src /venv/bin/python demo.py
Exits 0 when every check passes, 1 otherwise.

The derivative is estimated with a 5-point central-difference stencil whose
steps are exactly representable (x, x+-h, x+-2h are checked with exact
rational arithmetic) and which sits inside one smooth branch.

Only the public API is used (constructors, .params/.constants vectors,
attribute access to parameters, forward, jacobian, reset).
"""
import sys
import math
import itertools
from fractions import Fraction

import numpy as np

from hydrodiy.stat import transform as T

RTOL = 1e-4          # accuracy stated by the property
NFAIL = 0
NCHECK = 0
COUNTS = {}


def fail(msg):
    global NFAIL
    NFAIL += 1
    if NFAIL <= 60:
        print("FAIL:", msg)


def check(cond, msg):
    global NCHECK
    NCHECK += 1
    if not cond:
        fail(msg)
    return cond


# ---------------------------------------------------------------------------
# Configurations: (label, factory, domain lo, domain hi, branch points,
#                  characteristic length function)
# ---------------------------------------------------------------------------
class Config(object):
    def __init__(self, label, factory, lo, hi, breaks, clen, scalar_ok=True):
        self.label = label
        self.factory = factory      # builds a NEW, fully configured object
        self.lo = lo                # open domain (lo, hi)
        self.hi = hi
        self.breaks = breaks        # points a stencil must not straddle
        self.clen = clen            # x -> length over which forward is smooth
        self.scalar_ok = scalar_ok  # float (non array) input supported

    def dist(self, x):
        d = min(x - self.lo, self.hi - x)
        for b in self.breaks:
            d = min(d, abs(x - b))
        return d


def configs():
    out = []

    # Identity
    out.append(Config("Identity", T.Identity, -np.inf, np.inf, [],
                      lambda x: 1.))

    # Logit
    for lower, logdelta in [(0., 0.), (-2., 1.5), (3., -2.), (0.5, 3.),
                            (-7., 10.), (0., -10.)]:
        def mk(lower=lower, logdelta=logdelta):
            t = T.Logit()
            t.params.values = [lower, logdelta]
            return t
        upper = lower + math.exp(logdelta)
        out.append(Config("Logit(%g,%g)" % (lower, logdelta), mk,
                          lower + 1e-9, upper - 1e-9, [],
                          lambda x, lo=lower, up=upper: min(x - lo, up - x)))

    # Log
    for nu, base in itertools.product([None, 0.1, 1., 50.],
                                      [None, 10., 2.]):
        def mk(nu=nu, base=base):
            t = T.Log() if base is None else T.Log(base=base)
            if nu is not None:
                t.nu = nu
            return t
        nuv = 1e-10 if nu is None else nu
        out.append(Config("Log(nu=%s,base=%s)" % (nu, base), mk,
                          -nuv + 2e-10, np.inf, [],
                          lambda x, nuv=nuv: x + nuv))

    # Log with a non default mininu (jacobian is defined for x+nu>mininu)
    def mk():
        t = T.Log(mininu=0.5)
        t.nu = 0.75
        return t
    out.append(Config("Log(mininu=.5,nu=.75)", mk, -0.25 + 1e-9, np.inf, [],
                      lambda x: x + 0.75))

    # BoxCox family
    bcpars = [(1e-10, 1.), (0.01, 0.2), (1., 0.5), (10., 1.), (0.5, 0.),
              (0.5, 1e-11), (2., 2.), (0.25, 3.), (1., 0.05)]
    for nu, lam in bcpars:
        def mk(nu=nu, lam=lam):
            t = T.BoxCox2()
            t.params.values = [nu, lam]
            return t
        out.append(Config("BoxCox2(%g,%g)" % (nu, lam), mk,
                          -nu + 2e-10, np.inf, [],
                          lambda x, nu=nu: x + nu))

        def mk(nu=nu, lam=lam):
            t = T.BoxCox1lam()
            t.constants.values = [nu]
            t.lam = lam
            return t
        out.append(Config("BoxCox1lam(%g,%g)" % (nu, lam), mk,
                          -nu + 2e-10, np.inf, [],
                          lambda x, nu=nu: x + nu))

        def mk(nu=nu, lam=lam):
            t = T.BoxCox1nu()
            t["lam"] = lam
            t["nu"] = nu
            return t
        out.append(Config("BoxCox1nu(%g,%g)" % (nu, lam), mk,
                          -nu + 2e-10, np.inf, [],
                          lambda x, nu=nu: x + nu))

        def mk(nu=nu, lam=lam):
            t = T.BoxCox2sym()
            t.nu = nu
            t.lam = lam
            return t
        out.append(Config("BoxCox2sym(%g,%g)" % (nu, lam), mk,
                          -np.inf, np.inf, [0.],
                          lambda x, nu=nu: abs(x) + nu))

    # negative exponents (constructor argument minilam)
    for nu, lam in [(0.5, -1.), (1., -0.5), (3., -2.)]:
        def mk(nu=nu, lam=lam):
            t = T.BoxCox2(minilam=-2.5)
            t.params.values = [nu, lam]
            return t
        out.append(Config("BoxCox2(%g,%g;minilam)" % (nu, lam), mk,
                          -nu + 2e-10, np.inf, [],
                          lambda x, nu=nu: x + nu))

        def mk(nu=nu, lam=lam):
            t = T.BoxCox2sym(minilam=-2.5)
            t.params.values = [nu, lam]
            return t
        out.append(Config("BoxCox2sym(%g,%g;minilam)" % (nu, lam), mk,
                          -np.inf, np.inf, [0.],
                          lambda x, nu=nu: abs(x) + nu))

    # constructor argument mininu: the domain of jacobian is x+nu>mininu
    def mk():
        t = T.BoxCox2(mininu=0.5)
        t.params.values = [0.75, 0.3]
        return t
    out.append(Config("BoxCox2(mininu=.5)", mk, -0.25 + 1e-9, np.inf, [],
                      lambda x: x + 0.75))

    # YeoJohnson (array inputs only)
    for nu, scale, lam in [(0., 1., 1.), (0., 1., 0.), (0.5, 0.1, 0.5),
                           (-1., 5., 2.), (0.25, 2., 3.), (2., 1., -1.),
                           (0., 1e-5, 1.5), (-3., 0.5, 0.3),
                           (0., 1., 1e-9), (0., 1., 2. + 1e-9)]:
        def mk(nu=nu, scale=scale, lam=lam):
            t = T.YeoJohnson()
            t.params.values = [nu, scale, lam]
            return t
        x0 = -nu / scale
        out.append(Config("YeoJohnson(%g,%g,%g)" % (nu, scale, lam), mk,
                          -np.inf, np.inf, [x0, x0 + 1e-10 / scale],
                          lambda x, nu=nu, sc=scale:
                              (abs(nu + sc * x) + 1) / sc,
                          scalar_ok=False))

    # LogSinh
    for loga, logb, xmax in [(-1., 0., 1.), (-5., 0., 1.), (0., 2., 10.),
                             (-0.2, -2., 10.), (-3., 1., 0.5),
                             (-10., -5., 100.), (-1., 5., 1.)]:
        def mk(loga=loga, logb=logb, xmax=xmax):
            t = T.LogSinh()
            t.xmax = xmax
            t.params.values = [loga, logb]
            return t
        a = math.exp(loga)
        b = math.exp(logb)
        lo = xmax * (-a / b + 1e-10)

        def clen(x, a=a, b=b, xmax=xmax):
            w = a + b * x / xmax
            return xmax / b * min(w, 1.)
        out.append(Config("LogSinh(%g,%g,%g)" % (loga, logb, xmax), mk,
                          lo + abs(lo) * 1e-6, np.inf, [], clen))

    # Reciprocal
    for nu in [None, 0.5, 3., 1e-3]:
        def mk(nu=nu):
            t = T.Reciprocal()
            if nu is not None:
                t.params["nu"] = nu
            return t
        nuv = 1e-10 if nu is None else nu
        out.append(Config("Reciprocal(%s)" % nu, mk, -nuv, np.inf, [],
                          lambda x, nuv=nuv: x + nuv))

    # Sinh
    for nu, scale in [(0., 1.), (-2., 0.01), (5., 30.), (0.5, 1e-10),
                      (0., 1e3)]:
        def mk(nu=nu, scale=scale):
            t = T.Sinh()
            t.params.values = [nu, scale]
            return t
        out.append(Config("Sinh(%g,%g)" % (nu, scale), mk,
                          -np.inf, np.inf, [],
                          lambda x, nu=nu, sc=scale:
                              max(1. / sc, abs(x - nu))))

    # Manly
    for lam, xmax in [(0., 1.), (1e-11, 3.), (0.1, 1.), (-0.5, 20.),
                      (2., 1.), (-5., 1.), (5., 20.), (1., 1e-3)]:
        def mk(lam=lam, xmax=xmax):
            t = T.Manly()
            t.constants.values = [xmax]
            t.lam = lam
            return t
        # forward saturates at -1/lam when lam*x/xmax << 0 and overflows when
        # >> 0: keep to the range where forward resolves its argument
        rng = 16. * xmax / abs(lam) if abs(lam) > 1e-10 else 500. * xmax
        out.append(Config("Manly(%g,%g)" % (lam, xmax), mk,
                          -rng, rng, [],
                          lambda x, lam=lam, xmax=xmax:
                              xmax / max(abs(lam), 1e-3)))
    return out


# dyadic candidate points (all exactly representable, few significant bits)
def candidates():
    pts = set()
    for e in range(-12, 9):
        for k in (1, 3, 5, 7, 11, 13):
            v = k * 2. ** e / 8
            pts.add(v)
            pts.add(-v)
    for k in range(-40, 41):
        pts.add(k / 16.)
    return sorted(pts)


CAND = candidates()


def config_points(cfg):
    """ dyadic points of the domain of cfg """
    pts = set(x for x in CAND if cfg.lo < x < cfg.hi)
    lo = cfg.lo if np.isfinite(cfg.lo) else None
    hi = cfg.hi if np.isfinite(cfg.hi) else None
    if lo is not None:
        width = (hi - lo) if hi is not None else 4 * (1 + abs(lo))
        for div in (16., 64.):
            s = 2. ** math.floor(math.log2(width / div))
            k0 = math.floor(lo / s) + 1
            for k in range(int(div) + 2):
                x = (k0 + k) * s
                if cfg.lo < x < cfg.hi:
                    pts.add(x)
    return sorted(pts)


def exact_stencil(x, h):
    """x-2h, x-h, x+h, x+2h computed in binary64 are the exact values"""
    fx, fh = Fraction(x), Fraction(h)
    for k in (-2, -1, 1, 2):
        if Fraction(x + k * h) != fx + k * fh:
            return False
    return True


def stencil_points(cfg, maxpts=60):
    """(x, h) pairs: 5-point stencil inside one smooth branch of cfg"""
    out = []
    for x in config_points(cfg):
        L = min(cfg.dist(x), cfg.clen(x))
        if not (L > 0) or not np.isfinite(L):
            continue
        h = 2. ** math.floor(math.log2(L / 48.))
        # keep the stencil well away from the branch / domain limits
        if not (2 * h < cfg.dist(x) / 4):
            continue
        if not exact_stencil(x, h):
            continue
        out.append((x, h))
    if len(out) > maxpts:
        idx = np.unique(np.linspace(0, len(out) - 1, maxpts).astype(int))
        out = [out[i] for i in idx]
    return out


def fd5(fm2, fm1, fp1, fp2, h):
    return (fm2 - 8 * fm1 + 8 * fp1 - fp2) / (12 * h)


# ---------------------------------------------------------------------------
# 1. jacobian == d forward / dx, jacobian > 0   (univariate transforms)
# ---------------------------------------------------------------------------
def check_derivative(cfg):
    t = cfg.factory()
    pts = stencil_points(cfg)
    COUNTS[cfg.label] = len(pts)
    check(len(pts) >= 8, "%s: only %d stencil points" % (cfg.label, len(pts)))
    if not pts:
        return

    # (a) one array call for all stencils, one array call for all jacobians
    xs = np.array([x for x, _ in pts])
    hs = np.array([h for _, h in pts])
    grid = xs[:, None] + hs[:, None] * np.array([-2., -1., 0., 1., 2.])[None]
    fgrid = t.forward(grid.ravel().copy()).reshape(grid.shape)
    jac = t.jacobian(xs.copy())
    check(isinstance(jac, np.ndarray) and jac.shape == xs.shape
          and jac.dtype == np.float64,
          "%s: jacobian container %r" % (cfg.label, type(jac)))
    for i, (x, h) in enumerate(pts):
        d = fd5(*fgrid[i, [0, 1, 3, 4]], h=h)
        j = jac[i]
        ok = np.isfinite(j) and j > 0
        check(ok, "%s: jacobian(%r)=%r not >0" % (cfg.label, x, j))
        check(np.all(np.isfinite(fgrid[i])),
              "%s: forward not finite around %r" % (cfg.label, x))
        check(abs(j - d) <= RTOL * abs(d),
              "%s: x=%r h=%r jac=%r fd=%r rel=%.2e"
              % (cfg.label, x, h, j, d, abs(j - d) / abs(d)))
        # forward strictly increasing along the stencil
        check(np.all(np.diff(fgrid[i]) > 0),
              "%s: forward not increasing on stencil at %r" % (cfg.label, x))

    # (b) the same through scalar (float) calls and length-1/2 arrays, on a
    # FRESH object, interleaving forward and jacobian calls
    t2 = cfg.factory()
    for i, (x, h) in enumerate(pts[::3]):
        i = 3 * i
        if cfg.scalar_ok:
            j = t2.jacobian(float(x))
            f = [t2.forward(float(x + k * h)) for k in (-2, -1, 1, 2)]
            check(isinstance(j, float), "%s: scalar jacobian type %r"
                  % (cfg.label, type(j)))
            check(all(isinstance(v, float) for v in f),
                  "%s: scalar forward type" % cfg.label)
            d = fd5(*f, h=h)
            check(j > 0 and abs(j - d) <= RTOL * abs(d),
                  "%s: scalar x=%r jac=%r fd=%r" % (cfg.label, x, j, d))
            check(abs(j - jac[i]) <= 1e-12 * abs(j),
                  "%s: scalar/array jacobian differ at %r: %r %r"
                  % (cfg.label, x, j, jac[i]))
            check(abs(f[0] - fgrid[i, 0]) <= 1e-12 * (1 + abs(f[0])),
                  "%s: scalar/array forward differ at %r" % (cfg.label, x))
        j1 = t2.jacobian(np.array([x]))
        check(j1.shape == (1,) and abs(j1[0] - jac[i]) <= 1e-12 * jac[i],
              "%s: length-1 jacobian at %r" % (cfg.label, x))
        f2 = t2.forward(np.array([x - h, x + h]))
        j2 = t2.jacobian(np.array([x - h, x + h]))
        check(f2.shape == (2,) and f2[0] < f2[1],
              "%s: length-2 forward at %r" % (cfg.label, x))
        check(j2.shape == (2,) and np.all(j2 > 0),
              "%s: length-2 jacobian at %r" % (cfg.label, x))
        # mean value theorem: slope between the two points lies between
        # (or very near) the two jacobians for these smooth branches
        slope = (f2[1] - f2[0]) / (2 * h)
        lo, hi = min(j2.min(), jac[i]), max(j2.max(), jac[i])
        check(lo * (1 - RTOL) <= slope <= hi * (1 + RTOL),
              "%s: slope %r outside [%r,%r] at %r"
              % (cfg.label, slope, lo, hi, x))


# ---------------------------------------------------------------------------
# 2. forward increasing for ordered pairs (incl. ties, neighbours, branches)
# ---------------------------------------------------------------------------
def check_monotone(cfg):
    t = cfg.factory()
    base = config_points(cfg)
    # keep away from the very edge of the domain by a relative margin
    base = [x for x in base
            if (np.isinf(cfg.lo) or x - cfg.lo > 1e-9 * (1 + abs(cfg.lo)))
            and (np.isinf(cfg.hi) or cfg.hi - x > 1e-9 * (1 + abs(cfg.hi)))]
    extra = []
    for x in base[::7]:
        extra += [np.nextafter(x, np.inf), np.nextafter(x, -np.inf), x, x]
    for b in cfg.breaks:
        extra += [b, np.nextafter(b, np.inf), np.nextafter(b, -np.inf),
                  b + 1e-11, b - 1e-11, b + 1e-7, b - 1e-7]
    extra = [x for x in extra if cfg.lo < x < cfg.hi]
    xs = np.sort(np.array(base + extra))
    check(len(xs) > 20, "%s: not enough domain points" % cfg.label)
    f = t.forward(xs.copy())
    check(f.shape == xs.shape and np.all(np.isfinite(f)),
          "%s: forward not finite on domain points" % cfg.label)
    if not np.all(np.isfinite(f)):
        return
    dx = np.diff(xs)
    df = np.diff(f)
    tol = 1e-11 * (1 + np.maximum(np.abs(f[1:]), np.abs(f[:-1])))
    bad = df < -tol
    check(not bad.any(), "%s: forward decreases: x=%r f=%r"
          % (cfg.label, xs[:-1][bad][:3], df[bad][:3]))
    # ties give identical images
    tie = dx == 0
    check(np.all(df[tie] == 0), "%s: tie with different images" % cfg.label)
    # clearly separated points give clearly separated images
    L = np.array([cfg.clen(x) for x in xs[:-1]])
    sep = dx > 1e-6 * L
    check(np.all(df[sep] > 0), "%s: forward not strictly increasing: %r"
          % (cfg.label, xs[:-1][sep & (df <= 0)][:3]))
    # all ordered pairs on a subsample (not only neighbours)
    sub = slice(None, None, max(1, len(xs) // 40))
    xa, fa = xs[sub], f[sub]
    i, k = np.triu_indices(len(xa), 1)
    ok = fa[k] - fa[i] >= -1e-11 * (1 + np.abs(fa[i]) + np.abs(fa[k]))
    check(np.all(ok), "%s: ordered pair violates monotonicity" % cfg.label)
    # jacobian > 0 at every one of those points (those where it is defined:
    # not exactly on a branch point)
    xj = np.array([x for x in xs if cfg.dist(x) > 1e-12])
    j = t.jacobian(xj.copy())
    check(np.all(np.isfinite(j)) and np.all(j > 0),
          "%s: jacobian not >0 on domain points: %r"
          % (cfg.label, xj[~(j > 0)][:3]))
    # pairs evaluated one at a time through separate calls (lengths 1, 2)
    for a, b in zip(xs[:-1:11], xs[1::11]):
        fa_ = t.forward(np.array([a]))[0]
        fb_ = t.forward(np.array([b]))[0]
        fab = t.forward(np.array([a, b]))
        check(fa_ <= fb_ + 1e-11 * (1 + abs(fa_)),
              "%s: pair (%r,%r) decreasing" % (cfg.label, a, b))
        check(abs(fab[0] - fa_) <= 1e-12 * (1 + abs(fa_))
              and abs(fab[1] - fb_) <= 1e-12 * (1 + abs(fb_)),
              "%s: length-1 / length-2 calls disagree at (%r,%r)"
              % (cfg.label, a, b))


# ---------------------------------------------------------------------------
# 3. Softmax: jacobian == det of matrix of partial derivatives, > 0
# ---------------------------------------------------------------------------
def softmax_points():
    pts = []
    pts += [[0.5], [0.25], [0.0625], [0.875], [2. ** -10], [0.96875]]
    pts += [[0.25, 0.25], [0.5, 0.125], [0.0625, 0.875], [0.125, 0.0625],
            [2. ** -8, 2. ** -9], [0.46875, 0.5]]
    pts += [[0.25, 0.25, 0.25], [0.125, 0.5, 0.0625], [0.3125, 0.3125, 0.3125],
            [2. ** -6, 0.5, 2. ** -7]]
    pts += [[0.125, 0.25, 0.0625, 0.5], [0.1875] * 4 + [0.125],
            [0.0625] * 8]
    return [np.array(p) for p in pts]


def check_softmax():
    t = T.Softmax()
    pts = softmax_points()
    COUNTS["Softmax"] = len(pts)
    for x in pts:
        n = len(x)
        room = min(x.min(), 1 - x.sum())
        h = 2. ** math.floor(math.log2(room / 24.))
        J = np.zeros((n, n))
        for k in range(n):
            rows = []
            for m in (-2, -1, 1, 2):
                xx = x.copy()
                xx[k] += m * h
                check(Fraction(float(xx[k])) == Fraction(float(x[k]))
                      + m * Fraction(h), "Softmax: inexact step")
                rows.append(xx)
            # all four displaced points in ONE 2d call (one row per point)
            f = t.forward(np.array(rows))
            check(f.shape == (4, n), "Softmax forward shape %r" % (f.shape,))
            J[:, k] = fd5(f[0], f[1], f[2], f[3], h)
            # forward is increasing in every coordinate
            check(np.all(np.diff(f, axis=0) > 0),
                  "Softmax: forward not increasing in coordinate %d at %r"
                  % (k, x))
        det = np.linalg.det(J)
        j_row = t.jacobian(x.copy())           # 1d input -> one value
        j_mat = t.jacobian(x[None, :].copy())  # 2d input, one row
        check(np.shape(j_row) == (1,) and np.shape(j_mat) == (1,),
              "Softmax jacobian shape")
        jv = float(np.ravel(j_row)[0])
        check(jv > 0 and np.isfinite(jv), "Softmax jacobian(%r)=%r" % (x, jv))
        check(abs(jv - det) <= RTOL * abs(det),
              "Softmax: x=%r jac=%r det=%r rel=%.2e"
              % (x, jv, det, abs(jv - det) / abs(det)))
        check(float(np.ravel(j_mat)[0]) == jv, "Softmax 1d/2d input differ")

    # several rows at once, same values as one row at a time, any layout
    for n in (1, 2, 3, 4):
        rows = np.array([p for p in pts if len(p) == n])
        each = np.array([np.ravel(t.jacobian(r.copy()))[0] for r in rows])
        allj = t.jacobian(rows.copy())
        check(allj.shape == (len(rows),) and np.all(allj > 0)
              and np.allclose(allj, each, rtol=1e-13, atol=0),
              "Softmax: rows at once differ from rows one by one (n=%d)" % n)
        allf = np.asfortranarray(rows.copy())
        check(np.allclose(t.jacobian(allf), each, rtol=1e-13, atol=0),
              "Softmax: Fortran ordered rows (n=%d)" % n)
        fwd_c = t.forward(rows.copy())
        fwd_f = t.forward(allf)
        check(np.allclose(fwd_c, fwd_f, rtol=1e-13, atol=0),
              "Softmax: Fortran ordered forward (n=%d)" % n)
        # 1-column Softmax is the logit: increasing in x
        if n == 1:
            o = np.argsort(rows[:, 0])
            check(np.all(np.diff(fwd_c[o, 0]) > 0), "Softmax n=1 not incr.")
        # repeated call after modifying the input IN PLACE
        before = t.jacobian(rows)
        rows *= 0.5
        after = t.jacobian(rows)
        ref = np.array([np.ravel(t.jacobian(r.copy()))[0] for r in rows])
        check(np.allclose(after, ref, rtol=1e-13, atol=0)
              and not np.any(after == before),
              "Softmax: stale result after in-place change of x (n=%d)" % n)


# ---------------------------------------------------------------------------
# 4. state and layout: the answers depend on the CURRENT parameters and the
#    CURRENT contents of x only
# ---------------------------------------------------------------------------
def same(a, b):
    a = np.asarray(a)
    b = np.asarray(b)
    return a.shape == b.shape and np.allclose(a, b, rtol=1e-12, atol=0,
                                              equal_nan=True)


def ctor_state(t):
    """ what is fixed when the object is built (class, bounds, options) """
    return (type(t), getattr(t, "basefactor", None),
            getattr(t, "mininu", None),
            tuple(t.params.mins), tuple(t.params.maxs),
            tuple(t.constants.mins), tuple(t.constants.maxs))


def check_state_layout(cfg):
    lab = cfg.label
    pts = stencil_points(cfg, maxpts=24)
    if len(pts) < 6:
        return
    xs = np.array([x for x, _ in pts])
    ref = cfg.factory()
    jref = ref.jacobian(xs.copy())
    fref = ref.forward(xs.copy())

    t = cfg.factory()
    # repeated identical calls; results are independent fresh arrays
    x = xs.copy()
    j1 = t.jacobian(x)
    f1 = t.forward(x)
    check(np.array_equal(x, xs), "%s: input modified" % lab)
    j1b = j1.copy()
    j1 *= -1.
    f1 += 1e6
    j2 = t.jacobian(x)
    f2 = t.forward(x)
    check(j2 is not j1 and np.array_equal(j2, j1b) and same(j2, jref),
          "%s: second jacobian call affected by mutation of the first result"
          % lab)
    check(same(f2, fref), "%s: second forward call differs" % lab)

    # same buffer, new contents (reversed order, then a different subset)
    x[:] = xs[::-1]
    check(same(t.jacobian(x), jref[::-1]) and same(t.forward(x), fref[::-1]),
          "%s: stale answer after in-place change of x" % lab)
    x[:] = xs
    x[0], x[-1] = xs[-1], xs[0]
    jj = t.jacobian(x)
    check(jj[0] == jref[-1] or abs(jj[0] - jref[-1]) <= 1e-12 * jref[-1],
          "%s: stale answer after swapping two entries" % lab)

    # layouts: strided view, reversed view, read-only, 2d C and F order
    big = np.empty(2 * len(xs))
    big[::2] = xs
    big[1::2] = xs[::-1]
    check(same(t.jacobian(big[::2]), jref), "%s: strided input" % lab)
    check(same(t.forward(big[::2]), fref), "%s: strided input fwd" % lab)
    check(same(t.jacobian(xs[::-1]), jref[::-1]), "%s: reversed view" % lab)
    ro = xs.copy()
    ro.setflags(write=False)
    check(same(t.jacobian(ro), jref) and same(t.forward(ro), fref),
          "%s: read-only input" % lab)
    n2 = (len(xs) // 2) * 2
    c2 = xs[:n2].reshape(2, -1).copy()
    f2d = np.asfortranarray(c2)
    for arr, nm in ((c2, "C"), (f2d, "F"), (c2.T, "transposed")):
        ja = t.jacobian(arr)
        fa = t.forward(arr)
        jexp = jref[:n2].reshape(2, -1)
        fexp = fref[:n2].reshape(2, -1)
        if nm == "transposed":
            jexp, fexp = jexp.T, fexp.T
        check(same(ja, jexp) and same(fa, fexp), "%s: 2d %s order" % (lab, nm))
    # an entry that is NaN / outside the domain does not disturb the others
    with np.errstate(all="ignore"):
        xn = np.insert(xs, 1, np.nan)
        jn = t.jacobian(xn)
        fn = t.forward(xn)
        # (the jacobian of a NaN is not NaN for the transforms whose
        # jacobian is constant, e.g. Identity; forward always gives NaN)
        check(np.isnan(fn[1]), "%s: NaN in -> NaN" % lab)
        check(np.isnan(jn[1]) or jn[1] > 0, "%s: jacobian(NaN)" % lab)
        check(same(np.delete(jn, 1), jref) and same(np.delete(fn, 1), fref),
              "%s: NaN entry disturbs neighbours" % lab)
        if np.isfinite(cfg.lo):
            xo = np.insert(xs, 2, cfg.lo - 1. - abs(cfg.lo))
            jo = t.jacobian(xo)
            check(same(np.delete(jo, 2), jref),
                  "%s: out-of-domain entry disturbs neighbours" % lab)
    # empty input -> empty output
    check(np.shape(t.jacobian(np.zeros(0))) == (0,), "%s: empty input" % lab)

    # two live objects with different state, interleaved
    others = [c for c in ALL if c is not cfg
              and ctor_state(c.factory()) == ctor_state(t)]
    if others:
        oc = others[0]
        o = oc.factory()
        xo = np.array([p for p, _ in stencil_points(oc, maxpts=12)])
        if len(xo):
            jo_ref = oc.factory().jacobian(xo.copy())
            a1 = t.jacobian(xs)
            b1 = o.jacobian(xo)
            a2 = t.jacobian(xs)
            b2 = o.jacobian(xo)
            check(same(a1, jref) and same(a2, jref) and same(b1, jo_ref)
                  and same(b2, jo_ref), "%s: two objects interfere" % lab)

            # move t to the other configuration's parameters and back,
            # through the public ways of setting parameters
            pv = t.params.values.copy()
            cv = t.constants.values.copy()
            if (np.array_equal(t.params.mins, o.params.mins)
                    and np.array_equal(t.constants.mins, o.constants.mins)):
                # (1) whole vector assignment
                if t.constants.nval:
                    t.constants.values = o.constants.values.copy()
                t.params.values = o.params.values.copy()
                check(same(t.jacobian(xo), jo_ref),
                      "%s: params.values= not honoured" % lab)
                # (2) in-place element assignment on the live vectors
                for k in range(t.params.nval):
                    t.params.values[k] = pv[k]
                for k in range(t.constants.nval):
                    t.constants.values[k] = cv[k]
                check(same(t.jacobian(xs), jref) and same(t.forward(xs), fref),
                      "%s: in-place params.values[k]= not honoured" % lab)
                # (3) attribute / item style
                for nm, v in zip(o.params.names, o.params.values):
                    setattr(t, str(nm), v)
                for nm, v in zip(o.constants.names, o.constants.values):
                    t[str(nm)] = v
                check(same(t.jacobian(xo), jo_ref),
                      "%s: attribute style set not honoured" % lab)
                for nm, v in zip(o.params.names, o.params.values):
                    check(getattr(t, str(nm)) == v and t[str(nm)] == v,
                          "%s: attribute style get" % lab)
                # (4) back again
                t.params.values = pv
                if t.constants.nval:
                    t.constants.values = cv
                check(same(t.jacobian(xs), jref) and same(t.forward(xs), fref),
                      "%s: restoring parameters" % lab)
                check(same(o.jacobian(xo), jo_ref),
                      "%s: other object changed" % lab)

    # reset() goes back to the defaults; compare with a brand new object
    fresh = cfg.factory()
    fresh.params.values = fresh.params.defaults.copy()
    t.reset()
    check(np.array_equal(t.params.values, t.params.defaults),
          "%s: reset() values" % lab)
    if t.constants.nval == 0:
        with np.errstate(all="ignore"):
            a = t.jacobian(xs)
            b = fresh.jacobian(xs)
        check(same(a, b), "%s: reset() differs from a new object" % lab)


def main():
    global ALL
    ALL = configs()
    with np.errstate(all="ignore"):
        pass
    for cfg in ALL:
        check_derivative(cfg)
        check_monotone(cfg)
    check_softmax()
    for cfg in ALL:
        check_state_layout(cfg)
    # second pass on derivative checks after all the state games above: the
    # module must not have kept anything stale
    for cfg in ALL[::5]:
        check_derivative(cfg)

    npts = sum(COUNTS.values())
    print("configurations: %d, stencil points: %d, checks: %d, failures: %d"
          % (len(ALL) + 1, npts, NCHECK, NFAIL))
    if NFAIL:
        print("C02 DEMO FAILED")
        return 1
    print("C02 DEMO OK")
    return 0


if __name__ == "__main__":
    import warnings
    warnings.simplefilter("ignore")
    sys.exit(main())
