"""Demo / oracle for property C06 (catchment delineation == upstream
reachability on the flow grid).  Self-contained; exits 0 when every check
passes.  Run as:  PYTHONPATH=<tree>/src /venv/bin/python demo.py
"""
import sys
import itertools
import math
import numpy as np

from hydrodiy.gis.grid import Grid, Catchment, delineate_river

SQ2 = math.sqrt(2.0)
# ESRI codes -> (drow, dcol); rows grow downwards, cell = row*ncols+col
STEP = {32: (-1, -1), 64: (-1, 0), 128: (-1, 1),
        16: (0, -1), 1: (0, 1),
        8: (1, -1), 4: (1, 0), 2: (1, 1)}
CODES = [1, 2, 4, 8, 16, 32, 64, 128, 0, 3]   # 3 = invalid code
NCHECK = [0]


def fail(msg):
    print("DEMO FAILURE:", msg)
    sys.exit(1)


def check(cond, msg):
    NCHECK[0] += 1
    if not cond:
        fail(msg)


def make_grid(arr):
    arr = np.asarray(arr, dtype=np.int64)
    nr, nc = arr.shape
    g = Grid("fd", nc, nr, dtype=np.int64)
    g.data = arr
    return g


def ref_down(arr):
    """ reference downstream table: -2 sink, -1 off grid / invalid code """
    nr, nc = arr.shape
    out = np.empty(nr*nc, dtype=np.int64)
    for r in range(nr):
        for c in range(nc):
            fd = int(arr[r, c])
            if fd == 0:
                d = -2
            elif fd in STEP:
                r2, c2 = r+STEP[fd][0], c+STEP[fd][1]
                d = r2*nc+c2 if (0 <= r2 < nr and 0 <= c2 < nc) else -1
            else:
                d = -1
            out[r*nc+c] = d
    return out


def ref_area_bfs(down, outlet, inlets):
    """ literal reachability. Returns (set or None if cyclic) """
    n = len(down)
    ups = [[] for _ in range(n)]
    for u in range(n):
        if down[u] >= 0:
            ups[down[u]].append(u)
    inl = set(int(i) for i in inlets)
    seen = set()
    frontier = [outlet]
    while frontier:
        new = []
        for d in frontier:
            for u in ups[d]:
                if u in inl:
                    continue
                if u == outlet or u in seen:
                    return None          # flow cycle through the outlet
                seen.add(u)
                new.append(u)
        frontier = new
    if not seen:
        return set()
    return seen | {outlet}


def ref_area_chain(down, outlet, inlets):
    """ second formulation: follow the downstream chain of every cell """
    n = len(down)
    inl = set(int(i) for i in inlets)
    members = set()
    for c in range(n):
        if c == outlet:
            continue
        cur, ok = c, False
        for _ in range(n+1):
            if cur in inl:
                break
            cur = down[cur]
            if cur < 0:
                break
            if cur == outlet:
                ok = True
                break
        if ok:
            members.add(c)
    return (members | {outlet}) if members else set()


def steplen(nc, a, b):
    ra, ca = divmod(a, nc)
    rb, cb = divmod(b, nc)
    check(max(abs(ra-rb), abs(ca-cb)) == 1, "non adjacent step")
    return SQ2 if (ra != rb and ca != cb) else 1.0


def check_updown(arr, cat=None):
    nr, nc = arr.shape
    n = nr*nc
    down = ref_down(arr)
    if cat is None:
        cat = Catchment("c", make_grid(arr))
    cells = np.arange(n)
    got = cat.downstream(cells)
    check(got.shape == (n,), "downstream shape")
    check(np.array_equal(np.asarray(got, dtype=np.int64), down),
          f"downstream table differs\n{arr}\n{got}\n{down}")
    up = cat.upstream(cells)
    check(up.shape == (n, 9), "upstream shape")
    for d in range(n):
        row = [int(x) for x in up[d]]
        real = [x for x in row if x >= 0]
        check(all(x == -1 for x in row if x < 0), "upstream padding code")
        check(len(real) == len(set(real)), "upstream lists a cell twice")
        exp = set(int(u) for u in range(n) if down[u] == d)
        check(set(real) == exp, f"upstream of {d}: {row} expected {exp}\n{arr}")
        # single-cell calls (scalar input) agree with array calls
        if n <= 6:
            r1 = [int(x) for x in cat.upstream(d)[0] if x >= 0]
            check(set(r1) == exp, "scalar upstream call")
            check(int(cat.downstream(d)[0]) == down[d], "scalar downstream")
    # inverse relation stated directly
    for u in range(n):
        d = int(got[u])
        if d >= 0:
            check(u in up[d], "u not upstream of its downstream cell")
    return down


def check_area(arr, outlet, inlets, cat=None, nval=None, down=None,
               flowpaths=False):
    nr, nc = arr.shape
    n = nr*nc
    if down is None:
        down = ref_down(arr)
    if cat is None:
        cat = Catchment("c", make_grid(arr))
    inl = [] if inlets is None else list(inlets)
    exp = ref_area_bfs(down, outlet, inl)
    kw = {}
    if nval is not None:
        kw["nval"] = nval
    if exp is None:
        # cycle through the outlet: error or bounded result, never a hang
        try:
            cat.delineate_area(outlet, inlets, **kw)
        except Exception:
            check(True, "")
            return None
        area = np.asarray(cat.idxcells_area)
        bound = nval if nval is not None else 1000000
        check(len(area) <= bound, "unbounded result on cyclic grid")
        return None
    check(exp == ref_area_chain(down, outlet, inl),
          "demo bug: two reference formulations disagree")
    cat.delineate_area(outlet, inlets, **kw)
    area = np.asarray(cat.idxcells_area)
    check(area.ndim == 1, "area ndim")
    lst = [int(x) for x in area]
    check(len(lst) == len(set(lst)), f"cell listed twice {lst}\n{arr}")
    check(set(lst) == exp,
          f"area differs outlet={outlet} inlets={inlets}: {sorted(lst)} "
          f"expected {sorted(exp)}\n{arr}")
    filled = [int(x) for x in np.asarray(cat.idxcells_area_filled)]
    check(len(filled) == len(set(filled)), "filled lists a cell twice")
    check(set(filled) >= exp, "filled area does not contain the area")
    check(all(0 <= x < n for x in filled), "filled cell out of grid")
    check(int(cat.idxcell_outlet) == outlet, "outlet attribute")
    if not exp:
        check(len(filled) == 0, "filled area of empty area not empty")
    if flowpaths and exp:
        cat.compute_flowpathlengths()
        fp = cat.flowpathlengths
        check(list(fp.columns) == ["idxcell_start", "idxcell_end",
                                   "length[cell]"], "flowpath columns")
        check(len(fp) == len(lst), "flowpath rows")
        vals = fp.values
        for i, c in enumerate(lst):
            check(int(vals[i, 0]) == c, "flowpath start order")
            if c == outlet:
                continue
            length, cur = 0.0, c
            while cur != outlet:
                length += steplen(nc, cur, down[cur])
                cur = down[cur]
            check(int(vals[i, 1]) == outlet, "flowpath end is outlet")
            check(abs(vals[i, 2]-length) <= 1e-9*max(1., length),
                  f"flowpath length {vals[i, 2]} expected {length}")
    return exp


def check_river(arr, start, nval, xll=0., yll=0., csz=1.):
    nr, nc = arr.shape
    down = ref_down(arr)
    g = make_grid(arr)
    g.xllcorner = np.float64(xll)
    g.yllcorner = np.float64(yll)
    g.cellsize = np.float64(csz)
    riv = delineate_river(g, start, nval=nval)
    check(list(riv.columns) == ["dist", "dx", "dy", "x", "y", "idxcell"],
          "river columns")
    # expected chain
    chain = [start]
    while down[chain[-1]] >= 0 and len(chain) < nval:
        chain.append(int(down[chain[-1]]))
    terminates = down[chain[-1]] < 0
    cells = [int(x) for x in riv["idxcell"].values]
    check(1 <= len(cells) <= nval, "river length not bounded by nval")
    check(cells == chain[:len(cells)], f"river not the downstream chain "
          f"{cells} vs {chain}\n{arr}")
    if terminates:
        check(cells == chain, f"river stops early {cells} vs {chain}")
    dist = 0.
    for i, c in enumerate(cells):
        r, cc = divmod(c, nc)
        if i > 0:
            p = cells[i-1]
            rp, cp = divmod(p, nc)
            dist += steplen(nc, p, c)
            check(riv["dx"].values[i] == cp-cc, "river dx")
            check(riv["dy"].values[i] == rp-r, "river dy")
        else:
            check(riv["dx"].values[0] == 0 and riv["dy"].values[0] == 0,
                  "river first displacement")
        check(abs(riv["dist"].values[i]-dist) <= 1e-9*max(1., dist),
              "river distance")
        check(abs(riv["x"].values[i]-(xll+csz*(cc+0.5))) < 1e-9, "river x")
        check(abs(riv["y"].values[i]-(yll+csz*(nr-1-r+0.5))) < 1e-9,
              "river y")


def subsets(n, outlet, rng, k):
    """ a few inlet sets: None, [], everything, singletons, random """
    yield None
    yield []
    yield list(range(n))
    for _ in range(k):
        m = rng.integers(0, n+1)
        yield [int(x) for x in rng.choice(n, size=m, replace=False)]


def main():
    rng = np.random.default_rng(606)

    # ---- 1. exhaustive tiny grids ------------------------------------
    for (nr, nc) in [(1, 1), (1, 2), (2, 1), (1, 3), (3, 1)]:
        n = nr*nc
        for codes in itertools.product(CODES, repeat=n):
            arr = np.array(codes, dtype=np.int64).reshape(nr, nc)
            cat = Catchment("c", make_grid(arr))
            down = check_updown(arr, cat)
            for outlet in range(n):
                for k in range(n+1):
                    for inl in itertools.combinations(range(n), k):
                        check_area(arr, outlet, list(inl), cat, nval=n+2,
                                   down=down, flowpaths=True)
                check_area(arr, outlet, None, cat, nval=n+2, down=down)
            if n <= 2 or rng.random() < 0.1:
                for start in range(n):
                    for nval in (1, 2, n, n+3):
                        check_river(arr, start, nval)

    # 2x2: every grid, every outlet, inlets none / all / one random subset
    for codes in itertools.product(CODES, repeat=4):
        arr = np.array(codes, dtype=np.int64).reshape(2, 2)
        if rng.random() < 0.35:
            cat = Catchment("c", make_grid(arr))
            down = check_updown(arr, cat)
            for outlet in range(4):
                check_area(arr, outlet, None, cat, nval=7, down=down,
                           flowpaths=True)
                m = rng.integers(0, 5)
                inl = [int(x) for x in rng.choice(4, size=m, replace=False)]
                check_area(arr, outlet, inl, cat, nval=6, down=down)

    # ---- 2. random grids beyond ---------------------------------------
    for it in range(500):
        nr, nc = int(rng.integers(1, 8)), int(rng.integers(1, 10))
        n = nr*nc
        kind = it % 4
        if kind == 0:
            arr = rng.choice(CODES, size=(nr, nc))
        elif kind == 1:
            arr = rng.choice(CODES[:8], size=(nr, nc))
        elif kind == 2:
            # converging grid (big catchments) with a few perturbations
            arr = np.full((nr, nc), 2)
            arr[-1, :] = 1
            arr[:, -1] = 4
            arr[-1, -1] = 0
            for _ in range(int(rng.integers(0, 4))):
                arr[rng.integers(0, nr), rng.integers(0, nc)] = \
                    rng.choice(CODES)
        else:
            arr = rng.choice([1, 4, 2, 16, 64, 0], size=(nr, nc),
                             p=[.3, .3, .2, .08, .08, .04])
        arr = np.asarray(arr, dtype=np.int64)
        cat = Catchment("c", make_grid(arr))
        down = check_updown(arr, cat)
        outlets = set([0, n-1, int(rng.integers(0, n)),
                       int(rng.integers(0, n))])
        for outlet in outlets:
            for inl in subsets(n, outlet, rng, 2):
                nval = [None, n+2, 3*n+7][int(rng.integers(0, 3))]
                if nval is None and it % 10:
                    nval = n+2
                check_area(arr, outlet, inl, cat, nval=nval, down=down,
                           flowpaths=(rng.random() < 0.5))
            # inlets given in other containers / with duplicates / == outlet
            check_area(arr, outlet, np.array([outlet, outlet]), cat,
                       nval=n+2, down=down)
            check_area(arr, outlet, (int(rng.integers(0, n)),), cat,
                       nval=n+2, down=down)
        for start in set([0, n-1, int(rng.integers(0, n))]):
            check_river(arr, start, int(rng.choice([1, 2, n, 2*n+3, 50])),
                        xll=-3.5, yll=10., csz=0.25)
        if it % 25 == 0:
            check_river(arr, 0, 1000000)    # default-size buffers

    # ---- 3. state: one object, content changed in place, interleaving --
    arr = np.full((5, 6), 2, dtype=np.int64)
    arr[-1, :] = 1
    arr[:, -1] = 4
    arr[-1, -1] = 0
    cat = Catchment("c", make_grid(arr))
    other = Catchment("o", make_grid(arr.T.copy()))
    for it in range(60):
        r, c = int(rng.integers(0, 5)), int(rng.integers(0, 6))
        newcode = int(rng.choice(CODES))
        cat.flowdir.data[r, c] = newcode       # in place, same array object
        arr[r, c] = newcode
        down = check_updown(arr, cat)
        other.flowdir.data = arr.T.copy()      # replaced through the setter
        check_updown(arr.T.copy(), other)
        outlet = int(rng.integers(0, 30))
        exp = check_area(arr, outlet, None, cat, nval=40, down=down,
                         flowpaths=True)
        if exp:
            # returned arrays are the caller's: spoiling them must not
            # change what a later identical call answers
            cat.idxcells_area[:] = -7
            cat.idxcells_area_filled[:] = -7
            up = cat.upstream(outlet)
            up[:] = 99
            dn = cat.downstream(np.arange(30))
            dn[:] = 99
            check_updown(arr, cat)
            check_area(arr, outlet, None, cat, nval=40, down=down)
        check_area(arr, outlet, [int(rng.integers(0, 30))], cat, nval=40,
                   down=down)
        check_area(arr.T.copy(), outlet, None, other, nval=40)
        # a clone answers like the original
        if it % 10 == 0:
            cl = cat.clone()
            check_updown(arr, cl)
            check_area(arr, outlet, None, cl, nval=40, down=down)
        # whole data replaced through the setter
        if it % 15 == 0:
            arr = np.asarray(rng.choice(CODES, size=(5, 6)), dtype=np.int64)
            cat.flowdir.data = arr
            check_updown(arr, cat)

    # ---- 4. a catchment with a hole: filled area strictly larger -------
    # ring of cells draining around the central sink to cell 8
    arr = np.array([[1, 1, 4],
                    [64, 0, 4],
                    [1, 1, 0]], dtype=np.int64)
    arr[1, 0] = 64
    cat = Catchment("c", make_grid(arr))
    exp = check_area(arr, 8, None, cat, nval=20, flowpaths=True)
    check(4 not in exp, "demo: centre is a sink, not in area")
    check(exp == {0, 1, 2, 3, 5, 6, 7, 8}, f"demo: ring area {exp}")
    check(set(int(x) for x in cat.idxcells_area_filled) == set(range(9)),
          "hole not filled")

    print(f"C06 demo OK ({NCHECK[0]} checks)")
    return 0


if __name__ == "__main__":
    sys.exit(main())
