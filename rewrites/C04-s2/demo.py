#!/usr/bin/env python
""" Property C04 demo: deterministic and categorical skill scores equal their
definitions.

Run as  PYTHONPATH=<tree>/src /venv/bin/python demo.py
Exits 0 when every check passes (on the unmodified and on the rewritten tree).

All reference values are computed here, independently of hydrodiy.stat.metrics
(plain numpy / fractions), on the series returned by trans.forward.
"""
import sys
import math
import warnings
import itertools
from fractions import Fraction

import numpy as np

from hydrodiy.stat import metrics, transform

warnings.filterwarnings("ignore")
np.seterr(all="ignore")

RTOL = 1e-9
ATOL = 1e-12
NFAIL = 0
NCHECK = 0


def fail(msg):
    global NFAIL
    NFAIL += 1
    if NFAIL <= 40:
        print("FAIL:", msg)


def same(a, b, rtol=RTOL, atol=ATOL):
    """ a == b up to tolerance, nan == nan, inf == inf of same sign """
    a = float(a)
    b = float(b)
    if math.isnan(a) or math.isnan(b):
        return math.isnan(a) and math.isnan(b)
    if math.isinf(a) or math.isinf(b):
        return a == b
    return abs(a-b) <= atol + rtol*max(abs(a), abs(b))


def check(label, got, expected, **kw):
    global NCHECK
    NCHECK += 1
    if not same(got, expected, **kw):
        fail(f"{label}: got {got!r}, expected {expected!r}")


def check_true(label, cond):
    global NCHECK
    NCHECK += 1
    if not cond:
        fail(label)


# ---------------------------------------------------------------------------
# Reference definitions (textbook)
# ---------------------------------------------------------------------------
EPS = 1e-10


def ref_bias(to, ts, type):
    mo = np.mean(to)
    ms = np.mean(ts)
    if type == "standard":
        return (ms-mo)/mo
    elif type == "normalised":
        return (ms-mo)/(ms+mo)
    else:
        if ms > EPS and mo > EPS:
            return math.log(ms)-math.log(mo)
        return np.nan


def ref_nse(to, ts):
    mo = np.mean(to)
    return 1-np.sum((ts-to)**2)/np.sum((to-mo)**2)


def ref_pearson(x, y):
    n = len(x)
    mx = np.sum(x)/n
    my = np.sum(y)/n
    dx = x-mx
    dy = y-my
    den = math.sqrt(np.sum(dx*dx))*math.sqrt(np.sum(dy*dy))
    if not den > 0:
        return np.nan
    r = np.sum(dx*dy)/den
    if math.isnan(r):
        return r
    return max(-1., min(1., r))


def ref_midranks(x):
    """ mid-ranks, O(n^2) definition: 1 + #smaller + (#equal-1)/2 """
    x = np.asarray(x)
    if len(x) > 400:
        order = np.argsort(x, kind="mergesort")
        xs = x[order]
        rk = np.zeros(len(x))
        i = 0
        while i < len(x):
            j = i
            while j+1 < len(x) and xs[j+1] == xs[i]:
                j += 1
            rk[order[i:j+1]] = (i+j)/2+1
            i = j+1
        return rk
    smaller = (x[None, :] < x[:, None]).sum(axis=1)
    equal = (x[None, :] == x[:, None]).sum(axis=1)
    return 1+smaller+(equal-1)/2


def ref_kge(to, ts):
    n = len(to)
    mo = np.sum(to)/n
    ms = np.sum(ts)/n
    so = math.sqrt(np.sum((to-mo)**2)/n) \
        if np.all(np.isfinite(to)) else np.nan
    ss = math.sqrt(np.sum((ts-ms)**2)/n) \
        if np.all(np.isfinite(ts)) else np.nan
    if not abs(ss) > EPS:
        return np.nan
    r = ref_pearson(to, ts)
    val = (1-ms/mo)**2+(1-ss/so)**2+(1-r)**2
    return 1-math.sqrt(val) if not math.isnan(val) else np.nan


def finite_pairs(to, ts):
    ok = np.isfinite(to) & np.isfinite(ts)
    return to[ok], ts[ok]


# ---------------------------------------------------------------------------
# Transforms at admissible parameters
# ---------------------------------------------------------------------------
def make_transforms(positive_only):
    out = []
    out.append(("Identity", transform.Identity()))
    for nu, base in [(0.1, None), (1., 10), (1e-3, 2)]:
        t = transform.Log(base=base)
        t.params.values = [nu]
        out.append((f"Log(nu={nu},base={base})", t))
    for nu, lam in [(0.1, 0.2), (1., 0.5), (0.5, 1.), (0.2, 0.),
                    (0.2, 1e-11), (0.2, 2e-10), (1e-2, 3.)]:
        t = transform.BoxCox2()
        t.params.values = [nu, lam]
        out.append((f"BoxCox2(nu={nu},lam={lam})", t))
    for nu in [1e-2, 1., 10.]:
        t = transform.Reciprocal()
        t.params.values = [nu]
        out.append((f"Reciprocal(nu={nu})", t))
    for nu, scale in [(0., 1.), (0.3, 5.), (-2., 0.01)]:
        t = transform.Sinh()
        t.params.values = [nu, scale]
        out.append((f"Sinh(nu={nu},scale={scale})", t))
    if not positive_only:
        out = [o for o in out if o[0].startswith(("Identity", "Sinh"))]
    return out


def nondegenerate(to):
    """ obs mean and std not within 1e-6 (relative) of zero """
    if not np.all(np.isfinite(to)) or len(to) < 2:
        return False
    m = np.mean(to)
    s = np.std(to)
    scale = np.max(np.abs(to))
    return abs(m) > 1e-6*scale and s > 1e-6*scale and abs(m) > 1e-6 \
        and s > 1e-6


# ---------------------------------------------------------------------------
# Series generators
# ---------------------------------------------------------------------------
rng = np.random.default_rng(5446)


def series_positive():
    for n in [2, 3, 4, 5, 7, 8, 9, 16, 17, 31, 64, 100, 129, 257, 1000, 4097]:
        for kind in range(5):
            if kind == 0:
                obs = rng.lognormal(0., 1., n)
                sim = obs*rng.lognormal(0., 0.3, n)
            elif kind == 1:
                # ties
                obs = np.round(rng.gamma(2., 2., n))+1.
                sim = np.round(rng.gamma(2., 2., n))+1.
            elif kind == 2:
                # large offset, small spread
                obs = 1e3+rng.uniform(0, 10, n)
                sim = 1e3+rng.uniform(0, 10, n)
            elif kind == 3:
                # anti-correlated
                obs = np.sort(rng.uniform(0.1, 5., n))
                sim = obs[::-1].copy()+rng.uniform(0, 0.01, n)
            else:
                # wide range of magnitude
                obs = 10**rng.uniform(-3, 4, n)
                sim = 10**rng.uniform(-3, 4, n)
            yield obs, sim


def series_signed():
    for n in [2, 3, 5, 10, 33, 100, 1025]:
        for kind in range(3):
            if kind == 0:
                obs = rng.normal(1., 2., n)
                sim = obs+rng.normal(0., 1., n)
            elif kind == 1:
                obs = np.round(rng.normal(-3., 2., n))
                sim = np.round(rng.normal(-3., 2., n))
            else:
                obs = rng.normal(-50., 1., n)
                sim = rng.normal(-49., 2., n)
            yield obs, sim


def with_nulls(obs, sim):
    """ scatter nan / inf in either series """
    obs = obs.copy()
    sim = sim.copy()
    n = len(obs)
    k = max(1, n//6)
    specials = [np.nan, np.inf, -np.inf, np.nan]
    for i, idx in enumerate(rng.choice(n, size=min(n, 2*k), replace=False)):
        if i % 2 == 0:
            obs[idx] = specials[(i//2) % 4]
        else:
            sim[idx] = specials[(i//2+1) % 4]
    return obs, sim


# ---------------------------------------------------------------------------
# 1. bias / nse / kge / corr against the definitions
# ---------------------------------------------------------------------------
def check_scores(tname, trans, obs, sim, tag):
    to = trans.forward(obs)
    ts = trans.forward(sim)
    lab = f"{tname} n={len(obs)} {tag}"

    for excl in [False, True]:
        if excl:
            ok = np.isfinite(to) & np.isfinite(ts)
            if ok.sum() == 0:
                continue
            ro, rs = to[ok], ts[ok]
            if not nondegenerate(ro):
                continue
        else:
            ro, rs = to, ts
            if np.all(np.isfinite(to)) and not nondegenerate(to):
                continue

        for btype in ["standard", "normalised", "log"]:
            got = metrics.bias(obs, sim, trans, excludenull=excl, type=btype)
            check(f"bias[{btype}] {lab} excl={excl}", got,
                  ref_bias(ro, rs, btype))

        got = metrics.nse(obs, sim, trans, excludenull=excl)
        check(f"nse {lab} excl={excl}", got, ref_nse(ro, rs))
        if np.all(np.isfinite(ro)) and np.all(np.isfinite(rs)):
            check_true(f"nse<=1 {lab}", got <= 1+1e-12)

        got = metrics.kge(obs, sim, trans, excludenull=excl)
        check(f"kge {lab} excl={excl}", got, ref_kge(ro, rs))
        if not math.isnan(got):
            check_true(f"kge<=1 {lab}", got <= 1+1e-12)

        # excludenull equals removal of incomplete pairs done by the caller
        if excl:
            ok = np.isfinite(to) & np.isfinite(ts)
            o2, s2 = obs[ok], sim[ok]
            for fun in [metrics.bias, metrics.nse, metrics.kge]:
                check(f"{fun.__name__} removal {lab}",
                      fun(obs, sim, trans, excludenull=True),
                      fun(o2, s2, trans, excludenull=False))


def check_corr(tname, trans, obs, ens, tag):
    lab = f"{tname} n={len(obs)} {tag}"
    # what corr documents: rows with nan obs or all-nan ensemble are skipped
    e2 = ens if ens.ndim == 2 else ens[:, None]
    keep = ~np.isnan(obs) & (~np.isnan(e2)).any(axis=1)
    o = obs[keep]
    e = e2[keep]
    to = trans.forward(o)
    te = trans.forward(e)
    for stat in ["mean", "median"]:
        ts = np.nanmean(te, axis=1) if stat == "mean" \
            else np.nanmedian(te, axis=1)
        for excl in [False, True]:
            if excl:
                ok = np.isfinite(to) & np.isfinite(ts)
                if ok.sum() < 2:
                    continue
                ro, rs = to[ok], ts[ok]
            else:
                ro, rs = to, ts
            if not np.all(np.isfinite(ro)) or not nondegenerate(ro):
                # nan in obs and no exclusion: result is nan by definition
                if excl or np.all(np.isfinite(ro)):
                    continue
            for ctype in ["Pearson", "Spearman"]:
                got = metrics.corr(obs, ens, trans, excludenull=excl,
                                   stat=stat, type=ctype)
                if np.any(np.isnan(ro)) or np.any(np.isnan(rs)):
                    expected = np.nan
                elif ctype == "Pearson":
                    expected = ref_pearson(ro, rs) \
                        if np.all(np.isfinite(rs)) and \
                        np.all(np.isfinite(ro)) else np.nan
                else:
                    expected = ref_pearson(ref_midranks(ro),
                                           ref_midranks(rs))
                check(f"corr[{ctype},{stat}] {lab} excl={excl}",
                      got, expected)
                if not math.isnan(got):
                    check_true(f"|corr|<=1 {lab}", abs(got) <= 1+1e-12)


def part_scores():
    for positive, gen in [(True, series_positive), (False, series_signed)]:
        for tname, trans in make_transforms(positive):
            for obs, sim in gen():
                check_scores(tname, trans, obs, sim, "plain")
                if len(obs) >= 3:
                    on, sn = with_nulls(obs, sim)
                    check_scores(tname, trans, on, sn, "nulls")

                # correlation with deterministic sim and with an ensemble
                check_corr(tname, trans, obs, sim, "det")
                if len(obs) <= 300:
                    p = 5
                    ens = sim[:, None]*rng.lognormal(0, 0.2, (len(obs), p)) \
                        if positive else \
                        sim[:, None]+rng.normal(0, 0.5, (len(obs), p))
                    check_corr(tname, trans, obs, ens, "ens")
                    if len(obs) >= 4:
                        on, _ = with_nulls(obs, sim)
                        en = ens.copy()
                        en[rng.uniform(size=en.shape) < 0.15] = np.nan
                        en[0, :] = np.nan
                        en[1, 0] = np.inf
                        check_corr(tname, trans, on, en, "ens-nulls")


# ---------------------------------------------------------------------------
# 2. consequences: perfect sim, mean sim, bounds, invariances
# ---------------------------------------------------------------------------
def part_consequences():
    for positive, gen in [(True, series_positive), (False, series_signed)]:
        for tname, trans in make_transforms(positive):
            for obs, sim in gen():
                to = trans.forward(obs)
                if not nondegenerate(to):
                    continue
                lab = f"{tname} n={len(obs)}"
                # perfect simulation
                for btype in ["standard", "normalised", "log"]:
                    expected = 0.
                    if btype == "log" and not np.mean(to) > EPS:
                        expected = np.nan
                    check(f"perfect bias[{btype}] {lab}",
                          metrics.bias(obs, obs.copy(), trans, type=btype),
                          expected)
                check(f"perfect nse {lab}",
                      metrics.nse(obs, obs.copy(), trans), 1.)
                check(f"perfect kge {lab}",
                      metrics.kge(obs, obs.copy(), trans), 1.)
                for ctype in ["Pearson", "Spearman"]:
                    for stat in ["mean", "median"]:
                        check(f"perfect corr[{ctype}] {lab}",
                              metrics.corr(obs, obs.copy(), trans,
                                           type=ctype, stat=stat), 1.)

    # simulating the observed mean, affine and scale invariance (identity
    # transform, so that the maps act on the transformed series)
    for gen in [series_positive, series_signed]:
        for obs, sim in gen():
            if not nondegenerate(obs):
                continue
            n = len(obs)
            lab = f"n={n}"
            msim = np.full(n, np.mean(obs))
            check(f"mean-sim nse {lab}", metrics.nse(obs, msim), 0.,
                  atol=1e-9)

            for a, b in [(2., 0.), (0.5, 3.), (-1.5, 10.), (1e3, -7.)]:
                o2 = a*obs+b
                s2 = a*sim+b
                if not nondegenerate(o2):
                    continue
                ref = metrics.nse(obs, sim)
                check(f"nse affine a={a} b={b} {lab}",
                      metrics.nse(o2, s2), ref,
                      rtol=1e-7, atol=1e-7*max(1., abs(ref)))

            for c in [0.25, 3., 1e4]:
                for btype in ["standard", "normalised"]:
                    check(f"bias[{btype}] scaling c={c} {lab}",
                          metrics.bias(c*obs, c*sim, type=btype),
                          metrics.bias(obs, sim, type=btype), rtol=1e-8)
                if np.mean(obs) > 1e-3 and np.mean(sim) > 1e-3:
                    check(f"bias[log] scaling c={c} {lab}",
                          metrics.bias(c*obs, c*sim, type="log"),
                          metrics.bias(obs, sim, type="log"),
                          rtol=1e-8, atol=1e-9)
                check(f"kge scaling c={c} {lab}",
                      metrics.kge(c*obs, c*sim), metrics.kge(obs, sim),
                      rtol=1e-8, atol=1e-9)

    # constant simulation: correlation undefined
    obs = np.array([1., 2., 4., 8.])
    cst = np.full(4, 3.)
    check("corr constant sim", metrics.corr(obs, cst, type="Pearson"), np.nan)
    check("corr constant sim", metrics.corr(obs, cst, type="Spearman"),
          np.nan)
    check("kge constant sim", metrics.kge(obs, cst), np.nan)
    check("nse constant sim", metrics.nse(obs, cst), ref_nse(obs, cst))

    # length 2
    obs = np.array([1., 3.])
    check("n=2 nse", metrics.nse(obs, np.array([2., 2.])), 0.)
    check("n=2 nse", metrics.nse(obs, np.array([3., 1.])), -3.)
    check("n=2 corr", metrics.corr(obs, np.array([3., 1.])), -1.)
    check("n=2 corr", metrics.corr(obs, np.array([3., 1.]),
                                   type="Spearman"), -1.)
    check("n=2 kge", metrics.kge(obs, np.array([3., 1.])), -1.)
    check("n=2 bias", metrics.bias(obs, np.array([3., 3.])), 0.5)

    # the caller's arrays are never modified and repeated calls agree
    obs = rng.lognormal(size=50)
    sim = rng.lognormal(size=50)
    o0, s0 = obs.copy(), sim.copy()
    t = transform.Log()
    t.params.values = [0.5]
    first = [f(obs, sim, t) for f in (metrics.bias, metrics.nse, metrics.kge,
                                      metrics.corr)]
    second = [f(obs, sim, t) for f in (metrics.bias, metrics.nse,
                                       metrics.kge, metrics.corr)]
    check_true("inputs untouched", np.array_equal(obs, o0) and
               np.array_equal(sim, s0))
    check_true("repeatable", first == second)


# ---------------------------------------------------------------------------
# 3. call histories: a change of the data in place, of the transform
#    parameters or of the transform between two calls is always seen
# ---------------------------------------------------------------------------
def part_histories():
    n = 40
    obs = rng.lognormal(size=n)
    sim = obs*rng.lognormal(0, 0.2, size=n)
    tlog = transform.Log()
    tbc = transform.BoxCox2()
    trec = transform.Reciprocal()
    tsinh = transform.Sinh()
    tlog10 = transform.Log(base=10)
    funs = [(metrics.bias, ref_bias), (metrics.nse, ref_nse),
            (metrics.kge, ref_kge)]

    def all_checks(tag, trans):
        to = trans.forward(obs)
        ts = trans.forward(sim)
        check(f"hist bias {tag}", metrics.bias(obs, sim, trans),
              ref_bias(to, ts, "standard"))
        check(f"hist nse {tag}", metrics.nse(obs, sim, trans),
              ref_nse(to, ts))
        check(f"hist kge {tag}", metrics.kge(obs, sim, trans),
              ref_kge(to, ts))
        check(f"hist corr {tag}", metrics.corr(obs, sim, trans,
                                               type="Pearson"),
              ref_pearson(to, ts))
        check(f"hist spear {tag}", metrics.corr(obs, sim, trans,
                                                type="Spearman"),
              ref_pearson(ref_midranks(to), ref_midranks(ts)))

    for it in range(6):
        tlog.params.values = [0.1+it]
        all_checks(f"log it={it}", tlog)
        tlog10.params.values = [0.1+it]
        all_checks(f"log10 it={it}", tlog10)
        tbc.params.values = [0.1+it, 0.1*it]
        all_checks(f"bc it={it}", tbc)
        trec.params.values = [0.5+it]
        all_checks(f"rec it={it}", trec)
        tsinh.params.values = [0.1*it, 1.+it]
        all_checks(f"sinh it={it}", tsinh)
        all_checks(f"id it={it}", transform.Identity())
        # in place modification of the caller's data (same objects)
        obs[it] = obs[it]*2+1
        sim[-it-1] += 0.5
        all_checks(f"log after inplace it={it}", tlog)
        all_checks(f"id after inplace it={it}", transform.Identity())
        # shorter / longer series interleaved
        o2 = rng.lognormal(size=3+it*37)
        s2 = rng.lognormal(size=3+it*37)
        check(f"hist nse other length it={it}", metrics.nse(o2, s2, tlog),
              ref_nse(tlog.forward(o2), tlog.forward(s2)))
        check(f"hist kge other length it={it}", metrics.kge(o2, s2),
              ref_kge(o2, s2))
        # [n, 1] inputs
        check(f"hist nse column it={it}",
              metrics.nse(o2[:, None], s2[:, None]), ref_nse(o2, s2))
        check(f"hist bias column it={it}",
              metrics.bias(o2[:, None], s2[:, None]),
              ref_bias(o2, s2, "standard"))

    # categorical scores interleaved with different sizes
    for it in range(5):
        for ncat in [2, 6, 3]:
            o = rng.integers(0, ncat, size=10+it)
            s = rng.integers(0, ncat, size=10+it)
            cm = np.asarray(metrics.confusion_matrix(o, s, ncat=ncat))
            ref = np.zeros((ncat, ncat))
            for a, b in zip(o, s):
                ref[a, b] += 1
            check_true("hist confusion", np.array_equal(cm, ref))


# ---------------------------------------------------------------------------
# 4. confusion matrix
# ---------------------------------------------------------------------------
def ref_confusion(obs, sim, ncat):
    cm = np.zeros((ncat, ncat), dtype=np.int64)
    for o, s in zip(obs, sim):
        cm[int(o), int(s)] += 1
    return cm


def check_confusion(obs, sim, ncat_given, label):
    ncat_ref = ncat_given if ncat_given is not None \
        else int(max(np.max(obs), np.max(sim)))+1
    for o, s in [(obs, sim), (list(obs), list(sim)),
                 (np.asarray(obs, dtype=np.int64),
                  np.asarray(sim, dtype=np.int32))]:
        cm = metrics.confusion_matrix(o, s, ncat=ncat_given)
        arr = np.asarray(cm)
        check_true(f"confusion shape {label}", arr.shape ==
                   (ncat_ref, ncat_ref))
        if arr.shape != (ncat_ref, ncat_ref):
            continue
        ref = ref_confusion(obs, sim, ncat_ref)
        check_true(f"confusion counts {label}", np.array_equal(arr, ref))
        check_true(f"confusion total {label}", arr.sum() == len(obs))
        if hasattr(cm, "index"):
            check_true(f"confusion labels {label}",
                       list(cm.index) == list(range(ncat_ref)) and
                       list(cm.columns) == list(range(ncat_ref)))


def part_confusion():
    for ncat in range(2, 7):
        for n in [1, 2, 3, 5, 10, 50, 500]:
            for rep in range(6):
                present = np.arange(ncat)
                if rep % 3 == 1:
                    # categories absent from both series
                    present = rng.choice(ncat, size=max(1, ncat-2),
                                         replace=False)
                obs = rng.choice(present, size=n)
                sim = rng.choice(present, size=n)
                if rep % 3 == 2:
                    # categories absent from one series only
                    obs = rng.choice(present[:max(1, ncat//2)], size=n)
                check_confusion(obs, sim, ncat, f"ncat={ncat} n={n}")
                check_confusion(obs, sim, None, f"ncat=None n={n}")

    # handpicked
    check_confusion(np.array([0]), np.array([0]), 2, "single 00")
    check_confusion(np.array([1]), np.array([0]), 2, "single 10")
    check_confusion(np.array([1]), np.array([0]), None, "single 10 inferred")
    check_confusion(np.array([5]), np.array([2]), None, "single 52 inferred")
    check_confusion(np.array([5]), np.array([2]), 6, "single 52")
    check_confusion(np.array([0, 0, 0]), np.array([0, 0, 0]), 4, "all zero")
    check_confusion(np.array([3, 3, 3]), np.array([1, 1, 1]), None, "3 vs 1")
    check_confusion(np.array([True, False, True]),
                    np.array([False, False, True]), 2, "bool")
    check_confusion(np.array([0, 1, 2, 3, 4, 5]),
                    np.array([5, 4, 3, 2, 1, 0]), None, "antidiag")
    check_confusion(np.array([0, 2, 4]), np.array([4, 2, 0]), 6, "even only")

    # confusion matrix feeds binary
    obs = rng.integers(0, 2, size=200)
    sim = rng.integers(0, 2, size=200)
    cm = metrics.confusion_matrix(obs, sim, ncat=2)
    sc, _ = metrics.binary(cm)
    check("truepos", sc["truepos"], np.sum((obs == 1) & (sim == 1)))
    check("falsepos", sc["falsepos"], np.sum((obs == 0) & (sim == 1)))
    check("trueneg", sc["trueneg"], np.sum((obs == 0) & (sim == 0)))
    check("falseneg", sc["falseneg"], np.sum((obs == 1) & (sim == 0)))


# ---------------------------------------------------------------------------
# 5. binary scores
# ---------------------------------------------------------------------------
def check_binary(TN, FP, FN, TP):
    lab = f"TN={TN} FP={FP} FN={FN} TP={TP}"
    for mat in ([[TN, FP], [FN, TP]], np.array([[TN, FP], [FN, TP]])):
        sc, scr = metrics.binary(mat)
        n = TN+FP+FN+TP
        check(f"hitrate {lab}", sc["hitrate"], float(Fraction(TP, TP+FN)))
        check(f"falsealarm {lab}", sc["falsealarm"],
              float(Fraction(FP, FP+TN)))
        check(f"precision {lab}", sc["precision"],
              float(Fraction(TP, TP+FP)))
        check(f"accuracy {lab}", sc["accuracy"], float(Fraction(TP+TN, n)))
        check(f"bias {lab}", sc["bias"], float(Fraction(TP+FP, TP+FN)))
        check(f"F1 {lab}", sc["F1"], float(Fraction(2*TP, 2*TP+FP+FN)))
        den = (TP+FP)*(TP+FN)*(TN+FP)*(TN+FN)
        num = TP*TN-FP*FN
        mcc = math.copysign(math.sqrt(Fraction(num*num, den)), num) \
            if num != 0 else 0.
        check(f"MCC {lab}", sc["MCC"], mcc)
        odds = Fraction(TP*TN, FP*FN)
        check(f"LOR {lab}", sc["LOR"],
              math.log(TP*TN)-math.log(FP*FN) if odds != 1 else 0.)
        check(f"ORSS {lab}", sc["ORSS"], float((odds-1)/(odds+1)))
        check_true(f"sign {lab}",
                   (odds > 1 and sc["LOR"] > 0 and sc["ORSS"] > 0
                    and sc["MCC"] > 0) or
                   (odds < 1 and sc["LOR"] < 0 and sc["ORSS"] < 0
                    and sc["MCC"] < 0) or
                   (odds == 1 and abs(sc["LOR"]) < 1e-12
                    and abs(sc["ORSS"]) < 1e-12 and abs(sc["MCC"]) < 1e-12))
        check_true(f"counts {lab}",
                   (sc["truepos"], sc["falsepos"], sc["trueneg"],
                    sc["falseneg"]) == (TP, FP, TN, FN))

        # scores of independent forecasts
        Pobs, Psim = TP+FN, TP+FP
        check(f"rand hitrate {lab}", scr["hitrate"], float(Fraction(Psim, n)))
        check(f"rand falsealarm {lab}", scr["falsealarm"],
              float(Fraction(Psim, n)))
        check(f"rand precision {lab}", scr["precision"],
              float(Fraction(Pobs, n)))
        check(f"rand accuracy {lab}", scr["accuracy"],
              float(Fraction(Pobs*Psim+(n-Pobs)*(n-Psim), n*n)))
        check(f"rand MCC {lab}", scr["MCC"], 0., atol=1e-9)
        check(f"rand LOR {lab}", scr["LOR"], 0., atol=1e-9)
        check(f"rand F1 {lab}", scr["F1"],
              float(Fraction(2*Pobs*Psim, n*(Pobs+Psim))))


def part_binary():
    for TN, FP, FN, TP in itertools.product(range(1, 6), repeat=4):
        check_binary(TN, FP, FN, TP)
    # odds ratio exactly one with unequal cells
    for cells in [(2, 1, 6, 3), (3, 6, 1, 2), (10, 5, 4, 2), (1, 1, 1, 1),
                  (7, 7, 7, 7), (1000, 10, 100, 1)]:
        check_binary(*cells)
    # large and unbalanced counts
    for rep in range(300):
        mag = rng.integers(1, 7, size=4)
        cells = [int(rng.integers(1, 10**m+1)) for m in mag]
        check_binary(*cells)
    check_binary(1, 1, 1, 10**6)
    check_binary(10**6, 1, 1, 1)
    check_binary(1, 10**6, 10**6, 1)
    check_binary(10**6, 10**6, 10**6, 10**6)
    check_binary(10**6, 10**6-1, 10**6+1, 10**6)


if __name__ == "__main__":
    part_scores()
    part_consequences()
    part_histories()
    part_confusion()
    part_binary()
    print(f"{NCHECK} checks, {NFAIL} failures")
    sys.exit(0 if NFAIL == 0 else 1)
