""" C18 demo (rewrite r1: Catchment keeps its delineation products in one
internal record). Checks, through the PUBLIC interface only, that Catchment
methods and grid-level functions leave their arguments untouched and give
the same answers when repeated.

Run as: PYTHONPATH=<tree>/src /venv/bin/python demo.py
"""
import sys
import warnings
import numpy as np
import pandas as pd

warnings.filterwarnings("ignore")

from hydrodiy.gis.grid import Grid, Catchment, accumulate, voronoi, \
    delineate_river, slope

NFAIL = 0
NCHECK = 0


def fail(msg):
    global NFAIL
    NFAIL += 1
    print("FAIL:", msg)


# ---------- snapshots of arguments -------------------------------------
def snap(a):
    """ Bit-for-bit snapshot of an argument """
    if isinstance(a, Grid):
        # grids: cell values (and geometry)
        return ("grid", a.nrows, a.ncols, a.cellsize, a.xllcorner,
                a.yllcorner, np.array(a.data, dtype=np.float64).tobytes())
    if isinstance(a, np.ndarray):
        return ("nd", str(a.dtype), a.shape, a.strides,
                np.ascontiguousarray(a).tobytes(), a.flags["WRITEABLE"])
    if isinstance(a, pd.Series):
        return ("se", str(a.dtype), a.shape, a.values.tobytes(),
                tuple(a.index), a.name)
    if isinstance(a, pd.DataFrame):
        return ("df", tuple(map(str, a.dtypes)), a.shape,
                np.ascontiguousarray(a.values).tobytes(),
                tuple(a.index), tuple(a.columns))
    if isinstance(a, (list, tuple)):
        return ("seq", type(a).__name__, tuple(snap(x) for x in a))
    return ("obj", repr(a))


# ---------- equality of results ----------------------------------------
def same(x, y):
    if isinstance(x, Catchment):
        return isinstance(y, Catchment) and same(pubstate(x), pubstate(y))
    if isinstance(x, Grid):
        return isinstance(y, Grid) and snap(x) == snap(y) \
            and x.dtype == y.dtype
    if isinstance(x, np.ndarray):
        return isinstance(y, np.ndarray) and x.dtype == y.dtype \
            and x.shape == y.shape \
            and np.ascontiguousarray(x).tobytes() == \
            np.ascontiguousarray(y).tobytes()
    if isinstance(x, (pd.Series, pd.DataFrame)):
        return type(x) is type(y) and snap(x) == snap(y)
    if isinstance(x, dict):
        return isinstance(y, dict) and list(x) == list(y) \
            and all(same(x[k], y[k]) for k in x)
    if isinstance(x, (list, tuple)):
        return type(x) is type(y) and len(x) == len(y) \
            and all(same(u, v) for u, v in zip(x, y))
    if isinstance(x, (float, np.floating)):
        return type(x) is type(y) and (x == y or (x != x and y != y))
    if isinstance(x, BaseException):
        return type(x) is type(y)
    return type(x) is type(y) and x == y


def run(fun, *args, **kwargs):
    try:
        return fun(*args, **kwargs)
    except Exception as err:
        return err


def check(label, fun, *args, **kwargs):
    """ Call fun twice: arguments untouched, same answer """
    global NCHECK
    NCHECK += 1
    before = snap(list(args)) + snap(list(kwargs.values()))
    r1 = run(fun, *args, **kwargs)
    mid = snap(list(args)) + snap(list(kwargs.values()))
    r2 = run(fun, *args, **kwargs)
    after = snap(list(args)) + snap(list(kwargs.values()))
    if before != mid or before != after:
        fail(f"{label}: arguments modified")
    if not same(r1, r2):
        fail(f"{label}: two calls differ: {r1!r} / {r2!r}")
    return r1


# ---------- public state of a catchment --------------------------------
PROPS = ["idxcell_outlet", "idxinlets", "idxcells_area",
         "idxcells_area_filled", "idxcells_boundary", "xycells_boundary",
         "flowpathlengths"]


def pubstate(ca):
    out = {"name": ca.name, "flowdir": ca.flowdir}
    for p in PROPS:
        out[p] = run(getattr, ca, p)
    out["str"] = str(ca)
    return out


# ---------- flow direction grids ---------------------------------------
FD6 = [[0, 4, 4, 4, 0, 0],
       [0, 4, 4, 8, 0, 0],
       [0, 2, 4, 8, 0, 0],
       [0, 0, 2, 0, 0, 0],
       [0, 0, 0, 4, 0, 0],
       [0, 0, 0, 0, 0, 0]]


def make_grid(values, dtype):
    values = np.array(values)
    gr = Grid("fd", values.shape[1], values.shape[0], dtype=dtype,
              nodata=-1)
    gr.data = values
    return gr


# a catchment with a hole: ring of cells draining to the right column
FDHOLE = np.zeros((7, 7), dtype=int)
FDHOLE[1, 1:5] = 1    # flow east
FDHOLE[1, 5] = 4      # south
FDHOLE[2:5, 5] = 4
FDHOLE[5, 5] = 4
FDHOLE[2:6, 1] = 64   # north
FDHOLE[5, 2:5] = 16   # west

GRIDS = {
    "fd6_i32": make_grid(FD6, np.int32),
    "fd6_i64": make_grid(FD6, np.int64),
    "fd6_f64": make_grid(FD6, np.float64),
    "hole_i64": make_grid(FDHOLE, np.int64),
    "one_cell": make_grid([[0]], np.int64),
    "two_cells": make_grid([[1, 0]], np.int64),
    "col": make_grid([[4], [4], [0]], np.int32),
}


def inlets_variants():
    base = np.array([14, 99, 13, 99], dtype=np.int64)
    return [None, 14, [14, 13], np.array([14, 13]),
            base[::2],                               # non contiguous
            np.array([14, 13], dtype=np.int32),
            pd.Series([14, 13]), np.array([13.0])]


def catchment_checks(gname, fd):
    ncells = fd.nrows*fd.ncols
    outlets = sorted(set([0, ncells-1, ncells//2, 27 % ncells,
                          12 % ncells, 14 % ncells, 41 % ncells]))

    # constructor leaves the grid alone, two constructions agree
    fdsnap = snap(fd)
    fddtype = fd.dtype
    ca = check(f"{gname} Catchment()", Catchment, "c", fd)
    if fd.dtype != fddtype or snap(fd) != fdsnap:
        fail(f"{gname}: constructor changed its flowdir argument")
    if ca.flowdir is fd:
        fail(f"{gname}: catchment does not own its flow direction grid")

    # before delineation: same errors twice
    for meth in ["delineate_boundary", "compute_flowpathlengths",
                 "to_dict", "extent"]:
        check(f"{gname} undelineated {meth}",
              lambda m=meth: getattr(Catchment("c", fd), m)())
    check(f"{gname} undelineated isin",
          lambda: Catchment("c", fd).isin(3))
    check(f"{gname} undelineated state", lambda: pubstate(Catchment("c", fd)))

    for outlet in outlets + [-1, ncells]:
        for inl in inlets_variants():
            for nval in [1000, 3, 1]:
                label = f"{gname} out={outlet} inl={inl!r} nval={nval}"

                def scenario(inl=inl, outlet=outlet, nval=nval):
                    """ full history on a fresh object """
                    c = Catchment("c", fd)
                    hist = []
                    hist.append(run(c.delineate_area, outlet, inl, nval))
                    hist.append(pubstate(c))
                    # same call again on the same object
                    hist.append(run(c.delineate_area, outlet, inl, nval))
                    hist.append(pubstate(c))
                    hist.append(run(c.delineate_boundary))
                    hist.append(pubstate(c))
                    hist.append(run(c.delineate_boundary))
                    hist.append(pubstate(c))
                    hist.append(run(c.compute_flowpathlengths))
                    hist.append(pubstate(c))
                    hist.append(run(c.extent))
                    hist.append(run(c.to_dict))
                    for cell in [outlet, 0, ncells-1]:
                        hist.append(run(c.isin, cell))
                        hist.append(run(c.isin, cell, True))
                    cl = c.clone()
                    hist.append(pubstate(cl))
                    dic = run(c.to_dict)
                    if isinstance(dic, dict):
                        # (from_dict may refuse a dictionary, e.g. for a
                        #  grid built from float data: an error is fine
                        #  as long as it is the same error twice)
                        c2 = run(Catchment.from_dict, dic)
                        hist.append(c2)
                        if isinstance(c2, Catchment):
                            hist.append(run(c2.delineate_boundary))
                            hist.append(pubstate(c2))
                    return hist

                hist = check(label, scenario)
                if isinstance(hist, BaseException):
                    fail(label + f": scenario raised {hist!r}")
                    continue
                # repeated call on the same object gave the same state
                if not same(hist[1], hist[3]):
                    fail(label + ": delineate_area twice, state differs")
                if not same(hist[0], hist[2]):
                    fail(label + ": delineate_area twice, answers differ")
                if not same(hist[5], hist[7]):
                    fail(label + ": delineate_boundary twice differs")
        # inlet arrays passed by the caller stay as they are
        inl = np.array([14, 99, 13, 99], dtype=np.int64)[::2] % ncells
        c = Catchment("c", fd)
        check(f"{gname} inlets untouched", c.delineate_area, outlet, inl)
        if isinstance(run(getattr, c, "idxinlets"), np.ndarray):
            if np.shares_memory(c.idxinlets, inl):
                fail(f"{gname}: catchment aliases the caller's inlets")

    # upstream / downstream with many layouts
    c = Catchment("c", fd)
    allc = np.arange(ncells)
    for name, idx in [("range", allc), ("i32", allc.astype(np.int32)),
                      ("rev", allc[::-1]), ("step", np.repeat(allc, 2)[::2]),
                      ("series", pd.Series(allc)), ("one", allc[:1]),
                      ("two", allc[:2]), ("scalar", 0),
                      ("float", allc.astype(float)),
                      ("bad", np.array([0, ncells])), ("neg", np.array([-1])),
                      ("empty", allc[:0])]:
        check(f"{gname} upstream {name}", c.upstream, idx)
        check(f"{gname} downstream {name}", c.downstream, idx)
    if snap(c.flowdir) != snap(fd):
        fail(f"{gname}: upstream/downstream changed the flow directions")


def grid_function_checks():
    fd = GRIDS["fd6_i32"].clone()
    ca = Catchment("c", fd)
    ca.delineate_area(27)
    ca.delineate_boundary()
    st0 = pubstate(ca)

    # intersect: the grid argument keeps its cells, the catchment its state
    for dtype in [np.float64, np.int32]:
        for filled in [False, True]:
            gr = Grid("g", 3, 3, xllcorner=fd.xllcorner+1,
                      yllcorner=fd.yllcorner+1, cellsize=2, dtype=dtype)
            gr.data = np.arange(9).reshape((3, 3))
            check(f"intersect {dtype.__name__} filled={filled}",
                  ca.intersect, gr, filled)
    if not same(st0, pubstate(ca)):
        fail("intersect changed the public state of the catchment")

    # voronoi: points as float / int / non contiguous / data frame
    pts = np.array([[0., 0.], [0., 5.], [5., 0.], [5., 5.]])
    big = np.zeros((8, 4))
    big[::2, ::2] = pts
    variants = {"c": pts, "f": np.asfortranarray(pts), "nc": big[::2, ::2],
                "int": pts.astype(np.int64), "i32": pts.astype(np.int32),
                "df": pd.DataFrame(pts, columns=["x", "y"]),
                "one": pts[:1], "two": pts[:2], "tie": pts[[0, 0, 1]],
                "nan": np.array([[np.nan, 0.], [1., 1.]])}
    ref = None
    for name, xy in variants.items():
        w = check(f"voronoi {name}", voronoi, ca, xy)
        if name in ["c", "f", "nc", "int", "i32", "df"]:
            ref = w if ref is None else ref
            if not same(ref, w):
                fail(f"voronoi {name}: layout changes the answer")
    if not same(st0, pubstate(ca)):
        fail("voronoi changed the public state of the catchment")
    check("voronoi undelineated", voronoi, Catchment("c", fd), pts)

    # +/- of catchments
    ca1 = Catchment("a", fd)
    ca1.delineate_area(13)
    ca2 = Catchment("b", fd)
    ca2.delineate_area(14)
    s1, s2 = pubstate(ca1), pubstate(ca2)
    check("add", lambda: pubstate(ca1+ca2))
    check("sub", lambda: pubstate(ca1-ca2))
    check("add undelineated", lambda: pubstate(ca1+Catchment("z", fd)))
    if not same(s1, pubstate(ca1)) or not same(s2, pubstate(ca2)):
        fail("+/- changed their operands")
    tot = ca1+ca2
    if sorted(tot.idxcells_area) != [1, 2, 3, 7, 8, 9, 13, 14]:
        fail("add: unexpected area")

    # grid level functions: cell values of grid arguments stay
    for gname in ["fd6_i32", "fd6_i64", "hole_i64", "one_cell", "two_cells",
                  "col"]:
        g = GRIDS[gname].clone()
        check(f"accumulate {gname}", accumulate, g, nprint=1000)
        toacc = g.clone(np.float64)
        toacc.fill(0.1)
        check(f"accumulate {gname} field", accumulate, g, toacc, 1000)
        check(f"accumulate {gname} maxcells", accumulate, g,
              nprint=1000, max_accumulated_cells=2)
        alt = g.clone(np.float64)
        alt.data = np.arange(g.nrows*g.ncols)[::-1].reshape(g.shape)
        check(f"slope {gname}", slope, g, alt, 1000)
        for up in [0, 1 % (g.nrows*g.ncols), g.nrows*g.ncols-1, -1,
                   g.nrows*g.ncols]:
            check(f"river {gname} {up}", delineate_river, g, up, 50)
            check(f"river {gname} {up} short", delineate_river, g, up, 1)


def main():
    for gname, fd in GRIDS.items():
        catchment_checks(gname, fd.clone())

    # expected areas (semantic anchor, from the library's own tests)
    ca = Catchment("t", GRIDS["fd6_i32"])
    ca.delineate_area(27)
    if sorted(ca.idxcells_area) != [1, 2, 3, 7, 8, 9, 13, 14, 15, 20, 27]:
        fail("area of outlet 27")
    ca.delineate_area(27, [14, 13])
    if sorted(ca.idxcells_area) != [15, 20, 27]:
        fail("area of outlet 27 with two inlets")
    ca.delineate_area(12)
    if len(ca.idxcells_area) != 0 or len(ca.idxcells_area_filled) != 0:
        fail("empty area")
    # hole is filled
    ch = Catchment("h", GRIDS["hole_i64"])
    ch.delineate_area(5*7+5)
    if len(ch.idxcells_area_filled) <= len(ch.idxcells_area):
        fail("hole not filled")

    grid_function_checks()

    print(f"{NCHECK} checks, {NFAIL} failures")
    sys.exit(1 if NFAIL else 0)


if __name__ == "__main__":
    main()
