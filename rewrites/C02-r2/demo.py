#!/usr/bin/env python
""" Demo / self-check for property C02 of hydrodiy.stat.transform

  jacobian(x) == d forward / dx  (relative accuracy 1e-4), jacobian > 0,
  forward non-decreasing on all ordered pairs of domain points (strictly
  increasing where the increase is larger than rounding noise).

  For Softmax the jacobian is compared with the determinant of the matrix of
  partial derivatives.

  Run as:  PYTHONPATH=<tree>/src /venv/bin/python demo.py
  Exits 0 if every check passes, 1 otherwise.
"""
import sys
import math
import warnings
import itertools
import numpy as np

from hydrodiy.stat import transform

warnings.simplefilter("ignore")
np.seterr(all="ignore")

RTOL = 1e-4
EPS = 1e-10          # same constant than transform.EPS
FAILURES = []
COUNTS = {"deriv": 0, "mono_pairs": 0, "strict_pairs": 0, "cases": 0,
          "softmax_pts": 0, "misc": 0}


def fail(msg):
    FAILURES.append(msg)
    if len(FAILURES) <= 40:
        print("FAIL:", msg)


# --------------------------------------------------------------------------
# Numerical derivative: 5 point central stencil, steps are powers of two and
# are only used if x+-h and x+-2h are exactly representable
# --------------------------------------------------------------------------
def exact_steps(x, h):
    pts = [x - 2 * h, x - h, x + h, x + 2 * h]
    return (pts[0] - x == -2 * h) and (pts[1] - x == -h) \
        and (pts[2] - x == h) and (pts[3] - x == 2 * h)


def stencil_derivative(fun, x, h):
    xs = np.array([x - 2 * h, x - h, x + h, x + 2 * h])
    f = fun(xs)
    if not np.all(np.isfinite(f)):
        return np.nan
    return (f[0] - 8 * f[1] + 8 * f[2] - f[3]) / (12 * h)


def snap(x, length):
    """ Round x to a multiple of 2^-30 times its characteristic length
        so that many power of two steps are exactly representable """
    q = math.ldexp(1., math.frexp(length)[1] - 30)
    return round(x / q) * q


def check_derivative(label, trans, x, room, length=None):
    """ Check jacobian at x against stencil derivative of forward.
        room is the distance from x to the closest end of the smooth
        branch x belongs to (np.inf if none). length is the characteristic
        length of variation of the transform around x (room if not given).
    """
    if length is None:
        length = room
    length = min(length, room)
    x = snap(x, length)

    jac = trans.jacobian(np.array([x]))[0]
    if not (np.isfinite(jac) and jac > 0):
        fail(f"{label}: jacobian({x!r}) = {jac!r} is not finite and > 0")
        return

    best = np.inf
    e0 = math.frexp(length)[1]
    nsteps = 0
    for k in range(2, 24):
        h = math.ldexp(1., e0 - k)
        if not 2 * h < room:
            continue
        if not exact_steps(x, h):
            continue
        der = stencil_derivative(trans.forward, x, h)
        if np.isnan(der):
            continue
        nsteps += 1
        err = abs(der - jac) / abs(jac)
        best = min(best, err)
        if best < RTOL / 10:
            break

    if nsteps == 0:
        fail(f"{label}: no stencil available at {x!r} (demo problem)")
        return

    COUNTS["deriv"] += 1
    if not best <= RTOL:
        fail(f"{label}: jacobian({x!r})={jac!r} differs from the stencil"
             f" derivative of forward (best rel. err. {best:3.3e})")


# --------------------------------------------------------------------------
# Monotonicity
# --------------------------------------------------------------------------
def neighbours(x):
    return [np.nextafter(x, -np.inf), x, np.nextafter(x, np.inf)]


def check_monotone(label, trans, pts, inside, absfloor=0., mono_tol=0.):
    """ pts: iterable of domain points (any order, ties allowed).
        inside: function telling if a point is in the domain.
        absfloor: magnitude of the intermediate quantities from which
            forward is computed (sets the rounding noise level when forward
            is obtained by cancellation, e.g. (w^lam-1)/lam)
        mono_tol: what "within rounding" means for this transform when two
            points sit on either side of a branch switch (in units of eps
            times absfloor)
    """
    tol = mono_tol * np.finfo(float).eps * absfloor
    allpts = []
    for p in pts:
        for q in neighbours(p):
            if inside(q):
                allpts.append(q)
    # .. ties
    allpts = allpts + allpts[::7]
    xs = np.sort(np.array(allpts, dtype=np.float64))
    ys = trans.forward(xs)

    if ys.shape != xs.shape:
        fail(f"{label}: forward changes shape {xs.shape}->{ys.shape}")
        return

    if np.any(np.isnan(ys)):
        i = int(np.where(np.isnan(ys))[0][0])
        fail(f"{label}: forward({xs[i]!r}) is nan on a domain point")
        return

    # Weak monotonicity on every consecutive pair -> on every ordered pair
    d = np.diff(ys)
    COUNTS["mono_pairs"] += len(d)
    if np.any(d < -tol):
        i = int(np.where(d < -tol)[0][0])
        fail(f"{label}: forward not monotone: f({xs[i]!r})={ys[i]!r} >"
             f" f({xs[i+1]!r})={ys[i+1]!r}")

    # Ties give identical values
    same = np.diff(xs) == 0
    if np.any(d[same] != 0):
        fail(f"{label}: identical inputs give different outputs")

    # Strict increase when the expected increase is well above rounding
    coarse = np.unique(np.array([p for p in pts if inside(p)]))
    if len(coarse) > 1:
        yc = trans.forward(coarse)
        jc = trans.jacobian(coarse)
        for i in range(len(coarse) - 1):
            j0, j1 = jc[i], jc[i + 1]
            if np.isnan(j0) or np.isnan(j1):
                continue
            gap = 0.25 * min(j0, j1) * (coarse[i + 1] - coarse[i])
            noise = 256 * np.finfo(float).eps * max(abs(yc[i]),
                                                    abs(yc[i + 1]),
                                                    absfloor, 1e-300)
            if gap > noise and np.isfinite(gap):
                COUNTS["strict_pairs"] += 1
                if not yc[i + 1] > yc[i]:
                    fail(f"{label}: forward not strictly increasing between"
                         f" {coarse[i]!r} and {coarse[i+1]!r}")

    # Length 1 / length 2 arrays and scalars consistent with long arrays
    idx = np.unique(np.linspace(0, len(xs) - 1, 9).astype(int))
    for i in idx:
        y1 = trans.forward(xs[i:i + 1])
        if y1.shape != (1,) or not np.isclose(y1[0], ys[i], rtol=1e-12,
                                              atol=0, equal_nan=True):
            fail(f"{label}: length 1 forward inconsistent at {xs[i]!r}")
        j1 = trans.jacobian(xs[i:i + 1])
        if j1.shape != (1,):
            fail(f"{label}: length 1 jacobian has shape {j1.shape}")

        if i + 1 < len(xs):
            y2 = trans.forward(xs[i:i + 2])
            if y2.shape != (2,) or y2[0] > y2[1] + tol:
                fail(f"{label}: length 2 forward not ordered at {xs[i]!r}")
            if not np.allclose(y2, ys[i:i + 2], rtol=1e-12, atol=0):
                fail(f"{label}: length 2 forward inconsistent at {xs[i]!r}")

        if trans.name != "YeoJohnson":
            # YeoJohnson does not accept python scalars (numpy >= 2.x,
            # unmodified tree as well)
            xf = float(xs[i])
            yf = trans.forward(xf)
            if not isinstance(yf, float) or \
                    not np.isclose(yf, ys[i], rtol=1e-12, atol=0):
                fail(f"{label}: scalar forward inconsistent at {xf!r}")
            jf = trans.jacobian(xf)
            ja = trans.jacobian(xs[i:i + 1])[0]
            if not isinstance(jf, float) or \
                    not np.isclose(jf, ja, rtol=1e-12, atol=0,
                                   equal_nan=True):
                fail(f"{label}: scalar jacobian inconsistent at {xf!r}")

    # NaN in input do not disturb the other values
    xn = xs.copy()
    xn[::3] = np.nan
    yn = trans.forward(xn)
    ok = ~np.isnan(xn)
    if not np.allclose(yn[ok], ys[ok], rtol=1e-12, atol=0):
        fail(f"{label}: nan in inputs modify forward on other elements")
    if not np.all(np.isnan(yn[~ok])):
        fail(f"{label}: forward(nan) is not nan")
    jn = trans.jacobian(xn)
    ja = trans.jacobian(xs)
    if not np.allclose(jn[ok], ja[ok], rtol=1e-12, atol=0, equal_nan=True):
        fail(f"{label}: nan in inputs modify jacobian on other elements")


# --------------------------------------------------------------------------
# Point generators
# --------------------------------------------------------------------------
GEO = [2.**k for k in range(-18, 19, 3)] + [0.3, 0.7, 1.1, 3.3, 17.9,
                                            123.456, 9876.5]


def pts_above(lo, minroom=1e-6, maxval=1e6):
    """ Interior points of (lo, +inf) with their room to lo """
    out = []
    for g in GEO:
        if g < minroom or g > maxval:
            continue
        x = lo + g
        room = x - lo
        if room > 0:
            out.append((x, room))
    return out


def run_case(label, trans, dpoints, mpoints, inside, absfloor=0.,
             mono_tol=0.):
    COUNTS["cases"] += 1
    for item in dpoints:
        check_derivative(label, trans, *[float(v) for v in item])
    check_monotone(label, trans, [float(p) for p in mpoints], inside,
                   absfloor, mono_tol)


# --------------------------------------------------------------------------
# Transforms
# --------------------------------------------------------------------------
def case_identity():
    trans = transform.Identity()
    pts = [-1e300, -1e6, -3.3, -1., -1e-300, 0., 5e-324, 1e-8, 1., 2.,
           7.7, 1e10, 1e300]
    dp = [(x, np.inf, max(abs(x), 1.)) for x in pts
          if abs(x) > 1e-3 and abs(x) < 1e20]
    run_case("Identity", trans, dp, pts, lambda x: np.isfinite(x))


def case_logit():
    for lower, logdelta in [(0., 0.), (-3., 2.), (5., -10.), (1.5, 10.),
                            (-10., -5.), (0.25, 3.3), (-1e3, 0.7)]:
        trans = transform.Logit()
        trans.params.values = [lower, logdelta]
        lower, logdelta = trans.params.values
        upper = lower + math.exp(logdelta)
        span = upper - lower
        label = f"Logit(lower={lower},logdelta={logdelta})"
        vs = [1e-4, 1e-3, 0.01, 0.05, 0.1, 0.25, 0.3, 0.5, 0.51, 0.66,
              0.75, 0.9, 0.95, 0.99, 0.999, 0.9999]
        dp = []
        for v in vs:
            x = lower + v * span
            room = min(x - lower, upper - x)
            if room > 100 * EPS:
                dp.append((x, room))

        def inside(x, lower=lower, upper=upper):
            return (x > lower) and (x < upper)
        mp = [lower + v * span for v in vs + [1e-9, 1e-6, 1 - 1e-6,
                                              1 - 1e-9]]
        run_case(label, trans, dp, mp, inside)


def case_log():
    for mininu, base in [(EPS, None), (EPS, 10), (EPS, 2), (0.5, None),
                         (1e-3, math.e), (EPS, 0.5 + 1)]:
        for nu in [mininu, mininu + 1e-3, 1., 50.]:
            trans = transform.Log(mininu=mininu, base=base)
            trans.nu = nu
            nu = trans.nu
            label = f"Log(mininu={mininu},base={base},nu={nu})"
            dp = [(x, r) for x, r in pts_above(-nu) if x + nu > 2 * mininu]
            mp = [x for x, r in pts_above(-nu, 1e-12, 1e300)] + \
                [-nu + 1e-200 if nu < 1e-5 else -nu * (1 - 1e-15),
                 1e100, 1e300]
            run_case(label, trans, dp, mp, lambda x, nu=nu: x + nu > 0)


BC_LAMS = [0., 5e-11, 1e-10, 1e-6, 1e-3, 0.2, 0.5, 1., 1.5, 2., 2.5, 3.]
BC_LAMS_NEG = [-2., -1., -0.5, -1e-3, -5e-11]
BC_NUS = [EPS, 0.1, 2.]


def boxcox_floor(lam):
    """ forward is (w^lam-1)/lam: rounding noise is eps/lam """
    return max(1., 1. / abs(lam)) if abs(lam) > EPS else 1.


def boxcox_points(nu, mininu, lam):
    dp = [(x, r) for x, r in pts_above(-nu, 1e-4, 1e4)
          if x + nu > 2 * mininu]
    mp = [x for x, r in pts_above(-nu, 1e-9, 1e30)]
    return dp, mp


def case_boxcox2():
    for minilam, lams in [(0., BC_LAMS), (-2., BC_LAMS_NEG + [0.3])]:
        for nu, lam in itertools.product(BC_NUS, lams):
            trans = transform.BoxCox2(minilam=minilam)
            trans.params.values = [nu, lam]
            nu, lam = trans.params.values
            label = f"BoxCox2(nu={nu},lam={lam})"
            dp, mp = boxcox_points(nu, EPS, lam)
            run_case(label, trans, dp, mp, lambda x, nu=nu: x + nu > 0,
                     boxcox_floor(lam))

    # larger mininu
    trans = transform.BoxCox2(mininu=0.5)
    trans.params.values = [0.75, 0.3]
    dp, mp = boxcox_points(0.75, 0.5, 0.3)
    run_case("BoxCox2(mininu=0.5)", trans, dp, mp, lambda x: x + 0.75 > 0)

    # via get_transform
    trans = transform.get_transform("BoxCox2", lam=0.4, nu=0.3)
    dp, mp = boxcox_points(0.3, EPS, 0.4)
    run_case("BoxCox2(get_transform)", trans, dp, mp,
             lambda x: x + 0.3 > 0)


def case_boxcox1lam():
    for nu, lam in itertools.product(BC_NUS, BC_LAMS):
        trans = transform.BoxCox1lam()
        trans.nu = nu
        trans.lam = lam
        nu, lam = trans.nu, trans.lam
        label = f"BoxCox1lam(nu={nu},lam={lam})"
        dp, mp = boxcox_points(nu, EPS, lam)
        run_case(label, trans, dp, mp, lambda x, nu=nu: x + nu > 0,
                 boxcox_floor(lam))


def case_boxcox1nu():
    for nu, lam in itertools.product(BC_NUS, BC_LAMS):
        trans = transform.BoxCox1nu()
        trans.lam = lam
        trans.nu = nu
        nu, lam = trans.nu, trans.lam
        label = f"BoxCox1nu(nu={nu},lam={lam})"
        dp, mp = boxcox_points(nu, EPS, lam)
        run_case(label, trans, dp, mp, lambda x, nu=nu: x + nu > 0,
                 boxcox_floor(lam))


def case_boxcox2sym():
    for minilam, lams in [(0., BC_LAMS), (-2., [-1., -0.5])]:
        for nu, lam in itertools.product(BC_NUS, lams):
            if lam < 0 and nu < 0.01:
                # forward is obtained by subtracting forward(0)=O(nu^lam):
                # the derivative cannot be checked numerically
                continue
            trans = transform.BoxCox2sym(minilam=minilam)
            trans.params.values = [nu, lam]
            nu, lam = trans.params.values
            label = f"BoxCox2sym(nu={nu},lam={lam})"
            # Branches are x<0 and x>0: room is the distance to 0
            dp = []
            for g in GEO:
                if g < 1e-4 or g > 1e4 or g + nu <= 2 * EPS:
                    continue
                dp += [(g, g), (-g, g)]
            mp = [0., 5e-324, -5e-324]
            for g in GEO + [1e-12, 1e-9, 1e12, 1e30]:
                mp += [g, -g]
            floor = boxcox_floor(lam) * max(1., nu**lam)
            run_case(label, trans, dp, mp, lambda x: np.isfinite(x), floor)


YJ_LAMS = [-1., -0.5, 0., 1e-9, 1e-6, 0.5, 1., 1.5, 2. - 1e-5, 2.,
           2. + 3e-5, 2.5, 3.]


def case_yeojohnson():
    for nu, scale, lam in itertools.product([0., -2., 3.], [1e-5, 1., 7.],
                                            YJ_LAMS):
        trans = transform.YeoJohnson()
        trans.params.values = [nu, scale, lam]
        nu, scale, lam = trans.params.values
        label = f"YeoJohnson(nu={nu},scale={scale},lam={lam})"
        # sign change of w = nu + scale * x
        x0 = -nu / scale
        dp = []
        mp = [x0, x0 + 1e-11 / scale, x0 + 1e-10 / scale, x0 - 1e-10 / scale,
              x0 + 2e-10 / scale]
        for g in GEO:
            if g >= 1e-4 and g <= 1e4:
                # room in x units to the sign change (keep away from
                # the w=EPS switch)
                room = (g - 1e-6) / scale
                dp += [(x0 + g / scale, room), (x0 - g / scale, room)]
            mp += [x0 + g / scale, x0 - g / scale]
        mp += [x0 + 1e8 / scale, x0 - 1e8 / scale]
        # forward is ((1+w)^lam-1)/lam or -((1-w)^(2-lam)-1)/(2-lam)
        # depending on w<EPS or w>=EPS. Both are computed from 1+-w with
        # absolute rounding noise eps/lam and eps/(2-lam): at the switch
        # the two formulas agree within that noise only.
        floor = 1.
        if not np.isclose(lam, 0.):
            floor = max(floor, 1. / abs(lam))
        if not np.isclose(lam, 2.):
            floor = max(floor, 1. / abs(2 - lam))
        run_case(label, trans, dp, mp, lambda x: np.isfinite(x), floor, 8.)


def case_logsinh():
    for loga, logb, xmax in [(-1., 0., 1.), (-20., -5., 1.), (0., 5., 1.),
                             (-3., 0.3, 37.5), (-0.1, -0.1, 5.),
                             (-20., 5., 2.), (0., -5., 100.),
                             (-7.3, 1.1, 1e-3)]:
        trans = transform.LogSinh()
        trans.params.values = [loga, logb]
        trans.xmax = xmax
        loga, logb = trans.params.values
        a, b = math.exp(loga), math.exp(logb)
        label = f"LogSinh(loga={loga},logb={logb},xmax={xmax})"
        # domain: x/xmax > -a/b + EPS
        lo = (-a / b + EPS) * xmax
        dp = []
        mp = []
        for g in GEO + [1e-8, 1e-7]:
            # g is the value of w = a + b x/xmax
            x = (g - a) / b * xmax
            if x / xmax <= -a / b + 2 * EPS:
                continue
            if g <= 40:
                mp.append(x)
            if g >= 1e-4 and g <= 30 and x - lo > 1e-6 * xmax:
                dp.append((x, x - lo))
        mp += [0., xmax, 5 * xmax]

        def inside(x, a=a, b=b, xmax=xmax):
            return x / xmax > -a / b + EPS
        run_case(label, trans, dp, mp, inside)


def case_reciprocal():
    for mininu, nu in [(EPS, EPS), (EPS, 0.5), (EPS, 4.), (0.2, 0.2),
                       (0.2, 11.)]:
        trans = transform.Reciprocal(mininu=mininu)
        trans.nu = nu
        nu = trans.nu
        label = f"Reciprocal(mininu={mininu},nu={nu})"
        dp = pts_above(-nu, 1e-6, 1e6)
        mp = [x for x, r in pts_above(-nu, 1e-12, 1e300)] + [1e100]
        run_case(label, trans, dp, mp, lambda x, nu=nu: x > -nu)


def case_sinh():
    for nu, scale in [(0., 1.), (-3., 1e-10), (2., 1e3), (0., 1e8),
                      (1e3, 0.37), (-0.5, 25.)]:
        trans = transform.Sinh()
        trans.params.values = [nu, scale]
        nu, scale = trans.params.values
        label = f"Sinh(nu={nu},scale={scale})"
        dp, mp = [], [nu]
        for g in GEO + [1e8, 1e12]:
            # g is the value of |u|
            for s in [-1, 1]:
                x = nu + s * g / scale
                mp.append(x)
                if g >= 1e-4:
                    dp.append((x, np.inf, max(g, 1.) / scale))
        mp += [nu + 1e100 / scale, nu - 1e100 / scale]
        dp.append((nu + 2.**-30 / scale, np.inf, 1. / scale))
        run_case(label, trans, dp, mp, lambda x: np.isfinite(x))


def case_manly():
    for lam, xmax in itertools.product([-5., -1., -1e-3, -1e-10, 0., 5e-11,
                                        1e-9, 1e-6, 0.1, 1., 5.],
                                       [1., 20.]):
        trans = transform.Manly()
        trans.lam = lam
        trans.xmax = xmax
        lam = trans.lam
        label = f"Manly(lam={lam},xmax={xmax})"
        dp, mp = [], [0.]
        for g in GEO:
            for s in [-1, 1]:
                u = s * g
                if abs(lam * u) > 15 or abs(u) > 1e4:
                    continue
                x = u * xmax
                mp.append(x)
                if g >= 1e-4:
                    length = xmax * min(1e3, 1. / max(abs(lam), 1e-300))
                    dp.append((x, np.inf, length))
        floor = max(1., 1. / abs(lam)) if abs(lam) > EPS else 1.
        run_case(label, trans, dp, mp, lambda x: np.isfinite(x), floor)


def case_softmax():
    trans = transform.Softmax()
    rng = np.random.default_rng(5446)
    pts = [np.array([0.5]), np.array([0.01]), np.array([0.98]),
           np.array([0.25, 0.25]), np.array([0.1, 0.2]),
           np.array([0.9, 0.05]), np.array([1e-3, 1e-2, 0.1]),
           np.array([0.3, 0.3, 0.3]), np.array([0.2, 0.2, 0.2, 0.2]),
           np.array([0.125, 0.0625, 0.25, 0.03125, 0.5])]
    for n in [1, 2, 3, 4, 5, 6]:
        for _ in range(6):
            x = rng.uniform(0.02, 1, size=n)
            x = x / (rng.uniform(0.02, 2.) + np.sum(x))
            pts.append(x)

    for x in pts:
        n = len(x)
        label = f"Softmax(x={x.tolist()})"
        COUNTS["softmax_pts"] += 1

        # jacobian: 1d input (single point) and 2d input with one row
        jac = trans.jacobian(x)
        jac2 = trans.jacobian(x[None, :])
        if jac.shape != (1,) or jac2.shape != (1,) or jac[0] != jac2[0]:
            fail(f"{label}: jacobian inconsistent between 1d and 2d input")
            continue
        jac = jac[0]
        if not (np.isfinite(jac) and jac > 0):
            fail(f"{label}: jacobian {jac!r} not finite and > 0")
            continue

        # Matrix of partial derivatives with 5 points stencil
        room = min(np.min(x), 1 - EPS - np.sum(x))
        best = np.inf
        e0 = math.frexp(room)[1]
        for k in range(3, 16):
            h = math.ldexp(1., e0 - k)
            if not all(exact_steps(float(xi), h) for xi in x):
                continue
            M = np.zeros((n, n))
            for j in range(n):
                xs = np.repeat(x[None, :], 4, axis=0)
                xs[:, j] += np.array([-2 * h, -h, h, 2 * h])
                f = trans.forward(xs)
                # M[i, j] = d y_i / d x_j
                M[:, j] = (f[0] - 8 * f[1] + 8 * f[2] - f[3]) / (12 * h)
            det = np.linalg.det(M)
            best = min(best, abs(det - jac) / jac)
            if best < RTOL / 10:
                break
        COUNTS["deriv"] += 1
        if not best <= RTOL:
            fail(f"{label}: jacobian {jac!r} differs from determinant of"
                 f" partial derivatives (best rel. err. {best:3.3e})")

        # Monotonicity: every output is increasing with every input
        for j in range(n):
            hi = x[j] + (1 - EPS - np.sum(x)) * 0.999
            lo = x[j] * 1e-3
            ts = np.sort(np.concatenate([np.linspace(lo, hi, 41),
                                         neighbours(x[j]), [x[j]]]))
            xs = np.repeat(x[None, :], len(ts), axis=0)
            xs[:, j] = ts
            ys = trans.forward(xs)
            COUNTS["mono_pairs"] += ys.shape[0] - 1
            if ys.shape != xs.shape or np.any(np.isnan(ys)):
                fail(f"{label}: forward nan or wrong shape")
                continue
            if np.any(np.diff(ys, axis=0) < 0):
                fail(f"{label}: forward not monotone along x[{j}]")
            coarse = np.diff(ys[:41:4], axis=0) if False else None
            lin = xs[np.isin(ts, np.linspace(lo, hi, 41))]
            ylin = trans.forward(lin)
            if np.any(np.diff(ylin, axis=0) <= 0):
                fail(f"{label}: forward not strictly increasing along"
                     f" x[{j}]")

        # rows are processed independently (lengths 1 and 2)
        two = np.vstack([x, x[::-1]])
        j2 = trans.jacobian(two)
        if j2.shape != (2,) or not np.allclose(j2, jac, rtol=1e-12):
            fail(f"{label}: jacobian of 2 rows inconsistent")
        y2 = trans.forward(two)
        y1 = trans.forward(x)
        if y1.shape != (1, n) or not np.allclose(y2[0], y1[0], rtol=1e-12):
            fail(f"{label}: forward of 2 rows inconsistent")

    # Outside the domain: an error (ValueError) is raised
    for bad in [np.array([0.5, 0.6]), np.array([-0.1, 0.2]),
                np.array([[0.1, 0.2], [0.7, 0.4]])]:
        for meth in [trans.forward, trans.jacobian]:
            COUNTS["misc"] += 1
            try:
                meth(bad)
            except ValueError:
                pass
            else:
                fail(f"Softmax: no ValueError for {bad.tolist()}")


def case_misc():
    # All transforms are available and get_transform works
    expected = {"Identity", "Logit", "Log", "BoxCox2", "BoxCox1lam",
                "BoxCox1nu", "BoxCox2sym", "YeoJohnson", "Reciprocal",
                "Softmax", "Sinh", "LogSinh", "Manly"}
    if set(transform.__all__) != expected:
        fail("transform.__all__ does not list the expected classes")
    for nm in expected:
        COUNTS["misc"] += 1
        trans = transform.get_transform(nm)
        if trans.name != nm:
            fail(f"get_transform({nm}) has name {trans.name}")

    # Unknown transform or invalid constructor argument lead to an error
    for fun in [lambda: transform.get_transform("NotATransform"),
                lambda: transform.BoxCox2(minilam=-4.),
                lambda: transform.BoxCox2sym(minilam=-4.)]:
        COUNTS["misc"] += 1
        try:
            fun()
        except ValueError:
            pass
        else:
            fail("no ValueError for invalid transform name/argument")

    # Unset constants lead to an error
    for nm in ["BoxCox1lam", "BoxCox1nu", "LogSinh", "Manly"]:
        trans = transform.get_transform(nm)
        for meth in [trans.forward, trans.jacobian]:
            COUNTS["misc"] += 1
            try:
                meth(np.array([1., 2.]))
            except ValueError:
                pass
            else:
                fail(f"{nm}: no ValueError when constant is not set")

    # Wrappers around BoxCox2 follow parameter changes between calls
    x = np.array([0.1, 0.5, 2.5, 30.])
    ref = transform.BoxCox2()
    for nm in ["BoxCox1lam", "BoxCox1nu", "BoxCox2sym"]:
        trans = transform.get_transform(nm)
        for nu, lam in [(0.3, 0.2), (1.5, 0.), (0.3, 1.), (1e-3, 0.7)]:
            trans.lam = lam
            trans.nu = nu
            ref.params.values = [nu, lam]
            COUNTS["misc"] += 1
            yref = ref.forward(x)
            if nm == "BoxCox2sym":
                yref = yref - ref.forward(0.)
            if not np.allclose(trans.forward(x), yref, rtol=1e-12,
                               atol=1e-14):
                fail(f"{nm}: forward inconsistent with BoxCox2")
            if not np.allclose(trans.jacobian(x), ref.jacobian(x),
                               rtol=1e-12, atol=0):
                fail(f"{nm}: jacobian inconsistent with BoxCox2")
            if nm == "BoxCox2sym":
                if not np.allclose(trans.forward(-x), -yref, rtol=1e-12,
                                   atol=1e-14) or \
                        not np.allclose(trans.jacobian(-x), ref.jacobian(x),
                                        rtol=1e-12, atol=0):
                    fail(f"{nm}: not symmetric")

    # Inputs are not modified
    for nm in expected - {"Softmax"}:
        trans = transform.get_transform(nm)
        if hasattr(trans, "xmax"):
            trans.xmax = 2.
        if nm == "BoxCox1lam":
            trans.nu = 0.1
        if nm == "BoxCox1nu":
            trans.lam = 0.3
        x = np.array([0.1, 0.5, 0.5, 0.9])
        x0 = x.copy()
        y = trans.forward(x)
        j = trans.jacobian(x)
        COUNTS["misc"] += 1
        if not np.array_equal(x, x0) or y is x or j is x:
            fail(f"{nm}: input array modified")
        if y.dtype != np.float64 or j.dtype != np.float64:
            fail(f"{nm}: output dtype is not float64")


def main():
    case_identity()
    case_logit()
    case_log()
    case_boxcox2()
    case_boxcox1lam()
    case_boxcox1nu()
    case_boxcox2sym()
    case_yeojohnson()
    case_logsinh()
    case_reciprocal()
    case_sinh()
    case_manly()
    case_softmax()
    case_misc()

    print("transform module:", transform.__file__)
    print("checks:", COUNTS)
    if FAILURES:
        print(f"{len(FAILURES)} FAILURES")
        return 1
    print("ALL OK")
    return 0


if __name__ == "__main__":
    sys.exit(main())
