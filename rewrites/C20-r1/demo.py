#!/usr/bin/env python
""" C20 demo: sampling, ranking and summary helpers return what their
names promise.

Run as:  PYTHONPATH=<tree>/src /venv/bin/python demo.py

Exits 0 when every check passes, 1 otherwise. Only the semantic property
is checked: statistics are looked up by their label (never by position),
floating point values are compared to a few ulps, container types, index
names, row order, error texts and random streams are NOT checked.
"""
import sys
import math
import itertools
import warnings

import numpy as np
import pandas as pd

import matplotlib
matplotlib.use("Agg")

from hydrodiy.stat import sutils
from hydrodiy.plot.boxplot import Boxplot, boxplot_stats
from hydrodiy.plot.violinplot import Violin

warnings.filterwarnings("ignore")

NFAIL = 0
NCHECK = 0


def check(cond, msg):
    global NFAIL, NCHECK
    NCHECK += 1
    if not cond:
        NFAIL += 1
        if NFAIL <= 40:
            print("FAIL:", msg)


def close(a, b, rtol=1e-11, atol=0.):
    """ nan-aware closeness of two scalars """
    a, b = float(a), float(b)
    if math.isnan(a) or math.isnan(b):
        return math.isnan(a) and math.isnan(b)
    return abs(a-b) <= atol + rtol*max(abs(a), abs(b))


# ---------------------------------------------------------------- lhs ----
def check_lhs(rng):
    ranges = {
        1: [([0.], [1.]), ([-5.], [-4.99]), ([1e3], [1e3+7.])],
        2: [([0., -10.], [1., 10.]), ([-1e-3, 100.], [1e-3, 1e5])],
        3: [([1., 2., 3.], [10., 20., 30.])],
        4: [([-1e6, -1., 0., 5.], [1e6, 1., 1e-6, 5.5])],
        5: [(list(rng.uniform(-100, 0, 5)), list(rng.uniform(1, 100, 5)))],
        6: [(list(rng.uniform(-1, 1, 6)), list(rng.uniform(2, 3, 6))),
            ([0.]*6, [1.]*6)]
        }
    for nsamples in [1, 2, 3, 4, 5, 10, 17, 64, 100, 333]:
        for nparams, rgs in ranges.items():
            for pmin, pmax in rgs:
                for rep in range(2):
                    smp = sutils.lhs(nsamples, pmin, pmax)
                    smp = np.asarray(smp)
                    lab = f"lhs n={nsamples} pmin={pmin} pmax={pmax}"
                    check(smp.shape == (nsamples, nparams),
                          lab+f" shape {smp.shape}")
                    if smp.shape != (nsamples, nparams):
                        continue
                    check(np.all(np.isfinite(smp)), lab+" finite")
                    for ip in range(nparams):
                        a, b = float(pmin[ip]), float(pmax[ip])
                        du = (b-a)/nsamples
                        # position in stratum units
                        t = np.sort((smp[:, ip]-a)/du)
                        k = np.arange(nsamples)
                        tol = 1e-7
                        ok = np.all(t >= k-tol) & np.all(t <= k+1+tol)
                        check(ok, lab+f" strata param {ip}")
                        check(smp[:, ip].min() >= a-tol*du
                              and smp[:, ip].max() <= b+tol*du,
                              lab+" bounds")

    # scalar upper bound is accepted for all parameters
    smp = np.asarray(sutils.lhs(20, [0., 0.5, -3.], 1.))
    check(smp.shape == (20, 3), "lhs scalar pmax shape")
    for ip, a in enumerate([0., 0.5, -3.]):
        t = np.sort((smp[:, ip]-a)/((1.-a)/20))
        check(np.all(np.floor(t+1e-7).clip(0, 19) == np.arange(20)),
              "lhs scalar pmax strata")


# --------------------------------------------------------------- ppos ----
def check_ppos(rng):
    csts = [0., 0.3, 0.3175, 0.375, 0.4, 0.5, 1e-12, 0.5-1e-12] \
        + list(rng.uniform(0, 0.5, 5))
    for nval in list(range(1, 40)) + [50, 99, 100, 257, 400, 1000]:
        for cst in csts:
            pp = np.asarray(sutils.ppos(nval, cst))
            lab = f"ppos n={nval} cst={cst}"
            check(pp.shape == (nval,), lab+" length")
            check(np.all(pp > 0) and np.all(pp < 1), lab+" in (0,1)")
            check(np.all(np.diff(pp) > 0), lab+" increasing")
            check(np.allclose(pp+pp[::-1], 1., rtol=0, atol=1e-13),
                  lab+" symmetric")
            expected = (np.arange(1, nval+1)-cst)/(nval+1-2*cst)
            check(np.allclose(pp, expected, rtol=1e-13, atol=1e-15),
                  lab+" value")
    # default constant
    check(np.allclose(sutils.ppos(10), (np.arange(1, 11)-0.3)/10.4,
                      rtol=1e-13), "ppos default cst")


# ---------------------------------------------------- standard_normal ----
def check_standard_normal(rng):
    vectors = [np.array([3.]), np.array([1., 2.]), np.array([2., 1.]),
               np.array([5., 5.]), np.array([0., 0., 0., 0.]),
               np.array([1., 3., 2., 3., 1., 3.]),
               np.array([-0., 0., 1e-300, -1e-300]),
               np.array([np.inf, 1., -np.inf, 1.]),
               rng.normal(size=50), rng.normal(size=333),
               rng.integers(0, 4, size=40).astype(float),
               rng.integers(0, 10, size=200).astype(float),
               np.round(rng.normal(size=100), 1),
               np.arange(20.)[::-1].copy()]
    for x in vectors:
        n = len(x)
        for method, cst in itertools.product(
                ["average", "min", "max", "dense", "first", None],
                [0., 0.3, 0.375, 0.5]):
            lab = f"standard_normal n={n} method={method} cst={cst}"
            if method is None:
                unorm, ranks = sutils.standard_normal(x, cst=cst)
            else:
                unorm, ranks = sutils.standard_normal(x, cst=cst,
                                                      rank_method=method)
            unorm = np.asarray(unorm, dtype=float)
            ranks = np.asarray(ranks, dtype=float)
            check(unorm.shape == (n,) and ranks.shape == (n,), lab+" shape")
            # scores strictly increasing function of ranks
            kk = np.argsort(ranks, kind="stable")
            rs, us = ranks[kk], unorm[kk]
            dr, du = np.diff(rs), np.diff(us)
            check(np.all(du[dr > 0] > 0), lab+" increasing in rank")
            check(np.all(du[dr == 0] == 0), lab+" function of rank")
            # ranks follow the data
            ks = np.argsort(x, kind="stable")
            dx, drx = np.diff(x[ks]), np.diff(ranks[ks])
            check(np.all(drx[dx > 0] > 0), lab+" rank increasing in data")
            if method != "first":
                check(np.all(drx[dx == 0] == 0), lab+" ties share rank")
            else:
                check(np.all(drx[dx == 0] > 0), lab+" first breaks ties")
            # zero based ranks within 0..n-1
            check(rs[0] >= 0 and rs[-1] <= n-1, lab+" rank range")
            if method in ["average", None]:
                check(close(ranks.sum(), n*(n-1)/2), lab+" rank sum")
            check(np.all(np.isfinite(unorm)), lab+" finite scores")
        # sorted data, sorted flag
        xs = np.sort(x)
        for cst in [0., 0.4]:
            unorm, ranks = sutils.standard_normal(xs, cst=cst, sorted=True)
            unorm = np.asarray(unorm, dtype=float)
            ranks = np.asarray(ranks, dtype=float)
            check(np.all(ranks == np.arange(n)), "sorted ranks")
            check(np.all(np.diff(unorm) > 0), "sorted scores increasing")
            check(np.allclose(unorm, -unorm[::-1], atol=1e-12),
                  "sorted scores symmetric")


# ------------------------------------------------------- pareto_front ----
def pareto_ref(data, orientation):
    nval = data.shape[0]
    out = np.zeros(nval, dtype=int)
    for i in range(nval):
        for j in range(nval):
            if i == j:
                continue
            diff = orientation*(data[j]-data[i])
            ok = ~np.isnan(diff)
            if np.all(diff[ok] > 0):
                out[i] = 1
                break
    return out


def check_pareto(rng):
    cases = []
    for nval in [0, 1, 2, 3, 5, 8, 13, 30, 60]:
        for ncol in [1, 2, 3, 4, 5]:
            # continuous
            cases.append(rng.normal(size=(nval, ncol)))
            # heavy ties
            cases.append(rng.integers(0, 3, size=(nval, ncol)).astype(float))
            cases.append(rng.integers(0, 2, size=(nval, ncol)).astype(float))
            # duplicates of rows
            d = rng.integers(0, 4, size=(nval, ncol)).astype(float)
            if nval > 2:
                d[nval//2:] = d[:nval-nval//2]
            cases.append(d)
            # all equal
            cases.append(np.ones((nval, ncol)))
            # chain
            cases.append(np.repeat(np.arange(nval, dtype=float)[:, None],
                                   ncol, axis=1))
            # nan (light and heavy)
            for pnan in [0.1, 0.4, 0.8]:
                d = rng.integers(0, 3, size=(nval, ncol)).astype(float)
                d[rng.uniform(size=d.shape) < pnan] = np.nan
                cases.append(d)
                d = rng.normal(size=(nval, ncol))
                d[rng.uniform(size=d.shape) < pnan] = np.nan
                cases.append(d)
            # a full nan row and a full nan column
            d = rng.integers(0, 3, size=(nval, ncol)).astype(float)
            if nval > 0:
                d[0] = np.nan
                d[:, -1] = np.nan
            cases.append(d)

    for data in cases:
        nval, ncol = data.shape
        complete = not np.any(np.isnan(data))
        res = {}
        for ori in [1, -1]:
            lab = f"pareto nval={nval} ncol={ncol} ori={ori}"\
                + f" complete={complete}"
            isd = np.asarray(sutils.pareto_front(data, ori))
            res[ori] = isd
            check(isd.shape == (nval,), lab+" shape")
            check(set(np.unique(isd).tolist()) <= {0, 1}, lab+" 0/1 flags")
            check(np.array_equal(isd.astype(int), pareto_ref(data, ori)),
                  lab+" vs brute force")
            if complete and nval > 0:
                check(np.sum(isd == 0) > 0, lab+" front not empty")
            # orientation reversal is negation
            isn = np.asarray(sutils.pareto_front(-data, -ori))
            check(np.array_equal(isn, isd), lab+" negation")
        if nval > 0:
            isd = np.asarray(sutils.pareto_front(data))
            check(np.array_equal(isd, res[1]), "pareto default orientation")

    # input is not modified, non contiguous and integer inputs are accepted
    data = rng.integers(0, 3, size=(25, 6)).astype(float)
    data[rng.uniform(size=data.shape) < 0.2] = np.nan
    view = data[::2, ::2]
    copy = view.copy()
    isd = np.asarray(sutils.pareto_front(view, -1))
    check(np.array_equal(isd, pareto_ref(copy, -1)), "pareto strided view")
    check(np.array_equal(view, copy, equal_nan=True), "pareto input intact")
    isd = np.asarray(sutils.pareto_front(np.asfortranarray(copy), 1))
    check(np.array_equal(isd, pareto_ref(copy, 1)), "pareto fortran order")
    idata = rng.integers(0, 3, size=(20, 3))
    isd = np.asarray(sutils.pareto_front(idata, 1))
    check(np.array_equal(isd, pareto_ref(idata.astype(float), 1)),
          "pareto integer data")


# ------------------------------------------------------------ boxplot ----
def plabel(level):
    return "{0:0.1f}%".format(level)


def levels(coverage):
    q1 = float(100-coverage)/2
    return q1, 100.-q1


def getstat(stats, label, col):
    """ Get stat by label, missing label is the same than missing value """
    if label not in stats.index or col not in stats.columns:
        return np.nan
    v = stats.loc[label, col]
    return float(np.asarray(v).ravel()[0])


def check_box_column(stats, col, values, bcov, wcov, lab):
    values = np.asarray(values, dtype=float)
    fin = values[np.isfinite(values)]
    nok = len(fin)
    b1, b2 = levels(bcov)
    w1, w2 = levels(wcov)
    cnt = getstat(stats, "count", col)
    if len(values) == 0:
        # no data at all: either no stats or zero count
        check(math.isnan(cnt) or cnt == 0, lab+" count (empty)")
    else:
        check(cnt == nok, lab+f" count {cnt} != {nok}")

    qq = [w1, b1, 50., b2, w2]
    got = [getstat(stats, plabel(q), col) for q in qq]
    mini, maxi = getstat(stats, "min", col), getstat(stats, "max", col)
    mean = getstat(stats, "mean", col)
    if nok > 3:
        scale = np.abs(fin).max()
        atol = 1e-12*scale
        expected = np.percentile(fin, qq)
        for q, g, e in zip(qq, got, expected):
            check(close(g, e, rtol=1e-11, atol=atol),
                  lab+f" percentile {q}: {g} vs {e}")
        check(mini == fin.min(), lab+" min")
        check(maxi == fin.max(), lab+" max")
        check(close(mean, fin.mean(), rtol=1e-11, atol=atol), lab+" mean")
        seq = [mini] + got + [maxi]
        check(all(seq[i] <= seq[i+1]+atol for i in range(len(seq)-1)),
              lab+f" ordering {seq}")
    else:
        # The box plot does not summarise 3 values or less
        for g in got + [mini, maxi, mean]:
            check(math.isnan(g), lab+" too few values -> missing")


def make_column(rng, nval, kind):
    if kind == "normal":
        x = rng.normal(size=nval)
    elif kind == "ties":
        x = rng.integers(0, 4, size=nval).astype(float)
    elif kind == "constant":
        x = np.full(nval, 3.25)
    elif kind == "skewed":
        x = np.exp(rng.normal(size=nval)*3)
    elif kind == "large":
        x = 1e6+rng.normal(size=nval)
    else:
        raise ValueError(kind)
    return x


def contaminate(rng, x, kind):
    x = x.copy()
    n = len(x)
    if n == 0 or kind == "clean":
        return x
    u = rng.uniform(size=n)
    if kind == "light":
        x[u < 0.1] = np.nan
        x[(u > 0.1) & (u < 0.15)] = np.inf
        x[(u > 0.15) & (u < 0.2)] = -np.inf
    elif kind == "heavy":
        x[u < 0.4] = np.nan
        x[(u > 0.4) & (u < 0.6)] = np.inf
        x[(u > 0.6) & (u < 0.8)] = -np.inf
    elif kind == "ends":
        x[0] = np.inf
        x[-1] = np.nan
        if n > 2:
            x[1] = -np.inf
    elif kind == "allbad":
        x[:] = [np.nan, np.inf, -np.inf][rng.integers(0, 3)]
        x[n//2:] = np.nan
    return x


COVERAGES = [(50., 90.), (40., 100.), (45.3, 91.7), (60., 75.),
             (99., 99.5), (75., 99.)]


def check_boxplot(rng):
    kinds = ["normal", "ties", "constant", "skewed", "large"]
    conts = ["clean", "light", "heavy", "ends", "allbad"]
    # -- columns
    for nval in [0, 1, 2, 3, 4, 5, 6, 9, 20, 101, 400]:
        for bcov, wcov in COVERAGES:
            cols = {}
            for kind, cont in itertools.product(kinds, conts):
                x = contaminate(rng, make_column(rng, nval, kind), cont)
                cols[f"{kind}_{cont}"] = x
            df = pd.DataFrame(cols)
            bx = Boxplot(data=df, box_coverage=bcov,
                         whiskers_coverage=wcov)
            stats = bx.stats
            for cn, x in cols.items():
                lab = f"boxplot n={nval} col={cn} cov={bcov}/{wcov}"
                check_box_column(stats, cn, x, bcov, wcov, lab)

            # the function computing the stats for one column
            if nval > 0:
                for cn in ["normal_light", "ties_heavy", "constant_clean"]:
                    st = boxplot_stats(df.loc[:, cn], bcov, wcov)
                    st = pd.DataFrame({cn: st})
                    lab = f"boxplot_stats n={nval} col={cn}"
                    check_box_column(st, cn, cols[cn], bcov, wcov, lab)

    # default coverage + 1d / 2d numpy inputs
    x = rng.normal(size=(50, 3))
    x[3, 0] = np.nan
    x[4, 1] = np.inf
    stats = Boxplot(data=x).stats
    for i in range(3):
        check_box_column(stats, stats.columns[i], x[:, i], 50., 90.,
                         "boxplot default 2d")
    stats = Boxplot(data=x[:, 0]).stats
    check_box_column(stats, stats.columns[0], x[:, 0], 50., 90.,
                     "boxplot default 1d")
    stats = Boxplot(data=pd.Series(x[:, 1], name="bob")).stats
    check_box_column(stats, stats.columns[0], x[:, 1], 50., 90.,
                     "boxplot default series")

    # -- groups
    groupings = [
        ("two", ["a", "b"], [0.8, 0.2]),
        ("three", ["x", "y", "z"], [0.6, 0.3, 0.1]),
        ("ints", [3, 1, 2, 7], [0.4, 0.3, 0.2, 0.1]),
        ("tiny", ["k", "l", "m"], [0.9, 0.07, 0.03])
        ]
    for nval in [4, 5, 8, 12, 30, 100, 350]:
        for gname, cats, probs in groupings:
            for kind, cont in itertools.product(kinds,
                                                ["clean", "light", "heavy"]):
                bcov, wcov = COVERAGES[rng.integers(0, len(COVERAGES))]
                x = contaminate(rng, make_column(rng, nval, kind), cont)
                by = np.array(cats)[rng.choice(len(cats), size=nval,
                                               p=probs)]
                # .. make sure we have two categories of unequal size
                by[0] = cats[0]
                by[1] = cats[0]
                by[2] = cats[1]
                by[3] = cats[0]
                if len(np.unique(by)) < 2:
                    continue
                for variant in ["array", "series", "named"]:
                    if variant == "array":
                        bx = Boxplot(data=x, by=by, box_coverage=bcov,
                                     whiskers_coverage=wcov)
                    elif variant == "series":
                        bx = Boxplot(data=pd.Series(x), by=pd.Series(by),
                                     box_coverage=bcov,
                                     whiskers_coverage=wcov)
                    else:
                        bx = Boxplot(data=pd.Series(x, name="val"),
                                     by=pd.Series(by, name="grp"),
                                     box_coverage=bcov,
                                     whiskers_coverage=wcov)
                    stats = bx.stats
                    ucats = np.unique(by).tolist()
                    check(sorted(stats.columns.tolist()) == sorted(ucats),
                          f"boxplot by={gname} columns")
                    for cat in ucats:
                        lab = f"boxplot by={gname}/{variant} n={nval}"\
                              + f" {kind}_{cont} cat={cat}"
                        xg = x[by == cat]
                        check_box_column(stats, cat, xg, bcov, wcov, lab)

                        # group alone
                        alone = Boxplot(data=pd.DataFrame({cat: xg}),
                                        box_coverage=bcov,
                                        whiskers_coverage=wcov).stats
                        labels = set(stats.index.tolist())\
                            | set(alone.index.tolist())
                        for lb in labels:
                            a = getstat(alone, lb, cat)
                            g = getstat(stats, lb, cat)
                            check(close(a, g, rtol=1e-13),
                                  lab+f" alone {lb}: {a} vs {g}")


# ------------------------------------------------------------- violin ----
def check_violin(rng):
    kinds = ["normal", "ties", "constant", "skewed", "large"]
    conts = ["clean", "light", "heavy", "ends", "allbad"]
    names = ["Q0", "Q25", "median", "Q75", "Q100"]
    qq = [0., 25., 50., 75., 100.]
    for nval in [0, 1, 2, 3, 4, 5, 10, 50, 250, 600]:
        cols = {}
        for kind, cont in itertools.product(kinds, conts):
            x = contaminate(rng, make_column(rng, nval, kind), cont)
            cols[f"{kind}_{cont}"] = x
        df = pd.DataFrame(cols)
        for kw in [{}, {"npoints_kde": 51}]:
            vl = Violin(data=df, **kw)
            stats = vl.stats
            kde_x, kde_y = vl.kde_x, vl.kde_y
            for cn, x in cols.items():
                lab = f"violin n={nval} col={cn}"
                fin = x[np.isfinite(x)]
                got = [getstat(stats, n, cn) for n in names]
                attrs = [vl.stat_extremes_low, vl.stat_center_low,
                         vl.stat_median, vl.stat_center_high,
                         vl.stat_extremes_high]
                got2 = [float(a[cn]) for a in attrs]
                if len(fin) == 0:
                    check(all(math.isnan(g) for g in got), lab+" no data")
                    check(all(math.isnan(g) for g in got2), lab+" no data")
                else:
                    atol = 1e-12*np.abs(fin).max()
                    expected = np.percentile(fin, qq)
                    for n, g, g2, e in zip(names, got, got2, expected):
                        check(close(g, e, rtol=1e-11, atol=atol),
                              lab+f" {n}: {g} vs {e}")
                        check(close(g2, e, rtol=1e-11, atol=atol),
                              lab+f" attr {n}: {g2} vs {e}")
                    check(got[0] == fin.min() and got[-1] == fin.max(),
                          lab+" extremes")
                    check(all(got[i] <= got[i+1]+atol for i in range(4)),
                          lab+" ordering")

                # density profile
                kx = np.asarray(kde_x.loc[:, cn], dtype=float)
                ky = np.asarray(kde_y.loc[:, cn], dtype=float)
                if len(fin) > 2 and fin.min() < fin.max():
                    check(np.all(np.isfinite(ky)), lab+" kde finite")
                    check(ky.min() >= 0 and ky.max() <= 1, lab+" kde range")
                    check(abs(ky.min()) < 1e-12 and abs(ky.max()-1) < 1e-12,
                          lab+" kde normalised")
                    check(np.all(np.diff(kx) >= 0), lab+" kde x sorted")
                    check(kx.min() >= fin.min()-1e-5
                          and kx.max() <= fin.max()+1e-5,
                          lab+" kde x range")
                    check(len(kx) == len(ky), lab+" kde length")
                else:
                    check(np.all(np.isnan(ky)), lab+" no kde")


def main():
    rng = np.random.default_rng(20200920)
    np.random.seed(5446)
    sections = [("ppos", check_ppos), ("lhs", check_lhs),
                ("standard_normal", check_standard_normal),
                ("pareto_front", check_pareto),
                ("boxplot", check_boxplot), ("violin", check_violin)]
    for name, fun in sections:
        n0, f0 = NCHECK, NFAIL
        fun(rng)
        print(f"{name:16s}: {NCHECK-n0:6d} checks, {NFAIL-f0} failed")

    if NFAIL > 0:
        print(f"C20 demo: {NFAIL} FAILED checks out of {NCHECK}")
        sys.exit(1)

    print(f"C20 demo: all {NCHECK} checks passed")
    sys.exit(0)


if __name__ == "__main__":
    main()
