#!/usr/bin/env python
""" Demo for property C05 (native kernels never touch memory outside their
buffers; bad input is answered with an exception or the documented sentinel).

Run as:  PYTHONPATH=<tree>/src /venv/bin/python demo.py

How the property is checked without a sanitizer
 * the whole sweep runs in a child interpreter: a segfault, a SIGFPE (integer
   division by zero) or an abort of the child makes the parent exit 1;
 * kernels are called directly (c_hydrodiy_{data,stat,gis}) on arrays that are
   views in the middle of larger buffers. The padding around every array holds
   a poison value. After the call the padding must be untouched (no write
   outside the buffer) and the call is repeated with other poison values
   (1e300, -1e300, nan): the outputs must not depend on the poison (no read
   outside the buffer that reaches the result);
 * the public wrappers are swept over lengths 0, 1, 2, 3, ... and value
   classes (finite, nan, +-inf, negative, huge) and scalar options at and
   beyond their range: each call must return or raise a Python exception,
   and whatever is returned is compared with a pure Python reference.
"""
import os
import sys
import math
import subprocess
import itertools
import calendar

import numpy as np

PAD = 97
DPOISONS = [1e300, -1e300, np.nan]
IPOISONS = [2000000011, -2000000011, 77]
NCHECKS = [0]


def fail(msg):
    sys.stderr.write("DEMO FAILURE: " + msg + "\n")
    sys.stderr.flush()
    os._exit(1)


def check(cond, msg):
    NCHECKS[0] += 1
    if not cond:
        fail(msg)


def same(a, b, rtol=1e-9, atol=1e-12):
    """ nan/inf aware comparison """
    a = np.asarray(a, dtype=np.float64)
    b = np.asarray(b, dtype=np.float64)
    if a.shape != b.shape:
        return False
    na, nb = np.isnan(a), np.isnan(b)
    if not np.array_equal(na, nb):
        return False
    a, b = a[~na], b[~nb]
    ia, ib = np.isinf(a), np.isinf(b)
    if not np.array_equal(ia, ib):
        return False
    if not np.array_equal(a[ia], b[ib]):
        return False
    a, b = a[~ia], b[~ib]
    with np.errstate(all="ignore"):
        return bool(np.all(np.abs(a-b) <= atol+rtol*np.abs(b)))


class Guard(object):
    """ Array embedded in a poisoned buffer """
    def __init__(self, arr, k):
        arr = np.ascontiguousarray(arr)
        self.dtype = arr.dtype
        if arr.dtype.kind == "f":
            self.poison = DPOISONS[k % len(DPOISONS)]
        else:
            self.poison = IPOISONS[k % len(IPOISONS)]
        self.flat = np.full(arr.size+2*PAD, self.poison, dtype=arr.dtype)
        self.flat[PAD:PAD+arr.size] = arr.ravel()
        self.view = self.flat[PAD:PAD+arr.size].reshape(arr.shape)
        assert self.view.flags["C_CONTIGUOUS"]
        self.n = arr.size

    def intact(self):
        pad = np.concatenate([self.flat[:PAD], self.flat[PAD+self.n:]])
        if self.dtype.kind == "f" and np.isnan(self.poison):
            return bool(np.all(np.isnan(pad)))
        return bool(np.all(pad == self.poison))


def kernel(label, fun, args, outs=(), expect_same_inputs=True):
    """ Call a compiled function with all array arguments guarded.
    args: list of scalars / arrays. outs: indices of args that are outputs.
    Returns (ierr, [output arrays]) of the first run. An exception raised by
    the binding (assert on dimensions, conversion error) is returned as ierr.
    """
    results = []
    for k in range(3):
        guards = {}
        cargs = []
        for i, a in enumerate(args):
            if isinstance(a, np.ndarray):
                # outputs get a poison that differs from the inputs poison
                g = Guard(a, k+1 if i in outs else k)
                guards[i] = g
                cargs.append(g.view)
            else:
                cargs.append(a)
        originals = {i: g.view.copy() for i, g in guards.items()}
        try:
            ierr = fun(*cargs)
        except Exception as err:
            ierr = type(err).__name__
        for i, g in guards.items():
            check(g.intact(), f"{label}: write outside buffer of arg {i}")
        results.append((ierr, [guards[i].view.copy() for i in outs],
                        {i: guards[i].view.copy() for i in guards
                         if i not in outs}, originals))
    ierr0, outs0, _, _ = results[0]
    for ierr, o, _, _ in results[1:]:
        check(ierr == ierr0, f"{label}: return code depends on memory "
              + f"outside the buffers ({ierr0} vs {ierr})")
        # outputs are only defined when the kernel succeeds
        if ierr0 == 0:
            for a, b in zip(outs0, o):
                check(same(a, b, 0, 0), f"{label}: outputs depend on "
                      + "memory outside the buffers")
    return ierr0, outs0, results[0][2]


def call(label, fun, *args, **kwargs):
    """ Call a public function: returns (True, result) or (False, exception).
    Anything that is not a Python exception kills the child. """
    try:
        return True, fun(*args, **kwargs)
    except Exception as err:
        return False, err


def series(n, kind, rng):
    """ Value classes """
    x = rng.uniform(0, 10, n)
    if kind == "finite":
        pass
    elif kind == "nan":
        x[rng.uniform(0, 1, n) < 0.4] = np.nan
    elif kind == "allnan":
        x[:] = np.nan
    elif kind == "inf":
        u = rng.uniform(0, 1, n)
        x[u < 0.3] = np.inf
        x[u > 0.8] = -np.inf
    elif kind == "negative":
        x = -x
    elif kind == "huge":
        x = x*1e300*rng.choice([-1, 1], n)
    elif kind == "ties":
        x = np.round(x/4)
    elif kind == "mixed":
        u = rng.uniform(0, 1, n)
        x[u < 0.2] = np.nan
        x[(u >= 0.2) & (u < 0.3)] = np.inf
        x[(u >= 0.3) & (u < 0.4)] = -np.inf
        x[(u >= 0.4) & (u < 0.5)] *= -1e300
    return x


KINDS = ["finite", "nan", "allnan", "inf", "negative", "huge", "ties",
         "mixed"]
LENGTHS = list(range(0, 9)) + [13, 32, 101]

# --------------------------------------------------------------------------
# data package
# --------------------------------------------------------------------------
def ref_groups(aggindex):
    """ runs of equal values, None if the index decreases """
    n = len(aggindex)
    groups = []
    start = 0
    for i in range(1, n+1):
        if i < n and aggindex[i] < aggindex[i-1]:
            return None
        if i == n or aggindex[i] != aggindex[i-1]:
            groups.append((start, i))
            start = i
    return groups


def ref_aggregate(aggindex, inputs, op, maxnan):
    if len(inputs) < 1:
        return None
    groups = ref_groups(aggindex)
    if groups is None:
        return None
    out = []
    with np.errstate(all="ignore"):
        for i0, i1 in groups:
            agg = np.float64(0.)
            nagg, nnan = 0, 0
            for v in inputs[i0:i1]:
                if np.isnan(v):
                    nnan += 1
                    if op <= 1:
                        agg = agg+0.
                    continue
                nagg += 1
                if op <= 1:
                    agg = agg+v
                elif op == 2:
                    agg = v if (nagg == 1 or v > agg) else agg
                elif op == 3:
                    agg = v
            if op == 1 and nagg > 0:
                agg = agg/nagg
            if nnan > maxnan:
                agg = np.nan
            out.append(agg)
    return np.array(out, dtype=np.float64)


def ref_flathomogen(aggindex, inputs, maxnan):
    if len(inputs) < 1:
        return None
    groups = ref_groups(aggindex)
    if groups is None:
        return None
    out = np.zeros(len(inputs))
    with np.errstate(all="ignore"):
        for i0, i1 in groups:
            agg = np.float64(0.)
            nagg, nnan = 0, 0
            for v in inputs[i0:i1]:
                if np.isnan(v):
                    nnan += 1
                    agg = agg+0.
                else:
                    nagg += 1
                    agg = agg+v
            if nnan > maxnan:
                agg = np.nan
            for j in range(i0, i1):
                out[j] = np.nan if np.isnan(inputs[j]) else agg/nagg
    return out


def ref_islin(data, thresh, tol, npoints):
    n = len(data)
    islin = np.zeros(n, dtype=np.int32)
    if n < 2:
        return islin
    vprec = data[0] if not np.isnan(data[0]) else thresh-1
    vcur = data[1] if not np.isnan(data[1]) else thresh-1
    lintype, count, start = 1, 0, 0
    with np.errstate(all="ignore"):
        for i in range(2, n):
            vnext = data[i]
            dist = abs(vcur-(vprec+vnext)/2)
            if dist < tol and vcur > thresh:
                if count == 0:
                    start = i-2
                count += 1
                lintype = 1
                if abs(vnext-vprec) < tol:
                    lintype = 2
            else:
                if count >= npoints:
                    islin[start:i] = lintype
                count = 0
            vprec, vcur = vcur, vnext
    return islin


def ref_eckhardt(flow, thresh, tau, bfi, tstype):
    # nan parameters pass the C checks (comparisons are false)
    if tstype not in [0, 1] or thresh < 0 or thresh > 1 \
            or bfi < 0 or bfi > 1:
        return None
    n = len(flow)
    out = np.zeros(n)
    with np.errstate(all="ignore"):
        tl = 1. if tstype == 0 else 24.
        alpha = np.exp(np.float64(-tl)/np.float64(tau))
        c1 = (1-bfi)*alpha
        c2 = (1-alpha)*bfi
        c3 = 1-alpha*bfi
        if n < 1:
            return out
        q = flow[0]
        q = 0. if (q < 0 or np.isnan(q)) else q
        bf1 = c2*q/c3
        out[0] = bf1
        for i in range(1, n):
            qt = flow[i]
            q = qt if (qt >= 0 and not np.isnan(qt)) else q
            bf1 = (c1*bf1+c2*q)/c3
            out[i] = q if bf1 > thresh*q else bf1
    return out


def ref_daysinmonth(year, month):
    if month < 1 or month > 12:
        return -1
    leap = year % 4 == 0 and (year % 100 != 0 or year % 400 == 0)
    return [31, 29 if leap else 28, 31, 30, 31, 30,
            31, 31, 30, 31, 30, 31][month-1]


def ref_dayofyear(month, day):
    if month < 1 or month > 12 or day < 1 or day > 31:
        return -1
    return sum([31, 28, 31, 30, 31, 30, 31, 31, 30, 31, 30, 31][:month-1])\
        + day


IMAX = 2147483647


def check_dateutils(cd):
    years = list(range(-420, 2450)) + [IMAX, IMAX-1, -IMAX-1, -IMAX,
                                       10**9, -10**9]
    for y in years:
        leap = y % 4 == 0 and (y % 100 != 0 or y % 400 == 0)
        check(cd.isleapyear(y) == int(leap), f"isleapyear({y})")
        if 1 <= y <= 9999:
            check(bool(cd.isleapyear(y)) == calendar.isleap(y),
                  f"isleapyear vs calendar ({y})")
    months = list(range(-3, 17)) + [IMAX, -IMAX-1, 255, 256, -256]
    for y in [1900, 2000, 2001, 2004, 2100, -4, 0, IMAX, -IMAX-1]:
        for m in months:
            check(cd.daysinmonth(y, m) == ref_daysinmonth(y, m),
                  f"daysinmonth({y}, {m})")
    for m in months:
        for d in list(range(-2, 35)) + [IMAX, -IMAX-1]:
            check(cd.dayofyear(m, d) == ref_dayofyear(m, d),
                  f"dayofyear({m}, {d})")

    # add1day / add1month with guarded date vectors
    def ref_add1day(dt):
        y, m, d = [int(v) for v in dt]
        nb = ref_daysinmonth(y, m)
        if nb < 0:
            return None
        if d < nb:
            return [y, m, d+1]
        if d == nb:
            if m >= 12 and y == IMAX:
                return None
            return [y, m+1, 1] if m < 12 else [y+1, 1, 1]
        return None

    def ref_add1month(dt):
        y, m, d = [int(v) for v in dt]
        if m < 12:
            m = m+1
        else:
            if y == IMAX:
                return None
            y, m = y+1, 1
        nb = ref_daysinmonth(y, m)
        if nb < 0:
            return None
        return [y, m, min(d, nb)]

    dates = []
    for y in [1999, 2000, 2100, -1, 0, IMAX, IMAX-1, -IMAX-1]:
        for m in [-1, 0, 1, 2, 3, 11, 12, 13, IMAX, -IMAX-1]:
            for d in [-1, 0, 1, 27, 28, 29, 30, 31, 32, IMAX, -IMAX-1]:
                dates.append([y, m, d])
    for dt in dates:
        for name, fun, ref in [("add1day", cd.add1day, ref_add1day),
                               ("add1month", cd.add1month, ref_add1month)]:
            a = np.array(dt, dtype=np.int32)
            ierr, outs, _ = kernel(name, fun, [a], outs=(0,))
            expected = ref(dt)
            if expected is None:
                check(ierr != 0, f"{name}({dt}) expected an error code")
            else:
                check(ierr == 0 and list(outs[0]) == expected,
                      f"{name}({dt}) -> {list(outs[0])}, "
                      + f"expected {expected}")

    # wrong length of the date vector is refused by the binding
    for n in [0, 1, 2, 4]:
        a = np.zeros(n, dtype=np.int32)
        ierr, _, _ = kernel("add1day", cd.add1day, [a], outs=(0,))
        check(ierr == "AssertionError", "add1day accepts date of length "
              + str(n))
        ierr, _, _ = kernel("getdate", cd.getdate, [20000101., a],
                            outs=(1,))
        check(ierr == "AssertionError", "getdate accepts date of length "
              + str(n))
        ierr, _, _ = kernel("comparedates", cd.comparedates,
                            [a, np.zeros(3, dtype=np.int32)])
        check(ierr == "AssertionError", "comparedates accepts length "
              + str(n))

    # comparedates
    rng = np.random.default_rng(5)
    pool = [IMAX, -IMAX-1, 0, 1, 2, 12, 2000, 2001]
    for _ in range(300):
        d1 = np.array(rng.choice(pool, 3), dtype=np.int32)
        d2 = np.array(rng.choice(pool, 3), dtype=np.int32)
        ierr, _, _ = kernel("comparedates", cd.comparedates, [d1, d2])
        t1, t2 = tuple(int(v) for v in d1), tuple(int(v) for v in d2)
        expected = 1 if t1 < t2 else -1 if t1 > t2 else 0
        check(ierr == expected, f"comparedates({t1}, {t2}) = {ierr}")

    # getdate: any double, including nan, inf and beyond 32 bits
    days = [20000229., 20010229., 19991231., 20001301., 20000100.,
            20000132., 0., -1., -20000101., 1e9, 2147483647., 2147483648.,
            -2147483648., -2147483649., 3e9, 1e19, -1e19, 1e300, -1e300,
            np.nan, np.inf, -np.inf, 20000101.7, 99991231., 101., 100.,
            1231., 1e-300]
    for day in days:
        a = np.full(3, -99, dtype=np.int32)
        ierr, outs, _ = kernel("getdate", cd.getdate, [day, a], outs=(1,))
        if ierr == 0:
            y, m, d = [int(v) for v in outs[0]]
            check(0 <= m <= 12 and 0 <= d <= 31,
                  f"getdate({day}) -> {(y, m, d)}")
            check(abs(y*10000+m*100+d-math.trunc(day)) <= 10000,
                  f"getdate({day}) -> {(y, m, d)}")
        else:
            check(ierr > 0, f"getdate({day}) returns {ierr}")
    for day in [20000229., 19991231., 20240229.]:
        a = np.zeros(3, dtype=np.int32)
        check(cd.getdate(day, a) == 0, "getdate valid day")
        check(int(a[0])*10000+int(a[1])*100+int(a[2]) == int(day),
              "getdate valid day value")
    for day in [20010229., 20001301., 20000132., np.nan, np.inf, 3e9]:
        a = np.zeros(3, dtype=np.int32)
        check(cd.getdate(day, a) > 0, f"getdate({day}) should fail")

    # combi
    for n in list(range(-3, 64)) + [IMAX, -IMAX-1, IMAX-1]:
        for k in list(range(-3, 64)) + [IMAX, -IMAX-1]:
            c = cd.combi(n, k)
            if n < 0 or k < 0 or k > 30 or n-k > 30:
                check(c == -1, f"combi({n}, {k}) = {c}, expected -1")
            elif k <= n:
                check(c == math.comb(n, k), f"combi({n}, {k}) = {c}")


def check_data_kernels(cd):
    rng = np.random.default_rng(11)
    for n, kind in itertools.product(LENGTHS, KINDS):
        x = series(n, kind, rng)
        for idxkind in ["const", "runs", "each", "decreasing", "extreme"]:
            if idxkind == "const":
                idx = np.zeros(n)
            elif idxkind == "runs":
                idx = np.cumsum(rng.uniform(0, 1, n) < 0.4)
            elif idxkind == "each":
                idx = np.arange(n)
            elif idxkind == "decreasing":
                idx = np.cumsum(rng.uniform(0, 1, n) < 0.4)
                if n > 1:
                    idx[rng.integers(1, n)] = -5
            else:
                idx = np.sort(rng.choice([IMAX, -IMAX-1, 0, IMAX-1], n))
            idx = idx.astype(np.int32)

            for op, maxnan in [(0, 0), (1, 0), (2, 1), (3, 2), (1, -1),
                               (4, 0), (-1, IMAX), (2, -IMAX-1)]:
                label = f"aggregate[n={n},{kind},{idxkind},op={op}]"
                ierr, outs, _ = kernel(label, cd.aggregate,
                                       [op, maxnan, idx, x, 0.*x+7.,
                                        np.zeros(1, dtype=np.int32)],
                                       outs=(4, 5))
                expected = ref_aggregate(idx, x, op, maxnan)
                if expected is None:
                    check(ierr != 0, label+" expected an error code")
                else:
                    ne = int(outs[1][0])
                    check(ierr == 0 and ne == len(expected) and
                          same(outs[0][:ne], expected),
                          label+f" -> {outs[0][:ne]} expected {expected}")

            for maxnan in [0, 1, -1, IMAX]:
                label = f"flathomogen[n={n},{kind},{idxkind},{maxnan}]"
                ierr, outs, _ = kernel(label, cd.flathomogen,
                                       [maxnan, idx, x, 0.*x+7.], outs=(3,))
                expected = ref_flathomogen(idx, x, maxnan)
                if expected is None:
                    check(ierr != 0, label+" expected an error code")
                else:
                    check(ierr == 0 and same(outs[0], expected),
                          label+f" -> {outs[0]} expected {expected}")

        # mismatched lengths are refused by the binding
        if n > 0:
            ierr, _, _ = kernel("aggregate", cd.aggregate,
                                [0, 0, np.zeros(n, dtype=np.int32), x,
                                 np.zeros(n-1), np.zeros(1, dtype=np.int32)],
                                outs=(4, 5))
            check(ierr == "AssertionError", "aggregate short outputs")
            ierr, _, _ = kernel("flathomogen", cd.flathomogen,
                                [0, np.zeros(n-1, dtype=np.int32), x,
                                 np.zeros(n)], outs=(3,))
            check(ierr == "AssertionError", "flathomogen short aggindex")

        # islin
        for thresh, tol, npoints in [(0., 1e-6, 1), (0., 1e-6, 3),
                                     (-np.inf, 1e300, 1), (2., 0.5, 2),
                                     (np.nan, 1e-6, 1), (0., np.nan, 1),
                                     (0., 1e-6, 0), (0., 1e-6, -5),
                                     (0., np.inf, IMAX)]:
            for xx in [x, np.round(x), np.arange(n)*1., np.ones(n)]:
                label = f"islin[n={n},{kind},{thresh},{tol},{npoints}]"
                ierr, outs, _ = kernel(label, cd.islin,
                                       [thresh, tol, npoints, xx,
                                        np.full(n, 9, dtype=np.int32)],
                                       outs=(4,))
                expected = ref_islin(xx, thresh, tol, npoints)
                check(ierr == 0, label+f" returns {ierr}")
                # values at index >= 2 that are not set by an event are
                # zeroed by the kernel, so the comparison is exact
                check(np.array_equal(outs[0], expected),
                      label+f" -> {outs[0]} expected {expected}")
        if n > 0:
            ierr, _, _ = kernel("islin", cd.islin,
                                [0., 1e-6, 1, x,
                                 np.zeros(n-1, dtype=np.int32)], outs=(4,))
            check(ierr == "AssertionError", "islin short output")

        # eckhardt
        for thresh, tau, bfi, ts in [(0.95, 20., 0.8, 1), (0., 1e-300, 0., 0),
                                     (1., 1e300, 1., 1), (0.5, 0., 0.5, 0),
                                     (0.5, -3., 0.5, 1), (0.5, np.nan, .5, 1),
                                     (-0.1, 20., 0.8, 1), (0.5, 20., 1.1, 1),
                                     (0.5, 20., 0.8, 2), (0.5, 20., 0.8, -1),
                                     (np.nan, 20., np.nan, 1),
                                     (0.5, np.inf, 0.8, IMAX)]:
            label = f"eckhardt[n={n},{kind},{thresh},{tau},{bfi},{ts}]"
            ierr, outs, _ = kernel(label, cd.eckhardt,
                                   [ts, thresh, tau, bfi, x, 0.*x+7.],
                                   outs=(5,))
            expected = ref_eckhardt(x, thresh, tau, bfi, ts)
            if expected is None:
                check(ierr != 0, label+" expected an error code")
            else:
                check(ierr == 0 and same(outs[0], expected),
                      label+f" -> {outs[0]} expected {expected}")
        if n > 0:
            ierr, _, _ = kernel("eckhardt", cd.eckhardt,
                                [1, 0.9, 20., 0.8, x, np.zeros(n+1)],
                                outs=(5,))
            check(ierr == "AssertionError", "eckhardt long output")


def check_var2h_kernel(cd):
    rng = np.random.default_rng(17)
    for nvar, nh in itertools.product([0, 1, 2, 3, 5, 20], [0, 1, 2, 3, 30]):
        for trial in range(6):
            dt = rng.integers(0, 9000, nvar)
            if trial == 1 and nvar > 2:
                dt[rng.integers(1, nvar)] = -4000  # time going backward
            if trial == 2:
                dt = dt*0                          # all equal stamps
            if trial == 3:
                dt = dt*400                        # big gaps
            t0 = 1000000
            varsec = (t0+np.cumsum(dt)).astype(np.int64)
            vals = series(nvar, KINDS[(trial+nvar) % len(KINDS)], rng)
            for hstart in [t0-5000, t0, t0+1, t0+3600, t0+10**7,
                           -2**62, 2**62]:
                for nbsec, rain, maxgap in [(3600, 0, 86400), (1800, 1, 3600),
                                            (3600, 1, 0), (1800, 0, -1),
                                            (3600, 0, IMAX), (7, 0, 86400),
                                            (3600, 2, 86400),
                                            (3600, -1, 86400), (0, 0, 10)]:
                    if abs(hstart) > 2**61 and nh > 3:
                        continue
                    label = f"var2h[{nvar},{nh},{trial},{hstart},{nbsec}]"
                    ierr, outs, _ = kernel(label, cd.var2h,
                                           [maxgap, hstart, nbsec, rain, 0,
                                            varsec, vals,
                                            np.full(nh, 7.)], outs=(7,))
                    check(isinstance(ierr, int) and ierr >= 0,
                          label+f" returns {ierr}")
                    if nbsec not in [1800, 3600] or rain not in [0, 1]:
                        check(ierr > 0, label+" expected an error code")
                    if ierr == 0 and nh > 0:
                        # the last value is never computed
                        check(outs[0][-1] == 7., label+" wrote last value")
                    if ierr == 0 and kindfinite(vals) and nh > 1 \
                            and rain == 0:
                        h = outs[0][:-1]
                        h = h[~np.isnan(h)]
                        if len(h) > 0:
                            check(h.min() >= vals.min()-1e-6 and
                                  h.max() <= vals.max()+1e-6,
                                  label+" interpolation out of data range")
    # mismatch refused
    ierr, _, _ = kernel("var2h", cd.var2h,
                        [86400, 0, 3600, 0, 0, np.zeros(3, dtype=np.int64),
                         np.zeros(2), np.zeros(4)], outs=(7,))
    check(ierr == "AssertionError", "var2h mismatched varvalues")


def kindfinite(v):
    return len(v) > 0 and bool(np.all(np.isfinite(v))) \
        and bool(np.all(np.abs(v) < 1e100)) and bool(np.all(v >= 0))

# --------------------------------------------------------------------------
# stat package
# --------------------------------------------------------------------------
NPARAMSMAX = 10


def ref_armodel_sim(params, innov, mean, ini):
    p = len(params)
    if p > NPARAMSMAX or p <= 0 or np.any(np.isnan(params)) \
            or np.isnan(mean) or np.isnan(ini):
        return None
    prev = [ini-mean]*p
    out = np.zeros(len(innov))
    with np.errstate(all="ignore"):
        for i, v in enumerate(innov):
            tmp = 0. if np.isnan(v) else v
            for k in range(p-1, -1, -1):
                if not np.isnan(prev[k]):
                    tmp = tmp+params[k]*prev[k]
                prev[k] = prev[k-1] if k > 0 else tmp
            out[i] = tmp+mean
    return out


def ref_armodel_residual(params, inputs, mean, ini):
    p = len(params)
    if p > NPARAMSMAX or p <= 0 or np.any(np.isnan(params)) \
            or np.isnan(mean) or np.isnan(ini):
        return None
    prev = [ini-mean]*p
    out = np.zeros(len(inputs))
    with np.errstate(all="ignore"):
        for i, v in enumerate(inputs):
            value = v-mean
            if np.isnan(value):
                value = 0.
                for k in range(p):
                    value = value+params[k]*prev[k]
            tmp = value
            for k in range(p-1, -1, -1):
                tmp = tmp-params[k]*prev[k]
                prev[k] = prev[k-1] if k > 0 else value
            out[i] = tmp
    return out


def ref_pareto(data, orientation):
    nval, ncol = data.shape
    out = np.zeros(nval, dtype=np.int32)
    with np.errstate(all="ignore"):
        for i in range(nval):
            for j in range(nval):
                if i == j:
                    continue
                dom = True
                for k in range(ncol):
                    diff = data[j, k]-data[i, k]
                    if np.isnan(diff):
                        continue
                    dom = dom and (float(orientation)*diff > 0)
                if dom:
                    out[i] = 1
                    break
    return out


def check_stat_kernels(cs):
    rng = np.random.default_rng(23)

    # AR models: orders 0..11 and more, any length, any value class
    for n, kind in itertools.product(LENGTHS, KINDS):
        x = series(n, kind, rng)
        for order in list(range(0, 13)) + [25]:
            for pk in ["stable", "explosive", "nan", "inf"]:
                params = rng.uniform(-0.3, 0.3, order)/max(1, order)
                if pk == "explosive":
                    params = params*1e200
                elif pk == "nan" and order > 0:
                    params[rng.integers(0, order)] = np.nan
                elif pk == "inf" and order > 0:
                    params[rng.integers(0, order)] = np.inf
                for mean, ini in [(0., 0.), (1e300, -1e300), (np.nan, 0.),
                                  (0., np.nan), (np.inf, 1.)]:
                    if order > 3 and (mean, ini) != (0., 0.) and n > 8:
                        continue
                    for name, fun, ref in [
                            ("armodel_sim", cs.armodel_sim, ref_armodel_sim),
                            ("armodel_residual", cs.armodel_residual,
                             ref_armodel_residual)]:
                        label = f"{name}[n={n},{kind},p={order},{pk}]"
                        ierr, outs, _ = kernel(label, fun,
                                               [mean, ini, params, x,
                                                0.*x+7.], outs=(4,))
                        expected = ref(params, x, mean, ini)
                        if expected is None:
                            check(ierr != 0, label+" expected error code")
                        else:
                            check(ierr == 0 and same(outs[0], expected),
                                  label+f" {outs[0]} expected {expected}")
        if n > 0:
            ierr, _, _ = kernel("armodel_sim", cs.armodel_sim,
                                [0., 0., np.array([0.5]), x, np.zeros(n-1)],
                                outs=(4,))
            check(ierr == "AssertionError", "armodel_sim short output")

    # pareto front
    for nval, ncol in itertools.product([0, 1, 2, 3, 4, 7, 20],
                                        [0, 1, 2, 3, 5]):
        for kind in KINDS:
            data = series(nval*ncol, kind, rng).reshape((nval, ncol))
            for orient in [1, -1, 0, 2, IMAX, -IMAX-1]:
                label = f"pareto[{nval}x{ncol},{kind},{orient}]"
                ierr, outs, _ = kernel(label, cs.pareto_front,
                                       [orient, data,
                                        np.full(nval, 9, dtype=np.int32)],
                                       outs=(2,))
                check(ierr == 0 and
                      np.array_equal(outs[0], ref_pareto(data, orient)),
                      label+f" -> {outs[0]}")
    ierr, _, _ = kernel("pareto", cs.pareto_front,
                        [1, np.zeros((3, 2)), np.zeros(2, dtype=np.int32)],
                        outs=(2,))
    check(ierr == "AssertionError", "pareto short output")

    # crps: the binding is reached by the wrapper with nens >= 1, nval >= 1
    for nval, ncol in itertools.product([1, 2, 3, 5, 12], [1, 2, 3, 4, 9]):
        for kind in KINDS:
            obs = series(nval, KINDS[(nval+ncol) % len(KINDS)]
                         if kind == "mixed" else "finite", rng)
            sim = series(nval*ncol, kind, rng).reshape((nval, ncol))
            for use_w, is_sorted in [(0, 0), (1, 0), (0, 1), (1, 1), (2, 2)]:
                w = rng.uniform(0, 1, nval)
                w = w/w.sum()
                label = f"crps[{nval}x{ncol},{kind},{use_w},{is_sorted}]"
                ierr, outs, _ = kernel(label, cs.crps,
                                       [use_w, is_sorted, obs, sim, w,
                                        np.zeros((ncol+1, 7)), np.zeros(5)],
                                       outs=(5, 6))
                check(isinstance(ierr, int), label+f" raised {ierr}")
                finite = bool(np.all(np.isfinite(sim))) and \
                    bool(np.all(np.abs(sim) < 1e100)) and \
                    bool(np.all(np.isfinite(obs))) and \
                    bool(np.all(np.abs(obs) < 1e100))
                if is_sorted == 0 and finite:
                    check(ierr == 0, label+f" returns {ierr}")
                    ww = w if use_w == 1 else np.ones(nval)/nval
                    e1 = np.abs(sim-obs[:, None]).mean(axis=1)
                    e2 = np.abs(sim[:, :, None]-sim[:, None, :])\
                        .mean(axis=(1, 2))
                    expected = np.sum(ww*(e1-0.5*e2))
                    check(same(outs[1][0], expected, 1e-7, 1e-9),
                          label+f" crps={outs[1][0]} expected {expected}")
                    check(same(outs[0][:, 0], np.arange(ncol+1)/ncol),
                          label+" frequencies")
    for shape in [(2, 7), (4, 7), (3, 6), (3, 8)]:
        ierr, _, _ = kernel("crps", cs.crps,
                            [0, 0, np.zeros(4), np.zeros((4, 2)),
                             np.zeros(4), np.zeros(shape), np.zeros(5)],
                            outs=(5, 6))
        check(ierr == "AssertionError", f"crps accepts table {shape}")

    # ensrank
    for nval, ncol in itertools.product([0, 1, 2, 3, 5, 9], [0, 1, 2, 3, 7]):
        for kind in KINDS:
            sim = series(nval*ncol, kind, rng).reshape((nval, ncol))
            for eps in [1e-6, 1e-20, 1e-21, 0., -1., np.nan, 1e300, np.inf]:
                label = f"ensrank[{nval}x{ncol},{kind},{eps}]"
                ierr, outs, _ = kernel(label, cs.ensrank,
                                       [eps, sim, np.zeros((nval, nval)),
                                        np.zeros(nval)], outs=(2, 3))
                check(isinstance(ierr, int), label+f" raised {ierr}")
                if nval == 0 or ncol == 0 or eps < 1e-20:
                    check(ierr > 0, label+" expected an error code")
                elif ierr == 0:
                    check(same(outs[1].sum(), nval*(nval+1)/2.),
                          label+f" ranks {outs[1]}")
                    if kind in ["finite", "negative", "ties"] \
                            and eps == 1e-6:
                        f = outs[0][np.triu_indices(nval, 1)]
                        check(bool(np.all((f >= 0) & (f <= 1))),
                              label+f" fmat {f}")

    # Anderson-Darling
    for n in LENGTHS:
        for kind in ["unif", "ties", "edge", "outside", "nan", "inf"]:
            u = rng.uniform(0, 1, n)
            if kind == "ties":
                u = np.round(u, 1)
            elif kind == "edge" and n > 0:
                u[rng.integers(0, n)] = rng.choice([0., 1.])
            elif kind == "outside" and n > 0:
                u[rng.integers(0, n)] = rng.choice([-1e-9, 1+1e-9, 1e300])
            elif kind == "nan" and n > 0:
                u[rng.integers(0, n)] = np.nan
            elif kind == "inf" and n > 0:
                u[rng.integers(0, n)] = rng.choice([-np.inf, np.inf])
            label = f"ad_test[n={n},{kind}]"
            ierr, outs, _ = kernel(label, cs.ad_test,
                                   [u, np.zeros(2)], outs=(0, 1))
            check(isinstance(ierr, int), label+f" raised {ierr}")
            bad = n > 0 and (np.any(np.isnan(u)) or np.any(u < 0)
                             or np.any(u > 1))
            if bad:
                check(ierr > 0, label+" expected an error code")
            elif n > 0:
                check(ierr == 0, label+f" returns {ierr}")
                us = np.sort(u)
                check(np.array_equal(outs[0], us), label+" not sorted")
                with np.errstate(all="ignore"):
                    i = np.arange(n)
                    stat = -n-np.sum((2*i+1)*np.log(us*(1-us[::-1])))/n
                check(same(outs[1][0], stat, 1e-9, 1e-9),
                      label+f" stat {outs[1][0]} expected {stat}")
                p = outs[1][1]
                check(np.isnan(p) or 0 <= p <= 1, label+f" pvalue {p}")
    ierr, _, _ = kernel("ad_test", cs.ad_test, [np.zeros(3)+.5, np.zeros(1)],
                        outs=(0, 1))
    check(ierr == "AssertionError", "ad_test short outputs")

# --------------------------------------------------------------------------
# gis package
# --------------------------------------------------------------------------
CODE = np.array([[32, 64, 128], [16, 0, 1], [8, 4, 2]], dtype=np.int64)
I64MAX = 2**63-1


def cmod(a, b):
    """ C remainder (truncation toward zero) """
    a, b = int(a), int(b)
    r = abs(a) % abs(b)
    return r if a >= 0 else -r


def ref_nxy(ncols, cell):
    nx = cmod(cell, ncols)
    return nx, (int(cell)-nx)//int(ncols)


def ref_coord2cell(nrows, ncols, xll, yll, csz, xy):
    out = np.zeros(len(xy), dtype=np.int64)
    with np.errstate(all="ignore"):
        for i, (x, y) in enumerate(xy):
            fx = np.floor((np.float64(x)-xll)/np.float64(csz))
            fy = np.floor((np.float64(y)-yll)/np.float64(csz))
            if not (fx >= 0 and fx < ncols and fy >= 0 and fy < nrows):
                out[i] = -1
            else:
                out[i] = (nrows-1-int(fy))*ncols+int(fx)
    return out


def ref_cell2coord(nrows, ncols, xll, yll, csz, cells):
    out = np.zeros((len(cells), 2))
    for i, c in enumerate(cells):
        if c < 0 or c >= nrows*ncols:
            out[i] = np.nan
        else:
            nx, ny = ref_nxy(ncols, c)
            with np.errstate(all="ignore"):
                out[i, 0] = xll+csz*(float(nx)+0.5)
                out[i, 1] = yll+csz*(float(nrows-1-ny)+0.5)
    return out


def ref_cell2rowcol(nrows, ncols, cells):
    out = np.zeros((len(cells), 2), dtype=np.int64)
    for i, c in enumerate(cells):
        if c < 0 or c >= nrows*ncols:
            out[i] = -1
        else:
            nx, ny = ref_nxy(ncols, c)
            out[i] = [ny, nx]
    return out


def ref_neighbours(nrows, ncols, cell):
    if cell < 0 or cell >= nrows*ncols:
        return None
    nx0, ny0 = ref_nxy(ncols, cell)
    out = np.zeros(9, dtype=np.int64)
    for iy in [-1, 0, 1]:
        for ix in [-1, 0, 1]:
            k = 1+ix+(1+iy)*3
            nx, ny = nx0+ix, ny0+iy
            if (ix == 0 and iy == 0) or nx < 0 or nx > ncols-1 \
                    or ny < 0 or ny > nrows-1:
                out[k] = -1
            else:
                out[k] = ny*ncols+nx
    return out


def ref_downstream1(code, flowdir, cell):
    nrows, ncols = flowdir.shape
    nb = ref_neighbours(nrows, ncols, cell)
    if nb is None:
        return None
    fd = flowdir.flat[cell]
    if fd == 0:
        return -2
    down = -1
    for j in range(9):
        if fd == code.flat[j]:
            down = nb[j]
    return down


def ref_downstream(code, flowdir, cells):
    out = []
    for c in cells:
        d = ref_downstream1(code, flowdir, c)
        if d is None:
            return None
        out.append(d)
    return np.array(out, dtype=np.int64)


def ref_upstream(code, flowdir, cells):
    nrows, ncols = flowdir.shape
    out = -np.ones((len(cells), 9), dtype=np.int64)
    for i, c in enumerate(cells):
        nb = ref_neighbours(nrows, ncols, c)
        if nb is None:
            return None
        k = 0
        for j in range(9):
            if nb[j] == -1:
                continue
            fd = flowdir.flat[nb[j]]
            if fd == 0:
                continue
            if fd == code.flat[8-j]:
                out[i, k] = nb[j]
                k += 1
    return out


def ref_accumulate(maxacc, nodata, code, flowdir, toacc, acc0):
    nrows, ncols = flowdir.shape
    if maxacc < 1 or nrows < 1:
        return None
    acc = acc0.copy()
    with np.errstate(all="ignore"):
        for i in range(nrows*ncols):
            up, n = i, 0
            while n <= maxacc:
                down = ref_downstream1(code, flowdir, up)
                if down < 0:
                    acc.flat[up] = nodata
                    break
                acc.flat[down] += toacc.flat[i]
                n += 1
                up = down
    return acc


def ref_slope(cellsize, code, flowdir, alt, slope0):
    nrows, ncols = flowdir.shape
    if nrows < 1:
        return None
    out = slope0.copy()
    with np.errstate(all="ignore"):
        for i in range(nrows*ncols):
            down = ref_downstream1(code, flowdir, i)
            if down >= 0:
                fd = flowdir.flat[i]
                dist = np.float64(cellsize)
                if fd in [code.flat[0], code.flat[2], code.flat[6],
                          code.flat[8]]:
                    dist = dist*np.sqrt(2.)
                out.flat[i] = (alt.flat[i]-alt.flat[down])/dist
    return out


def ref_voronoi(nrows, ncols, xll, yll, csz, cells, pts):
    if len(pts) < 1 or nrows < 1 or ncols < 1:
        return None
    w = np.zeros(len(pts))
    with np.errstate(all="ignore"):
        for c in cells:
            nx, ny = ref_nxy(ncols, c)
            x = xll+csz*(float(nx)+0.5)
            y = yll+csz*(float(nrows-1-ny)+0.5)
            dmin, jmin = np.inf, 0
            for j, (px, py) in enumerate(pts):
                d = np.sqrt((x-px)*(x-px)+(y-py)*(y-py))
                if d < dmin:
                    dmin, jmin = d, j
            w[jmin] += 1
        w = w/np.float64(len(cells))
    return w


def ref_river(xll, yll, csz, code, flowdir, up, nval):
    nrows, ncols = flowdir.shape
    if up < 0 or up > nrows*ncols-1:
        return None
    cells = -np.ones(nval, dtype=np.int64)
    data = np.full((nval, 5), 7.)
    npts, dist, dx, dy = 0, 0., 0., 0.
    for i in range(nval):
        cells[i] = up
        npts += 1
        down = ref_downstream1(code, flowdir, up)
        dist += np.sqrt(dx*dx+dy*dy)
        nx1, ny1 = ref_nxy(ncols, up)
        data[i] = [dist, dx, dy, xll+csz*(nx1+0.5),
                   yll+csz*(float(nrows-1-ny1)+0.5)]
        nx2, ny2 = ref_nxy(ncols, down)
        dx, dy = float(nx1-nx2), float(ny1-ny2)
        up = down
        if up < 0:
            break
    return npts, cells, data


def ref_inside(points, polygon, atol, inside0):
    inside = inside0.copy()
    nv = len(polygon)
    with np.errstate(all="ignore"):
        x0, x1 = polygon[:, 0].min(), polygon[:, 0].max()
        y0, y1 = polygon[:, 1].min(), polygon[:, 1].max()
        for ip, (x, y) in enumerate(points):
            if x < x0 or x > x1 or y < y0 or y > y1:
                continue
            p1x, p1y = polygon[0]
            ins = 0
            for iv in range(1, nv+1):
                p2x, p2y = polygon[iv % nv]
                if y > np.fmin(p1y, p2y) and y <= np.fmax(p1y, p2y) \
                        and x <= np.fmax(p1x, p2x):
                    xinters = p1x
                    if abs(p1y-p2y) > atol:
                        xinters = xinters+(y-p1y)*(p2x-p1x)/(p2y-p1y)
                    if abs(p1x-p2x) < atol or x <= xinters:
                        ins = 1-ins
                p1x, p1y = p2x, p2y
            inside[ip] = ins
    return inside


def ref_intersect(nrows, ncols, xll, yll, csz, csz_area, xy):
    cells = ref_coord2cell(nrows, ncols, xll, yll, csz, xy)
    with np.errstate(all="ignore"):
        af = (np.float64(csz_area)/np.float64(csz))**2
    idx, w = [], []
    for c in cells:
        if c < 0:
            continue
        if c in idx:
            w[idx.index(c)] += af
        else:
            idx.append(c)
            w.append(af)
    return idx, w


def ref_area(code, flowdir, outlet, inlets):
    """ upstream closure of the outlet (None if there is a cycle) """
    seen, layer = [], [outlet]
    nmax = flowdir.size+2
    while layer:
        ups = ref_upstream(code, flowdir, layer)
        layer = [int(c) for c in ups.ravel() if c >= 0 and c not in inlets]
        seen += layer
        if len(seen) > nmax:
            return None
    return seen


def random_flowdir(nrows, ncols, rng, kind):
    if kind == "codes":
        pool = [1, 2, 4, 8, 16, 32, 64, 128]
    elif kind == "sinks":
        pool = [0, 0, 1, 4, 16, 64, 2, 8]
    elif kind == "junk":
        pool = [0, 1, 2, 3, -1, 128, 255, I64MAX, -I64MAX-1, 64, 5]
    else:
        pool = [4]
    return rng.choice(np.array(pool, dtype=np.int64),
                      (nrows, ncols)).astype(np.int64)


def cell_pool(ntot):
    return np.array([-I64MAX-1, -1, 0, 1, ntot-1, ntot, ntot+1, ntot//2,
                     I64MAX, -2, 2**31, -2**31], dtype=np.int64)


def check_gis_kernels(cg):
    rng = np.random.default_rng(31)
    shapes = [(1, 1), (1, 2), (2, 1), (2, 2), (3, 3), (2, 5), (5, 3),
              (6, 6), (0, 3), (3, 0), (0, 0)]
    geoms = [(0., 0., 1.), (-10.5, 33.25, 0.05), (1e6, -1e6, 250.),
             (0., 0., 0.), (0., 0., -1.), (np.nan, 0., 1.), (0., np.inf, 1.),
             (0., 0., np.nan), (0., 0., 1e-300), (0., 0., 1e300)]

    for (nrows, ncols), (xll, yll, csz) in itertools.product(shapes, geoms):
        ntot = nrows*ncols
        for n in [0, 1, 2, 3, 17]:
            xy = np.column_stack([rng.uniform(-2, ncols+2, n),
                                  rng.uniform(-2, nrows+2, n)])
            with np.errstate(all="ignore"):
                xy = xy*csz+np.array([xll, yll])
            if n > 2:
                xy[0] = [np.nan, np.inf]
                xy[1] = [1e300, -1e300]
                xy[2] = [xll, yll]
            label = f"coord2cell[{nrows}x{ncols},{xll},{yll},{csz},n={n}]"
            ierr, outs, _ = kernel(label, cg.coord2cell,
                                   [nrows, ncols, xll, yll, csz, xy,
                                    np.full(n, 9, dtype=np.int64)],
                                   outs=(6,))
            expected = ref_coord2cell(nrows, ncols, xll, yll, csz, xy)
            check(ierr == 0 and np.array_equal(outs[0], expected),
                  label+f" -> {outs[0]} expected {expected}")
            check(bool(np.all((outs[0] >= -1) & (outs[0] < max(ntot, 1)))),
                  label+" cell out of the grid")

            cells = rng.choice(cell_pool(ntot), n)
            label = f"cell2coord[{nrows}x{ncols},{xll},{yll},{csz},n={n}]"
            ierr, outs, _ = kernel(label, cg.cell2coord,
                                   [nrows, ncols, xll, yll, csz, cells,
                                    np.full((n, 2), 7.)], outs=(6,))
            expected = ref_cell2coord(nrows, ncols, xll, yll, csz, cells)
            check(ierr == 0 and same(outs[0], expected),
                  label+f" -> {outs[0]} expected {expected}")

            label = f"cell2rowcol[{nrows}x{ncols},n={n}]"
            ierr, outs, _ = kernel(label, cg.cell2rowcol,
                                   [nrows, ncols, cells,
                                    np.full((n, 2), 7, dtype=np.int64)],
                                   outs=(3,))
            expected = ref_cell2rowcol(nrows, ncols, cells)
            check(ierr == 0 and np.array_equal(outs[0], expected),
                  label+f" -> {outs[0]} expected {expected}")

            # intersect (the wrapper gives buffers of nrows*ncols cells)
            for csz_area in [csz/3 if csz == csz else 1., 0., np.nan]:
                label = f"intersect[{nrows}x{ncols},{xll},{yll},{csz},{n}]"
                ierr, outs, _ = kernel(label, cg.intersect,
                                       [nrows, ncols, xll, yll, csz,
                                        csz_area, xy,
                                        np.zeros(1, dtype=np.int64),
                                        np.full(ntot, 7, dtype=np.int64),
                                        np.full(ntot, 7.)], outs=(7, 8, 9))
                idx, w = ref_intersect(nrows, ncols, xll, yll, csz,
                                       csz_area, xy)
                npts = int(outs[0][0])
                check(ierr == 0 and npts == len(idx) and
                      list(outs[1][:npts]) == idx and
                      same(outs[2][:npts], w),
                      label+f" -> {outs} expected {idx} {w}")

        for cell in list(range(-2, ntot+3)) + [I64MAX, -I64MAX-1]:
            label = f"neighbours[{nrows}x{ncols},{cell}]"
            ierr, outs, _ = kernel(label, cg.neighbours,
                                   [nrows, ncols, cell,
                                    np.full(9, 7, dtype=np.int64)],
                                   outs=(3,))
            expected = ref_neighbours(nrows, ncols, cell)
            if expected is None:
                check(ierr > 0, label+" expected an error code")
            else:
                check(ierr == 0 and np.array_equal(outs[0], expected),
                      label+f" -> {outs[0]} expected {expected}")
        ierr, _, _ = kernel("neighbours", cg.neighbours,
                            [3, 3, 4, np.zeros(8, dtype=np.int64)],
                            outs=(3,))
        check(ierr == "AssertionError", "neighbours accepts 8 values")

        # voronoi
        for ncells, npts in itertools.product([0, 1, 2, 7], [0, 1, 2, 3, 5]):
            cells = rng.integers(0, max(ntot, 1), ncells).astype(np.int64)
            if ncells > 1:
                # cells of the area come from delineate_area: the kernel
                # does not check them, moderate values only
                cells[0] = rng.choice([-1, ntot, ntot+1, 2**31, -2**31])
            pts = np.column_stack([rng.uniform(-1, ncols+1, npts),
                                   rng.uniform(-1, nrows+1, npts)])
            if npts > 2:
                pts[rng.integers(0, npts)] = rng.choice(
                    [np.nan, np.inf, -np.inf, 1e300], 2)
            label = f"voronoi[{nrows}x{ncols},{xll},{yll},{csz},"\
                    + f"{ncells},{npts}]"
            ierr, outs, _ = kernel(label, cg.voronoi,
                                   [nrows, ncols, xll, yll, csz, cells, pts,
                                    np.full(npts, 7.)], outs=(7,))
            expected = ref_voronoi(nrows, ncols, xll, yll, csz, cells, pts)
            if expected is None:
                check(ierr > 0, label+" expected an error code")
            else:
                check(ierr == 0 and same(outs[0], expected),
                      label+f" -> {outs[0]} expected {expected}")

    # flow direction kernels
    for (nrows, ncols), fkind in itertools.product(
            shapes, ["codes", "sinks", "junk", "south"]):
        ntot = nrows*ncols
        for trial in range(3):
            flowdir = random_flowdir(nrows, ncols, rng, fkind)
            for n in [0, 1, 2, 5]:
                cells = rng.integers(0, max(ntot, 1), n).astype(np.int64)
                for bad in [False, True]:
                    if bad and n > 0:
                        cells[rng.integers(0, n)] = \
                            rng.choice(cell_pool(ntot))
                    label = f"downstream[{nrows}x{ncols},{fkind},{cells}]"
                    ierr, outs, _ = kernel(label, cg.downstream,
                                           [CODE, flowdir, cells,
                                            np.full(n, 7, dtype=np.int64)],
                                           outs=(3,))
                    expected = ref_downstream(CODE, flowdir, cells)
                    if expected is None:
                        check(ierr > 0, label+" expected an error code")
                    else:
                        check(ierr == 0 and
                              np.array_equal(outs[0], expected),
                              label+f" -> {outs[0]} expected {expected}")
                        check(bool(np.all((outs[0] >= -2)
                                          & (outs[0] < max(ntot, 1)))),
                              label+" downstream cell out of the grid")
                    label = f"upstream[{nrows}x{ncols},{fkind},{cells}]"
                    ierr, outs, _ = kernel(label, cg.upstream,
                                           [CODE, flowdir, cells,
                                            np.full((n, 9), 7,
                                                    dtype=np.int64)],
                                           outs=(3,))
                    expected = ref_upstream(CODE, flowdir, cells)
                    if expected is None:
                        check(ierr > 0, label+" expected an error code")
                    else:
                        check(ierr == 0 and
                              np.array_equal(outs[0], expected),
                              label+f" -> {outs[0]} expected {expected}")

            # wrong flow direction code table
            ierr, _, _ = kernel("downstream", cg.downstream,
                                [CODE[:2], flowdir,
                                 np.zeros(1, dtype=np.int64),
                                 np.zeros(1, dtype=np.int64)], outs=(3,))
            check(ierr == "AssertionError", "downstream accepts 2x3 codes")

            # accumulate
            toacc = series(ntot, KINDS[trial], rng).reshape((nrows, ncols))
            for nprint, maxacc, nodata in [(0, ntot, -1.), (1, 1, np.nan),
                                           (-3, 2, 0.), (100, 0, 0.),
                                           (IMAX, -1, 0.),
                                           (0, I64MAX, 1e300),
                                           (-I64MAX-1, 3, -np.inf)]:
                if maxacc == I64MAX and fkind != "south":
                    maxacc = 10*ntot+5
                label = f"accumulate[{nrows}x{ncols},{fkind},{nprint},"\
                        + f"{maxacc}]"
                ierr, outs, _ = kernel(label, cg.accumulate,
                                       [nprint, maxacc, nodata, CODE,
                                        flowdir, toacc, toacc.copy()],
                                       outs=(6,))
                expected = ref_accumulate(maxacc, nodata, CODE, flowdir,
                                          toacc, toacc)
                if expected is None:
                    check(ierr > 0, label+" expected an error code")
                else:
                    check(ierr == 0 and same(outs[0], expected),
                          label+f" -> {outs[0]} expected {expected}")

            # slope
            alt = series(ntot, KINDS[trial+3], rng).reshape((nrows, ncols))
            for nprint, cellsize in [(0, 1.), (1, 0.), (-1, -2.),
                                     (7, np.nan), (IMAX, 1e-300)]:
                label = f"slope[{nrows}x{ncols},{fkind},{nprint},{cellsize}]"
                ierr, outs, _ = kernel(label, cg.slope,
                                       [nprint, cellsize, CODE, flowdir,
                                        alt, np.full((nrows, ncols), -9.)],
                                       outs=(5,))
                expected = ref_slope(cellsize, CODE, flowdir, alt,
                                     np.full((nrows, ncols), -9.))
                if expected is None:
                    check(ierr > 0, label+" expected an error code")
                else:
                    check(ierr == 0 and same(outs[0], expected),
                          label+f" -> {outs[0]} expected {expected}")
            if ntot > 0:
                ierr, _, _ = kernel("slope", cg.slope,
                                    [0, 1., CODE, flowdir, alt,
                                     np.zeros((nrows, ncols+1))], outs=(5,))
                check(ierr == "AssertionError", "slope wrong output shape")
                ierr, _, _ = kernel("accumulate", cg.accumulate,
                                    [0, 5, 0., CODE, flowdir,
                                     np.zeros((nrows+1, ncols)), toacc],
                                    outs=(6,))
                check(ierr == "AssertionError", "accumulate wrong shape")

            # river
            for nval in [0, 1, 2, 3, 50]:
                for up in [-1, 0, ntot-1, ntot, ntot//2, I64MAX]:
                    label = f"river[{nrows}x{ncols},{fkind},{nval},{up}]"
                    ierr, outs, _ = kernel(
                        label, cg.delineate_river,
                        [0.5, -3., 2., CODE, flowdir, up,
                         np.zeros(1, dtype=np.int64),
                         -np.ones(nval, dtype=np.int64),
                         np.full((nval, 5), 7.)], outs=(6, 7, 8))
                    expected = ref_river(0.5, -3., 2., CODE, flowdir, up,
                                         nval)
                    if expected is None:
                        check(ierr > 0, label+" expected an error code")
                    else:
                        check(ierr == 0 and int(outs[0][0]) == expected[0]
                              and np.array_equal(outs[1], expected[1])
                              and same(outs[2], expected[2]),
                              label+f" -> {outs} expected {expected}")

            # area, boundary, flow path lengths
            for nval in [0, 1, 2, 3, 4, 10, 60]:
                for outlet in [-1, 0, ntot-1, ntot, ntot//2, I64MAX]:
                    inlets = rng.choice(cell_pool(ntot), trial)
                    inlets_ok = bool(np.all((inlets >= 0)
                                            & (inlets < ntot)))
                    label = f"area[{nrows}x{ncols},{fkind},{nval},{outlet}]"
                    ierr, outs, _ = kernel(
                        label, cg.delineate_area,
                        [CODE, flowdir, outlet, inlets,
                         -np.ones(nval, dtype=np.int64),
                         -np.ones(nval, dtype=np.int64),
                         -np.ones(nval, dtype=np.int64)], outs=(4, 5, 6))
                    check(isinstance(ierr, int), label+f" raised {ierr}")
                    if nval < 1 or outlet < 0 or outlet >= ntot \
                            or not inlets_ok:
                        check(ierr > 0, label+" expected an error code")
                    elif ierr == 0:
                        area = [int(c) for c in outs[0] if c >= 0]
                        expected = ref_area(CODE, flowdir, outlet,
                                            list(inlets))
                        check(expected is not None, label+" cycle accepted")
                        if len(expected) > 0:
                            expected = expected+[outlet]
                        check(sorted(area) == sorted(expected),
                              label+f" -> {area} expected {expected}")

                        # boundary of that area
                        area = np.array(sorted(set(area)), dtype=np.int64)
                        mask = np.zeros(ntot, dtype=np.int64)
                        mask[area] = 1
                        na = len(area)
                        ierr2, outs2, _ = kernel(
                            label+"/boundary", cg.delineate_boundary,
                            [nrows, ncols, area[::-1].copy(),
                             -np.ones(na, dtype=np.int64), mask,
                             -np.ones(na, dtype=np.int64)], outs=(2, 3, 5))
                        check(isinstance(ierr2, int), label+" boundary")
                        if na < 1:
                            check(ierr2 > 0, label+" empty boundary")
                        if ierr2 == 0:
                            bnd = outs2[2][outs2[2] >= 0]
                            check(set(bnd.tolist()) <= set(area.tolist()),
                                  label+f" boundary {bnd} not in {area}")
                            check(np.array_equal(outs2[0], area),
                                  label+" area not sorted")

                        # flow path lengths
                        ierr3, outs3, _ = kernel(
                            label+"/paths",
                            cg.delineate_flowpathlengths_in_catchment,
                            [outlet, CODE, flowdir, area,
                             np.full((na, 3), 7.)], outs=(4,))
                        check(ierr3 == 0, label+" flow paths")
                        check(np.array_equal(outs3[0][:, 0], area),
                              label+" flow paths start cells")
                        check(bool(np.all(outs3[0][:, 2] >= 0)) and
                              bool(np.all(outs3[0][:, 2] <= 1.5*(na+1))),
                              label+f" flow path lengths {outs3[0]}")

            # boundary and flow paths with arbitrary cells
            for n in [0, 1, 2, 3, 8]:
                cells = rng.choice(cell_pool(ntot), n)
                mask = rng.integers(0, 2, ntot).astype(np.int64)
                label = f"boundary[{nrows}x{ncols},{cells}]"
                ierr, outs, _ = kernel(label, cg.delineate_boundary,
                                       [nrows, ncols, cells,
                                        -np.ones(n, dtype=np.int64), mask,
                                        -np.ones(n, dtype=np.int64)],
                                       outs=(2, 3, 5))
                check(isinstance(ierr, int), label+f" raised {ierr}")
                if n < 1 or cells.min() < 0 or cells.max() >= ntot:
                    check(ierr > 0, label+" expected an error code")
                ierr, _, _ = kernel(label, cg.delineate_boundary,
                                    [nrows, ncols, cells,
                                     -np.ones(n, dtype=np.int64),
                                     np.zeros(ntot+1, dtype=np.int64),
                                     -np.ones(n, dtype=np.int64)],
                                    outs=(2, 3, 5))
                check(ierr == "AssertionError", label+" wrong mask size")

                label = f"flowpaths[{nrows}x{ncols},{fkind},{cells}]"
                ierr, outs, _ = kernel(
                    label, cg.delineate_flowpathlengths_in_catchment,
                    [int(rng.choice(cell_pool(ntot))), CODE, flowdir, cells,
                     np.full((n, 3), 7.)], outs=(4,))
                check(ierr == 0 and
                      same(outs[0][:, 0], cells.astype(np.float64)),
                      label+f" -> {ierr} {outs}")

        # slice
        for (xll, yll, csz) in geoms:
            data = series(ntot, KINDS[(nrows+ncols) % len(KINDS)], rng)\
                .reshape((nrows, ncols))
            for n in [0, 1, 2, 9]:
                xy = np.column_stack([rng.uniform(-1, ncols+1, n),
                                      rng.uniform(-1, nrows+1, n)])
                with np.errstate(all="ignore"):
                    xy = xy*csz+np.array([xll, yll])
                if n > 2:
                    xy[0] = [np.nan, -np.inf]
                    xy[1] = [xll, yll]
                    with np.errstate(all="ignore"):
                        xy[2] = [xll+csz*(ncols-0.5), yll+csz*(nrows-0.5)]
                label = f"slice[{nrows}x{ncols},{xll},{yll},{csz},{n}]"
                ierr, outs, _ = kernel(label, cg.slice,
                                       [xll, yll, csz, data, xy,
                                        np.full(n, 7.)], outs=(5,))
                check(ierr == 0, label+f" returns {ierr}")
                cells = ref_coord2cell(nrows, ncols, xll, yll, csz, xy)
                check(bool(np.all(np.isnan(outs[0][cells < 0]))),
                      label+" value outside the grid")

    # exclude_zero_area_boundary
    for n in LENGTHS:
        xy = series(2*n, KINDS[n % len(KINDS)], rng).reshape((n, 2))
        for deteps in [1e-6, 0., -1., np.nan, np.inf]:
            ierr, outs, _ = kernel("exclude_zero_area",
                                   cg.exclude_zero_area_boundary,
                                   [deteps, xy,
                                    np.zeros(n, dtype=np.int64)], outs=(2,))
            if n <= 2:
                check(ierr > 0, "exclude_zero_area expected an error")
            else:
                check(ierr == 0 and bool(np.all(outs[0] == 1)),
                      "exclude_zero_area")

    # points inside polygon
    for npts, nv in itertools.product([0, 1, 2, 3, 25], [0, 1, 2, 3, 4, 9]):
        for kind in ["finite", "ties", "nan", "inf", "huge"]:
            poly = series(2*nv, kind, rng).reshape((nv, 2))
            pts = series(2*npts, "finite" if kind == "huge" else kind,
                         rng).reshape((npts, 2))
            if kind == "ties" and nv > 0 and npts > 0:
                pts[0] = poly[0]
            for atol, nprint in [(1e-8, 0), (0., 1), (-1., 3), (np.nan, -2),
                                 (np.inf, IMAX), (1e-8, -IMAX-1)]:
                ini = rng.integers(0, 2, npts).astype(np.int32)
                label = f"inside[{npts},{nv},{kind},{atol},{nprint}]"
                ierr, outs, _ = kernel(label, cg.points_inside_polygon,
                                       [atol, nprint, pts, poly, ini],
                                       outs=(4,))
                if nv == 0:
                    check(ierr == "ValueError", label+f" returns {ierr}")
                else:
                    expected = ref_inside(pts, poly, atol, ini)
                    check(ierr == 0 and np.array_equal(outs[0], expected),
                          label+f" -> {outs[0]} expected {expected}")
    ierr, _, _ = kernel("inside", cg.points_inside_polygon,
                        [1e-8, 0, np.zeros((3, 2)), np.zeros((3, 3)),
                         np.zeros(3, dtype=np.int32)], outs=(4,))
    check(ierr == "AssertionError", "inside accepts [n, 3] polygon")
    ierr, _, _ = kernel("inside", cg.points_inside_polygon,
                        [1e-8, 0, np.zeros((3, 2)), np.zeros((3, 2)),
                         np.zeros(2, dtype=np.int32)], outs=(4,))
    check(ierr == "AssertionError", "inside accepts short output")

# --------------------------------------------------------------------------
# public wrappers
# --------------------------------------------------------------------------
def check_public_api():
    import pandas as pd
    from hydrodiy.data import dutils, qualitycontrol, signatures
    from hydrodiy.stat import metrics, armodels, sutils
    from hydrodiy.gis import grid as hygrid, gutils

    rng = np.random.default_rng(43)

    for n, kind in itertools.product(LENGTHS, KINDS):
        x = series(n, kind, rng)
        idx = np.cumsum(rng.uniform(0, 1, n) < 0.4)
        idxbad = idx.copy()
        if n > 1:
            idxbad[-1] = -1

        for op, maxnan in [(0, 0), (1, 1), (2, -1), (3, 0), (7, 0),
                           (-2, 2**31-1)]:
            ok, res = call("aggregate", dutils.aggregate, idx, x, op, maxnan)
            expected = ref_aggregate(idx, x, op, maxnan)
            check(ok == (expected is not None),
                  f"dutils.aggregate[n={n},{kind},{op}] -> {res}")
            if ok:
                check(same(res, expected), f"dutils.aggregate[n={n},{kind},"
                      + f"{op}] -> {res} expected {expected}")
            ok, res = call("aggregate", dutils.aggregate, idxbad, x, op,
                           maxnan)
            check(ok == (n <= 1 and n > 0), "dutils.aggregate decreasing")
            ok, res = call("aggregate", dutils.aggregate, idx[:-1], x, op,
                           maxnan)
            check(not ok or n == 0, "dutils.aggregate length mismatch")

        for maxnan in [0, 1, -1]:
            ok, res = call("flathomogen", dutils.flathomogen, idx, x, maxnan)
            expected = ref_flathomogen(idx, x, maxnan)
            check(ok == (expected is not None),
                  f"dutils.flathomogen[n={n},{kind}] -> {res}")
            if ok:
                check(same(res, expected), f"dutils.flathomogen[n={n},"
                      + f"{kind}] -> {res} expected {expected}")
            ok, res = call("flathomogen", dutils.flathomogen, idxbad, x)
            check(ok == (n == 1), "dutils.flathomogen decreasing")

        for npoints, tol, thresh in [(1, 1e-6, 0.), (3, 0.3, 1.), (0, 1e-6,
                                     0.), (-1, 1e-6, 0.), (2, 1e-11, 0.),
                                     (2, np.nan, np.nan), (10**6, 1., -1.)]:
            for xx in [x, np.round(x), np.arange(n)*1.]:
                ok, res = call("islinear", qualitycontrol.islinear, xx,
                               npoints, tol, thresh)
                if npoints < 1 or tol < 1e-10:
                    check(not ok, "islinear accepts bad options")
                elif ok:
                    check(np.array_equal(res, ref_islin(xx, thresh, tol,
                                                        npoints)),
                          f"islinear[n={n},{kind}] -> {res}")
                else:
                    fail(f"islinear[n={n},{kind},{npoints},{tol}]: {res}")

        for thresh, tau, bfi, ts in [(0.95, 20, 0.8, 1), (0., 1e-3, 1., 0),
                                     (1.5, 20, 0.8, 1), (0.5, 0., 0.5, 1),
                                     (0.5, 20, -0.1, 1), (0.5, 20, 0.8, 3),
                                     (0.5, -5., 0.8, 0)]:
            ok, res = call("eckhardt", signatures.eckhardt, x, thresh, tau,
                           bfi, ts)
            with np.errstate(all="ignore"):
                expected = ref_eckhardt(x, thresh, tau, bfi, ts)
            check(ok == (expected is not None),
                  f"signatures.eckhardt[n={n},{kind},{thresh},{bfi}]: {res}")
            if ok:
                check(same(res, expected), f"signatures.eckhardt[n={n},"
                      + f"{kind}] -> {res} expected {expected}")

        # AR models
        for order in range(0, 12):
            params = rng.uniform(-0.5, 0.5, order)/max(order, 1)
            for name, fun, ref in [
                    ("sim", armodels.armodel_sim, ref_armodel_sim),
                    ("res", armodels.armodel_residual, ref_armodel_residual)]:
                ok, res = call(name, fun, params, x, 0.5, -0.5)
                expected = ref(params, x, 0.5, -0.5)
                check(ok == (expected is not None),
                      f"armodel_{name}[n={n},{kind},p={order}]: {res}")
                if ok:
                    check(same(res, expected),
                          f"armodel_{name}[n={n},{kind},p={order}] -> {res}")
        ok, res = call("sim", armodels.armodel_sim, 0.9, x)
        check(ok and same(res, ref_armodel_sim([0.9], x, 0., 0.)),
              "armodel_sim scalar parameter")
        ok, res = call("sim", armodels.armodel_sim, np.nan, x)
        check(not ok, "armodel_sim nan parameter")

        # Anderson-Darling
        u = np.clip(x/10, 0, 1) if kind in ["finite", "ties"] else x
        ok, res = call("ad", metrics.anderson_darling_test, u)
        bad = n > 0 and (np.any(np.isnan(u)) or np.any(u < 0)
                         or np.any(u > 1))
        check(ok != bad, f"anderson_darling_test[n={n},{kind}]: {res}")

    # pareto, crps, dscore
    for nval, ncol in itertools.product([0, 1, 2, 3, 6, 15], [0, 1, 2, 3, 6]):
        for kind in KINDS:
            data = series(nval*ncol, kind, rng).reshape((nval, ncol))
            for orient in [1, -1, 0, 5]:
                ok, res = call("pareto", sutils.pareto_front, data, orient)
                check(ok and np.array_equal(res, ref_pareto(data, orient)),
                      f"pareto_front[{nval}x{ncol},{kind}]: {res}")
                ok, res = call("pareto", sutils.pareto_front, data.T[::-1],
                               orient)
                check(ok and np.array_equal(res, ref_pareto(data.T[::-1],
                                                            orient)),
                      f"pareto_front transposed [{nval}x{ncol},{kind}]")
            ok, res = call("pareto", sutils.pareto_front, data.ravel())
            check(not ok, "pareto_front accepts 1d data")

            obs = series(nval, "finite" if kind != "mixed" else "nan", rng)
            ok, res = call("crps", metrics.crps, obs, data)
            if ok:
                decompos, table = res
                check(table.shape == (ncol+1, 7) and len(decompos) == 5,
                      f"crps[{nval}x{ncol},{kind}] shapes")
                if kind in ["finite", "negative", "ties"]:
                    e1 = np.abs(data-obs[:, None]).mean(axis=1)
                    e2 = np.abs(data[:, :, None]-data[:, None, :])\
                        .mean(axis=(1, 2))
                    check(same(decompos["crps"], np.mean(e1-0.5*e2), 1e-7,
                               1e-9), f"crps[{nval}x{ncol},{kind}] value")
            else:
                check(isinstance(res, Exception), "crps exception")
                check(nval == 0 or ncol == 0 or
                      kind not in ["finite", "negative", "ties"],
                      f"crps[{nval}x{ncol},{kind}] refused: {res}")
            ok, res = call("crps", metrics.crps, obs[:-1], data)
            check(not ok or nval == 0, "crps length mismatch")

            for eps in [1e-6, 0., -1.]:
                with np.errstate(all="ignore"):
                    import warnings
                    with warnings.catch_warnings():
                        warnings.simplefilter("ignore")
                        ok, res = call("dscore", metrics.dscore, obs, data,
                                       eps)
                if ok and kind in ["finite", "negative"] and nval > 2 \
                        and ncol > 0 and eps > 0:
                    check(np.isnan(res) or -1e-9 <= res <= 1+1e-9,
                          f"dscore[{nval}x{ncol},{kind}] = {res}")

    # date helpers through dutils
    for days in [pd.date_range("2000-02-27", periods=k) for k in range(0, 5)]:
        ok, res = call("dayofyear", dutils.dayofyear, days)
        check(ok or isinstance(res, Exception), "dutils.dayofyear")

    # var2h
    for nvar in [0, 1, 2, 3, 10, 60]:
        for kind in ["finite", "nan", "negative", "inf", "huge"]:
            for step, tz in [(7, None), (2000, None), (90000, None),
                             (0, None), (1800, "Australia/Sydney")]:
                t = pd.to_datetime("2001-03-04 05:06:07") + \
                    pd.to_timedelta(np.cumsum(rng.integers(0, step+1, nvar)),
                                    unit="s")
                if tz is not None:
                    t = t.tz_localize(tz)
                se = pd.Series(series(nvar, kind, rng), index=t)
                for nbsec, maxgap, rain in [(3600, 5*86400, False),
                                            (1800, 3600, True),
                                            (3600, 3599, False),
                                            (1801, 86400, False),
                                            (3600, 2**31-1, True)]:
                    ok, res = call("var2h", dutils.var2h, se, nbsec, maxgap,
                                   rain)
                    if ok:
                        check(isinstance(res, pd.Series),
                              "var2h returns a series")
                        if kind == "finite" and not rain and len(res) > 1:
                            v = res.values[:-1]
                            v = v[~np.isnan(v)]
                            check(len(v) == 0 or
                                  (v.min() >= se.min()-1e-6 and
                                   v.max() <= se.max()+1e-6),
                                  "var2h value outside the data range")
                    else:
                        check(isinstance(res, Exception), "var2h exception")
                        check(nvar < 2 or nbsec == 1801 or maxgap < 3600
                              or step == 0,
                              f"var2h[{nvar},{kind},{step}] refused: {res}")

    # ---- gis ----
    shapes = [(1, 1), (1, 3), (3, 1), (2, 2), (4, 5), (7, 7)]
    for (nrows, ncols), fkind in itertools.product(
            shapes, ["codes", "sinks", "junk", "south"]):
        ntot = nrows*ncols
        for xll, yll, csz in [(0., 0., 1.), (-20.5, 7.25, 0.05),
                              (3e5, 6e6, 250.)]:
            flowdir = hygrid.Grid("fd", ncols, nrows, cellsize=csz,
                                  xllcorner=xll, yllcorner=yll,
                                  dtype=np.int64)
            fd = random_flowdir(nrows, ncols, rng, fkind)
            if fkind == "junk":
                fd = np.clip(fd, -2**40, 2**40)
            flowdir.data = fd
            fd = flowdir.data.copy()

            for n in [0, 1, 2, 11]:
                xy = np.column_stack([rng.uniform(-2, ncols+2, n),
                                      rng.uniform(-2, nrows+2, n)])
                xy = xy*csz+np.array([xll, yll])
                if n > 2:
                    xy[0] = [np.nan, np.inf]
                    xy[1] = [-1e300, 1e300]
                ok, res = call("coord2cell", flowdir.coord2cell, xy)
                if n == 0:
                    check(ok or isinstance(res, Exception), "coord2cell")
                else:
                    check(ok and np.array_equal(
                        res, ref_coord2cell(nrows, ncols, xll, yll, csz,
                                            xy)), f"Grid.coord2cell: {res}")
                ok, res = call("coord2cell", flowdir.coord2cell, xy[:, :1])
                check(not ok or n in [0, 2], "coord2cell accepts [n, 1]")
                ok, res = call("slice", flowdir.slice, xy)
                check(ok or n == 0, f"Grid.slice: {res}")

                cells = rng.choice(cell_pool(ntot), n)
                ok, res = call("cell2coord", flowdir.cell2coord, cells)
                check(ok and same(res, ref_cell2coord(nrows, ncols, xll, yll,
                                                      csz, cells)),
                      f"Grid.cell2coord: {res}")
                ok, res = call("cell2rowcol", flowdir.cell2rowcol, cells)
                check(ok and np.array_equal(res, ref_cell2rowcol(
                    nrows, ncols, cells)), f"Grid.cell2rowcol: {res}")

                ca = hygrid.Catchment("c", flowdir)
                ok, res = call("downstream", ca.downstream, cells)
                expected = ref_downstream(CODE, fd, cells)
                check(ok == (expected is not None), f"downstream: {res}")
                if ok:
                    check(np.array_equal(res, expected), "downstream value")
                ok, res = call("upstream", ca.upstream, cells)
                expected = ref_upstream(CODE, fd, cells)
                check(ok == (expected is not None), f"upstream: {res}")
                if ok:
                    check(np.array_equal(res, expected), "upstream value")

            for cell in [-1, 0, ntot-1, ntot, 2**62]:
                ok, res = call("neighbours", flowdir.neighbours, cell)
                expected = ref_neighbours(nrows, ncols, cell)
                check(ok == (expected is not None), f"neighbours: {res}")
                if ok:
                    check(np.array_equal(res, expected), "neighbours value")

            if xll != 0.:
                continue

            # accumulate / slope
            toacc = flowdir.clone(np.float64)
            toacc.data = series(ntot, "finite", rng).reshape((nrows, ncols))
            alt = flowdir.clone(np.float64)
            alt.data = series(ntot, "mixed", rng).reshape((nrows, ncols))
            for nprint, maxacc in [(0, -1), (1, 3), (-4, 1), (5, 0),
                                   (10, -7)]:
                ok, res = call("accumulate", hygrid.accumulate, flowdir,
                               toacc, nprint, maxacc)
                m = ntot if maxacc == -1 else maxacc
                expected = ref_accumulate(m, toacc.nodata, CODE, fd,
                                          toacc.data, toacc.data)
                check(ok == (expected is not None), f"accumulate: {res}")
                if ok:
                    check(same(res.data, expected), "accumulate value")
                ok, res = call("accumulate", hygrid.accumulate, flowdir,
                               None, nprint, maxacc)
                check(ok == (expected is not None), f"accumulate: {res}")
                ok, res = call("slope", hygrid.slope, flowdir, alt, nprint)
                expected = ref_slope(csz, CODE, fd, alt.data,
                                     np.full((nrows, ncols), alt.nodata,
                                             dtype=np.float64))
                check(ok and same(res.data, expected), f"slope: {res}")

            # river
            for nval in [1, 2, 5, 100]:
                for up in [-1, 0, ntot//2, ntot-1, ntot]:
                    ok, res = call("river", hygrid.delineate_river, flowdir,
                                   up, nval)
                    expected = ref_river(xll, yll, csz, CODE, fd, up, nval)
                    check(ok == (expected is not None), f"river: {res}")
                    if ok:
                        npts = expected[0]
                        check(len(res) == npts and np.array_equal(
                            res["idxcell"].values, expected[1][:npts]) and
                            same(res.iloc[:, :5].values, expected[2][:npts]),
                            f"river value: {res}")

            # catchment
            for outlet in [-1, 0, ntot//2, ntot-1, ntot]:
                for nval in [0, 1, 2, 3, 1000]:
                    for inlets in [None, [0], [ntot], [-1, 2]]:
                        ca = hygrid.Catchment("c", flowdir)
                        ok, res = call("area", ca.delineate_area, outlet,
                                       inlets, nval)
                        if not ok:
                            check(isinstance(res, Exception), "area")
                            continue
                        check(0 <= outlet < ntot, "area accepts outlet")
                        area = ca.idxcells_area
                        expected = ref_area(CODE, fd, outlet, inlets or [])
                        if len(expected) > 0:
                            expected = expected+[outlet]
                        check(sorted(area.tolist()) == sorted(expected),
                              f"area {area} expected {expected}")
                        ok, res = call("boundary", ca.delineate_boundary)
                        if ok:
                            check(set(ca.idxcells_boundary.tolist()) <=
                                  set(ca.idxcells_area_filled.tolist()),
                                  "boundary cells not in area")
                        ok, res = call("paths", ca.compute_flowpathlengths)
                        check(ok and len(ca.flowpathlengths) == len(area),
                              f"flow path lengths: {res}")
                        # second delineation on the same object
                        ok, res = call("boundary", ca.delineate_boundary)
                        check(ok or isinstance(res, Exception), "boundary")

                        for npts in [0, 1, 2, 4]:
                            pts = np.column_stack(
                                [rng.uniform(-1, ncols+1, npts),
                                 rng.uniform(-1, nrows+1, npts)])
                            if npts > 2:
                                pts[0] = [np.nan, np.inf]
                            ok, res = call("voronoi", hygrid.voronoi, ca,
                                           pts)
                            expected = ref_voronoi(nrows, ncols, xll, yll,
                                                   csz, area, pts)
                            if npts == 0:
                                check(not ok or len(res) <= 1, "voronoi 0")
                            else:
                                check(ok and same(res, expected),
                                      f"voronoi: {res} expected {expected}")

                        if len(area) > 0:
                            coarse = hygrid.Grid("g", 3, 3, cellsize=3.,
                                                 xllcorner=-1., yllcorner=-1.)
                            import warnings
                            with warnings.catch_warnings():
                                warnings.simplefilter("ignore")
                                ok, res = call("intersect", ca.intersect,
                                               coarse)
                            check(ok, f"intersect: {res}")
                            idx, w = ref_intersect(
                                3, 3, -1., -1., 3., csz,
                                ref_cell2coord(nrows, ncols, xll, yll, csz,
                                               area))
                            check(list(res[1]) == idx and same(res[2], w),
                                  f"intersect: {res[1:]} expected {idx} {w}")

            # cells inside polygon
            for nv in [0, 1, 2, 3, 6]:
                poly = np.column_stack([rng.uniform(-1, ncols+1, nv),
                                        rng.uniform(-1, nrows+1, nv)])
                ok, res = call("cells_inside", flowdir.cells_inside_polygon,
                               poly)
                check(ok == (nv > 0), f"cells_inside_polygon: {res}")
                if ok:
                    cells = np.arange(ntot)
                    pts = ref_cell2coord(nrows, ncols, xll, yll, csz, cells)
                    expected = ref_inside(pts, poly, 1e-8,
                                          np.zeros(ntot, dtype=np.int32))
                    check(np.array_equal(res["cell"].values,
                                         cells[expected == 1]),
                          "cells_inside_polygon value")

    # points inside polygon wrapper
    for npts, nv in itertools.product([0, 1, 2, 30], [0, 1, 2, 3, 8]):
        for kind in ["finite", "ties", "nan", "inf"]:
            poly = series(2*nv, kind, rng).reshape((nv, 2))
            pts = series(2*npts, kind, rng).reshape((npts, 2))
            for atol, nprint in [(1e-8, 0), (0., -1), (np.nan, 2)]:
                ok, res = call("inside", gutils.points_inside_polygon, pts,
                               poly, None, atol, nprint)
                check(ok == (nv > 0), f"points_inside_polygon: {res}")
                if ok:
                    expected = ref_inside(pts, poly, atol,
                                          np.zeros(npts, dtype=np.int32))
                    check(np.array_equal(res, expected),
                          "points_inside_polygon value")
                    buf = np.ones(npts, dtype=np.int32)
                    ok, res = call("inside", gutils.points_inside_polygon,
                                   pts, poly, buf, atol, nprint)
                    check(ok and res is buf and
                          np.array_equal(res, expected),
                          "points_inside_polygon with buffer")
            ok, res = call("inside", gutils.points_inside_polygon, pts,
                           poly, np.zeros(npts+1, dtype=np.int32))
            check(not ok, "points_inside_polygon accepts long buffer")
            ok, res = call("inside", gutils.points_inside_polygon, pts,
                           poly, np.zeros(npts, dtype=np.int64))
            check(not ok, "points_inside_polygon accepts int64 buffer")


# --------------------------------------------------------------------------
# Focus of this demo: call histories. Wrappers may keep work arrays or
# intermediate results between calls and may skip copies of their inputs:
# results must not depend on what was called before, inputs must never be
# modified and results must not be tied to arrays used by later calls.
# --------------------------------------------------------------------------
def check_focus():
    import threading
    from hydrodiy.data import dutils, qualitycontrol, signatures
    from hydrodiy.stat import metrics, armodels, sutils
    from hydrodiy.gis import grid as hygrid, gutils
    rng = np.random.default_rng(303)

    def frozen(a):
        a = np.array(a)
        a.flags.writeable = False
        return a

    # ---- inputs are left untouched, outputs are not tied to the inputs,
    #      read-only, non contiguous and contiguous inputs give the same
    for n in [1, 2, 3, 10, 57]:
        for kind in ["finite", "nan", "mixed"]:
            x = series(n, kind, rng)
            idx = np.cumsum(rng.uniform(0, 1, n) < 0.4)
            big = np.zeros(2*n)
            big[::2] = x
            variants = [x.copy(), frozen(x), big[::2]]
            calls = [
                ("aggregate", lambda v: dutils.aggregate(idx, v, 1, 1),
                 ref_aggregate(idx, x, 1, 1)),
                ("flathomogen", lambda v: dutils.flathomogen(idx, v, 1),
                 ref_flathomogen(idx, x, 1)),
                ("islinear", lambda v: qualitycontrol.islinear(v, 1),
                 ref_islin(x, 0., 1e-6, 1)),
                ("eckhardt", lambda v: signatures.eckhardt(v),
                 ref_eckhardt(x, 0.95, 20., 0.8, 1)),
                ("armodel_sim", lambda v: armodels.armodel_sim(
                    np.array([0.5, 0.2]), v, 0.1, 0.3),
                 ref_armodel_sim([0.5, 0.2], x, 0.1, 0.3)),
                ("armodel_residual", lambda v: armodels.armodel_residual(
                    np.array([0.5, 0.2]), v, 0.1, 0.3),
                 ref_armodel_residual([0.5, 0.2], x, 0.1, 0.3))]
            for name, fun, expected in calls:
                for iv, v in enumerate(variants):
                    before = np.array(v)
                    ok, res = call(name, fun, v)
                    if not ok and iv > 0:
                        # read-only or non contiguous data may be refused
                        # with an exception, provided they are left as is
                        check(isinstance(res, Exception) and
                              same(v, before, 0, 0), f"{name} refusal")
                        continue
                    check(ok and same(res, expected),
                          f"{name}[n={n},{kind}] -> {res}")
                    check(same(v, before, 0, 0), f"{name} modified its input")
                    check(not np.shares_memory(res, v),
                          f"{name} returns a view of its input")
                    res2 = fun(v)
                    res[...] = 12345
                    check(same(res2, expected) and same(v, before, 0, 0),
                          f"{name} result tied to a previous result")

        u = rng.uniform(0, 1, n)
        for v in [u.copy(), frozen(u)]:
            ok, res = call("ad", metrics.anderson_darling_test, v)
            check(ok and same(v, u, 0, 0),
                  "anderson_darling_test sorted its input")
        ok, res2 = call("ad", metrics.anderson_darling_test, np.sort(u))
        check(ok and same(res, res2), "anderson_darling_test order of data")

        data = series(3*n, "ties", rng).reshape((n, 3))
        for v in [data.copy(), frozen(data), np.asfortranarray(data),
                  data.astype(np.float32).astype(np.float64)]:
            before = np.array(v)
            ok, res = call("pareto", sutils.pareto_front, v, -1)
            check(same(v, before, 0, 0), "pareto_front modified its input")
            check((ok and np.array_equal(res, ref_pareto(data, -1))) or
                  (not ok and isinstance(res, Exception)
                   and v.flags["C_CONTIGUOUS"] is False),
                  f"pareto_front variant: {res}")

        obs = rng.uniform(0, 10, n)
        before = data.copy()
        ok, res = call("crps", metrics.crps, frozen(obs), frozen(data))
        ok2, res2 = call("crps", metrics.crps, obs, data)
        check(ok and ok2 and same(res[0].values, res2[0].values) and
              same(res[1].values, res2[1].values) and
              same(data, before, 0, 0), "crps call history")

    # ---- errors of the compiled routines are ValueError
    for name, fun, args in [
            ("aggregate", dutils.aggregate, (np.array([1, 0]), np.ones(2))),
            ("aggregate", dutils.aggregate, (np.zeros(0), np.ones(0))),
            ("flathomogen", dutils.flathomogen,
             (np.array([1, 0]), np.ones(2))),
            ("eckhardt", signatures.eckhardt, (np.ones(3), 2.)),
            ("armodel_sim", armodels.armodel_sim, (np.ones(11), np.ones(3))),
            ("armodel_residual", armodels.armodel_residual,
             (np.ones(0), np.ones(3))),
            ("ad", metrics.anderson_darling_test, (np.array([0.5, 2.]),)),
            ("neighbours", hygrid.Grid("g", 3).neighbours, (9,)),
            ("cell2coord", hygrid.Grid("g", 3).coord2cell, (np.ones(3),))]:
        ok, res = call(name, fun, *args)
        check(not ok and isinstance(res, ValueError),
              f"{name}: expected a ValueError, got {res!r}")

    # ---- catchment delineation: any history of calls
    def fresh_area(fd, outlet, inlets, nval):
        g = hygrid.Grid("fd", fd.shape[1], fd.shape[0], dtype=np.int64)
        g.data = fd
        ca = hygrid.Catchment("c", g)
        ok, res = call("area", ca.delineate_area, outlet, inlets, nval)
        return ca if ok else None

    grids = []
    for nrows, ncols, fkind in [(4, 4, "south"), (6, 5, "codes"),
                                (5, 7, "sinks"), (1, 6, "codes"),
                                (8, 8, "south")]:
        fd = random_flowdir(nrows, ncols, rng, fkind)
        if fkind == "south":
            fd[:, ::2] = 2
            fd[:, -1] = 4
        grids.append(fd)

    history = []
    keep = []
    for step in range(150):
        fd = grids[int(rng.integers(0, len(grids)))]
        ntot = fd.size
        outlet = int(rng.integers(-1, ntot+1))
        nval = int(rng.choice([0, 1, 2, 5, 30, 30, 200, 1000]))
        inlets = None if step % 3 else [int(rng.integers(0, ntot))]
        ca = fresh_area(fd, outlet, inlets, nval)
        expected = ref_area(CODE, fd, outlet, inlets or []) \
            if 0 <= outlet < ntot else None
        if ca is None:
            check(expected is None or nval <= len(expected)+2 or
                  not (0 <= outlet < ntot),
                  f"area refused: outlet={outlet} nval={nval}")
            continue
        if expected:
            expected = expected+[outlet]
        check(sorted(ca.idxcells_area.tolist()) == sorted(expected),
              f"area after {step} calls: {ca.idxcells_area} "
              + f"expected {expected}")
        keep.append((ca, ca.idxcells_area.copy(),
                     np.sort(ca.idxcells_area_filled)))

        # same object used again with another outlet and buffer size
        if step % 4 == 0:
            first = ca.idxcells_area
            first_copy = first.copy()
            ok, res = call("area", ca.delineate_area,
                           int(rng.integers(0, ntot)), None, 500)
            check(np.array_equal(first, first_copy),
                  "a later delineation changed a previous result")
            if ok:
                ok, res = call("boundary", ca.delineate_boundary)
                keep[-1] = (ca, ca.idxcells_area.copy(),
                            np.sort(ca.idxcells_area_filled))
            else:
                # the object has no area any more
                keep.pop()
                if len(keep) == 0:
                    continue

        # boundary, flow paths, voronoi, intersect on a random older object
        ca, area, filled = keep[int(rng.integers(0, len(keep)))]
        ok, res = call("boundary", ca.delineate_boundary)
        check(np.array_equal(ca.idxcells_area, area) and
              np.array_equal(np.sort(ca.idxcells_area_filled), filled),
              "delineate_boundary changed the area")
        if ok:
            b1 = ca.idxcells_boundary.copy()
            ok, res = call("boundary", ca.delineate_boundary)
            check(ok and np.array_equal(b1, ca.idxcells_boundary),
                  "second delineate_boundary differs")
            check(set(b1.tolist()) <= set(filled.tolist()),
                  "boundary not in filled area")
        ok, res = call("paths", ca.compute_flowpathlengths)
        check(ok and np.array_equal(
            ca.flowpathlengths.iloc[:, 0].values.astype(np.int64), area),
            "flow path lengths after history")
        pts = rng.uniform(0, 8, (3, 2))
        ok, res = call("voronoi", hygrid.voronoi, ca, pts)
        fdg = ca.flowdir
        check(ok and same(res, ref_voronoi(fdg.nrows, fdg.ncols, 0., 0., 1.,
                                           area, pts)) and
              np.array_equal(ca.idxcells_area, area), "voronoi history")

    for ca, area, filled in keep:
        check(np.array_equal(ca.idxcells_area, area) and
              np.array_equal(np.sort(ca.idxcells_area_filled), filled),
              "areas kept from previous calls have changed")

    # ---- delineation from several threads
    results = {}

    def work(k):
        out = []
        for i in range(30):
            fd = grids[(k+i) % len(grids)]
            ca = fresh_area(fd, (7*k+i) % fd.size, None, 100+k)
            out.append(None if ca is None else ca.idxcells_area.copy())
        results[k] = out

    threads = [threading.Thread(target=work, args=(k,)) for k in range(4)]
    for t in threads:
        t.start()
    for t in threads:
        t.join()
    for k in range(4):
        check(k in results, "thread failed")
        for i in range(30):
            fd = grids[(k+i) % len(grids)]
            ca = fresh_area(fd, (7*k+i) % fd.size, None, 100+k)
            a = None if ca is None else ca.idxcells_area
            b = results[k][i]
            check((a is None) == (b is None) and
                  (a is None or np.array_equal(a, b)),
                  "delineate_area differs between threads")

    # ---- cells inside polygon: repeated calls, geometry changes
    for nrows, ncols in [(1, 1), (3, 4), (6, 6)]:
        g = hygrid.Grid("g", ncols, nrows, cellsize=0.5, xllcorner=-1.,
                        yllcorner=2.)
        for step in range(12):
            if step % 4 == 3:
                g.xllcorner = np.float64(rng.uniform(-2, 0))
                g.yllcorner = np.float64(rng.uniform(1, 3))
                g.cellsize = np.float64(rng.choice([0.25, 0.5, 1.]))
            xll, yll, csz, _, _ = g._getsize()
            nv = int(rng.integers(1, 7))
            poly = np.column_stack([rng.uniform(-2, 4, nv),
                                    rng.uniform(1, 6, nv)])
            ok, res = call("cells_inside", g.cells_inside_polygon, poly)
            cells = np.arange(nrows*ncols)
            pts = ref_cell2coord(nrows, ncols, xll, yll, csz, cells)
            expected = ref_inside(pts, poly, 1e-8,
                                  np.zeros(len(cells), dtype=np.int32)) == 1
            check(ok and np.array_equal(res["cell"].values, cells[expected])
                  and same(res[["x", "y"]].values, pts[expected]),
                  f"cells_inside_polygon step {step}: {res}")
            # the user can do anything with the result
            try:
                res.loc[:, "x"] = -1e30
                res.loc[:, "cell"] = -7
                res["x"].values[...] = 5
            except Exception:
                pass
            g2 = g.clone()
            ok, res = call("cells_inside", g2.cells_inside_polygon, poly)
            check(ok and np.array_equal(res["cell"].values, cells[expected])
                  and same(res[["x", "y"]].values, pts[expected]),
                  "cells_inside_polygon on a clone")

    # ---- points inside polygon with a user buffer, several times
    buf = np.ones(40, dtype=np.int32)
    for step in range(20):
        pts = rng.uniform(0, 4, (40, 2))
        poly = rng.uniform(0, 4, (int(rng.integers(1, 6)), 2))
        for p, q in [(pts, poly), (frozen(pts), frozen(poly)),
                     (np.asfortranarray(pts), np.asfortranarray(poly))]:
            expected = ref_inside(pts, poly, 1e-8,
                                  np.zeros(40, dtype=np.int32))
            ok, res = call("inside", gutils.points_inside_polygon, p, q)
            ok2, res2 = call("inside", gutils.points_inside_polygon, p, q,
                             buf)
            if not ok:
                # arrays that the binding refuses are refused in both forms
                check(not ok2 and isinstance(res, Exception),
                      "points_inside_polygon buffer form")
                continue
            check(ok2 and res2 is buf and np.array_equal(res, expected) and
                  np.array_equal(res2, expected) and
                  same(p, pts, 0, 0) and same(q, poly, 0, 0),
                  "points_inside_polygon history")


EXTRA_STEPS = [("focus of this demo", check_focus)]


# --------------------------------------------------------------------------
# main
# --------------------------------------------------------------------------
def child():
    # The kernels print progress on the C stdout: send it to /dev/null
    sys.stdout.flush()
    devnull = os.open(os.devnull, os.O_WRONLY)
    os.dup2(devnull, 1)
    np.seterr(all="ignore")

    import c_hydrodiy_data as cd
    import c_hydrodiy_stat as cs
    import c_hydrodiy_gis as cg

    steps = [("date helpers", lambda: check_dateutils(cd)),
             ("data kernels", lambda: check_data_kernels(cd)),
             ("var2h kernel", lambda: check_var2h_kernel(cd)),
             ("stat kernels", lambda: check_stat_kernels(cs)),
             ("gis kernels", lambda: check_gis_kernels(cg)),
             ("public wrappers", check_public_api)]
    steps += EXTRA_STEPS
    for name, fun in steps:
        n0 = NCHECKS[0]
        fun()
        sys.stderr.write(f"  {name}: {NCHECKS[0]-n0} checks ok\n")
        sys.stderr.flush()
    sys.stderr.write(f"CHILD DONE {NCHECKS[0]}\n")
    sys.stderr.flush()
    os._exit(0)


def main():
    if "--child" in sys.argv:
        child()
        return
    proc = subprocess.run([sys.executable, os.path.abspath(__file__),
                           "--child"], stderr=subprocess.PIPE, text=True)
    sys.stdout.write(proc.stderr)
    if proc.returncode < 0:
        print(f"FAILED: the interpreter was killed by signal "
              + f"{-proc.returncode} (memory fault or integer fault in a "
              + "compiled kernel)")
        sys.exit(1)
    if proc.returncode != 0 or "CHILD DONE" not in proc.stderr:
        print(f"FAILED: child exit code {proc.returncode}")
        sys.exit(1)
    print("C05 demo: all checks passed")
    sys.exit(0)


if __name__ == "__main__":
    main()
