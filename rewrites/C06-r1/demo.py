#!/usr/bin/env python
"""Property C06 demo: catchment delineation is exactly upstream reachability
on the flow grid.

Run as:  PYTHONPATH=<tree>/src /venv/bin/python demo.py
Exits 0 when every check passes, 1 otherwise.

Everything is compared against a tiny pure-Python model of the flow grid
(`Model` below).  Only what the property states is checked:

* upstream / downstream are inverse relations; sinks -> -2, off-grid exits
  (and unknown codes, which lead nowhere) -> -1;
* delineated area == outlet + every cell whose downstream chain reaches the
  outlet without passing through an inlet, as a SET, each cell listed once,
  empty when nothing drains to the outlet; filled area contains the area;
* river traces and flow path lengths follow the downstream chain, 1 per
  orthogonal step and sqrt(2) per diagonal step (relative tolerance 1e-9);
* cycles: an error (any Exception subclass) or a bounded result that still
  agrees with the model, never a hang.

Not checked (the property does not fix them): the order in which the area
cells / upstream cells are listed, error message texts, exact exception
class, last-bit rounding of lengths, what the outlet's own row of the
flow-path-length table contains.
"""
import sys
import math
import time
import itertools
import warnings

import numpy as np

warnings.filterwarnings("ignore")

from hydrodiy.gis.grid import Grid, Catchment, delineate_river, FLOWDIRCODE
import c_hydrodiy_gis

SQ2 = math.sqrt(2.)
RTOL = 1e-9

# ESRI code -> (drow, dcol); row 0 is the top row, cells are numbered
# row-major from the top-left corner
STEP = {32: (-1, -1), 64: (-1, 0), 128: (-1, 1),
        16: (0, -1), 1: (0, 1),
        8: (1, -1), 4: (1, 0), 2: (1, 1)}
VALID = [1, 2, 4, 8, 16, 32, 64, 128]
INVALID = [3, 5, 255, 256, -1, 7, 129, 1 << 40]

NFAIL = 0
NCHECK = 0


def check(cond, msg):
    global NFAIL, NCHECK
    NCHECK += 1
    if not cond:
        NFAIL += 1
        if NFAIL <= 30:
            print("FAIL:", msg())


class Model(object):
    """ Pure python reference """
    def __init__(self, codes):
        self.codes = [[int(v) for v in row] for row in codes]
        self.nr = len(self.codes)
        self.nc = len(self.codes[0])
        self.n = self.nr*self.nc
        self.down = [self._down(k) for k in range(self.n)]
        self.up = [[] for k in range(self.n)]
        for k, d in enumerate(self.down):
            if d >= 0:
                self.up[d].append(k)

    def _down(self, k):
        r, c = divmod(k, self.nc)
        fd = self.codes[r][c]
        if fd == 0:
            return -2
        if fd not in STEP:
            return -1
        dr, dc = STEP[fd]
        r2, c2 = r+dr, c+dc
        if r2 < 0 or r2 >= self.nr or c2 < 0 or c2 >= self.nc:
            return -1
        return r2*self.nc+c2

    def steplen(self, a, b):
        ra, ca = divmod(a, self.nc)
        rb, cb = divmod(b, self.nc)
        assert max(abs(ra-rb), abs(ca-cb)) == 1
        return (0, 1) if (ra != rb and ca != cb) else (1, 0)

    def area(self, outlet, inlets):
        """ (set of cells, outlet_on_uncut_cycle) """
        inl = set(int(i) for i in inlets)
        seen = set()
        cyc = False
        todo = [outlet]
        while todo:
            d = todo.pop()
            for u in self.up[d]:
                if u in inl:
                    continue
                if u == outlet:
                    cyc = True
                    continue
                if u not in seen:
                    seen.add(u)
                    todo.append(u)
        if seen or cyc:
            seen.add(outlet)
        return seen, cyc

    def chain(self, start, nmax):
        """ downstream chain from start: list of cells, terminated flag """
        out = [start]
        while len(out) < nmax:
            d = self.down[out[-1]]
            if d < 0:
                return out, True
            out.append(d)
        return out, self.down[out[-1]] < 0

    def pathlen(self, start, outlet):
        """ (n_orth, n_diag) of the chain start -> outlet (must reach) """
        no, nd = 0, 0
        k = start
        for _ in range(self.n+1):
            if k == outlet:
                return no, nd
            d = self.down[k]
            assert d >= 0
            a, b = self.steplen(k, d)
            no += a
            nd += b
            k = d
        raise AssertionError("model chain does not reach outlet")


def make(codes):
    codes = np.atleast_2d(np.array(codes, dtype=np.int64))
    nr, nc = codes.shape
    gr = Grid("fd", ncols=nc, nrows=nr, dtype=np.int64)
    gr.data = codes
    return gr, Catchment("c", gr), Model(codes)


def check_updown(tag, ca, mo):
    n = mo.n
    cells = np.arange(n)
    # python wrappers
    dn = ca.downstream(cells)
    check(list(dn) == mo.down, lambda: f"{tag}: downstream {list(dn)} != {mo.down}")
    up = ca.upstream(cells)
    check(up.shape == (n, 9), lambda: f"{tag}: upstream shape {up.shape}")
    for d in range(n):
        row = [int(v) for v in up[d] if v >= 0]
        check(all(v == -1 for v in up[d] if v < 0), lambda:
              f"{tag}: upstream padding {up[d]}")
        check(len(row) == len(set(row)), lambda: f"{tag}: upstream dup {row}")
        check(set(row) == set(mo.up[d]), lambda:
              f"{tag}: upstream({d})={row}, model {mo.up[d]}")
    # scalar / single element / list inputs
    k = n-1
    check(int(ca.downstream(k)[0]) == mo.down[k], lambda: f"{tag}: scalar downstream")
    check(set(int(v) for v in ca.upstream([k])[0] if v >= 0)
          == set(mo.up[k]), lambda: f"{tag}: scalar upstream")
    # extension module entry points, called the way grid.py calls them
    fd = ca.flowdir.data
    idx = cells.astype(np.int64)
    o1 = np.zeros(n, dtype=np.int64)
    ierr = c_hydrodiy_gis.downstream(FLOWDIRCODE, fd, idx, o1)
    check(ierr == 0 and list(o1) == mo.down, lambda: f"{tag}: c downstream")
    o2 = np.zeros((n, 9), dtype=np.int64)
    ierr = c_hydrodiy_gis.upstream(FLOWDIRCODE, fd, idx, o2)
    ok = ierr == 0
    for d in range(n):
        row = [int(v) for v in o2[d] if v >= 0]
        ok = ok and sorted(row) == sorted(mo.up[d])
    check(ok, lambda: f"{tag}: c upstream")


def check_area(tag, ca, mo, outlet, inlets, nval=None, lengths=True):
    if nval is None:
        nval = mo.n+3
    expected, cyc = mo.area(outlet, [] if inlets is None else
                            np.atleast_1d(inlets))
    try:
        ca.delineate_area(outlet, inlets, nval=nval)
    except Exception as err:
        check(cyc, lambda: f"{tag}: outlet={outlet} inlets={inlets}: unexpected "
              f"error {err!r} (no cycle through the outlet)")
        return
    area = [int(v) for v in ca.idxcells_area]
    check(len(area) == len(set(area)), lambda:
          f"{tag}: outlet={outlet} inlets={inlets}: duplicates {area}")
    check(set(area) == expected, lambda:
          f"{tag}: outlet={outlet} inlets={inlets}: area {sorted(area)}"
          f" != model {sorted(expected)}")
    filled = [int(v) for v in ca.idxcells_area_filled]
    check(set(filled) >= set(area), lambda: f"{tag}: filled does not contain area")
    check(len(filled) == len(set(filled)), lambda: f"{tag}: filled has duplicates")
    check(all(0 <= v < mo.n for v in filled), lambda: f"{tag}: filled out of grid")
    if not expected:
        check(len(area) == 0 and len(filled) == 0, lambda:
              f"{tag}: outlet={outlet}: expected empty area")

    if lengths and set(area) == expected and not cyc and len(area) > 0:
        ca.compute_flowpathlengths()
        fp = ca.flowpathlengths
        vals = fp.values.astype(np.float64)
        check(vals.shape == (len(area), 3), lambda: f"{tag}: flowpaths shape")
        starts = [int(v) for v in vals[:, 0]]
        check(sorted(starts) == sorted(area), lambda:
              f"{tag}: flowpath starts {starts} vs area {area}")
        for s, e, le in vals:
            s = int(s)
            if s == outlet:
                check(np.isfinite(le) and le >= 0, lambda:
                      f"{tag}: outlet row length {le}")
                continue
            no, nd = mo.pathlen(s, outlet)
            ref = no+nd*SQ2
            check(int(e) == outlet, lambda: f"{tag}: flowpath end {e} for {s}")
            check(abs(le-ref) <= RTOL*max(1., ref), lambda:
                  f"{tag}: flowpath length {le} vs {ref} for {s}->{outlet}")


def check_river(tag, gr, mo, start, nval=None):
    if nval is None:
        nval = mo.n+3
    chain, term = mo.chain(start, nval)
    try:
        riv = delineate_river(gr, start, nval=nval)
    except Exception as err:
        # An error is only acceptable when the chain never ends (cycle)
        full, fullterm = mo.chain(start, 4*mo.n+10)
        check(not fullterm, lambda: f"{tag}: river start={start}: unexpected error"
              f" {err!r} on a finite chain")
        return
    cells = [int(v) for v in riv["idxcell"]]
    check(len(cells) <= nval, lambda: f"{tag}: river longer than nval")
    if term:
        check(cells == chain, lambda: f"{tag}: river start={start}: {cells}"
              f" != model {chain}")
    else:
        # cycle or truncated: bounded result following the chain
        check(len(cells) >= 1 and cells == chain[:len(cells)], lambda:
              f"{tag}: river start={start}: {cells} not a prefix of chain")
    dist = 0.
    xll, yll, csz = gr.xllcorner, gr.yllcorner, gr.cellsize
    rdx, rdy = riv["dx"].values, riv["dy"].values
    rdist, rx, ry = riv["dist"].values, riv["x"].values, riv["y"].values
    ok = True
    for i, k in enumerate(cells):
        r, c = divmod(k, mo.nc)
        if i > 0:
            a, b = mo.steplen(cells[i-1], k)
            dist += a+b*SQ2
            pr, pc = divmod(cells[i-1], mo.nc)
            ok = ok and rdx[i] == pc-c and rdy[i] == pr-r
        else:
            ok = ok and rdx[0] == 0 and rdy[0] == 0
        ok = ok and abs(rdist[i]-dist) <= RTOL*max(1., dist)
        ok = ok and abs(rx[i]-(xll+csz*(c+0.5))) < 1e-9
        ok = ok and abs(ry[i]-(yll+csz*(mo.nr-1-r+0.5))) < 1e-9
    check(ok, lambda: f"{tag}: river start={start}: distances/coordinates wrong\n"
          f"{riv}")


def all_subsets(n):
    for k in range(n+1):
        for s in itertools.combinations(range(n), k):
            yield list(s)


def full_check(tag, codes, inlet_sets=None, rng=None, lengths=True):
    gr, ca, mo = make(codes)
    check_updown(tag, ca, mo)
    n = mo.n
    for start in range(n):
        check_river(tag, gr, mo, start)
    for outlet in range(n):
        if inlet_sets is None:
            sets = [None]
        elif inlet_sets == "all":
            sets = [None]+[s for s in all_subsets(n) if s]
        else:
            sets = inlet_sets
        for s in sets:
            check_area(tag, ca, mo, outlet, s, lengths=lengths)


# --------------------------------------------------------------------------
def part_exhaustive():
    """ every grid over the alphabet {8 codes, 0, invalid} for the smallest
    shapes x every outlet x every inlet subset x every river start """
    alpha = VALID+[0, 3]
    t0 = time.time()
    for nr, nc in [(1, 1), (1, 2), (2, 1), (1, 3), (3, 1)]:
        for codes in itertools.product(alpha, repeat=nr*nc):
            full_check(f"exh{nr}x{nc}{codes}",
                       np.array(codes).reshape((nr, nc)), inlet_sets="all")
    print(f"  exhaustive 1x1,1x2,2x1,1x3,3x1 done ({time.time()-t0:.1f}s)")

    # 2x2: every grid x every outlet x every river start; inlets: none,
    # each single cell, all cells, a list with repeats
    t0 = time.time()
    for codes in itertools.product(alpha, repeat=4):
        gr, ca, mo = make(np.array(codes).reshape((2, 2)))
        tag = f"exh2x2{codes}"
        check_updown(tag, ca, mo)
        for start in range(4):
            check_river(tag, gr, mo, start)
        for outlet in range(4):
            check_area(tag, ca, mo, outlet, None)
            for s in [[0], [1], [2], [3], [0, 1, 2, 3], [3, 3, 0]]:
                check_area(tag, ca, mo, outlet, s, lengths=(s == [3, 3, 0]))
    print(f"  exhaustive 2x2 done ({time.time()-t0:.1f}s)")


def part_named():
    """ hand-made awkward grids """
    # the grid of the library's own test-suite
    tg = [[0, 4, 4, 4, 0, 0],
          [0, 4, 4, 8, 0, 0],
          [0, 2, 4, 8, 0, 0],
          [0, 0, 2, 0, 0, 0],
          [0, 0, 0, 4, 0, 0],
          [0, 0, 0, 0, 0, 0]]
    full_check("testgrid", tg,
               inlet_sets=[None, [14], [14, 13], 14, [27], [20, 20]])

    # two columns: a diagonal step changes the cell number by 1 or 3
    full_check("2col", [[2, 8], [2, 8], [1, 4], [64, 0]],
               inlet_sets=[None, [2], [3]])
    full_check("2col-b", [[4, 8], [2, 4], [128, 32], [1, 0]],
               inlet_sets=[None, [5]])
    # two rows
    full_check("2row", [[2, 8, 2, 8, 4], [1, 1, 1, 1, 0]],
               inlet_sets=[None, [7]])
    # single row, single column
    full_check("row", [[1, 1, 1, 1, 1, 0, 16, 16]],
               inlet_sets=[None, [2], [6]])
    full_check("col", [[4], [4], [4], [0], [64], [64]],
               inlet_sets=[None, [1], [4]])
    # everything flows off the grid
    full_check("offgrid", [[32, 64, 128], [16, 64, 1], [8, 4, 2]])
    # ring around a sink in the middle that does not drain to the outlet
    # (hole in the catchment area: filled area is strictly larger)
    ring = [[1, 1, 1, 1, 4],
            [64, 2, 4, 8, 4],
            [64, 1, 0, 16, 4],
            [64, 128, 64, 32, 4],
            [0, 16, 16, 16, 16]]
    full_check("ring", ring, inlet_sets=[None, [4], [12]])
    gr, ca, mo = make(ring)
    ca.delineate_area(20, nval=50)
    a = set(ca.idxcells_area.tolist())
    f = set(ca.idxcells_area_filled.tolist())
    check(len(a) == 16 and a == mo.area(20, [])[0], lambda: "ring: area")
    check(f >= a, lambda: "ring: filled contains area")

    # cycles ---------------------------------------------------------------
    # 2-cycle through cells 0 and 1, cell 2 drains into it
    full_check("cyc2", [[1, 16, 16]], inlet_sets=[None, [0], [1], [2]])
    # 4-cycle in a 2x2 block with a tail
    full_check("cyc4", [[1, 4, 16], [64, 16, 32]],
               inlet_sets=[None, [0], [1], [4], [3], [2], [0, 4]])
    # diagonal 2-cycle
    full_check("cycdiag", [[2, 0], [0, 32]], inlet_sets=[None, [0], [3]])
    # cycle away from the outlet (must NOT be an error)
    full_check("cycaway", [[1, 16, 0], [1, 1, 64]],
               inlet_sets=[None, [0]])
    # cycle with the library's default buffer size (1e6): error or bounded
    gr, ca, mo = make([[1, 4, 16], [64, 16, 32]])
    t0 = time.time()
    check_area("cyc-default-nval", ca, mo, 0, None, nval=1000000)
    try:
        ca.delineate_area(0)
        check(set(ca.idxcells_area.tolist()) == mo.area(0, [])[0], lambda:
              "cycle, default nval: bounded result must be the model area")
    except Exception:
        pass
    try:
        riv = delineate_river(gr, 2)
        check(len(riv) <= 1000000, lambda: "river default nval bounded")
        cells = riv["idxcell"].values[:50].tolist()
        check(cells == mo.chain(2, len(cells))[0], lambda: "river cycle prefix")
    except Exception:
        pass
    check(time.time()-t0 < 60, lambda: "cycle handling took too long")

    # outlet is itself an inlet: ignored for the outlet cell
    gr, ca, mo = make(tg)
    check_area("outlet-inlet", ca, mo, 27, [27])
    check_area("outlet-inlet", ca, mo, 27, [27, 14])
    # all cells are inlets
    check_area("all-inlets", ca, mo, 27, list(range(36)))
    # default nval
    ca.delineate_area(27)
    check(sorted(ca.idxcells_area.tolist())
          == [1, 2, 3, 7, 8, 9, 13, 14, 15, 20, 27], lambda: "default nval area")
    ca.delineate_area(12)
    check(len(ca.idxcells_area) == 0 and len(ca.idxcells_area_filled) == 0, lambda:
          "nothing drains to 12: empty")
    riv = delineate_river(gr, 1)
    check(riv["idxcell"].tolist() == [1, 7, 13, 20, 27, 33], lambda: "river default")
    # non unit cell size and offsets: coordinates of the trace
    g2 = Grid("fd", ncols=3, nrows=2, cellsize=0.25, xllcorner=-3.5,
              yllcorner=10., dtype=np.int64)
    g2.data = [[2, 4, 8], [1, 1, 1]]
    check_river("geo", g2, Model(g2.data), 0)
    check_river("geo", g2, Model(g2.data), 2)
    # input grid stored with another integer / float dtype
    for dt in [np.int32, np.float64, np.uint8]:
        g3 = Grid("fd", ncols=6, nrows=6, dtype=dt)
        g3.data = tg
        c3 = Catchment("c", g3)
        m3 = Model(tg)
        check_updown(f"dtype{dt.__name__}", c3, m3)
        check_area(f"dtype{dt.__name__}", c3, m3, 27, [14])
        check_river(f"dtype{dt.__name__}", g3.clone(), m3, 1)


def funnel(rng, nr, nc, outlet, noise):
    """ grid where cells step towards the outlet (big catchments), with a
    proportion `noise` of cells replaced by arbitrary values """
    orow, ocol = divmod(outlet, nc)
    inv = {v: k for k, v in STEP.items()}
    codes = np.zeros((nr, nc), dtype=np.int64)
    for r in range(nr):
        for c in range(nc):
            dr = int(np.sign(orow-r))
            dc = int(np.sign(ocol-c))
            if rng.random() < 0.3 and dr != 0 and dc != 0:
                if rng.random() < 0.5:
                    dr = 0
                else:
                    dc = 0
            codes[r, c] = inv[(dr, dc)] if (dr, dc) != (0, 0) \
                else rng.choice(VALID+[0])
            if rng.random() < noise:
                codes[r, c] = rng.choice(VALID+[0, 0]+INVALID)
    return codes


def part_random():
    rng = np.random.default_rng(5446)
    t0 = time.time()
    # small random grids, everything checked for every outlet
    for it in range(800):
        nr, nc = rng.integers(1, 5), rng.integers(1, 5)
        codes = rng.choice(VALID*3+[0, 0]+INVALID, size=(nr, nc))
        n = nr*nc
        sets = [None]
        for _ in range(2):
            k = rng.integers(1, n+1)
            sets.append(rng.choice(n, size=k, replace=True).tolist())
        full_check(f"rnd{it}", codes, inlet_sets=sets)
    print(f"  random small done ({time.time()-t0:.1f}s)")

    # larger grids: funnels (large catchments) with noise
    t0 = time.time()
    for it in range(200):
        nr, nc = rng.integers(2, 15), rng.integers(2, 15)
        n = nr*nc
        target = int(rng.integers(0, n))
        codes = funnel(rng, nr, nc, target, noise=rng.choice([0., 0.05, 0.3]))
        gr, ca, mo = make(codes)
        tag = f"funnel{it}"
        check_updown(tag, ca, mo)
        outlets = [target]+rng.choice(n, size=4).tolist()
        for outlet in outlets:
            for s in [None, rng.choice(n, size=rng.integers(1, 6)).tolist()]:
                check_area(tag, ca, mo, int(outlet), s)
        for start in rng.choice(n, size=8).tolist():
            check_river(tag, gr, mo, int(start))
        # truncated trace: nval shorter than the chain
        check_river(tag, gr, mo, int(rng.integers(0, n)), nval=3)
    print(f"  random funnels done ({time.time()-t0:.1f}s)")


def main():
    t0 = time.time()
    print("C06 demo: exhaustive part")
    part_exhaustive()
    print("C06 demo: named grids")
    part_named()
    print("C06 demo: random part")
    part_random()
    print(f"{NCHECK} checks, {NFAIL} failures, {time.time()-t0:.1f}s")
    return 1 if NFAIL else 0


if __name__ == "__main__":
    sys.exit(main())
