""" C12 demo: bounded vectors keep their invariants under any history.

Run as:  PYTHONPATH=<tree>/src /venv/bin/python demo.py
Exits 0 when every check passes (on the unmodified and on the rewritten tree).
"""
import itertools
import math
import sys
import warnings

import numpy as np

from hydrodiy.data.containers import Vector
from hydrodiy.stat import transform

warnings.filterwarnings("ignore")
np.seterr(all="ignore")

NCHECK = [0]


def same(a, b):
    """ float equality where nan == nan """
    a = np.asarray(a, dtype=np.float64)
    b = np.asarray(b, dtype=np.float64)
    return a.shape == b.shape and bool(np.all((a == b) |
                                              (np.isnan(a) & np.isnan(b))))


def ensure(cond, msg):
    NCHECK[0] += 1
    if not cond:
        print("FAIL:", msg)
        sys.exit(1)


# ---------------------------------------------------------------- model ----
class Model(object):
    """ Independent model of the observable state of a Vector """

    def __init__(self, names, defaults, mins, maxs, ckhit, nan):
        self.names = list(names)
        self.mins = list(mins)
        self.maxs = list(maxs)
        self.defaults = list(defaults)
        self.ckhit = ckhit
        self.nan = nan
        self.values = list(defaults)
        self.hit = False

    def copy(self):
        m = Model(self.names, self.defaults, self.mins, self.maxs,
                  self.ckhit, self.nan)
        m.values = list(self.values)
        m.hit = self.hit
        return m

    @staticmethod
    def clip(x, lo, hi):
        if math.isnan(x):
            return x
        return min(max(x, lo), hi)

    def set_one(self, key, x):
        """ returns True when accepted """
        if key not in self.names:
            return False
        x = float(x)
        if math.isnan(x) and not self.nan:
            return False
        i = self.names.index(key)
        if self.ckhit:
            self.hit = (x < self.mins[i]) or (x > self.maxs[i])
        self.values[i] = self.clip(x, self.mins[i], self.maxs[i])
        return True

    def set_all(self, xs):
        xs = [float(x) for x in xs]
        if len(xs) != len(self.names):
            return False
        if any(math.isnan(x) for x in xs) and not self.nan:
            return False
        self.hit = self.ckhit and any(
            (x < lo) or (x > hi)
            for x, lo, hi in zip(xs, self.mins, self.maxs))
        self.values = [self.clip(x, lo, hi)
                       for x, lo, hi in zip(xs, self.mins, self.maxs)]
        return True


def check_state(v, m, where):
    """ Full observable state of v agrees with the model """
    n = len(m.names)
    ensure(v.nval == n, f"{where}: nval")
    ensure(list(v.names) == m.names, f"{where}: names {v.names}")
    ensure(same(v.mins, m.mins), f"{where}: mins {v.mins} / {m.mins}")
    ensure(same(v.maxs, m.maxs), f"{where}: maxs {v.maxs} / {m.maxs}")
    ensure(same(v.defaults, m.defaults), f"{where}: defaults {v.defaults}")
    ensure(same(v.values, m.values),
           f"{where}: values {v.values} / {m.values}")
    ensure(bool(v.hitbounds) == m.hit,
           f"{where}: hitbounds {v.hitbounds} / {m.hit}")
    ensure(bool(v.check_hitbounds) == m.ckhit, f"{where}: check_hitbounds")
    ensure(bool(v.accept_nan) == m.nan, f"{where}: accept_nan")
    ensure(bool(v.check_bounds), f"{where}: check_bounds")
    vals = np.asarray(v.values, dtype=np.float64)
    ensure(vals.dtype == np.float64 and vals.shape == (n,),
           f"{where}: values layout")
    for i, nm in enumerate(m.names):
        x = float(vals[i])
        if math.isnan(x):
            ensure(m.nan, f"{where}: nan stored but not allowed")
        else:
            ensure(m.mins[i] <= x <= m.maxs[i], f"{where}: {x} out of bounds")
        ensure(same(getattr(v, nm), x), f"{where}: attribute read {nm}")
        ensure(same(v[nm], x), f"{where}: key read {nm}")
    # Dictionary view
    dct = v.to_dict()
    ensure(dct["nval"] == n and len(dct["data"]) == n, f"{where}: dict nval")
    ensure(bool(dct["hitbounds"]) == m.hit, f"{where}: dict hit")
    ensure(bool(dct["check_hitbounds"]) == m.ckhit, f"{where}: dict ckhit")
    ensure(bool(dct["accept_nan"]) == m.nan, f"{where}: dict nan")
    for i, e in enumerate(dct["data"]):
        ensure(str(e["name"]) == m.names[i], f"{where}: dict name")
        ensure(same(e["value"], m.values[i]), f"{where}: dict value")
        ensure(same(e["min"], m.mins[i]), f"{where}: dict min")
        ensure(same(e["max"], m.maxs[i]), f"{where}: dict max")
        ensure(same(e["default"], m.defaults[i]), f"{where}: dict default")
    if NCHECK[0] % 11 == 0:
        se = v.to_series()
        ensure(list(se.index) == m.names and same(se.values, m.values),
               f"{where}: series")
    ensure(isinstance(str(v), str), f"{where}: str")


def expect_reject(fun, where):
    try:
        fun()
    except Exception:
        return
    ensure(False, f"{where}: assignment was not rejected")


def candidates(lo, hi, nan):
    """ values inside, on and outside (>=1e-6 away) the bounds """
    out = []
    if math.isfinite(lo):
        out += [lo, lo - 1e-6, lo - 3.5, lo + 1e-6]
    else:
        out += [-1e300, lo]
    if math.isfinite(hi):
        out += [hi, hi + 1e-6, hi + 7.25, hi - 1e-6]
    else:
        out += [1e300, hi]
    if math.isfinite(lo) and math.isfinite(hi):
        out.append(0.5 * (lo + hi))
    else:
        out.append(0.25)
    if nan:
        out.append(float("nan"))
    return out


def make_ops(m, rng, small):
    """ list of operations (label, kind, payload) valid for this model """
    ops = [("reset", "reset", None), ("clone", "clone", None),
           ("dict", "dict", None)]
    n = len(m.names)
    for i, nm in enumerate(m.names):
        cands = candidates(m.mins[i], m.maxs[i], m.nan)
        if small:
            cands = [cands[j] for j in sorted(set(
                rng.choice(len(cands), 3, replace=False)))]
        for c in cands:
            ops.append((f"attr {nm}={c}", "attr", (nm, c)))
            ops.append((f"key {nm}={c}", "key", (nm, c)))
        ops.append((f"attr {nm}=nan", "attr", (nm, float("nan"))))
    # whole-vector
    per = [candidates(lo, hi, m.nan) for lo, hi in zip(m.mins, m.maxs)]
    nall = 3 if small else 12
    for _ in range(nall):
        ops.append(("all", "all", [p[rng.integers(len(p))] for p in per]))
    ops.append(("all-inside", "all",
                [Model.clip(0.25, lo, hi) for lo, hi in zip(m.mins, m.maxs)]))
    ops.append(("all-nan", "all", [float("nan")] * n if n else [np.nan]))
    ops.append(("all-long", "all", [0.25] * (n + 1)))
    if n > 0:
        ops.append(("all-short", "all", [0.25] * (n - 1)))
    ops.append(("key unknown", "key", ("no_such_name", 0.25)))
    return ops


def apply_op(v, m, op, where):
    """ apply op to the vector and the model; returns (v, m) to continue """
    label, kind, arg = op
    where = f"{where} -> {label}"
    before = m.copy()
    if kind == "reset":
        v.reset()
        ensure(m.set_all(m.defaults), "model reset")
        if not m.ckhit:
            m.hit = False
    elif kind == "clone":
        c, d = v.clone(), v.clone()
        check_state(c, m, where + " [clone]")
        check_state(v, m, where + " [clone source]")
        independent(v, c, d, m, where)
        v = c
    elif kind == "dict":
        dct = v.to_dict()
        c, d = Vector.from_dict(dct), Vector.from_dict(v.to_dict())
        check_state(c, m, where + " [dict]")
        check_state(v, m, where + " [dict source]")
        independent(v, c, d, m, where)
        v = c
    elif kind in ("attr", "key"):
        nm, x = arg
        if m.set_one(nm, x):
            if kind == "attr":
                setattr(v, nm, x)
            else:
                v[nm] = x
            if m.ckhit:
                i = m.names.index(nm)
                clipped = not same(m.values[i], x)
                ensure(bool(v.hitbounds) == clipped, f"{where}: hit<>clipped")
        else:
            if kind == "attr":
                expect_reject(lambda: setattr(v, nm, x), where)
            else:
                expect_reject(lambda: v.__setitem__(nm, x), where)
            m = before
    elif kind == "all":
        if m.set_all(arg):
            v.values = np.array(arg, dtype=np.float64)
            if m.ckhit:
                ensure(bool(v.hitbounds) == (not same(m.values, arg)),
                       f"{where}: hit<>clipped (all)")
        else:
            def fun():
                v.values = arg
            expect_reject(fun, where)
            m = before
    check_state(v, m, where)
    return v, m


def independent(v, c, d, m, where):
    """ v is the source, c and d two copies of it: modifying d must affect
    neither v nor c """
    ensure(c is not v and d is not c, where + " [same object]")
    for a, b in ((v, c), (v, d), (c, d)):
        ensure(a.values is not b.values and a.mins is not b.mins
               and a.maxs is not b.maxs and a.defaults is not b.defaults,
               where + " [shared arrays]")
        ensure(not np.shares_memory(np.asarray(a.values),
                                    np.asarray(b.values)),
               where + " [shared memory]")
    if not m.names:
        return
    nm = m.names[-1]
    setattr(d, nm, Model.clip(0.125, m.mins[-1], m.maxs[-1]))
    d.values = [Model.clip(-0.375, lo, hi) for lo, hi in zip(m.mins, m.maxs)]
    d[nm] = m.maxs[-1] + 1. if math.isfinite(m.maxs[-1]) else 12.
    d.reset()
    check_state(v, m, where + " [independence/source]")
    check_state(c, m, where + " [independence/copy]")


def run_sequence(cfg, ops_idx, rng, small, where):
    names, defaults, mins, maxs, ckhit, nan = cfg
    v = Vector(names, defaults, mins, maxs, check_hitbounds=ckhit,
               accept_nan=nan)
    m = Model(names, defaults, mins, maxs, ckhit, nan)
    check_state(v, m, where + " [fresh]")
    ops = make_ops(m, rng, small)
    for k in ops_idx(len(ops)):
        v, m = apply_op(v, m, ops[k], where)


def vector_configs():
    inf = np.inf
    shapes = [
        ([], [], [], []),
        (["a"], [0.5], [0.], [1.]),
        (["a"], [0.], [-inf], [inf]),
        (["p", "q"], [1., -2.], [1., -inf], [inf, -2.]),
        (["p", "q"], [0.3, 0.3], [0.3, -1.], [0.3, 1.]),
        (["x1", "x2", "x3"], [0., 10., -1e-6], [-1., 10., -2e-6],
         [1., 1e6, 0.]),
        (["a", "b", "c", "d"], [0., 1., 2., 3.], [-inf, 0., 2., -5.],
         [inf, 2., 2., inf]),
    ]
    for (names, defaults, mins, maxs) in shapes:
        for ckhit in (False, True):
            for nan in (False, True):
                yield (names, defaults, mins, maxs, ckhit, nan)
    # nan defaults are legal when nan is accepted (transform constants)
    yield (["xmax"], [np.nan], [1e-10], [inf], False, True)
    yield (["u", "w"], [np.nan, 1.], [0., 0.], [5., inf], True, True)


def vectors_part():
    rng = np.random.default_rng(5512)
    for ic, cfg in enumerate(vector_configs()):
        nops = len(make_ops(Model(*cfg), np.random.default_rng(0), True))
        # exhaustive: every sequence of length 2 over the reduced alphabet,
        # every single op over the full alphabet
        nfull = len(make_ops(Model(*cfg), np.random.default_rng(0), False))
        for k in range(nfull):
            run_sequence(cfg, lambda n, k=k: [k], np.random.default_rng(0),
                         False, f"cfg{ic}/full1")
        # (for 2+ names: only with the hit flag recorded, to bound run time)
        pairs = itertools.product(range(nops), repeat=2)
        if len(cfg[0]) >= 2 and not (cfg[4] and not cfg[5]):
            pairs = itertools.islice(pairs, ic % 5, None, 5)
        for seq in pairs:
            run_sequence(cfg, lambda n, s=seq: s, np.random.default_rng(0),
                         True, f"cfg{ic}/ex2")
        # length 3 on the small configurations (hit flag recorded) only
        if len(cfg[0]) <= 1 and cfg[4] and (not cfg[5] or len(cfg[0]) == 0):
            for seq in itertools.product(range(nops), repeat=3):
                run_sequence(cfg, lambda n, s=seq: s,
                             np.random.default_rng(0), True, f"cfg{ic}/ex3")
        # random long histories over the full alphabet
        for rep in range(8):
            seed = int(rng.integers(1 << 30))
            run_sequence(cfg,
                         lambda n: rng.integers(0, n, size=40),
                         np.random.default_rng(seed), False,
                         f"cfg{ic}/rand{rep}")


# ----------------------------------------------------------- transforms ----
def snap(tr):
    out = []
    for vec in (tr.params, tr.constants):
        out.append([list(vec.names), np.array(vec.values, copy=True),
                    np.array(vec.mins, copy=True),
                    np.array(vec.maxs, copy=True),
                    np.array(vec.defaults, copy=True), bool(vec.hitbounds)])
    return out


def snap_equal(s1, s2):
    for a, b in zip(s1, s2):
        if a[0] != b[0] or a[5] != b[5]:
            return False
        if not all(same(x, y) for x, y in zip(a[1:5], b[1:5])):
            return False
    return True


def readonly_calls(tr, name):
    if name == "Softmax":
        x = np.array([[0.1, 0.2, 0.3], [0.05, 0.5, 0.2]])
    else:
        x = np.array([0.05, 0.3, 0.5, 0.9, 2.5, 0., -0.2])
    y = np.linspace(-2, 2, x.size).reshape(x.shape)
    return [
        ("forward", lambda: tr.forward(x)),
        ("backward", lambda: tr.backward(y)),
        ("jacobian", lambda: tr.jacobian(x)),
        ("sample", lambda: tr.params_sample(20)),
        ("logprior", lambda: tr.params_logprior()),
        ("str", lambda: str(tr)),
        ("str-params", lambda: str(tr.params) + str(tr.constants)),
        ("getitem", lambda: [tr[nm] for nm in tr.params.names]),
    ]


def transforms_part():
    rng = np.random.default_rng(77)
    for name in transform.__all__:
        for rep in range(6):
            np.random.seed(100 + rep)
            tr = transform.get_transform(name)
            pm = Model(list(tr.params.names), list(tr.params.defaults),
                       list(tr.params.mins), list(tr.params.maxs),
                       bool(tr.params.check_hitbounds),
                       bool(tr.params.accept_nan))
            check_state(tr.params, pm, f"{name} [fresh params]")
            calls = readonly_calls(tr, name)
            for step in range(30):
                # assignment on params or constants
                pick = rng.integers(4)
                for vec, md in ((tr.params, pm),):
                    if md.names and pick < 3:
                        i = int(rng.integers(len(md.names)))
                        cands = candidates(md.mins[i], md.maxs[i], md.nan)
                        c = cands[rng.integers(len(cands))]
                        md.set_one(md.names[i], c)
                        if pick == 0:
                            setattr(tr, md.names[i], c)
                        elif pick == 1:
                            tr[md.names[i]] = c
                        else:
                            tr.params[md.names[i]] = c
                    elif md.names and step % 7 == 3:
                        tr.reset()
                        md.set_all(md.defaults)
                if tr.constants.nval > 0 and rng.integers(3) == 0:
                    cn = tr.constants.names[0]
                    tr[cn] = [0.5, 3., 1e-12, 50.][rng.integers(4)]
                check_state(tr.params, pm, f"{name}/{rep}/{step} [assign]")
                before = snap(tr)
                # a few read-only calls in random order
                for j in rng.permutation(len(calls))[:4]:
                    label, fun = calls[j]
                    try:
                        fun()
                    except (ValueError, FloatingPointError):
                        pass
                    ensure(snap_equal(before, snap(tr)),
                           f"{name}/{rep}/{step}: {label} changed the state")
                check_state(tr.params, pm, f"{name}/{rep}/{step} [after ro]")
            # failing assignments on the transform leave state untouched
            before = snap(tr)
            if tr.params.nval > 0:
                nm = tr.params.names[0]
                expect_reject(lambda: setattr(tr, nm, np.nan), name)
                expect_reject(lambda: tr.params.__setitem__(nm, np.nan), name)

                def fun():
                    tr.params.values = [0.] * (tr.params.nval + 1)
                expect_reject(fun, name)
            expect_reject(lambda: tr.params.__setitem__("bidule", 1.), name)
            ensure(snap_equal(before, snap(tr)), f"{name}: failing assigns")


if __name__ == "__main__":
    vectors_part()
    nvec = NCHECK[0]
    transforms_part()
    print(f"C12 demo OK ({nvec} vector checks, "
          f"{NCHECK[0] - nvec} transform checks)")
    sys.exit(0)
