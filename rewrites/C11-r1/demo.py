#!/usr/bin/env python
"""Demo / self-check for property C11 (flow accumulation == sum over everything
upstream) of hydrodiy.gis.grid.accumulate.

Run as:  PYTHONPATH=<tree>/src /venv/bin/python demo.py
Exits 0 when every check passes (on the unmodified and on the rewritten tree).

What is checked, for every ACYCLIC flow direction grid generated below, with
the default cell limit (max_accumulated_cells left at -1, or given explicitly
as nrows*ncols which is the value the default resolves to):

 (A) every cell that drains into another cell carries the sum of the
     accumulated field over itself and every cell that drains through it
     (== number of such cells for the default unit field);
 (B) the same cell carries its own contribution plus the accumulated values
     of its direct upstream neighbours;
 (C) every cell that drains nowhere (sink code 0, exit off the grid, invalid
     direction code) carries the no-data value of the accumulated field
     (of the flow direction grid when the default unit field is used);
 (D) the cell VALUES of the two input grids are unchanged by the call.

Integer valued fields must match exactly (all partial sums are exactly
representable, so the summation order cannot matter).  Non integer fields are
compared with a rounding-error bound so that any valid summation order passes.

Grids with cycles and calls with a reduced max_accumulated_cells are only
required to return without raising.
"""
import os
import sys
import itertools
from fractions import Fraction

import numpy as np

# The C kernel writes progress messages straight to the C-level stdout.
# Send file descriptor 1 to /dev/null and keep a private handle for our own
# messages.
_SAVED_FD = os.dup(1)
_DEVNULL = os.open(os.devnull, os.O_WRONLY)
os.dup2(_DEVNULL, 1)
OUT = os.fdopen(_SAVED_FD, "w")


def say(*args):
    print(*args, file=OUT, flush=True)


from hydrodiy.gis.grid import Grid, accumulate  # noqa: E402

# direction code -> (row offset, column offset), rows counted from the top
OFFSETS = {32: (-1, -1), 64: (-1, 0), 128: (-1, 1),
           16: (0, -1), 1: (0, 1),
           8: (1, -1), 4: (1, 0), 2: (1, 1)}
VALID = sorted(OFFSETS)
SINK = 0
INVALID = [3, -5, 256]
ALPHABET = [SINK] + VALID + INVALID

NCHECK = {"grids": 0, "calls": 0, "cells_draining": 0, "cells_terminal": 0,
          "cyclic_calls": 0, "limited_calls": 0}
RNG = np.random.default_rng(5511)


# ----------------------------------------------------------------------------
# Independent reference model
# ----------------------------------------------------------------------------
def downstream_table(fd):
    """ down[i] >= 0 : index of receiving cell; -1 : drains nowhere """
    nrows, ncols = fd.shape
    down = []
    for r in range(nrows):
        for c in range(ncols):
            code = int(fd[r, c])
            if code not in OFFSETS:
                down.append(-1)
                continue
            dr, dc = OFFSETS[code]
            rr, cc = r + dr, c + dc
            if rr < 0 or rr >= nrows or cc < 0 or cc >= ncols:
                down.append(-1)
            else:
                down.append(rr * ncols + cc)
    return down


def is_acyclic(down):
    n = len(down)
    for i in range(n):
        j, steps = i, 0
        while down[j] >= 0:
            j = down[j]
            steps += 1
            if steps > n:
                return False
    return True


def basins(down):
    """ members[j] = list of cells i such that j is i or downstream of i """
    n = len(down)
    members = [[j] for j in range(n)]
    for i in range(n):
        j = down[i]
        while j >= 0:
            members[j].append(i)
            j = down[j]
    return members


def same_value(a, b):
    a, b = float(a), float(b)
    if np.isnan(a) or np.isnan(b):
        return bool(np.isnan(a) and np.isnan(b))
    return a == b


# ----------------------------------------------------------------------------
# One call + all checks
# ----------------------------------------------------------------------------
def make_flowdir(fd, dtype=np.int32, nodata=-1):
    fd = np.atleast_2d(np.asarray(fd))
    nrows, ncols = fd.shape
    grid = Grid("fd", ncols, nrows, dtype=dtype, nodata=nodata,
                cellsize=0.5, xllcorner=3., yllcorner=-7.)
    grid.data = fd
    assert np.array_equal(grid.data, fd), "test set up: codes not stored"
    return grid


def make_field(values, dtype=np.float64, nodata=-9999.):
    values = np.atleast_2d(np.asarray(values))
    nrows, ncols = values.shape
    grid = Grid("field", ncols, nrows, dtype=dtype, nodata=nodata)
    grid.data = values
    assert np.array_equal(grid.data, values), "test set up: field not stored"
    return grid


def check_acyclic(fd, field=None, fd_dtype=np.int32, fd_nodata=-1,
                  field_dtype=np.float64, field_nodata=-9999.,
                  explicit_limit=False, label=""):
    fd = np.atleast_2d(np.asarray(fd)).astype(np.int64)
    nrows, ncols = fd.shape
    ntot = nrows * ncols
    down = downstream_table(fd)
    assert is_acyclic(down), "demo bug: expected an acyclic grid " + label

    flowdir = make_flowdir(fd, fd_dtype, fd_nodata)
    fd_before = np.array(flowdir.data, dtype=np.float64, copy=True)
    kwargs = {"nprint": 10**9}
    if explicit_limit:
        kwargs["max_accumulated_cells"] = ntot

    if field is None:
        values = np.ones((nrows, ncols))
        nodata = fd_nodata
        acc = accumulate(flowdir, **kwargs)
    else:
        values = np.atleast_2d(np.asarray(field))
        fgrid = make_field(values, field_dtype, field_nodata)
        f_before = np.array(fgrid.data, dtype=np.float64, copy=True)
        nodata = fgrid.nodata
        acc = accumulate(flowdir, fgrid, **kwargs)
        # (D) field values untouched
        assert np.array_equal(np.asarray(fgrid.data, dtype=np.float64),
                              f_before), \
            f"(D) accumulated field values altered {label}\n{fd}"

    # (D) flow direction values untouched
    assert np.array_equal(np.asarray(flowdir.data, dtype=np.float64),
                          fd_before), \
        f"(D) flow direction values altered {label}\n{fd}"

    got = np.asarray(acc.data, dtype=np.float64)
    assert got.shape == (nrows, ncols), "wrong shape " + label
    got = got.ravel()
    vals = np.asarray(values, dtype=np.float64).ravel()
    exact = bool(np.all(vals == np.round(vals))) \
        and float(np.sum(np.abs(vals))) < 2.**52
    members = basins(down)
    ups = [[] for _ in range(ntot)]
    for i, j in enumerate(down):
        if j >= 0:
            ups[j].append(i)

    for j in range(ntot):
        if down[j] < 0:
            # (C) drains nowhere -> no-data
            assert same_value(got[j], nodata), \
                f"(C) terminal cell {j} has {got[j]}, expected nodata " \
                + f"{nodata} {label}\n{fd}"
            NCHECK["cells_terminal"] += 1
            continue

        NCHECK["cells_draining"] += 1
        # (A) sum over everything upstream
        mem = members[j]
        expected = sum(Fraction(float(vals[i])) for i in mem)
        scale = sum(abs(float(vals[i])) for i in mem)
        tol = 0. if exact else 4 * len(mem) * np.finfo(float).eps * scale
        err = abs(float(Fraction(float(got[j])) - expected))
        assert err <= tol, \
            f"(A) cell {j}: got {got[j]!r}, expected {float(expected)!r}" \
            + f" (err {err}, tol {tol}) {label}\n{fd}\n{values}"
        if field is None:
            assert got[j] == len(mem), \
                f"(A) unit field, cell {j}: got {got[j]}, " \
                + f"{len(mem)} cells upstream {label}\n{fd}"

        # (B) own contribution + direct upstream neighbours
        local = Fraction(float(vals[j]))
        for u in ups[j]:
            assert down[u] >= 0
            local += Fraction(float(got[u]))
        err = abs(float(Fraction(float(got[j])) - local))
        assert err <= 2 * tol, \
            f"(B) cell {j}: got {got[j]!r}, own + direct upstream = " \
            + f"{float(local)!r} {label}\n{fd}\n{values}"

    NCHECK["grids"] += 1
    NCHECK["calls"] += 1
    return acc


def check_terminates(fd, field=None, limit=None, label=""):
    """ Outside the property's quantifier: must simply return. """
    fd = np.atleast_2d(np.asarray(fd)).astype(np.int64)
    flowdir = make_flowdir(fd)
    kwargs = {"nprint": 10**9}
    if limit is not None:
        kwargs["max_accumulated_cells"] = limit
        NCHECK["limited_calls"] += 1
    else:
        NCHECK["cyclic_calls"] += 1
    fgrid = None if field is None else make_field(field)
    acc = accumulate(flowdir, fgrid, **kwargs)
    assert np.asarray(acc.data).shape == fd.shape


# ----------------------------------------------------------------------------
# Field generators
# ----------------------------------------------------------------------------
def fields_for(shape, k):
    """ A rotating choice of accumulated fields (None = default unit) """
    kind = k % 8
    if kind == 0:
        return None, {}
    if kind == 1:   # uniform, non integer
        return np.full(shape, 0.1), {"field_nodata": -0.1}
    if kind == 2:   # uniform integer, stored as int32
        return np.full(shape, 3), {"field_dtype": np.int32,
                                   "field_nodata": -1}
    if kind == 3:   # random positive integers
        return RNG.integers(1, 50, shape).astype(float), {"field_nodata": 0.}
    if kind == 4:   # random positive reals
        return RNG.uniform(1e-3, 1e3, shape), {"field_nodata": np.nan}
    if kind == 5:   # zeros and negatives, integer valued
        return RNG.integers(-4, 5, shape).astype(float), \
            {"field_nodata": -9999.}
    if kind == 6:   # zeros and negatives, reals, float32 storage
        val = RNG.normal(0, 10, shape).astype(np.float32)
        val[RNG.uniform(size=shape) < 0.3] = 0.
        return val, {"field_dtype": np.float32, "field_nodata": -1.}
    # all zero field, nodata is the Grid default (0)
    return np.zeros(shape), {"field_nodata": 0}


# ----------------------------------------------------------------------------
# Grid generators
# ----------------------------------------------------------------------------
def random_acyclic(nrows, ncols, pterm=0.15):
    """ Acyclic by construction: every cell drains to a strictly lower
    neighbour of a random elevation model, off the grid, or nowhere """
    elev = RNG.permutation(nrows * ncols).reshape((nrows, ncols))
    fd = np.zeros((nrows, ncols), dtype=np.int64)
    for r in range(nrows):
        for c in range(ncols):
            cands = []
            for code, (dr, dc) in OFFSETS.items():
                rr, cc = r + dr, c + dc
                inside = 0 <= rr < nrows and 0 <= cc < ncols
                if not inside or elev[rr, cc] < elev[r, c]:
                    cands.append(code)
            u = RNG.uniform()
            if u < pterm or not cands:
                fd[r, c] = RNG.choice([SINK] + INVALID)
            else:
                fd[r, c] = RNG.choice(cands)
    return fd


def snake(nrows, ncols):
    """ A single path visiting every cell: longest possible flow path
    (ntot-1 steps), i.e. the boundary of the default cell limit """
    fd = np.zeros((nrows, ncols), dtype=np.int64)
    for r in range(nrows):
        east = r % 2 == 0
        for c in range(ncols):
            last = c == ncols - 1 if east else c == 0
            if last:
                fd[r, c] = 4
            else:
                fd[r, c] = 1 if east else 16
    return fd


def funnel(nrows, ncols, r0, c0, centre_code):
    """ Every cell heads towards (r0, c0): confluences with up to 8 direct
    upstream neighbours """
    fd = np.zeros((nrows, ncols), dtype=np.int64)
    inv = {v: k for k, v in OFFSETS.items()}
    for r in range(nrows):
        for c in range(ncols):
            dr, dc = int(np.sign(r0 - r)), int(np.sign(c0 - c))
            fd[r, c] = centre_code if (dr, dc) == (0, 0) else inv[(dr, dc)]
    return fd


# ----------------------------------------------------------------------------
def main():
    # 1. Exhaustive small grids over the whole code alphabet (valid codes,
    #    sink, three invalid codes).  Cyclic ones must only terminate.
    k = 0
    for shape in [(1, 1), (1, 2), (2, 1), (1, 3), (3, 1), (2, 2)]:
        ncell = shape[0] * shape[1]
        nacyclic = ncyclic = 0
        for codes in itertools.product(ALPHABET, repeat=ncell):
            fd = np.array(codes, dtype=np.int64).reshape(shape)
            if is_acyclic(downstream_table(fd)):
                nacyclic += 1
                # always the unit field ...
                check_acyclic(fd, None, label=f"exhaustive {shape}")
                # ... plus one other kind, rotating
                k += 1
                field, opts = fields_for(shape, 1 + k % 7)
                check_acyclic(fd, field, label=f"exhaustive {shape}", **opts)
            else:
                ncyclic += 1
                check_terminates(fd)
                if ncyclic % 5 == 0:
                    check_terminates(fd, RNG.normal(size=shape))
        say(f"exhaustive {shape}: {nacyclic} acyclic grids checked, "
            + f"{ncyclic} cyclic grids terminated")

    # 2. Exhaustive over the 9 proper codes (8 directions + sink) on 1x4, 4x1
    #    and 2x3 / 3x2 restricted to a sample
    for shape in [(1, 4), (4, 1)]:
        n = 0
        for codes in itertools.product([SINK] + VALID, repeat=4):
            fd = np.array(codes, dtype=np.int64).reshape(shape)
            if is_acyclic(downstream_table(fd)):
                k += 1
                field, opts = fields_for(shape, k)
                check_acyclic(fd, field, label=f"exhaustive9 {shape}", **opts)
                n += 1
            else:
                check_terminates(fd)
        say(f"exhaustive 9 codes {shape}: {n} acyclic grids checked")

    for shape in [(2, 3), (3, 2), (3, 3)]:
        n = 0
        for _ in range(6000):
            fd = RNG.choice(ALPHABET, size=shape)
            if is_acyclic(downstream_table(fd)):
                k += 1
                field, opts = fields_for(shape, k)
                check_acyclic(fd, field, label=f"random codes {shape}",
                              **opts)
                n += 1
            else:
                check_terminates(fd)
        say(f"uniform random codes {shape}: {n} acyclic grids checked")

    # 3. Random acyclic grids of larger sizes, every field kind, several
    #    storage types for the flow direction grid, default limit given
    #    implicitly and explicitly
    shapes = [(1, 1), (1, 2), (2, 1), (1, 7), (7, 1), (2, 5), (4, 4),
              (5, 3), (6, 6), (8, 11), (13, 9), (20, 30)]
    n = 0
    for shape in shapes:
        for rep in range(40 if shape[0] * shape[1] < 200 else 8):
            fd = random_acyclic(*shape, pterm=[0.02, 0.15, 0.5][rep % 3])
            for kind in range(8):
                field, opts = fields_for(shape, kind)
                fd_dtype = [np.int32, np.int64, np.float64][(rep + kind) % 3]
                check_acyclic(fd, field, fd_dtype=fd_dtype,
                              fd_nodata=[-1, 0, -99][kind % 3],
                              explicit_limit=bool((rep + kind) % 2),
                              label=f"random acyclic {shape}", **opts)
                n += 1
    say(f"random acyclic grids: {n} calls checked")

    # 4. Structured awkward grids: snakes (longest path == ntot-1), funnels
    #    (8 direct upstream neighbours, ties between equal contributions),
    #    all cells leaving through one edge / corner, everything terminal.
    n = 0
    for shape in [(1, 1), (1, 2), (2, 1), (2, 2), (3, 3), (1, 9), (9, 1),
                  (4, 7), (7, 4), (10, 10)]:
        structured = [snake(*shape), None,
                      np.zeros(shape, dtype=np.int64),
                      np.full(shape, 3, dtype=np.int64)]
        # reversed snake: rebuild with opposite codes so that it stays a path
        sn = snake(*shape)
        rev = np.zeros(shape, dtype=np.int64)
        down = downstream_table(sn)
        opposite = {1: 16, 16: 1, 4: 64, 64: 4, 2: 32, 32: 2, 8: 128, 128: 8}
        for i, j in enumerate(down):
            if j >= 0:
                rev.flat[j] = opposite[int(sn.flat[i])]
        structured[1] = rev
        for code in VALID:
            structured.append(np.full(shape, code, dtype=np.int64))
        for r0 in sorted({0, shape[0] // 2, shape[0] - 1}):
            for c0 in sorted({0, shape[1] // 2, shape[1] - 1}):
                for centre in [0, 7]:
                    structured.append(funnel(*shape, r0, c0, centre))
                # funnel whose centre leaves the grid (when on an edge) or
                # moves on to a neighbour that flows back -> skip if cyclic
                for centre in VALID:
                    fd = funnel(*shape, r0, c0, centre)
                    if is_acyclic(downstream_table(fd)):
                        structured.append(fd)
                    else:
                        check_terminates(fd)
        for fd in structured:
            for kind in range(8):
                field, opts = fields_for(shape, kind)
                check_acyclic(fd, field, explicit_limit=bool(kind % 2),
                              label=f"structured {shape}", **opts)
                n += 1
    say(f"structured grids: {n} calls checked")

    # 5. The example of the library's own test-suite
    fd = [[0, 4, 4, 4, 0, 0],
          [0, 4, 4, 8, 0, 0],
          [0, 2, 4, 8, 0, 0],
          [0, 0, 2, 0, 0, 0],
          [0, 0, 0, 4, 0, 0],
          [0, 0, 0, 0, 0, 0]]
    acc = check_acyclic(fd, None)
    expected = [[-1, 1, 1, 1, -1, -1],
                [-1, 2, 2, 2, -1, -1],
                [-1, 3, 5, 1, -1, -1],
                [-1, -1, 10, -1, -1, -1],
                [-1, -1, -1, 11, -1, -1],
                [-1, -1, -1, -1, -1, -1]]
    assert np.array_equal(np.asarray(acc.data, dtype=float), expected)

    # 6. Outside the quantifier: reduced limits and cycles only terminate
    for shape in [(1, 1), (1, 2), (2, 2), (3, 4), (6, 6), (9, 9)]:
        ntot = shape[0] * shape[1]
        for rep in range(10):
            fd = random_acyclic(*shape)
            for limit in sorted({1, 2, max(1, ntot // 2), max(1, ntot - 1)}):
                check_terminates(fd, None, limit)
                check_terminates(fd, RNG.normal(size=shape), limit)
            fdc = RNG.choice(VALID, size=shape)
            check_terminates(fdc)
            check_terminates(fdc, RNG.normal(size=shape))
            check_terminates(fdc, None, max(1, ntot // 2))
    # two-cell and four-cell loops
    check_terminates([[1, 16]])
    check_terminates([[4], [64]])
    check_terminates([[1, 4], [64, 16]])
    check_terminates([[2, 4, 0], [1, 1, 16], [64, 32, 32]],
                     [[1., 2, 3], [4, 5, 6], [7, 8, 9]])

    say("checked:", NCHECK)
    say("C11 demo: ALL CHECKS PASSED")
    return 0


if __name__ == "__main__":
    try:
        code = main()
    except AssertionError as err:
        say("C11 demo: FAILED\n", err)
        code = 1
    OUT.flush()
    sys.exit(code)
