#!/usr/bin/env python
""" Demo for property C13: grids and catchments survive save/load,
dictionary export, cloning and clipping.

Run as:  PYTHONPATH=<tree>/src /venv/bin/python demo.py

Exits 0 if every check passes, 1 otherwise. Every input used here is
inside the quantifier of the property:
 * grid shapes >= 1x1,
 * cellsize/origins any finite float64 (reproduced exactly by the header),
 * dtypes int8..int64, uint8..uint64, float16/32/64 with values over the
   full range of the type (NaN with payloads, +/-inf, -0.0, subnormals),
 * no-data values representable in the type,
 * header byte order I and M,
 * clip boxes with both corners inside the extent,
 * catchments with and without inlets.
"""
import sys
import io
import tempfile
import zipfile
import warnings
from pathlib import Path

import numpy as np

from hydrodiy.gis.grid import Grid, Catchment

warnings.simplefilter("error")

INTS = [np.int8, np.int16, np.int32, np.int64]
UINTS = [np.uint8, np.uint16, np.uint32, np.uint64]
FLOATS = [np.float16, np.float32, np.float64]
DTYPES = INTS + UINTS + FLOATS

NCHECKS = 0
FAILURES = []


def check(cond, what):
    global NCHECKS
    NCHECKS += 1
    if not cond:
        FAILURES.append(what)
        if len(FAILURES) <= 30:
            print("FAILED:", what)


def bits(x):
    """ Bit pattern of a float64 """
    return np.array([x], dtype=np.float64).tobytes()


def is_scalar_type(dt):
    """ dtype attribute is something np.dtype understands """
    try:
        np.dtype(dt)
        return True
    except TypeError:
        return False


def same_nodata(a, b):
    a = np.asarray(a)
    b = np.asarray(b)
    if a.dtype.kind == "f" and np.isnan(a):
        return b.dtype.kind == "f" and bool(np.isnan(b))
    return bool(a == b) and (a.dtype.kind != "f"
                             or np.signbit(a) == np.signbit(b)
                             or a != 0)


def same_meta(g1, g2, what, exact_nodata_dtype=True):
    """ identical shape, georeferencing, dtype and nodata """
    check(tuple(g1.shape) == tuple(g2.shape), f"{what}: shape")
    check(int(g1.nrows) == int(g2.nrows), f"{what}: nrows")
    check(int(g1.ncols) == int(g2.ncols), f"{what}: ncols")
    for att in ["cellsize", "xllcorner", "yllcorner"]:
        check(bits(getattr(g1, att)) == bits(getattr(g2, att)),
              f"{what}: {att} {getattr(g1, att)!r} != {getattr(g2, att)!r}")

    check(is_scalar_type(g2.dtype), f"{what}: dtype usable")
    check(np.dtype(g1.dtype) == np.dtype(g2.dtype), f"{what}: dtype")
    check(g2.data.dtype == np.dtype(g1.dtype), f"{what}: data dtype")
    check(g2.data.dtype.isnative, f"{what}: data native")
    check(same_nodata(g1.nodata, g2.nodata),
          f"{what}: nodata {g1.nodata!r} != {g2.nodata!r}")
    if exact_nodata_dtype:
        check(np.asarray(g2.nodata).dtype == np.dtype(g1.dtype),
              f"{what}: nodata dtype")


def same_values(g1, g2, what):
    """ bit identical cell values """
    check(g1.data.shape == g2.data.shape, f"{what}: data shape")
    check(np.ascontiguousarray(g1.data).tobytes()
          == np.ascontiguousarray(g2.data).tobytes(),
          f"{what}: cell values not bit identical")


# ---------------------------------------------------------------------
# Input generators
# ---------------------------------------------------------------------
def special_values(dtype, rng, n):
    """ n values covering the full range of the type, as an array of
    that type (built from bit patterns so that NaN payloads, signed
    zeros and subnormals are present for floats) """
    dt = np.dtype(dtype)
    if dt.kind in "iu":
        info = np.iinfo(dt)
        base = [info.min, info.max, 0, 1, info.max-1, info.min+1]
        if dt.kind == "i":
            base += [-1]
        base = np.array(base, dtype=dt)
        # random bit patterns
        rnd = rng.integers(0, 256, size=n*dt.itemsize, dtype=np.uint8)
        rnd = rnd.view(dt)
        out = np.concatenate([base, rnd])
    else:
        info = np.finfo(dt)
        base = np.array([np.nan, -np.nan, np.inf, -np.inf, 0., -0.,
                         info.max, info.min, info.tiny, -info.tiny,
                         info.smallest_subnormal, -info.smallest_subnormal,
                         info.eps, 1., -1., 0.1, 1./3], dtype=dt)
        # random bit patterns : NaN with payloads, signalling NaN, etc.
        rnd = rng.integers(0, 256, size=n*dt.itemsize, dtype=np.uint8)
        rnd = rnd.view(dt)
        # explicit NaN payloads
        utype = {2: np.uint16, 4: np.uint32, 8: np.uint64}[dt.itemsize]
        nanbits = np.array([np.nan], dtype=dt).view(utype)[0]
        pay = np.array([nanbits | utype(1), nanbits | utype(5),
                        (nanbits | utype(3)) | (utype(1) <<
                                               utype(8*dt.itemsize-1))],
                       dtype=utype).view(dt)
        out = np.concatenate([base, pay, rnd])

    idx = rng.permutation(len(out))
    return out[idx]


def fill_grid(grid, rng):
    """ Set data in a grid with special values, bit exact """
    n = int(grid.nrows)*int(grid.ncols)
    vals = special_values(grid.dtype, rng, n)
    vals = np.resize(vals, n).reshape((int(grid.nrows), int(grid.ncols)))
    vals = vals.astype(grid.dtype)
    grid.data = vals
    # The setter itself must not alter the values (no bounds defined)
    check(grid.data.tobytes() == vals.tobytes(), "data setter bit exact")
    return vals


def nodata_values(dtype):
    dt = np.dtype(dtype)
    if dt.kind in "iu":
        info = np.iinfo(dt)
        out = [info.min, info.max, 0, 1, info.max-1]
        if dt.kind == "i":
            out += [-1, -99]
        else:
            out += [info.max//2+1]
        return out
    else:
        info = np.finfo(dt)
        return [0., -9999., np.nan, np.inf, -np.inf, float(info.max),
                float(info.min), float(info.tiny),
                float(info.smallest_subnormal), float(dt.type(0.1)),
                float(dt.type(1./3)), -0., 1e-3]


GEOMS = [
    # cellsize, xll, yll
    (1., 0., 0.),
    (2., 130., -39.),
    (0.0025, 145.44625, -18.29125),
    (0.1, 0.3, -0.7),
    (1./3, 2./3, -1e-7),
    (5e-324, -5e-324, 2.2250738585072014e-308),
    (1.7976931348623157e308, -1.7976931348623157e308,
     1.7976931348623157e308),
    (123456789.12345679, -987654321.9876543, 1e22),
    (1e-300, 1e300, -1e-300),
    (0.05, 112.0, -44.0),
    (2.**-20, -2.**40, 2.**-1074),
    (6.02214076e23, 6.62607015e-34, -1.602176634e-19),
    (1e16, 9007199254740993., -9007199254740991.),
    (7., -0., 0.),
]

SHAPES = [(1, 1), (1, 2), (2, 1), (2, 2), (1, 5), (5, 1), (3, 4), (7, 5)]


# ---------------------------------------------------------------------
# 1. save / load
# ---------------------------------------------------------------------
def make_m_copy(fbil, fbil_m):
    """ From files written by Grid.save (byte order I), create the
    same raster with byte order M (header + byte-swapped data) """
    fhdr = fbil.with_suffix(".hdr")
    lines = fhdr.read_text().splitlines()
    nbits = None
    found = False
    out = []
    for line in lines:
        tok = line.split()
        if len(tok) >= 2 and tok[0].upper() == "NBITS":
            nbits = int(tok[1])
        if len(tok) >= 2 and tok[0].upper() == "BYTEORDER":
            check(tok[1].upper() == "I", "saved raster is BYTEORDER I")
            line = "BYTEORDER      M"
            found = True
        out.append(line)
    check(found, "header has a BYTEORDER line")
    check(nbits in [8, 16, 32, 64], "header has NBITS line")
    fbil_m.with_suffix(".hdr").write_text("\n".join(out)+"\n")

    raw = np.fromfile(fbil, dtype=f"<u{nbits//8}")
    raw.astype(f">u{nbits//8}").tofile(fbil_m)


def handwritten_header(grid, byteorder):
    """ A plain ESRI header equivalent to the grid """
    dt = np.dtype(grid.dtype)
    pix = {"i": "SIGNEDINT", "u": "UNSIGNEDINT", "f": "FLOAT"}[dt.kind]
    txt = f"NROWS          {int(grid.nrows)}\n"\
          + f"NCOLS          {int(grid.ncols)}\n"\
          + f"XLLCORNER      {float(grid.xllcorner)!r}\n"\
          + f"YLLCORNER      {float(grid.yllcorner)!r}\n"\
          + f"CELLSIZE       {float(grid.cellsize)!r}\n"\
          + f"NBITS          {dt.itemsize*8}\n"\
          + f"PIXELTYPE      {pix}\n"\
          + f"BYTEORDER      {byteorder}\n"\
          + f"NODATA_VALUE   {grid.nodata}\n"
    return txt


def test_save_load(tmp, rng):
    count = 0
    for idt, dtype in enumerate(DTYPES):
        nodatas = nodata_values(dtype)
        for ish, (nrows, ncols) in enumerate(SHAPES):
            for ig, (csz, xll, yll) in enumerate(GEOMS):
                # Not the full product: rotate through nodata
                nodata = nodatas[(ish*len(GEOMS)+ig) % len(nodatas)]
                what = f"save/load[{np.dtype(dtype).name},{nrows}x{ncols},"\
                       + f"geom{ig},nodata={nodata!r}]"
                g = Grid("g", ncols, nrows, cellsize=csz, xllcorner=xll,
                         yllcorner=yll, dtype=dtype, nodata=nodata,
                         comment="a comment")
                fill_grid(g, rng)
                ref = g.data.copy()

                fbil = tmp / f"g_{count}.bil"
                count += 1
                g.save(fbil)

                # saving does not change the grid
                check(g.data.tobytes() == ref.tobytes(),
                      what+": save alters data")

                # .. from_header (given bil or hdr)
                g2 = Grid.from_header(fbil)
                same_meta(g, g2, what+" from_header")
                same_values(g, g2, what+" from_header")

                if ig % 4 == 0:
                    g2 = Grid.from_header(str(fbil.with_suffix(".hdr")))
                    same_meta(g, g2, what+" from_header(hdr)")
                    same_values(g, g2, what+" from_header(hdr)")

                    # .. from_stream
                    with fbil.with_suffix(".hdr").open("r") as fh, \
                            fbil.open("rb") as fd:
                        g2 = Grid.from_stream(fh, fd)
                    same_meta(g, g2, what+" from_stream")
                    same_values(g, g2, what+" from_stream")

                    # header only : geometry without the values
                    with fbil.with_suffix(".hdr").open("r") as fh:
                        g2 = Grid.from_stream(fh)
                    same_meta(g, g2, what+" from_stream header only")

                # .. byte order M
                if ig % 3 == 0:
                    fbil_m = tmp / f"g_{count}_m.bil"
                    make_m_copy(fbil, fbil_m)
                    g2 = Grid.from_header(fbil_m)
                    same_meta(g, g2, what+" order M")
                    same_values(g, g2, what+" order M")

                # .. hand written headers for both orders
                if ig % 5 == 0:
                    for order, code in [("I", "<"), ("M", ">")]:
                        fb = tmp / f"g_{count}_{order}_hand.bil"
                        fb.with_suffix(".hdr").write_text(
                            handwritten_header(g, order))
                        dt = np.dtype(dtype).newbyteorder(code)
                        g.data.astype(dt).tofile(fb)
                        g2 = Grid.from_header(fb)
                        same_meta(g, g2, what+f" hand order {order}")
                        same_values(g, g2, what+f" hand order {order}")

                # .. load method in a grid of same geometry
                if ig % 7 == 0:
                    g3 = Grid("g3", ncols, nrows, dtype=dtype)
                    g3.load(str(fbil))
                    same_values(g, g3, what+" load(path)")
                    g3.fill(0)
                    with fbil.open("rb") as fd:
                        g3.load(fd, "<")
                    same_values(g, g3, what+" load(stream,<)")
                    if ig % 3 == 0:
                        g3.fill(0)
                        with fbil_m.open("rb") as fd:
                            g3.load(fd, ">")
                        same_values(g, g3, what+" load(stream,>)")

                # .. save again what was loaded -> same files
                if ig % 6 == 0:
                    g2 = Grid.from_header(fbil)
                    fbil2 = tmp / f"g_{count}_again.bil"
                    g2.save(fbil2)
                    check(fbil2.read_bytes() == fbil.read_bytes(),
                          what+" second save: bil differs")
                    g4 = Grid.from_header(fbil2)
                    same_meta(g, g4, what+" second save")
                    same_values(g, g4, what+" second save")

    # zip archive
    for dtype in [np.int16, np.uint64, np.float16, np.float64]:
        g = Grid("gz", 3, 2, cellsize=0.1, xllcorner=0.3, yllcorner=-0.7,
                 dtype=dtype, nodata=nodata_values(dtype)[1])
        fill_grid(g, rng)
        fbil = tmp / "sub_gz.bil"
        g.save(fbil)
        fzip = tmp / f"gz_{np.dtype(dtype).name}.zip"
        with zipfile.ZipFile(fzip, "w") as arch:
            arch.write(fbil, "subdir/gz.bil")
            arch.write(fbil.with_suffix(".hdr"), "subdir/gz.hdr")
        g2 = Grid.from_zip(fzip, "subdir/gz.hdr")
        what = f"from_zip[{np.dtype(dtype).name}]"
        same_meta(g, g2, what)
        same_values(g, g2, what)


# ---------------------------------------------------------------------
# 2. dictionary export
# ---------------------------------------------------------------------
def test_dict(rng):
    for dtype in DTYPES:
        for ish, (nrows, ncols) in enumerate(SHAPES):
            for ig, (csz, xll, yll) in enumerate(GEOMS):
                for nodata in nodata_values(dtype):
                    what = f"dict[{np.dtype(dtype).name},{nrows}x{ncols},"\
                           + f"geom{ig},nodata={nodata!r}]"
                    g = Grid("g", ncols, nrows, cellsize=csz, xllcorner=xll,
                             yllcorner=yll, dtype=dtype, nodata=nodata,
                             comment="a comment")
                    dic = g.to_dict()
                    check(isinstance(dic, dict), what+" is dict")
                    g2 = Grid.from_dict(dic)
                    same_meta(g, g2, what)
                    check(g2.name == g.name, what+" name")
                    check(g2.comment == g.comment, what+" comment")

                    # export does not depend on cell values
                    if ig == 0 and ish == 6:
                        fill_grid(g, rng)
                        g2 = Grid.from_dict(g.to_dict())
                        same_meta(g, g2, what+" with data")
                        # second generation
                        g3 = Grid.from_dict(g2.to_dict())
                        same_meta(g, g3, what+" 2nd generation")


# ---------------------------------------------------------------------
# 3. clone
# ---------------------------------------------------------------------
def test_clone(rng):
    for dtype in DTYPES:
        nodatas = nodata_values(dtype)
        for ish, (nrows, ncols) in enumerate(SHAPES):
            for ig, (csz, xll, yll) in enumerate(GEOMS):
                nodata = nodatas[(ish*len(GEOMS)+ig) % len(nodatas)]
                what = f"clone[{np.dtype(dtype).name},{nrows}x{ncols},"\
                       + f"geom{ig},nodata={nodata!r}]"
                g = Grid("g", ncols, nrows, cellsize=csz, xllcorner=xll,
                         yllcorner=yll, dtype=dtype, nodata=nodata,
                         comment="a comment")
                fill_grid(g, rng)
                ref = g.data.copy()

                c = g.clone()
                check(c is not g, what+" other object")
                check(isinstance(c, Grid), what+" is grid")
                same_meta(g, c, what)
                same_values(g, c, what)
                check(c.name == g.name and c.comment == g.comment,
                      what+" name/comment")
                check(not np.shares_memory(c.data, g.data),
                      what+" shares memory")

                # .. change clone : original unaffected
                c.data[0, 0] = np.dtype(dtype).type(1)
                c.fill(3)
                c[0] = 5
                c.data = np.zeros((nrows, ncols))
                c.name = "other"
                c.comment = "other comment"
                c.nodata = 7
                c.cellsize = 99.
                c.xllcorner = -99.
                c.yllcorner = -98.
                check(g.data.tobytes() == ref.tobytes(),
                      what+" original data altered by clone change")
                check(g.name == "g" and g.comment == "a comment",
                      what+" original name altered")
                check(same_nodata(g.nodata, np.dtype(dtype).type(nodata)),
                      what+" original nodata altered")
                check(bits(g.cellsize) == bits(csz)
                      and bits(g.xllcorner) == bits(xll)
                      and bits(g.yllcorner) == bits(yll),
                      what+" original geometry altered")

                # .. change original : clone unaffected
                c = g.clone()
                g.data[-1, -1] = np.dtype(dtype).type(2)
                g.fill(4)
                g.name = "changed"
                g.nodata = 1
                check(c.data.tobytes() == ref.tobytes(),
                      what+" clone data altered by original change")
                check(c.name == "g", what+" clone name altered")
                check(same_nodata(c.nodata, np.dtype(dtype).type(nodata)),
                      what+" clone nodata altered")

                # .. clone of clone
                cc = c.clone().clone()
                same_meta(c, cc, what+" clone of clone")
                same_values(c, cc, what+" clone of clone")

    # Clone with data bounds and additional attributes
    g = Grid("g", 4, 3, dtype=np.int32, nodata=-1)
    g.data = np.arange(12).reshape((3, 4))
    g.mindata = 2
    g.maxdata = 9
    g.info = {"list": [1, 2, 3]}
    c = g.clone()
    same_meta(g, c, "clone bounds")
    same_values(g, c, "clone bounds")
    check(c.mindata == 2 and c.maxdata == 9, "clone bounds kept")
    c.info["list"].append(4)
    check(g.info == {"list": [1, 2, 3]}, "clone attribute independent")
    c.mindata = 5
    check(g.data.min() == 2 and g.mindata == 2,
          "clone bounds independent")

    # Clone changing dtype : geometry kept, values cast
    for dt1 in DTYPES:
        g = Grid("g", 3, 2, cellsize=0.1, xllcorner=0.3, yllcorner=-0.7,
                 dtype=dt1, nodata=1)
        g.data = np.arange(6).reshape((2, 3))
        for dt2 in DTYPES:
            c = g.clone(dt2)
            what = f"clone[{np.dtype(dt1).name}->{np.dtype(dt2).name}]"
            check(np.dtype(c.dtype) == np.dtype(dt2), what+" dtype")
            check(c.data.dtype == np.dtype(dt2), what+" data dtype")
            check(np.array_equal(c.data, np.arange(6).reshape((2, 3))),
                  what+" values")
            check(np.dtype(g.dtype) == np.dtype(dt1)
                  and g.data.dtype == np.dtype(dt1), what+" original dtype")
            for att in ["cellsize", "xllcorner", "yllcorner"]:
                check(bits(getattr(g, att)) == bits(getattr(c, att)),
                      what+" "+att)
            check(c.shape == g.shape, what+" shape")
            check(not np.shares_memory(c.data, g.data), what+" memory")


# ---------------------------------------------------------------------
# 4. clip
# ---------------------------------------------------------------------
def check_clip(g, box, what, r0=None, r1=None, c0=None, c1=None):
    """ r0, r1, c0, c1 : expected rows and columns in parent
    (when they can be computed exactly) """
    xll, yll, xur, yur = box
    ref = g.data.copy()
    c = g.clip(xll, yll, xur, yur)

    check(isinstance(c, Grid), what+" is grid")
    check(g.data.tobytes() == ref.tobytes(), what+" parent altered")
    check(bits(c.cellsize) == bits(g.cellsize), what+" cellsize")
    check(np.dtype(c.dtype) == np.dtype(g.dtype), what+" dtype")
    check(c.data.dtype == np.dtype(g.dtype), what+" data dtype")
    check(same_nodata(c.nodata, g.nodata), what+" nodata")
    check(c.shape == (int(c.nrows), int(c.ncols)), what+" shape attr")
    check(c.nrows >= 1 and c.ncols >= 1, what+" not empty")
    check(c.nrows <= g.nrows and c.ncols <= g.ncols, what+" smaller")
    check(not np.shares_memory(c.data, g.data), what+" memory")

    # Every cell centre of the clipped grid is a cell centre of the parent
    # holding the same value
    idx = np.arange(int(c.nrows)*int(c.ncols))
    xy = c.cell2coord(idx)
    pidx = g.coord2cell(xy)
    check(np.all(pidx >= 0), what+" centres inside parent")
    if np.all(pidx >= 0):
        check(len(np.unique(pidx)) == len(idx), what+" one to one")
        pxy = g.cell2coord(pidx)
        tol = 1e-9*max(abs(float(g.cellsize)), 1e-300)
        check(np.allclose(pxy, xy, rtol=1e-12, atol=tol),
              what+" centres coincide")
        v1 = np.ascontiguousarray(g.data.flat[pidx])
        v2 = np.ascontiguousarray(c.data.flat[idx])
        check(v1.tobytes() == v2.tobytes(), what+" values at centres")

        # the clipped grid is the part of the parent containing the box
        pc = g.coord2cell([[xll, yll], [xur, yur]])
        check(pc[0] == pidx[-int(c.ncols)], what+" lower left cell")
        check(pc[1] == pidx[int(c.ncols)-1], what+" upper right cell")

    if r0 is not None:
        check(c.shape == (r1-r0+1, c1-c0+1), what+" expected shape")
        sub = np.ascontiguousarray(g.data[r0:r1+1, c0:c1+1])
        check(sub.tobytes() == c.data.tobytes(), what+" expected values")
        # dyadic geometry : exact corner
        check(float(c.xllcorner) == float(g.xllcorner)
              + c0*float(g.cellsize), what+" xllcorner")
        check(float(c.yllcorner) == float(g.yllcorner)
              + (int(g.nrows)-1-r1)*float(g.cellsize), what+" yllcorner")

    # clip is independent from parent
    c2 = g.clip(xll, yll, xur, yur)
    same_meta(c, c2, what+" second clip")
    same_values(c, c2, what+" second clip")
    c2.fill(1)
    c2.nodata = 3
    check(g.data.tobytes() == ref.tobytes(), what+" parent altered by fill")
    check(same_nodata(c.nodata, g.nodata), what+" nodata after change")
    return c


def test_clip(rng):
    # .. dyadic geometry : everything is exact
    for dtype in DTYPES:
        for nrows, ncols in SHAPES:
            for csz, xll, yll in [(1., 0., 0.), (2., 130., -39.),
                                  (0.25, -3.5, 1024.), (8., -64., -8.)]:
                g = Grid("g", ncols, nrows, cellsize=csz, xllcorner=xll,
                         yllcorner=yll, dtype=dtype,
                         nodata=nodata_values(dtype)[1])
                fill_grid(g, rng)
                what0 = f"clip[{np.dtype(dtype).name},{nrows}x{ncols},"\
                        + f"csz={csz}]"

                # Fractions within a cell : lower edge (included),
                # centre, close to upper edge (excluded)
                fracs = [0., 0.5, 0.25, 1-2.**-20]
                cases = []
                # whole grid
                cases.append((0, 0., ncols-1, fracs[3], 0, 0.,
                              nrows-1, fracs[3]))
                # single cells : corners
                for (ic, ir) in [(0, 0), (ncols-1, 0), (0, nrows-1),
                                 (ncols-1, nrows-1)]:
                    cases.append((ic, 0., ic, 0., ir, 0., ir, 0.))
                    cases.append((ic, 0.25, ic, 0.5, ir, 0.5, ir, fracs[3]))
                # random boxes
                for _ in range(6):
                    ca, cb = np.sort(rng.integers(0, ncols, 2))
                    ra, rb = np.sort(rng.integers(0, nrows, 2))
                    fa, fb, fc, fd = rng.choice(fracs, 4)
                    if ca == cb and fa > fb:
                        fa, fb = fb, fa
                    if ra == rb and fc > fd:
                        fc, fd = fd, fc
                    cases.append((ca, fa, cb, fb, ra, fc, rb, fd))

                for (ca, fa, cb, fb, ya, fc, yb, fd) in cases:
                    # ya, yb : row counted from bottom
                    bxll = xll+(ca+fa)*csz
                    bxur = xll+(cb+fb)*csz
                    byll = yll+(ya+fc)*csz
                    byur = yll+(yb+fd)*csz
                    r0 = nrows-1-int(yb)
                    r1 = nrows-1-int(ya)
                    what = what0+f" box=({bxll},{byll},{bxur},{byur})"
                    c = check_clip(g, (bxll, byll, bxur, byur), what,
                                   r0, r1, int(ca), int(cb))

                    # a clip can be clipped, saved, cloned, exported
                    cc = c.clone()
                    same_meta(c, cc, what+" clone of clip")
                    same_values(c, cc, what+" clone of clip")
                    c2 = Grid.from_dict(c.to_dict())
                    same_meta(c, c2, what+" dict of clip")

    # .. general geometry
    for dtype in [np.int8, np.uint64, np.float16, np.float64]:
        for nrows, ncols in SHAPES:
            for csz, xll, yll in [(0.0025, 145.44625, -18.29125),
                                  (0.1, 0.3, -0.7), (1./3, 2./3, -1e-7),
                                  (0.05, 112.0, -44.0),
                                  (1e-3, 1e3, -1e3),
                                  (123.456, -98765.4321, 1e6)]:
                g = Grid("g", ncols, nrows, cellsize=csz, xllcorner=xll,
                         yllcorner=yll, dtype=dtype,
                         nodata=nodata_values(dtype)[0])
                fill_grid(g, rng)
                what0 = f"clip general[{np.dtype(dtype).name},"\
                        + f"{nrows}x{ncols},csz={csz}]"
                for _ in range(6):
                    # corners well inside cells
                    ca, cb = np.sort(rng.integers(0, ncols, 2))
                    ra, rb = np.sort(rng.integers(0, nrows, 2))
                    fa, fb, fc, fd = rng.uniform(0.05, 0.95, 4)
                    if ca == cb and fa > fb:
                        fa, fb = fb, fa
                    if ra == rb and fc > fd:
                        fc, fd = fd, fc
                    bxll = xll+(ca+fa)*csz
                    bxur = xll+(cb+fb)*csz
                    byll = yll+(ra+fc)*csz
                    byur = yll+(rb+fd)*csz
                    what = what0+f" box=({bxll},{byll},{bxur},{byur})"
                    c = check_clip(g, (bxll, byll, bxur, byur), what)
                    check(c.shape == (rb-ra+1, cb-ca+1), what+" shape")
                    sub = np.ascontiguousarray(
                        g.data[nrows-1-rb:nrows-ra, ca:cb+1])
                    check(sub.tobytes() == c.data.tobytes(),
                          what+" values")
                    check(np.isclose(c.xllcorner, xll+ca*csz, rtol=1e-12,
                                     atol=1e-9*csz), what+" xll")
                    check(np.isclose(c.yllcorner, yll+ra*csz, rtol=1e-12,
                                     atol=1e-9*csz), what+" yll")


# ---------------------------------------------------------------------
# 5. catchments
# ---------------------------------------------------------------------
def same_catchment(ca, ca2, what):
    check(ca2.idxcell_outlet == ca.idxcell_outlet, what+" outlet")
    check(int(ca2.idxcell_outlet) == int(ca.idxcell_outlet),
          what+" outlet int")
    if ca.idxinlets is None:
        check(ca2.idxinlets is None, what+" no inlets")
    else:
        check(ca2.idxinlets is not None, what+" has inlets")
        if ca2.idxinlets is not None:
            check([int(i) for i in ca2.idxinlets]
                  == [int(i) for i in ca.idxinlets], what+" inlets")

    for att in ["idxcells_area", "idxcells_area_filled"]:
        a = np.asarray(getattr(ca, att))
        b = np.asarray(getattr(ca2, att))
        check(a.shape == b.shape and np.array_equal(a, b), what+" "+att)
        check(b.dtype.kind == "i", what+" "+att+" integer")

    check(ca2.name == ca.name, what+" name")
    # (the flow direction grid of a catchment is converted to int64
    # keeping its nodata object: value compared, not its type)
    same_meta(ca.flowdir, ca2.flowdir, what+" flowdir",
              exact_nodata_dtype=False)


def test_catchment():
    fd = Grid("fd", 6, 6, dtype=np.int32, nodata=-1, cellsize=0.05,
              xllcorner=145.1, yllcorner=-18.3)
    fd.data = [[0, 4, 4, 4, 0, 0],
               [0, 4, 4, 8, 0, 0],
               [0, 2, 4, 8, 0, 0],
               [0, 0, 2, 0, 0, 0],
               [0, 0, 0, 4, 0, 0],
               [0, 0, 0, 0, 0, 0]]

    # A flow direction grid with a hole in the area
    fd2 = Grid("fd2", 5, 5, dtype=np.int64, nodata=0)
    fd2.data = [[2, 4, 4, 4, 8],
                [1, 2, 4, 8, 16],
                [1, 1, 0, 16, 16],
                [1, 128, 4, 32, 16],
                [128, 1, 4, 16, 32]]
    fd2.data[2, 2] = 0

    cases = [(fd, 27, None), (fd, 12, None), (fd, 14, None),
             (fd, 27, 14), (fd, 27, [14, 13]), (fd, 27, [14]),
             (fd, 27, np.array([13, 14])), (fd, 0, None),
             (fd, 35, None), (fd, 20, [14, 1]),
             (fd2, 22, None), (fd2, 22, [7]), (fd2, 22, [6, 8]),
             (fd2, 12, None), (fd2, 24, None)]

    for flowdir, outlet, inlets in cases:
        what = f"catchment[{flowdir.name},{outlet},{inlets}]"
        ca = Catchment("ca", flowdir)
        if inlets is None:
            ca.delineate_area(outlet)
        else:
            ca.delineate_area(outlet, inlets)

        dic = ca.to_dict()
        check(isinstance(dic, dict), what+" dict")
        ca2 = Catchment.from_dict(dic)
        same_catchment(ca, ca2, what)

        # .. second generation
        ca3 = Catchment.from_dict(ca2.to_dict())
        same_catchment(ca, ca3, what+" 2nd generation")

        # .. with boundary delineated (not exported, must not interfere)
        if len(ca.idxcells_area) > 0:
            ca.delineate_boundary()
            ca4 = Catchment.from_dict(ca.to_dict())
            same_catchment(ca, ca4, what+" with boundary")

        # .. rebuilt catchment does not depend on later changes of
        #    the source
        area = np.array(ca.idxcells_area).copy()
        ca5 = Catchment.from_dict(ca.to_dict())
        ca.delineate_area(27 if flowdir is fd else 22)
        check(np.array_equal(ca5.idxcells_area, area),
              what+" independent of source")

    # same catchment used twice (history)
    ca = Catchment("ca", fd)
    ca.delineate_area(27, [14, 13])
    ca.delineate_area(14)
    ca2 = Catchment.from_dict(ca.to_dict())
    # The inlets of the first call remain (original behaviour): whatever
    # they are, the rebuilt catchment has the same
    same_catchment(ca, ca2, "catchment[history]")

    # clone
    cc = ca.clone()
    same_catchment(ca, cc, "catchment[clone]")


def main():
    rng = np.random.default_rng(5446)
    with tempfile.TemporaryDirectory() as tmp:
        tmp = Path(tmp)
        test_save_load(tmp, rng)
    test_dict(rng)
    test_clone(rng)
    test_clip(rng)
    test_catchment()

    print(f"{NCHECKS} checks, {len(FAILURES)} failures")
    if FAILURES:
        sys.exit(1)
    print("C13 demo OK")
    sys.exit(0)


if __name__ == "__main__":
    main()
