#!/usr/bin/env python
"""Property C15 demo: point-in-polygon answers agree with the even-odd rule.

Run as
    PYTHONPATH=<tree>/src /venv/bin/python demo.py

The reference ("oracle") is an exact even-odd crossing count in rational
arithmetic (fractions.Fraction), so it is free of rounding. Only query points
that are farther than 2e-6 x polygon size from every edge are compared (the
property is stated for distance > 1e-6 x size; the factor 2 keeps the float
error of the distance computation itself out of the picture).

Checked:
 * random (mostly self-intersecting), star-shaped, convex, hand-made rectilinear
   and lattice polygons rich in horizontal / vertical / collinear edges,
   repeated vertices and back-tracking spikes;
 * query points inside and outside the bounding box, level with vertices
   (same y and/or same x as a vertex), hugging every edge at 3e-6 x size on
   both sides, far away, 0 / 1 / 2 points only;
 * every rotation of the vertex list, its reversal, closed and open lists;
 * translation and scaling of polygon and points together;
 * the `inside=` preallocated buffer (pre-filled with garbage);
 * calls where all / none / some of the points are in the bounding box, and
   direct calls of c_hydrodiy_gis.points_inside_polygon with a zeroed buffer;
 * Grid.cells_inside_polygon returns exactly the cells whose centres are inside
   (compared as sets, order not constrained).
Exit status 0 = all good.
"""
import sys
from fractions import Fraction as F

import numpy as np

from hydrodiy.gis import gutils
from hydrodiy.gis.grid import Grid

RNG = np.random.default_rng(20150915)
MARGIN = 2e-6        # x polygon size; property promises 1e-6
MINDIFF = 1e-4       # coordinates are equal or differ by >= 1e4 x atol
NERR = 0
STATS = {"polygons": 0, "calls": 0, "points_compared": 0,
         "points_skipped_near_edge": 0, "transforms_skipped": 0,
         "grid_cells_compared": 0}


def fail(msg):
    global NERR
    NERR += 1
    if NERR <= 20:
        print("FAIL:", msg)


# ---------------------------------------------------------------- oracle ---
def oracle(points, polygon):
    """ Exact even-odd rule. Points must not be on the boundary. """
    poly = np.asarray(polygon, dtype=np.float64)
    pts = np.asarray(points, dtype=np.float64)
    nv = len(poly)
    out = np.zeros(len(pts), dtype=np.int64)
    fpoly = [(F(float(a)), F(float(b))) for a, b in poly]
    for i, (x, y) in enumerate(pts):
        x, y = float(x), float(y)
        fx = fy = None
        ncross = 0
        for k in range(nv):
            ay = poly[k, 1]
            by = poly[(k+1) % nv, 1]
            # half-open straddle test done on the floats themselves (exact)
            if (ay <= y < by) or (by <= y < ay):
                if fx is None:
                    fx, fy = F(x), F(y)
                (ax_, ay_), (bx_, by_) = fpoly[k], fpoly[(k+1) % nv]
                xint = ax_ + (fy-ay_)*(bx_-ax_)/(by_-ay_)
                if fx < xint:
                    ncross += 1
        out[i] = ncross % 2
    return out


def polygon_size(polygon):
    poly = np.asarray(polygon, dtype=np.float64)
    return float(max(np.ptp(poly[:, 0]), np.ptp(poly[:, 1])))


def dist_to_boundary(points, polygon):
    poly = np.asarray(polygon, dtype=np.float64)
    pts = np.asarray(points, dtype=np.float64)
    a = poly
    b = np.roll(poly, -1, axis=0)
    d = np.full(len(pts), np.inf)
    for p, q in zip(a, b):
        pq = q-p
        l2 = float(pq @ pq)
        if l2 == 0.:
            dd = np.hypot(*(pts-p).T)
        else:
            t = np.clip(((pts-p) @ pq)/l2, 0., 1.)
            proj = p+t[:, None]*pq
            dd = np.hypot(*(pts-proj).T)
        d = np.minimum(d, dd)
    return d


def in_quantifier_polygon(polygon):
    """ >= 3 vertices and all coordinates either equal or clearly apart """
    poly = np.asarray(polygon, dtype=np.float64)
    if len(poly) < 3 or not np.all(np.isfinite(poly)):
        return False
    for j in range(2):
        u = np.unique(poly[:, j])
        if len(u) > 1 and np.diff(u).min() < MINDIFF:
            return False
    return polygon_size(poly) > 0


def mask_points(points, polygon):
    return dist_to_boundary(points, polygon) > MARGIN*polygon_size(polygon)


# ----------------------------------------------------------- library call ---
def call(points, polygon, use_buffer=False):
    STATS["calls"] += 1
    points = np.asarray(points)
    if use_buffer:
        buf = np.full(len(points), 7, dtype=np.int32)   # garbage on entry
        out = gutils.points_inside_polygon(points, polygon, inside=buf)
        if not np.array_equal(out, buf):
            fail("inside= buffer and returned value differ")
        out = buf
    else:
        out = gutils.points_inside_polygon(points, polygon)
    out = np.asarray(out)
    if out.shape != (len(points),):
        fail(f"bad output shape {out.shape} for {len(points)} points")
    if out.dtype != np.int32:
        fail(f"bad output dtype {out.dtype}")
    if not np.all((out == 0) | (out == 1)):
        fail(f"output not in {{0, 1}}: {np.unique(out)}")
    return out.astype(np.int64)


def compare(tag, points, polygon, expected, mask, use_buffer=False):
    got = call(points, polygon, use_buffer)
    bad = np.flatnonzero((got != expected) & mask)
    STATS["points_compared"] += int(mask.sum())
    if len(bad):
        i = bad[0]
        fail(f"{tag}: {len(bad)} wrong answers, first: point "
             f"{np.asarray(points)[i].tolist()} got {got[i]} "
             f"expected {expected[i]}\n   polygon="
             f"{np.asarray(polygon).tolist()}")
    return got


# --------------------------------------------------------- query points ---
def query_points(polygon, nrandom=40):
    poly = np.asarray(polygon, dtype=np.float64)
    x0, x1 = poly[:, 0].min(), poly[:, 0].max()
    y0, y1 = poly[:, 1].min(), poly[:, 1].max()
    size = polygon_size(poly)
    pts = []
    # random inside bbox and in a band around it
    pts.append(np.column_stack([RNG.uniform(x0, x1, nrandom),
                                RNG.uniform(y0, y1, nrandom)]))
    pts.append(np.column_stack([RNG.uniform(x0-size/2, x1+size/2, nrandom//2),
                                RNG.uniform(y0-size/2, y1+size/2,
                                            nrandom//2)]))
    # level with vertices: same y as a vertex, x anywhere (in / out of bbox);
    # same x as a vertex, y anywhere; same x as one vertex and y as another
    nv = len(poly)
    for k in range(nv):
        xs = RNG.uniform(x0-size/4, x1+size/4, 3)
        pts.append(np.column_stack([xs, np.full(3, poly[k, 1])]))
        ys = RNG.uniform(y0-size/4, y1+size/4, 2)
        pts.append(np.column_stack([np.full(2, poly[k, 0]), ys]))
        j = RNG.integers(nv)
        pts.append(np.array([[poly[k, 0], poly[j, 1]]]))
        # mid-height between two vertices, mid-abscissa
        pts.append(np.array([[0.5*(poly[k, 0]+poly[j, 0]),
                              0.5*(poly[k, 1]+poly[j, 1])]]))
    # hugging each edge on both sides at 3e-6 x size, and each vertex
    for k in range(nv):
        p, q = poly[k], poly[(k+1) % nv]
        e = q-p
        ln = np.hypot(*e)
        if ln == 0:
            continue
        nrm = np.array([-e[1], e[0]])/ln
        for t in (0.0, 0.31, 0.5, 1.0):
            for sgn in (-1, 1):
                pts.append((p+t*e+sgn*3e-6*size*nrm)[None, :])
        for dx, dy in ((1, 0), (-1, 0), (0, 1), (0, -1)):
            pts.append((p+3e-6*size*np.array([dx, dy]))[None, :])
    # just outside / exactly level with the bounding box sides, far away
    eps = 1e-5*size
    xm, ym = 0.5*(x0+x1), 0.5*(y0+y1)
    pts.append(np.array([
        [x0-eps, ym], [x1+eps, ym], [xm, y0-eps], [xm, y1+eps],
        [x0, y0-eps], [x1, y1+eps], [x0-eps, y0], [x1+eps, y1],
        [x0-eps, y1], [x1+eps, y0],
        [x0-1e3*size, ym], [x1+1e3*size, ym], [xm, y0-1e3*size],
        [xm, y1+1e3*size], [x0-1e6*size, y0], [x1+1e6*size, y1],
        [x0, y0+0.37*(y1-y0)], [x1, y0+0.37*(y1-y0)],
        [x0+0.37*(x1-x0), y0], [x0+0.37*(x1-x0), y1]]))
    return np.concatenate(pts, axis=0)


# ------------------------------------------------------------ one polygon ---
TRANSFORMS = [
    (1.0, 1000.0, -1000.0), (1.0, 12345.678, 0.125), (2.0, 0.0, 0.0),
    (0.5**7, 0.0, 0.0), (2.0**20, 0.0, 0.0), (1e-2, 0.3, -0.7),
    (1e3, 0.0, 0.0), (37.7, -5.5, 2.25), (1e6, 1e6, -3e6), (-1.0, 0.0, 0.0)]


def check_polygon(tag, polygon, points=None, variants=True, transforms=True):
    polygon = np.asarray(polygon)
    if not in_quantifier_polygon(polygon):
        return False
    STATS["polygons"] += 1
    if points is None:
        points = query_points(polygon)
    points = np.asarray(points)
    mask = mask_points(points, polygon)
    STATS["points_skipped_near_edge"] += int((~mask).sum())
    expected = oracle(points, polygon)
    compare(tag, points, polygon, expected, mask)
    compare(tag+"/buffer", points, polygon, expected, mask, use_buffer=True)

    # few points only: 0, 1, 2
    for npt in (0, 1, 2):
        compare(tag+f"/npoints={npt}", points[:npt], polygon,
                expected[:npt], mask[:npt])
    k = int(RNG.integers(len(points)))
    compare(tag+"/single", points[k:k+1], polygon, expected[k:k+1],
            mask[k:k+1])

    nv = len(polygon)
    if variants:
        closed_already = np.array_equal(polygon[0], polygon[-1])
        for rev in (False, True):
            base = polygon[::-1] if rev else polygon
            for r in range(nv):
                rot = np.roll(base, r, axis=0)
                compare(tag+f"/rev={rev}/rot={r}", points, rot,
                        expected, mask)
                if not closed_already:
                    clo = np.concatenate([rot, rot[:1]], axis=0)
                    compare(tag+f"/rev={rev}/rot={r}/closed", points, clo,
                            expected, mask, use_buffer=(r % 2 == 0))
        if closed_already:
            # open version of a closed list, every starting vertex
            op = polygon[:-1]
            if len(op) >= 3:
                for r in range(len(op)):
                    compare(tag+f"/opened/rot={r}", points,
                            np.roll(op, r, axis=0), expected, mask)

    if transforms:
        fpoly = polygon.astype(np.float64)
        fpts = points.astype(np.float64)
        for s, tx, ty in TRANSFORMS:
            if s < 0:
                # point reflection through the origin (scale -1)
                tpoly, tpts = -fpoly, -fpts
            else:
                t = np.array([tx, ty])
                tpoly, tpts = s*fpoly+t, s*fpts+t
            if not in_quantifier_polygon(tpoly):
                STATS["transforms_skipped"] += 1
                continue
            tmask = mask & mask_points(tpts, tpoly)
            compare(tag+f"/transform={s},{tx},{ty}", tpts, tpoly,
                    expected, tmask)
    return True


# -------------------------------------------------------------- families ---
def random_polygon(nv):
    return RNG.uniform(-1, 1, size=(nv, 2))


def star_polygon(nv):
    ang = np.sort(RNG.uniform(0, 2*np.pi, nv))
    rad = RNG.uniform(0.2, 1.0, nv)
    c = RNG.uniform(-3, 3, 2)
    return c+np.column_stack([rad*np.cos(ang), rad*np.sin(ang)])


def regular_polygon(nv, phase=0.1):
    ang = phase+2*np.pi*np.arange(nv)/nv
    return np.column_stack([np.cos(ang), np.sin(ang)])


def lattice_polygon(nv, m=4):
    poly = RNG.integers(0, m+1, size=(nv, 2))
    # sprinkle consecutive duplicates
    if RNG.uniform() < 0.4:
        k = int(RNG.integers(nv))
        poly = np.insert(poly, k, poly[k], axis=0)
    return poly


def lattice_points(m=4):
    u = np.arange(-1, m+1.01, 0.5)
    xx, yy = np.meshgrid(u, u)
    return np.column_stack([xx.ravel(), yy.ravel()])


HANDMADE = {
    "triangle": [[-1.0, -1.0], [0.0, 1.0], [1.0, 0.0]],
    "unit_square": [[0, 0], [1, 0], [1, 1], [0, 1]],
    "square_with_collinear": [[0, 0], [1, 0], [2, 0], [2, 1], [2, 2],
                              [1, 2], [0, 2], [0, 1]],
    "L": [[0, 0], [4, 0], [4, 1], [1, 1], [1, 4], [0, 4]],
    "U": [[0, 0], [5, 0], [5, 4], [4, 4], [4, 1], [1, 1], [1, 4], [0, 4]],
    "comb": [[0, 0], [7, 0], [7, 3], [6, 3], [6, 1], [5, 1], [5, 3], [4, 3],
             [4, 1], [3, 1], [3, 3], [2, 3], [2, 1], [1, 1], [1, 3], [0, 3]],
    "staircase": [[0, 0], [4, 0], [4, 4], [3, 4], [3, 3], [2, 3], [2, 2],
                  [1, 2], [1, 1], [0, 1]],
    "bowtie": [[0, 0], [2, 2], [2, 0], [0, 2]],
    "pentagram": regular_polygon(5)[[0, 2, 4, 1, 3]].tolist(),
    "spike": [[0, 0], [4, 0], [4, 2], [6, 2], [4, 2], [4, 4], [0, 4]],
    "vertical_spike": [[0, 0], [4, 0], [4, 4], [2, 4], [2, 6], [2, 4],
                       [0, 4]],
    "repeated": [[0, 0], [0, 0], [3, 0], [3, 0], [3, 3], [0, 3], [0, 3]],
    "double_loop": [[0, 0], [3, 0], [3, 3], [0, 3], [0, 0], [3, 0], [3, 3],
                    [0, 3]],
    "diamond": [[0, 1], [1, 0], [2, 1], [1, 2]],
    "zero_area": [[0, 0], [1, 1], [2, 2]],
    "zero_area_h": [[0, 0], [2, 0], [1, 0]],
    "zero_area_v": [[0, 0], [0, 2], [0, 1]],
    "hole_by_bridge": [[0, 0], [6, 0], [6, 6], [0, 6], [0, 0], [2, 2],
                       [2, 4], [4, 4], [4, 2], [2, 2]],
    "overlap_squares": [[0, 0], [4, 0], [4, 4], [0, 4], [0, 0], [2, 2],
                        [6, 2], [6, 6], [2, 6], [2, 2]],
    "vertex_touch": [[0, 0], [2, 2], [4, 0], [4, 4], [2, 2], [0, 4]],
    "sawtooth": [[0, 0], [1, 2], [2, 0], [3, 2], [4, 0], [5, 2], [6, 0],
                 [6, -1], [0, -1]],
}


def check_handmade():
    for name, poly in HANDMADE.items():
        poly = np.array(poly)
        for dtype in (np.float64, np.int64, np.float32):
            if dtype is np.int64 and not np.all(poly == np.round(poly)):
                continue
            p = poly.astype(dtype)
            # dedicated lattice of query points + the generic ones
            x0, y0 = p.min(axis=0)
            x1, y1 = p.max(axis=0)
            u = np.arange(np.floor(x0)-1, np.ceil(x1)+1.01, 0.25)
            v = np.arange(np.floor(y0)-1, np.ceil(y1)+1.01, 0.25)
            xx, yy = np.meshgrid(u, v)
            lat = np.column_stack([xx.ravel(), yy.ravel()])
            if len(lat) > 500:
                lat = lat[RNG.choice(len(lat), 500, replace=False)]
            pts = np.concatenate([lat, query_points(p, 20)], axis=0)
            ok = check_polygon(f"handmade/{name}/{np.dtype(dtype).name}",
                               p, pts, transforms=(dtype is np.float64))
            if not ok:
                fail(f"handmade polygon {name} rejected by the demo's own "
                     "quantifier filter")


def check_random():
    n = 0
    for nv in list(range(3, 13))*3:
        n += check_polygon(f"random/nv={nv}", random_polygon(nv))
    for nv in list(range(3, 13))*2 + [25, 60]:
        n += check_polygon(f"star/nv={nv}", star_polygon(nv),
                           variants=nv < 20)
    for nv in (3, 4, 5, 6, 8, 16):
        for phase in (0.0, 0.1):
            # phase 0: axis aligned, vertices at the same height pairwise
            poly = regular_polygon(nv, phase)
            if phase == 0.0:
                poly = np.round(poly, 6)   # make mirrored vertices level
            n += check_polygon(f"regular/nv={nv}/phase={phase}", poly)
    return n


def check_lattice():
    pts0 = lattice_points()
    n = 0
    for it in range(120):
        nv = int(RNG.integers(3, 11))
        poly = lattice_polygon(nv)
        if polygon_size(poly) == 0:
            continue
        pts = np.concatenate([pts0, query_points(poly, 10)], axis=0)
        n += check_polygon(f"lattice/{it}", poly, pts,
                           transforms=(it % 4 == 0))
    # the same with float lattice of pitch 0.25 offset by a non-dyadic number
    for it in range(30):
        nv = int(RNG.integers(3, 9))
        poly = 0.1+0.3*lattice_polygon(nv)
        if polygon_size(poly) == 0:
            continue
        pts = np.concatenate([0.1+0.3*pts0, query_points(poly, 10)], axis=0)
        n += check_polygon(f"lattice-float/{it}", poly, pts,
                           transforms=(it % 4 == 0))
    return n


# ------------------------------------------------------------------ grid ---
def check_grid():
    cases = []
    tri = np.array([[0.5, 2.3], [7.2, 9.5], [6.2, 2.2]])
    cases.append((dict(ncols=10, nrows=10), tri))
    cases.append((dict(ncols=10, nrows=10), np.array(HANDMADE["U"])+1.0))
    cases.append((dict(ncols=10, nrows=10), np.array(HANDMADE["comb"])+1.0))
    cases.append((dict(ncols=9, nrows=7),
                  np.array(HANDMADE["overlap_squares"])+0.0))
    cases.append((dict(ncols=13, nrows=7, cellsize=0.5, xllcorner=-2.0,
                       yllcorner=10.0),
                  np.array([[-1.9, 10.1], [4.0, 10.3], [3.3, 13.2],
                            [0.1, 11.0], [-1.2, 13.4]])))
    cases.append((dict(ncols=20, nrows=15, cellsize=250., xllcorner=3.1e5,
                       yllcorner=6.2e6),
                  np.array([3.1e5, 6.2e6])+250.*star_polygon(9)*2
                  + np.array([2500., 1900.])))
    cases.append((dict(ncols=6, nrows=6), np.array([[20., 20.], [30., 20.],
                                                     [25., 30.]])))  # none
    cases.append((dict(ncols=6, nrows=6), np.array([[-1., -1.], [7., -1.],
                                                     [7., 7.], [-1., 7.]])))
    cases.append((dict(ncols=1, nrows=1), np.array([[0., 0.], [1., 0.],
                                                     [1., 1.], [0., 1.]])))
    cases.append((dict(ncols=2, nrows=1), np.array([[0., 0.], [1., 0.],
                                                     [1., 1.], [0., 1.]])))
    for icase, (kw, poly) in enumerate(cases):
        if not in_quantifier_polygon(poly):
            fail(f"grid case {icase}: polygon outside quantifier")
            continue
        for variant in range(3):
            p = poly
            if variant == 1:
                p = np.roll(poly[::-1], 2, axis=0)
            elif variant == 2:
                p = np.concatenate([poly, poly[:1]], axis=0)
            gr = Grid("demo", dtype=np.int32, **kw)
            res = gr.cells_inside_polygon(p)
            nr, nc = int(gr.nrows), int(gr.ncols)
            csz = float(kw.get("cellsize", 1.))
            xll = float(kw.get("xllcorner", 0.))
            yll = float(kw.get("yllcorner", 0.))
            cells = np.arange(nr*nc)
            row, col = cells//nc, cells % nc
            centres = np.column_stack([xll+csz*(col+0.5),
                                       yll+csz*(nr-1-row+0.5)])
            mask = mask_points(centres, poly)
            exp = oracle(centres, poly)
            STATS["grid_cells_compared"] += int(mask.sum())
            if list(res.columns) != ["x", "y", "cell"]:
                fail(f"grid case {icase}: columns {list(res.columns)}")
                continue
            got_cells = np.asarray(res["cell"]).astype(np.int64)
            if len(set(got_cells.tolist())) != len(got_cells):
                fail(f"grid case {icase}: duplicated cells")
            if np.any((got_cells < 0) | (got_cells >= nr*nc)):
                fail(f"grid case {icase}: cell number out of range")
                continue
            got = np.zeros(nr*nc, dtype=np.int64)
            got[got_cells] = 1
            bad = np.flatnonzero((got != exp) & mask)
            if len(bad):
                fail(f"grid case {icase}/{variant}: cells {bad.tolist()} "
                     f"wrong (got {got[bad].tolist()})")
            # x, y columns are the centres of the listed cells
            xy = np.column_stack([res["x"], res["y"]])
            if not np.allclose(xy, centres[got_cells], rtol=1e-12,
                               atol=0.):
                fail(f"grid case {icase}: x/y do not match cell centres")
            # explicit default tolerance gives the same set
            res2 = gr.cells_inside_polygon(p, atol=1e-8)
            if set(np.asarray(res2["cell"]).tolist()) \
                    != set(got_cells.tolist()):
                fail(f"grid case {icase}: atol=1e-8 changes the answer")


def check_misc():
    """ keyword forms inside the quantifier """
    poly = np.array(HANDMADE["triangle"])
    pts = np.array([[0.2, 0.2], [1.0, 1.0], [-0.2, -0.2], [1e-30, 1e-30],
                    [10., 10.]])
    exp = np.array([1, 0, 1, 1, 0])
    for kw in ({}, {"atol": 1e-8}, {"nprint": 0}, {"atol": 1e-8, "nprint": 0}):
        got = gutils.points_inside_polygon(pts, poly, **kw)
        if not np.array_equal(got, exp):
            fail(f"triangle with {kw}: got {got}")
    # the inputs are not modified
    p0, q0 = poly.copy(), pts.copy()
    gutils.points_inside_polygon(pts, poly)
    if not (np.array_equal(p0, poly) and np.array_equal(q0, pts)):
        fail("inputs modified in place")
    # integer points
    ipts = np.array([[1, 1], [3, 3], [5, 1], [2, 5]])
    U = np.array(HANDMADE["U"])
    m = mask_points(ipts, U)
    compare("int-points", ipts, U, oracle(ipts, U), m)
    # the buffer is reused across calls with different polygons
    buf = np.zeros(len(pts), dtype=np.int32)
    for poly2 in (poly, poly+5., poly, -poly):
        gutils.points_inside_polygon(pts, poly2, inside=buf)
        m = mask_points(pts, poly2)
        e = oracle(pts, poly2)
        if np.any((buf != e) & m):
            fail("reused buffer gives wrong answer")


def check_box_partitions():
    """ all points in the bounding box / none / mixed, with and without
    preallocated buffer, plus direct calls to the compiled wrapper with a
    zero-initialised buffer (as gutils does) """
    import c_hydrodiy_gis
    for name in ("U", "bowtie", "pentagram", "comb", "triangle", "sawtooth"):
        poly = np.array(HANDMADE[name], dtype=np.float64)
        pts = query_points(poly, 60)
        x0, y0 = poly.min(axis=0)
        x1, y1 = poly.max(axis=0)
        inbox = (pts[:, 0] >= x0) & (pts[:, 0] <= x1) \
            & (pts[:, 1] >= y0) & (pts[:, 1] <= y1)
        mask = mask_points(pts, poly)
        exp = oracle(pts, poly)
        if np.any(exp[~inbox & mask] != 0):
            fail("oracle says a point outside the bounding box is inside")
        for tag, sel in (("in", inbox), ("out", ~inbox),
                         ("mixed", np.ones(len(pts), bool)),
                         ("in+1out", inbox | (np.cumsum(~inbox) == 1)),
                         ("out+1in", ~inbox | (np.cumsum(inbox) == 1))):
            for buf in (False, True):
                compare(f"box/{name}/{tag}/{buf}", pts[sel], poly, exp[sel],
                        mask[sel], use_buffer=buf)
            # direct call of the compiled module
            p = np.ascontiguousarray(pts[sel])
            ins = np.zeros(len(p), dtype=np.int32)
            ierr = c_hydrodiy_gis.points_inside_polygon(1e-8, 0, p, poly, ins)
            if ierr != 0:
                fail(f"direct call returns {ierr}")
            if np.any((ins != exp[sel]) & mask[sel]):
                fail(f"direct call box/{name}/{tag} wrong")


def main():
    check_misc()
    check_box_partitions()
    check_handmade()
    nr = check_random()
    nl = check_lattice()
    check_grid()
    print("stats:", STATS, "random/star/regular:", nr, "lattice:", nl)
    if STATS["points_compared"] < 100000 or nr < 60 or nl < 100:
        fail("demo did not exercise enough cases")
    if NERR:
        print(f"{NERR} FAILURES")
        sys.exit(1)
    print("C15 demo OK")
    sys.exit(0)


if __name__ == "__main__":
    main()
