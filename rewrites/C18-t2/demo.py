""" C18 demo (rewrite r2: input validation moved earlier / from the C kernels
to the Python wrappers: Anderson-Darling test, Catchment.delineate_area,
upstream, downstream, delineate_river). Checks that arguments are left
untouched, that two calls agree (with the same seed where randomness is
involved), and that accepted / refused inputs are the same kind of answer
(a result, or a ValueError) whatever the layout of the input.

Run as: PYTHONPATH=<tree>/src /venv/bin/python demo.py
"""
import sys
import warnings
import numpy as np
import pandas as pd

warnings.filterwarnings("ignore")

from hydrodiy.gis.grid import Grid, Catchment, delineate_river
from hydrodiy.stat import metrics

NFAIL = 0
NCHECK = 0


def fail(msg):
    global NFAIL
    NFAIL += 1
    print("FAIL:", msg)


# ---------- snapshots of arguments -------------------------------------
def snap(a):
    """ Bit-for-bit snapshot of an argument """
    if isinstance(a, Grid):
        # grids: cell values (and geometry)
        return ("grid", a.nrows, a.ncols, a.cellsize, a.xllcorner,
                a.yllcorner, np.array(a.data, dtype=np.float64).tobytes())
    if isinstance(a, np.ndarray):
        return ("nd", str(a.dtype), a.shape, a.strides,
                np.ascontiguousarray(a).tobytes(), a.flags["WRITEABLE"])
    if isinstance(a, pd.Series):
        return ("se", str(a.dtype), a.shape, a.values.tobytes(),
                tuple(a.index), a.name)
    if isinstance(a, pd.DataFrame):
        return ("df", tuple(map(str, a.dtypes)), a.shape,
                np.ascontiguousarray(a.values).tobytes(),
                tuple(a.index), tuple(a.columns))
    if isinstance(a, (list, tuple)):
        return ("seq", type(a).__name__, tuple(snap(x) for x in a))
    return ("obj", repr(a))


# ---------- equality of results ----------------------------------------
def same(x, y):
    if isinstance(x, Grid):
        return isinstance(y, Grid) and snap(x) == snap(y) \
            and x.dtype == y.dtype
    if isinstance(x, np.ndarray):
        return isinstance(y, np.ndarray) and x.dtype == y.dtype \
            and x.shape == y.shape \
            and np.ascontiguousarray(x).tobytes() == \
            np.ascontiguousarray(y).tobytes()
    if isinstance(x, (pd.Series, pd.DataFrame)):
        return type(x) is type(y) and snap(x) == snap(y)
    if isinstance(x, dict):
        return isinstance(y, dict) and list(x) == list(y) \
            and all(same(x[k], y[k]) for k in x)
    if isinstance(x, (list, tuple)):
        return type(x) is type(y) and len(x) == len(y) \
            and all(same(u, v) for u, v in zip(x, y))
    if isinstance(x, (float, np.floating)):
        return type(x) is type(y) and (x == y or (x != x and y != y))
    if isinstance(x, BaseException):
        return type(x) is type(y)
    return type(x) is type(y) and x == y


def run(fun, *args, **kwargs):
    try:
        return fun(*args, **kwargs)
    except Exception as err:
        return err


def check(label, fun, *args, **kwargs):
    """ Call fun twice: arguments untouched, same answer """
    global NCHECK
    NCHECK += 1
    before = snap(list(args)) + snap(list(kwargs.values()))
    r1 = run(fun, *args, **kwargs)
    mid = snap(list(args)) + snap(list(kwargs.values()))
    r2 = run(fun, *args, **kwargs)
    after = snap(list(args)) + snap(list(kwargs.values()))
    if before != mid or before != after:
        fail(f"{label}: arguments modified")
    if not same(r1, r2):
        fail(f"{label}: two calls differ: {r1!r} / {r2!r}")
    return r1



def seeded(fun, seed=5446):
    """ Same random seed before each call """
    def wrapped(*args, **kwargs):
        np.random.seed(seed)
        return fun(*args, **kwargs)
    return wrapped


def layouts(x):
    """ Same numbers, different layouts (all inside the quantifier) """
    x = np.ascontiguousarray(x, dtype=np.float64)
    wide = np.full((len(x), 3), 0.5)
    wide[:, 1] = x
    strided = np.full(2*len(x), 0.25)
    strided[::2] = x
    out = {"c": x.copy(), "col": wide[:, 1], "step": strided[::2],
           "rev": x[::-1].copy()[::-1], "series": pd.Series(x.copy()),
           "series_idx": pd.Series(x.copy(), index=np.arange(len(x))[::-1])}
    if np.all(x == np.round(x)):
        out["int64"] = x.astype(np.int64)
        out["int32"] = x.astype(np.int32)[::1]
    return out


def ad_checks():
    rng = np.random.RandomState(42)
    samples = {
        "n1": rng.uniform(size=1), "n2": rng.uniform(size=2),
        "n7": rng.uniform(size=7), "n50": rng.uniform(size=50),
        "n2000": rng.uniform(size=2000),
        "sorted": np.linspace(0.01, 0.99, 30),
        "reversed": np.linspace(0.01, 0.99, 30)[::-1],
        "ties": np.array([0.5, 0.2, 0.5, 0.2, 0.5, 0.9, 0.2]),
        "allsame": np.full(9, 0.3),
        "zeros_ones": np.array([0., 1., 1., 0., 1.]),
        "with0": np.array([0.3, 0., 0.7]),
        "with1": np.array([0.3, 1., 0.7]),
        "tiny": np.array([1e-300, 5e-324, 0.5]),
        "near1": np.array([1.-2.**-53, 0.5, np.nextafter(1., 0.)]),
        "empty": np.zeros(0),
        # refused
        "nan_first": np.array([np.nan, 0.5, 0.2]),
        "nan_last": np.array([0.5, 0.2, np.nan]),
        "nan_only": np.array([np.nan]),
        "neg": np.array([0.5, -1e-300, 0.2]),
        "negzero": np.array([0.5, -0., 0.2]),
        "above": np.array([0.5, np.nextafter(1., 2.), 0.2]),
        "inf": np.array([0.5, np.inf]), "minf": np.array([-np.inf, 0.5]),
        "int2": np.array([0., 2., 1.]),
    }
    refused = ["nan_first", "nan_last", "nan_only", "neg", "above", "inf",
               "minf", "int2"]

    for sname, x in samples.items():
        ref = None
        for lname, xx in layouts(x).items():
            label = f"ad {sname}/{lname}"
            res = check(label, metrics.anderson_darling_test, xx)
            if sname in refused:
                if not isinstance(res, ValueError):
                    fail(label + f": expected a ValueError, got {res!r}")
                continue
            if isinstance(res, BaseException):
                fail(label + f": refused a valid sample, {res!r}")
                continue
            if ref is None:
                ref = res
            if not same(ref, res):
                fail(label + ": the layout changes the answer")

    # sorting is not visible from outside: an unsorted vector and
    # its sorted version give the same statistic
    x = rng.uniform(size=101)
    x0 = x.copy()
    r1 = metrics.anderson_darling_test(x)
    r2 = metrics.anderson_darling_test(np.sort(x))
    if not same(r1, r2) or not np.array_equal(x, x0):
        fail("ad: order of the sample matters or sample was sorted")

    # 2d data is refused, scalars are a sample of size 1
    for name, x2 in [("2d", rng.uniform(size=(5, 2))),
                     ("2d_col", rng.uniform(size=(5, 1))),
                     ("2d_df", pd.DataFrame(rng.uniform(size=(5, 2)))),
                     ("3d", rng.uniform(size=(2, 2, 2)))]:
        res = check(f"ad {name}", metrics.anderson_darling_test, x2)
        if not isinstance(res, ValueError):
            fail(f"ad {name}: expected a ValueError, got {res!r}")
    res = check("ad scalar", metrics.anderson_darling_test, 0.3)
    if not same(res, metrics.anderson_darling_test(np.array([0.3]))):
        fail("ad scalar")

    # alpha / pit use random numbers: same seed, same answer
    for nval, nens in [(1, 1), (2, 1), (2, 3), (30, 50), (200, 20)]:
        obs = rng.normal(size=nval)
        ens = rng.normal(size=(nval, nens))
        obs_l = {"c": obs, "col": obs[:, None], "step": np.repeat(obs, 2)[::2],
                 "series": pd.Series(obs), "int": np.round(obs*3).astype(int)}
        ens_l = {"c": ens, "f": np.asfortranarray(ens),
                 "step": np.repeat(ens, 2, axis=1)[:, ::2],
                 "df": pd.DataFrame(ens),
                 "int": np.round(ens*3).astype(np.int32)}
        for oname, o in obs_l.items():
            for ename, e in ens_l.items():
                for tp in ["AD", "CV", "KS", "XX"]:
                    check(f"alpha {nval}x{nens} {oname}/{ename} {tp}",
                          seeded(metrics.alpha), o, e, type=tp)
                check(f"pit random {nval}x{nens} {oname}/{ename}",
                      seeded(metrics.pit), o, e, random=True)
                check(f"pit {nval}x{nens} {oname}/{ename}",
                      metrics.pit, o, e)
    # censored obs (sudo pits), nan in obs
    obs = np.array([0., 0., 1., np.nan, 2., 0.])
    ens = np.abs(rng.normal(size=(6, 10)))
    ens[:2, :3] = 0.
    ens[4, 0] = np.nan
    for tp in ["AD", "CV", "KS"]:
        check(f"alpha censored {tp}", seeded(metrics.alpha), obs, ens,
              type=tp)


# ---------- catchments --------------------------------------------------
PROPS = ["idxcell_outlet", "idxinlets", "idxcells_area",
         "idxcells_area_filled", "idxcells_boundary", "xycells_boundary",
         "flowpathlengths"]


def pubstate(ca):
    out = {"name": ca.name, "flowdir": ca.flowdir}
    for p in PROPS:
        out[p] = run(getattr, ca, p)
    return out


FD6 = [[0, 4, 4, 4, 0, 0],
       [0, 4, 4, 8, 0, 0],
       [0, 2, 4, 8, 0, 0],
       [0, 0, 2, 0, 0, 0],
       [0, 0, 0, 4, 0, 0],
       [0, 0, 0, 0, 0, 0]]


def make_grid(values, dtype):
    values = np.array(values)
    gr = Grid("fd", values.shape[1], values.shape[0], dtype=dtype,
              nodata=-1)
    gr.data = values
    return gr


def gis_checks():
    for gname, fd in [("fd6_i32", make_grid(FD6, np.int32)),
                      ("fd6_i64", make_grid(FD6, np.int64)),
                      ("one", make_grid([[0]], np.int64)),
                      ("row", make_grid([[1, 1, 0]], np.int32))]:
        ncells = fd.nrows*fd.ncols
        good = sorted(set([0, ncells-1, 27 % ncells, 14 % ncells]))
        bad = [-1, ncells, ncells+7, -2**40, 2**40]
        inlets = [None, 14 % ncells, [14 % ncells, 13 % ncells],
                  np.array([14, 7, 13, 7])[::2] % ncells,
                  np.array([13 % ncells], dtype=np.int32),
                  pd.Series([14 % ncells]),
                  # refused
                  [-1], [14 % ncells, ncells], np.array([ncells+3, 0])]
        for outlet in good + bad:
            for inl in inlets:
                for nval in [1000, 2, 1, 0, -1]:
                    label = f"{gname} area out={outlet} inl={inl!r} n={nval}"

                    def history(outlet=outlet, inl=inl, nval=nval):
                        c = Catchment("c", fd)
                        # a valid area first, to see what a refused
                        # call does to it
                        c.delineate_area(good[-1])
                        out = [pubstate(c)]
                        out.append(run(c.delineate_area, outlet, inl, nval))
                        out.append(pubstate(c))
                        out.append(run(c.delineate_area, outlet, inl, nval))
                        out.append(pubstate(c))
                        return out

                    h = check(label, history)
                    if not same(h[1], h[3]) or not same(h[2], h[4]):
                        fail(label + ": repeated call differs")
                    inl_bad = inl is not None and (
                        np.any(np.atleast_1d(inl) < 0)
                        or np.any(np.atleast_1d(inl) >= ncells))
                    if nval >= 0 and (outlet in bad or inl_bad or nval == 0):
                        if not isinstance(h[1], ValueError):
                            fail(label + f": expected ValueError, {h[1]!r}")
                        # refused call: outlet kept on record, area forgotten
                        st = h[2]
                        if not isinstance(st["idxcells_area"], ValueError) \
                           or not isinstance(st["idxcells_area_filled"],
                                             ValueError):
                            fail(label + ": area kept after refused call")
                        if st["idxcell_outlet"] != outlet:
                            fail(label + ": outlet not recorded")
                    elif nval < 0:
                        if not isinstance(h[1], ValueError):
                            fail(label + f": expected ValueError, {h[1]!r}")
                        # buffers cannot be created: previous area stays
                        if not same(h[0]["idxcells_area"],
                                    h[2]["idxcells_area"]):
                            fail(label + ": area lost")
                    elif nval >= 1000:
                        if h[1] is not None:
                            fail(label + f": valid call refused {h[1]!r}")

        c = Catchment("c", fd)
        allc = np.arange(ncells)
        cases = {"all": allc, "i32": allc.astype(np.int32),
                 "step": np.repeat(allc, 2)[::2], "series": pd.Series(allc),
                 "one": allc[-1:], "scalar": ncells-1, "empty": allc[:0],
                 "float": allc.astype(float)}
        refused = {"neg": np.array([0, -1]), "big": np.array([ncells, 0]),
                   "last": np.r_[allc, ncells], "sneg": -1, "sbig": ncells,
                   "huge": np.array([2**62])}
        for name, idx in list(cases.items()) + list(refused.items()):
            for meth in [c.upstream, c.downstream]:
                label = f"{gname} {meth.__name__} {name}"
                res = check(label, meth, idx)
                if name in refused and not isinstance(res, ValueError):
                    fail(label + f": expected ValueError, got {res!r}")
                if name in cases and not isinstance(res, np.ndarray):
                    fail(label + f": refused, {res!r}")
        if snap(c.flowdir) != snap(fd):
            fail(f"{gname}: flow directions changed")

        for up in good + bad:
            for nval in [50, 1, 0]:
                label = f"{gname} river {up} n={nval}"
                g = fd.clone()
                res = check(label, delineate_river, g, up, nval)
                if up in bad and not isinstance(res, ValueError):
                    fail(label + f": expected ValueError, got {res!r}")
                if up in good and not isinstance(res, pd.DataFrame):
                    fail(label + f": refused, {res!r}")
                if snap(g) != snap(fd):
                    fail(label + ": cell values of flowdir changed")

    # anchors
    ca = Catchment("t", make_grid(FD6, np.int32))
    ca.delineate_area(27, [14, 13])
    if sorted(ca.idxcells_area) != [15, 20, 27]:
        fail("area of outlet 27 with two inlets")
    if list(ca.downstream([1, 20, 27, 0])) != [7, 27, 33, -2]:
        fail("downstream")


def main():
    ad_checks()
    gis_checks()
    print(f"{NCHECK} checks, {NFAIL} failures")
    sys.exit(1 if NFAIL else 0)


if __name__ == "__main__":
    main()
