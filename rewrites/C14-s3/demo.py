#!/usr/bin/env python
"""C14 -- var2h returns the exact period average of the data.

Self-contained check of the property on whatever hydrodiy tree PYTHONPATH
points to.  The reference is computed with exact rational arithmetic
(fractions.Fraction) directly from the definition:

* instantaneous data : average over the period of the piecewise-linear
  interpolant of the observations;
* rainfall           : period total of the increments, each increment being
  spread uniformly over its interval.

For every output period except the final one:
  - period not covered by the data                      -> must be missing
  - an invalid interval overlaps it (positive length)   -> must be missing
  - only invalid intervals that merely TOUCH a boundary -> unconstrained
    (missing or exact average are both accepted)
  - otherwise                                           -> must be present
    and equal to the exact average.
The final period may be missing; if it is not, it must be the exact average.

Also checked: conservation of the time-integral over runs of present periods,
independence of the result from the index unit (s/ms/us/ns) and from the time
zone of the index (same wall-clock stamps), maxgapsec boundary (a gap equal
to maxgapsec is valid, one second more is not), both period lengths, both
values of the rainfall flag, duplicates, stamps on period boundaries, data
before 1970, n=2.

Exit status 0 = property holds on everything tried.
"""
import sys
import warnings
from fractions import Fraction
from datetime import datetime, timedelta

import numpy as np
import pandas as pd

from hydrodiy.data import dutils

warnings.filterwarnings("ignore")

EPOCH = datetime(1970, 1, 1)
RTOL = 1e-9          # accuracy asked from a present value (relative to data scale)
NFAIL = 0
NCHECK = {"present": 0, "missing": 0, "free": 0, "final_present": 0,
          "calls": 0, "variants": 0, "conserve": 0}


def fail(msg):
    global NFAIL
    NFAIL += 1
    print("FAIL:", msg)
    if NFAIL > 20:
        print("too many failures, giving up")
        sys.exit(1)


# ---------------------------------------------------------------------------
# exact reference
# ---------------------------------------------------------------------------
def is_bad_value(v):
    return (v != v) or (v < 0)


def reference(secs, vals, P, rainfall, maxgap):
    """ Returns hstartsec, nvalh and, for each period, a tuple
        (status, exact_average, scale) where status is one of
        'missing', 'present', 'free'.
    """
    t0, tn = secs[0], secs[-1]
    hstart = (t0 // 3600) * 3600 + 3600
    nvalh = int((tn - t0) / P)
    n = len(secs)

    bad = []
    for j in range(n - 1):
        bad.append(is_bad_value(vals[j]) or is_bad_value(vals[j + 1])
                   or (secs[j + 1] - secs[j] > maxgap))

    out = []
    j0 = 0
    for i in range(nvalh):
        s = hstart + i * P
        e = s + P
        strong = False
        touch = False
        total = Fraction(0)
        scale = 0.0
        # move j0 to the first interval which can matter
        while j0 < n - 2 and secs[j0 + 1] < s:
            j0 += 1
        j = j0
        while j < n - 1 and secs[j] <= e:
            t1, t2 = secs[j], secs[j + 1]
            a, b = max(t1, s), min(t2, e)
            if b > a:
                if bad[j]:
                    strong = True
                else:
                    v1, v2 = Fraction(vals[j]), Fraction(vals[j + 1])
                    scale = max(scale, abs(vals[j]), abs(vals[j + 1]))
                    if rainfall:
                        total += v2 * Fraction(b - a, t2 - t1)
                    else:
                        sl = (v2 - v1) / (t2 - t1)
                        va = v1 + sl * (a - t1)
                        vb = v1 + sl * (b - t1)
                        total += (va + vb) / 2 * (b - a)
            elif t2 >= s and t1 <= e and bad[j]:
                # zero overlap : interval touches the period or is a
                # zero-length interval inside it
                # (a duplicate stamp strictly inside the period with an
                # invalid value always comes with an invalid neighbouring
                # interval of positive length, or with the end of the data)
                touch = True
            j += 1

        covered = (tn >= e) and (t0 <= s)
        exact = None
        if covered and not strong:
            exact = total if rainfall else total / P
        if not covered or strong:
            status = "missing"
        elif touch:
            status = "free"
        else:
            status = "present"
        out.append((status, exact, scale))

    return hstart, nvalh, out


# ---------------------------------------------------------------------------
# running var2h
# ---------------------------------------------------------------------------
def make_index(secs, unit, tz):
    arr = np.array(secs, dtype="int64").astype("datetime64[s]")
    idx = pd.DatetimeIndex(arr).as_unit(unit)
    if tz is not None:
        idx = idx.tz_localize(tz)
    return idx


def run(secs, vals, P, rainfall, maxgap, unit="ns", tz=None):
    se = pd.Series(np.array(vals, dtype=float), index=make_index(secs, unit, tz))
    before = se.values.copy()
    seh = dutils.var2h(se, nbsec_per_period=P, maxgapsec=maxgap,
                       rainfall=rainfall)
    # the input must not have been modified
    if not np.array_equal(before, se.values, equal_nan=True):
        fail("var2h modified its input")
    return seh


def out_secs(seh):
    idx = seh.index
    if getattr(idx, "tz", None) is not None:
        idx = idx.tz_localize(None)
    return idx.values.astype("datetime64[s]").astype("int64")


def check_case(secs, vals, P, rainfall, maxgap, label, variants=True):
    NCHECK["calls"] += 1
    secs = [int(s) for s in secs]
    hstart, nvalh, ref = reference(secs, vals, P, rainfall, maxgap)
    ctx = f"[{label}] P={P} rain={rainfall} maxgap={maxgap} " \
          f"secs={secs} vals={list(vals)}"
    try:
        seh = run(secs, vals, P, rainfall, maxgap)
    except Exception as err:
        fail(f"{ctx}: unexpected exception {err!r}")
        return None

    got = np.asarray(seh.values, dtype=float)
    if len(got) != nvalh:
        fail(f"{ctx}: expected {nvalh} periods, got {len(got)}")
        return None
    osec = out_secs(seh)
    expsec = hstart + P * np.arange(nvalh)
    if not np.array_equal(osec, expsec):
        fail(f"{ctx}: time stamps of the output are not the period starts")
        return None

    for i, (status, exact, scale) in enumerate(ref):
        g = got[i]
        final = (i == nvalh - 1)
        if np.isnan(g):
            if status == "present" and not final:
                fail(f"{ctx}: period {i} is missing but no invalid interval "
                     f"overlaps it")
            else:
                NCHECK["missing"] += 1
            continue
        # a number was returned
        if status == "missing":
            fail(f"{ctx}: period {i} = {g} but should be missing")
            continue
        ex = float(exact)
        tol = RTOL * max(abs(ex), scale) + 1e-300
        if abs(Fraction(g) - exact) > Fraction(tol):
            fail(f"{ctx}: period {i} = {g!r}, exact average {ex!r}")
            continue
        if final:
            NCHECK["final_present"] += 1
        elif status == "free":
            NCHECK["free"] += 1
        else:
            NCHECK["present"] += 1

    # conservation of the integral over runs of present periods
    i = 0
    while i < nvalh:
        if np.isnan(got[i]):
            i += 1
            continue
        k = i
        tot_got = Fraction(0)
        tot_ref = Fraction(0)
        scale = 0.
        while k < nvalh and not np.isnan(got[k]) and ref[k][1] is not None:
            tot_got += Fraction(got[k]) * (1 if rainfall else P)
            tot_ref += ref[k][1] * (1 if rainfall else P)
            scale = max(scale, ref[k][2])
            k += 1
        if k > i:
            nper = k - i
            tol = RTOL * scale * nper * (1 if rainfall else P) + 1e-300
            if abs(tot_got - tot_ref) > Fraction(tol):
                fail(f"{ctx}: integral over periods {i}..{k-1} not conserved:"
                     f" {float(tot_got)} vs {float(tot_ref)}")
            NCHECK["conserve"] += 1
        i = max(k, i + 1)

    if variants:
        for unit, tz in VARIANTS:
            try:
                make_index(secs, unit, tz)
            except Exception:
                # wall-clock stamp that does not exist or is ambiguous in
                # this zone (daylight saving transition): not applicable
                continue
            try:
                alt = run(secs, vals, P, rainfall, maxgap, unit, tz)
            except Exception as err:
                fail(f"{ctx}: unit={unit} tz={tz}: exception {err!r}")
                continue
            NCHECK["variants"] += 1
            if not np.array_equal(np.asarray(alt.values, dtype=float), got,
                                  equal_nan=True):
                fail(f"{ctx}: result depends on unit={unit}/tz={tz}")
            if not np.array_equal(out_secs(alt), osec):
                fail(f"{ctx}: output stamps depend on unit={unit}/tz={tz}")
    return got


# index resolutions and time zones (fixed offsets and zones with daylight
# saving; the wall-clock stamps are the same in every variant)
VARIANTS = [("s", None), ("ms", None), ("us", None), ("ns", "UTC"),
            ("s", "Etc/GMT-10"), ("us", "Australia/Brisbane"),
            ("ms", "Etc/GMT+5"), ("ns", "Australia/Sydney"),
            ("us", "Europe/Paris")]


# ---------------------------------------------------------------------------
# hand-made cases
# ---------------------------------------------------------------------------
def sec(y, m, d, H=0, M=0, S=0):
    return int((datetime(y, m, d, H, M, S) - EPOCH).total_seconds())


def handmade():
    nan = float("nan")
    base = sec(2001, 3, 4, 5)          # 05:00:00 sharp
    H = 3600
    cases = []
    # n=2, stamps on the hour, span exactly 2 periods (hourly)
    cases.append(("n2-exact", [base, base + 2 * H], [1., 3.]))
    # n=2, stamps off the hour
    cases.append(("n2-off", [base + 17, base + 3 * H + 5], [2.5, 0.]))
    # n=2, gap longer than any maxgap
    cases.append(("n2-gap", [base + 17, base + 30 * 86400], [2.5, 1.]))
    # n=2 with a NaN / negative
    cases.append(("n2-nan", [base + 1, base + 4 * H], [nan, 1.]))
    cases.append(("n2-neg", [base + 1, base + 4 * H], [1., -1.]))
    # every stamp on a boundary
    cases.append(("on-bound", [base + k * 1800 for k in range(9)],
                  [0., 1., 4., 9., 16., 25., 36., 49., 64.]))
    # duplicates on a boundary and inside a period (a step)
    cases.append(("dup-bound", [base, base + H, base + 2 * H, base + 2 * H,
                                base + 3 * H, base + 4 * H + 1],
                  [1., 2., 3., 10., 11., 12.]))
    cases.append(("dup-inside", [base + 5, base + H + 100, base + H + 100,
                                 base + H + 100, base + 3 * H, base + 5 * H],
                  [1., 2., 7., 3., 4., 0.]))
    # zeros
    cases.append(("zeros", [base + 59, base + H + 1, base + 2 * H + 2,
                            base + 4 * H], [0., 0., 0., 0.]))
    # invalid interval ending exactly on a boundary (touch from the left)
    cases.append(("touch-left", [base + 10, base + H, base + 2 * H,
                                 base + 2 * H + 600, base + 3 * H + 20,
                                 base + 5 * H],
                  [1., nan, 2., 3., 4., 5.]))
    cases.append(("touch-left-neg", [base + 10, base + H + 30, base + 2 * H,
                                     base + 2 * H + 600, base + 3 * H + 20,
                                     base + 5 * H],
                  [1., -5., 2., 3., 4., 5.]))
    # invalid interval starting exactly on a boundary (touch from the right)
    cases.append(("touch-right", [base + 10, base + H + 30, base + 2 * H,
                                  base + 3 * H - 7, base + 3 * H + 20,
                                  base + 6 * H],
                  [1., 5., 2., nan, 4., 5.]))
    # duplicate on a boundary, one of the two invalid
    cases.append(("touch-dup", [base + 10, base + H + 30, base + 2 * H,
                                base + 2 * H, base + 3 * H + 20,
                                base + 6 * H],
                  [1., 5., nan, 3., 4., 5.]))
    cases.append(("touch-dup2", [base + 10, base + H + 30, base + 2 * H,
                                 base + 2 * H, base + 3 * H + 20,
                                 base + 6 * H],
                  [1., 5., 3., -2., 4., 5.]))
    # long interval spanning many periods
    cases.append(("long", [base + 1800, base + 7 * H + 900, base + 9 * H],
                  [10., 3., 4.]))
    # seconds spacing
    cases.append(("seconds", [base + 3590 + k for k in range(20)]
                  + [base + 3 * H], list(np.arange(21.) ** 2)))
    # before 1970
    b68 = sec(1968, 2, 29, 23, 59, 59)
    cases.append(("pre1970", [b68, b68 + 2, b68 + H, b68 + 2 * H + 1,
                              b68 + 5 * H], [1., 2., 4., 8., 16.]))
    # around the epoch
    b70 = -2 * H - 1
    cases.append(("epoch", [b70, b70 + 2, b70 + H, b70 + 2 * H + 1,
                            b70 + 5 * H], [1., 2., 4., 8., 16.]))
    # data ends inside the last but one half-hourly period
    cases.append(("short-end", [base + 600, base + H + 600, base + 2 * H + 600],
                  [1., 2., 3.]))
    # large values next to small ones
    cases.append(("large", [base + 1, base + H - 1, base + H + 1,
                            base + 2 * H + 3, base + 4 * H],
                  [1e9, 1e-3, 1e9, 1e-3, 5.]))

    # wall-clock series across the daylight saving transitions of
    # Australia/Sydney (3 Oct 2021 and 4 Apr 2021), avoiding the hour that
    # does not exist / is ambiguous
    for (mo, d) in ((10, 2), (4, 3)):
        b = sec(2021, mo, d, 22, 10)
        cases.append((f"dst{mo}", [b, b + 5400, b + 3 * H + 1200,
                                   b + 5 * H + 1200, b + 7 * H - 600,
                                   b + 10 * H - 600],
                      [1., 4., 2., 8., 3., 5.]))

    for label, secs, vals in cases:
        for P in (1800, 3600):
            if secs[-1] - secs[0] < 2 * P:
                continue
            for rain in (False, True):
                for maxgap in (3600, 5 * 86400):
                    check_case(secs, vals, P, rain, maxgap, label)

    # maxgapsec boundary: a gap equal to maxgapsec is valid, +1 s is not
    for maxgap in (3600, 7200, 86400):
        for extra, present in ((0, True), (1, False)):
            secs = [base + 100, base + 100 + maxgap + extra,
                    base + 100 + maxgap + extra + H]
            vals = [1., 2., 3.]
            for P in (1800, 3600):
                for rain in (False, True):
                    got = check_case(secs, vals, P, rain, maxgap,
                                     f"gap{maxgap}+{extra}", variants=False)
                    if got is not None:
                        if present != (not np.isnan(got[0])):
                            fail(f"maxgap boundary: gap={maxgap + extra} "
                                 f"maxgapsec={maxgap} first period={got[0]}")


# ---------------------------------------------------------------------------
# known answers (independent of the Fraction reference)
# ---------------------------------------------------------------------------
def known_answers():
    # hourly ramp: average over [h, h+1] of the interpolant is the mean of
    # the two end values
    n = 50
    dt = pd.date_range("1999-12-31 22:00", freq="h", periods=n)
    se = pd.Series(np.arange(n, dtype=float), index=dt)
    seh = dutils.var2h(se)
    exp = np.arange(n, dtype=float)[1:-1] + 0.5
    if not np.allclose(seh.values[:-1], exp[:len(seh) - 1], rtol=1e-12, atol=0):
        fail("hourly ramp")
    if seh.index[0] != pd.Timestamp("1999-12-31 23:00"):
        fail("hourly ramp: first stamp")

    # rainfall example from the package tests
    values = [["1989-04-01 07:50", 2.79], ["1989-04-01 09:20", 3.09],
              ["1989-04-01 09:44", 9.65], ["1989-04-01 11:37", 3.45],
              ["1989-04-01 13:06", 8.03], ["1989-04-01 14:03", 25.78],
              ["1989-04-01 14:21", 11.61], ["1989-04-01 14:39", 32.65],
              ["1989-04-01 14:55", 5.74], ["1989-04-01 15:34", 50],
              ["1989-04-01 15:51", 8.9], ["1989-04-01 16:22", 41.1],
              ["1989-04-01 16:34", 15.03], ["1989-04-01 17:05", 4.22]]
    idx = pd.DatetimeIndex([v[0] for v in values])
    se = pd.Series([float(v[1]) for v in values], index=idx)
    seh = dutils.var2h(se, rainfall=True)
    exp = 25.78 * 3 / 57 + 11.61 + 32.65 + 5.74 + 50 * 5 / 39
    if abs(seh.loc["1989-04-01 14:00:00"] - exp) > 1e-9:
        fail("rainfall example")
    # total rainfall conserved between 09:00 and 16:00
    tot = seh.loc["1989-04-01 09:00":"1989-04-01 15:00"].sum()
    exp = 3.09 * 20 / 90 + sum(float(v[1]) for v in values[2:11]) \
        + 41.1 * 9 / 31
    if abs(tot - exp) > 1e-9:
        fail(f"rainfall total {tot} vs {exp}")


# ---------------------------------------------------------------------------
# random cases
# ---------------------------------------------------------------------------
def random_case(rng):
    P = int(rng.choice([1800, 3600]))
    rain = bool(rng.integers(0, 2))
    maxgap = int(rng.choice([3600, 3601, 7200, 86400, 5 * 86400]))
    n = int(rng.choice([2, 2, 3, 4, 5, 8, 12, 20, 40]))
    year = int(rng.choice([1965, 1969, 1970, 1987, 2000, 2024, 2037]))
    start = sec(year, int(rng.integers(1, 13)), int(rng.integers(1, 29)),
                int(rng.integers(0, 24)))
    kind = rng.integers(0, 4)
    if kind == 0:
        pass                              # on the hour
    elif kind == 1:
        start += 1800                     # on the half hour
    elif kind == 2:
        start += int(rng.integers(1, 3600))
    else:
        start += int(rng.choice([1, 3599, 1799, 1801]))

    secs = [start]
    style = rng.integers(0, 5)
    for _ in range(n - 1):
        u = rng.random()
        if style == 0:      # seconds to minutes
            gap = int(rng.choice([0, 1, 2, 30, 59, 60, 61, 300, 600, 900]))
        elif style == 1:    # minutes to hours
            gap = int(rng.integers(0, 3 * 3600))
        elif style == 2:    # hours to days
            gap = int(rng.choice([1800, 3600, 3601, 7200, 7201, 40000,
                                  86400, 86401, 3 * 86400, 6 * 86400]))
        elif style == 3:    # anything
            gap = int(rng.choice([0, 1, 10, 100, 1000, 10000, 100000]) *
                      rng.integers(0, 9))
        else:
            gap = int(rng.exponential(2000))
        t = secs[-1] + gap
        if u < 0.3:
            # snap on a period boundary (not before the previous stamp)
            snapped = ((t + 900) // 1800) * 1800
            if snapped >= secs[-1]:
                t = snapped
        secs.append(int(t))

    # make sure at least two periods are spanned
    if secs[-1] - secs[0] < 2 * P:
        secs[-1] = secs[0] + 2 * P + int(rng.choice([0, 1, 1000, 5000]))

    vstyle = rng.integers(0, 4)
    vals = []
    for _ in range(n):
        u = rng.random()
        if vstyle == 0:
            v = float(rng.integers(0, 10))
        elif vstyle == 1:
            v = float(rng.exponential(10))
        elif vstyle == 2:
            v = float(rng.random() * 10. ** int(rng.integers(-6, 7)))
        else:
            v = float(rng.choice([0., 0.5, 1., 2.]))
        pbad = [0., 0.05, 0.15][int(rng.integers(0, 3))]
        if u < pbad:
            v = float("nan")
        elif u < 2 * pbad:
            v = -float(rng.choice([1e-3, 0.5, 1., 99.]))
        vals.append(v)
    return secs, vals, P, rain, maxgap


def length_one():
    """ A single observation is outside the property: only check that the
    interpreter survives (an exception or any result is fine). """
    se = pd.Series([1.], index=pd.DatetimeIndex(["2000-01-01 00:30"]))
    try:
        dutils.var2h(se)
    except Exception:
        pass


def call_history(rng):
    """ The result of a call must not depend on the calls made before,
    nor on what the caller did with the results of earlier calls. """
    cases = [random_case(rng) for _ in range(60)]
    # one very long series in the middle, then short ones again
    n = 5000
    secs = list(sec(1999, 5, 6, 7, 8, 9) + np.cumsum(rng.integers(0, 4000, n)))
    vals = list(rng.exponential(5., n))
    vals[1234] = float("nan")
    cases.insert(30, (secs, vals, 3600, False, 86400))
    cases.insert(45, (secs, vals, 1800, True, 3600))

    first = []
    for secs, vals, P, rain, maxgap in cases:
        seh = run(secs, vals, P, rain, maxgap)
        first.append((seh.values.copy(), out_secs(seh).copy(),
                      str(seh.index.dtype), seh.index.freq, seh.index.name))
        # the caller does what it wants with its result
        try:
            seh.index.name = "mine"
        except Exception:
            pass
        try:
            seh.index.freq = None
        except Exception:
            pass
        try:
            seh.iloc[:] = -777.
        except Exception:
            pass
        try:
            seh.index.values[:] = 0
        except Exception:
            pass

    order = list(rng.permutation(len(cases))) + list(range(len(cases)))
    for k in order:
        secs, vals, P, rain, maxgap = cases[k]
        seh = run(secs, vals, P, rain, maxgap)
        v, s, dtype, freq, name = first[k]
        if not np.array_equal(seh.values, v, equal_nan=True):
            fail(f"history: values of case {k} changed on a later call")
        if not np.array_equal(out_secs(seh), s):
            fail(f"history: stamps of case {k} changed on a later call")
        if str(seh.index.dtype) != dtype or seh.index.freq != freq \
                or seh.index.name != name:
            fail(f"history: index attributes of case {k} changed")
    # long series checked against the definition as well
    for k in (30, 45):
        check_case(*cases[k], f"long{k}", variants=False)


def main():
    nrand = int(sys.argv[1]) if len(sys.argv) > 1 else 1500
    known_answers()
    handmade()
    length_one()
    call_history(np.random.default_rng(777))
    rng = np.random.default_rng(20140914)
    for k in range(nrand):
        secs, vals, P, rain, maxgap = random_case(rng)
        check_case(secs, vals, P, rain, maxgap, f"rnd{k}",
                   variants=(k % 5 == 0))
    print("checked:", NCHECK)
    if NFAIL:
        print(f"{NFAIL} FAILURES")
        sys.exit(1)
    # the demo is vacuous if some category was never met
    for key in ("present", "missing", "free", "variants", "conserve"):
        if NCHECK[key] == 0:
            print("demo did not exercise category", key)
            sys.exit(2)
    print("C14 demo OK")


if __name__ == "__main__":
    main()
