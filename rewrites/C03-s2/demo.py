#!/usr/bin/env python
"""Property C03: CRPS equals its definition and its decomposition is exact.

Run as:  PYTHONPATH=<tree>/src /venv/bin/python demo.py
Exit status 0 when every check passes, 1 otherwise.

Build the tree under test first (/tmp/mutkit/build_ext.sh <tree>), the
unmodified one too: without <tree>/src/*.so Python imports an older binary of
the kernel (built before fix 4c86f14 "CRPS outlier frequencies are capped at
1"), which genuinely returns potential < 0 on some inputs.

Only the public function hydrodiy.stat.metrics.crps is called.  Reference
values are computed with exact rational arithmetic (fractions.Fraction) from
the float64 inputs, so the only error in a comparison is the rounding inside
the library.  Tolerances are 1e-10 x the spread of the data: many orders above
rounding noise, many orders below a genuine defect.
"""
import sys
import itertools
from fractions import Fraction as F

import numpy as np

from hydrodiy.stat import metrics

RTOL = 1e-10
ITEMS = ["crps", "reliability", "resolution", "uncertainty", "potential"]
NFAIL = 0
NCHECK = 0


# ---------------------------------------------------------------------------
# book keeping
# ---------------------------------------------------------------------------
def fail(label, msg):
    global NFAIL
    NFAIL += 1
    if NFAIL <= 40:
        print(f"FAIL [{label}] {msg}")


def close(label, what, got, expected, tol):
    global NCHECK
    NCHECK += 1
    got = float(got)
    expected = float(expected)
    if not (np.isfinite(got) and abs(got-expected) <= tol):
        fail(label, f"{what}: got {got!r}, expected {expected!r}, "
             + f"diff {got-expected:g}, tol {tol:g}")


def nonneg(label, what, got):
    global NCHECK
    NCHECK += 1
    got = float(got)
    if not (np.isfinite(got) and got >= 0.0):
        fail(label, f"{what} = {got!r} is not finite and >= 0")


def run(obs, ens):
    """ call the library on private copies, check the inputs are left alone
    and return the decomposition as a plain dict of floats """
    obs0 = np.array(obs, dtype=np.float64, copy=True)
    ens0 = np.array(ens, dtype=np.float64, copy=True)
    o = obs0.copy()
    e = ens0.copy()
    d, _ = metrics.crps(o, e)
    if not (np.array_equal(o, obs0, equal_nan=True)
            and np.array_equal(e, ens0)):
        fail("inputs", "crps modified its arguments")
    missing = [nm for nm in ITEMS if nm not in d.index]
    if missing:
        fail("outputs", f"missing items {missing}")
        return None
    return {nm: float(d[nm]) for nm in ITEMS}


# ---------------------------------------------------------------------------
# exact references
# ---------------------------------------------------------------------------
def frac(v):
    return F(float(v))


def ref_crps(obs, ens):
    """ mean_i ( E|X_i-y_i| - 0.5 E|X_i-X_i'| ), X, X' independent draws from
    the empirical distribution of the members of forecast i """
    n, m = ens.shape
    tot = F(0)
    for i in range(n):
        y = frac(obs[i])
        x = [frac(v) for v in ens[i]]
        e1 = sum(abs(v-y) for v in x)/m
        e2 = sum(abs(v-w) for v in x for w in x)/(m*m) if m <= 12 else \
            2*sum((2*k-m+1)*v for k, v in enumerate(sorted(x)))/(m*m)
        tot += e1-e2/2
    return tot/n


def ref_uncertainty(obs):
    """ CRPS of the climatology (the observations used as one ensemble
    for every forecast) = 1/(2 n^2) sum_{i,k} |y_i-y_k| """
    n = len(obs)
    ys = sorted(frac(v) for v in obs)
    return sum((2*k-n+1)*v for k, v in enumerate(ys))/(n*n)


def spread(*arrays):
    vals = np.concatenate([np.ravel(a) for a in arrays])
    vals = vals[np.isfinite(vals)]
    return float(vals.max()-vals.min())


# ---------------------------------------------------------------------------
# the property on one (obs, ens); obs without NaN here
# ---------------------------------------------------------------------------
def check_case(label, obs, ens, rng, light=False):
    obs = np.asarray(obs, dtype=np.float64)
    ens = np.asarray(ens, dtype=np.float64)
    n, m = ens.shape
    assert obs.shape == (n,) and n >= 1 and m >= 1
    assert np.all(np.isfinite(obs)) and np.all(np.isfinite(ens))

    S = spread(obs, ens)
    amax = float(max(np.abs(obs).max(), np.abs(ens).max()))
    tol = RTOL*S

    d = run(obs, ens)
    if d is None:
        return

    # 1. definition
    close(label, "crps vs definition", d["crps"], ref_crps(obs, ens), tol)
    if m == 1:
        mae = sum(abs(frac(o)-frac(e)) for o, e in zip(obs, ens[:, 0]))/n
        close(label, "crps vs MAE (single member)", d["crps"], mae, tol)

    # 2. decomposition
    close(label, "reliability + potential vs crps",
          d["reliability"]+d["potential"], d["crps"], tol)
    close(label, "uncertainty - potential vs resolution",
          d["uncertainty"]-d["potential"], d["resolution"], tol)
    for nm in ["crps", "reliability", "potential", "uncertainty"]:
        nonneg(label, nm, d[nm])
    close(label, "uncertainty vs climatology (exact)", d["uncertainty"],
          ref_uncertainty(obs), tol)

    if light:
        return

    # uncertainty = CRPS of the forecast made of the observed climatology
    if n <= 60:
        clim = run(obs, np.repeat(obs[None, :], n, axis=0))
        if clim is not None:
            close(label, "uncertainty vs crps(obs, climatology)",
                  d["uncertainty"], clim["crps"], tol)

    # 3. order of members (independent permutation for every forecast),
    # order of forecasts
    pens = np.array([rng.permutation(row) for row in ens])
    dp = run(obs, pens)
    rens = ens[:, ::-1]
    dr = run(obs, rens)
    kk = rng.permutation(n)
    df = run(obs[kk], ens[kk])
    dfr = run(obs[::-1], ens[::-1])
    for what, other in [("members permuted", dp), ("members reversed", dr),
                        ("forecasts permuted", df),
                        ("forecasts reversed", dfr)]:
        if other is None:
            continue
        for nm in ITEMS:
            close(label, f"{nm}, {what}", other[nm], d[nm], tol)

    # 4. shift by a constant. The shifted inputs are rounded to float64, so
    # (a) shifted result vs exact reference on the shifted (rounded) inputs
    # (b) shifted result vs original, allowing for the rounding of the inputs
    for cst in [1.0, -3.25, 1024.0, -1e6, 12345.678]:
        sobs = obs+cst
        sens = ens+cst
        ds = run(sobs, sens)
        if ds is None:
            continue
        S2 = spread(sobs, sens)
        close(label, f"crps vs definition, shift {cst}", ds["crps"],
              ref_crps(sobs, sens), RTOL*S2)
        close(label, f"uncertainty vs climatology, shift {cst}",
              ds["uncertainty"], ref_uncertainty(sobs), RTOL*S2)
        tshift = tol+8*np.finfo(float).eps*(abs(cst)+amax)
        for nm in ITEMS:
            close(label, f"{nm}, shift {cst}", ds[nm], d[nm], tshift)
        for nm in ["reliability", "potential", "uncertainty"]:
            nonneg(label, f"{nm}, shift {cst}", ds[nm])

    # 5. positive scale (powers of two are exact, others round the inputs)
    for lam in [2.0, 0.125, 3.7, 1e-3, 1e5]:
        dl = run(obs*lam, ens*lam)
        if dl is None:
            continue
        tscale = lam*(tol+8*np.finfo(float).eps*amax)
        for nm in ITEMS:
            close(label, f"{nm}, scale {lam}", dl[nm], lam*d[nm], tscale)

    # 6. forecasts with a missing observation are ignored, wherever they are
    # and whatever their members
    for nins in [1, 3]:
        pos = np.sort(rng.integers(0, n+1, size=nins))
        nobs = np.insert(obs, pos, np.nan)
        junk = rng.normal(size=(nins, m))*10*(S+1)+obs.mean()
        nens = np.insert(ens, pos, junk, axis=0)
        dn = run(nobs, nens)
        if dn is None:
            continue
        for nm in ITEMS:
            close(label, f"{nm}, {nins} NaN obs inserted", dn[nm], d[nm], tol)
    nobs = np.concatenate([[np.nan], obs, [np.nan]])
    nens = np.vstack([ens[0], ens, ens[-1]])
    dn = run(nobs, nens)
    if dn is not None:
        for nm in ITEMS:
            close(label, f"{nm}, NaN obs first and last", dn[nm], d[nm], tol)

    # 7. same call again: no dependence on what was computed before
    d2 = run(obs, ens)
    if d2 is not None:
        for nm in ITEMS:
            close(label, f"{nm}, repeated call", d2[nm], d[nm], 0.)


# ---------------------------------------------------------------------------
# inputs
# ---------------------------------------------------------------------------
def cases(rng):
    # --- shapes, continuous data (no ties)
    for n, m in [(1, 1), (1, 2), (2, 1), (2, 2), (1, 5), (5, 1), (3, 4),
                 (7, 3), (2, 9), (10, 10), (25, 6), (40, 50), (120, 7),
                 (6, 101)]:
        obs = rng.normal(size=n)
        ens = rng.normal(size=(n, m))*rng.uniform(0.2, 3)+rng.normal()
        yield f"normal n={n} m={m}", obs, ens

    # --- heavy ties: small integer grid, ties between members and
    # between members and observation
    for n, m in [(1, 1), (1, 2), (2, 2), (1, 3), (3, 3), (8, 4), (30, 5),
                 (5, 20)]:
        obs = rng.integers(0, 4, size=n).astype(float)
        ens = rng.integers(0, 4, size=(n, m)).astype(float)
        yield f"integer ties n={n} m={m}", obs, ens

    # --- observation equal to one member in every forecast
    for n, m in [(1, 1), (2, 2), (6, 5), (20, 3)]:
        ens = rng.normal(size=(n, m))
        obs = ens[np.arange(n), rng.integers(0, m, size=n)].copy()
        yield f"obs is a member n={n} m={m}", obs, ens
        yield f"obs is the smallest member n={n} m={m}", ens.min(axis=1), ens
        yield f"obs is the largest member n={n} m={m}", ens.max(axis=1), ens

    # --- observation outside the ensemble for every forecast
    for n, m in [(1, 1), (1, 2), (2, 1), (2, 2), (9, 4), (30, 7), (49, 3),
                 (98, 2), (103, 5)]:
        ens = rng.normal(size=(n, m))
        yield f"obs below all n={n} m={m}", \
            ens.min(axis=1)-rng.uniform(0.1, 2, size=n), ens
        yield f"obs above all n={n} m={m}", \
            ens.max(axis=1)+rng.uniform(0.1, 2, size=n), ens
        up = rng.uniform(size=n) < 0.5
        obs = np.where(up, ens.max(axis=1)+1, ens.min(axis=1)-1)
        yield f"obs always outside n={n} m={m}", obs, ens

    # --- constant ensembles
    for n, m in [(1, 1), (1, 4), (2, 2), (5, 3), (12, 6)]:
        cst = rng.normal(size=n)
        ens = np.repeat(cst[:, None], m, axis=1)
        yield f"constant ensembles n={n} m={m}", rng.normal(size=n), ens
        yield f"constant ensembles = obs n={n} m={m}", cst.copy(), ens
        yield f"one constant for all n={n} m={m}", rng.normal(size=n), \
            np.full((n, m), 1.5)
    yield "everything equal", np.full(6, 2.0), np.full((6, 4), 2.0)
    yield "everything zero", np.zeros(3), np.zeros((3, 2))

    # --- constant observations, pairs of tied members in every forecast
    yield "constant obs", np.full(7, 0.3), rng.normal(size=(7, 5))
    ens = rng.normal(size=(9, 6))
    ens[:, 3] = ens[:, 2]
    yield "two members tied in every forecast", rng.normal(size=9), ens
    ens = np.sort(rng.normal(size=(9, 6)), axis=1)
    ens[:, 1] = ens[:, 0]
    ens[:, 5] = ens[:, 4]
    yield "extreme members tied in every forecast", rng.normal(size=9), ens

    # --- sorted / reverse sorted members, skewed data, signed zeros
    ens = np.sort(rng.normal(size=(11, 8)), axis=1)
    yield "members already sorted", rng.normal(size=11), ens
    yield "members in decreasing order", rng.normal(size=11), ens[:, ::-1]
    yield "lognormal", np.exp(rng.normal(size=15)), \
        np.exp(rng.normal(size=(15, 12))*2)
    yield "signed zeros", np.array([0.0, -0.0, 1.0]), \
        np.array([[-0.0, 0.0, 1.0], [0.0, -0.0, -1.0], [0.0, 0.0, -0.0]])

    # --- magnitudes
    yield "large values", rng.normal(size=8)*1e12, \
        rng.normal(size=(8, 5))*1e12
    yield "small values", rng.normal(size=8)*1e-12, \
        rng.normal(size=(8, 5))*1e-12
    yield "large offset", 1e8+rng.normal(size=8), 1e8+rng.normal(size=(8, 5))
    yield "mixed magnitudes", rng.normal(size=10)*10.**rng.integers(-3, 4, 10),\
        rng.normal(size=(10, 4))*10.**rng.integers(-3, 4, (10, 4))

    # --- number of forecasts for which 1/n does not sum to 1
    for n in [3, 6, 7, 10, 49, 98, 103, 107]:
        ens = rng.normal(size=(n, 3))
        yield f"1/n rounding, obs below n={n}", ens.min(axis=1)-1., ens
        yield f"1/n rounding, obs above n={n}", ens.max(axis=1)+1., ens


def exhaustive():
    """ every problem with n<=2 forecasts, m<=3 members on a tiny grid:
    all tie patterns, obs on / between / outside the members """
    mvals = [0.0, 1.0, 2.0]
    ovals = [-1.0, 0.0, 0.5, 1.0, 1.5, 2.0, 3.0]
    for m in [1, 2, 3]:
        rows = list(itertools.product(mvals, repeat=m))
        fc = [(o, r) for o in ovals for r in rows]
        for f1 in fc:
            yield np.array([f1[0]]), np.array([f1[1]])
        # n=2: all pairs for m<=2, a regular subsample for m=3
        pairs = itertools.product(fc, fc)
        step = 1 if m <= 2 else 7
        for f1, f2 in itertools.islice(pairs, 0, None, step):
            yield np.array([f1[0], f2[0]]), np.array([f1[1], f2[1]])


def check_input_forms(rng):
    """ obs as [n,1] array / list, integer data, non contiguous views """
    label = "input forms"
    obs = rng.normal(size=6)
    ens = rng.normal(size=(6, 4))
    d = run(obs, ens)
    big = rng.normal(size=(12, 8))
    big[::2, ::2] = ens
    bobs = np.zeros(12)
    bobs[::2] = obs
    variants = {
        "obs [n,1]": (obs[:, None], ens),
        "lists": (obs.tolist(), ens.tolist()),
        "strided views": (bobs[::2], big[::2, ::2]),
        "fortran order": (obs, np.asfortranarray(ens)),
    }
    for what, (o, e) in variants.items():
        dv, tb = metrics.crps(o, e)
        for nm in ITEMS:
            close(label, f"{nm}, {what}", dv[nm], d[nm], RTOL)
        if tb.shape[0] != 5:
            fail(label, f"table with {tb.shape[0]} rows for 4 members")

    iobs = rng.integers(-3, 4, size=5)
    iens = rng.integers(-3, 4, size=(5, 3))
    di, _ = metrics.crps(iobs, iens)
    close(label, "integer dtype", di["crps"],
          ref_crps(iobs.astype(float), iens.astype(float)), RTOL*10)

    # a single forecast given as [1,1] obs / one NaN among two
    d1, _ = metrics.crps(np.array([[0.5]]), np.array([[0.0, 1.0, 3.0]]))
    close(label, "single forecast", d1["crps"],
          ref_crps(np.array([0.5]), np.array([[0.0, 1.0, 3.0]])), RTOL*3)
    d1n, _ = metrics.crps(np.array([np.nan, 0.5]),
                          np.array([[7.0, 8.0, 9.0], [0.0, 1.0, 3.0]]))
    for nm in ITEMS:
        close(label, f"{nm}, one valid forecast of two", d1n[nm], d1[nm], 0.)


def check_history(rng):
    """ interleave problems of different sizes: each answer must be the one
    obtained in a first, isolated call (no state carried between calls) and
    earlier results must not be altered by later calls """
    label = "call history"
    shapes = [(5, 7), (1, 1), (12, 3), (5, 7), (2, 30), (1, 2), (40, 2),
              (3, 30), (1, 1), (5, 7)]
    problems = [(rng.normal(size=n), rng.normal(size=(n, m)))
                for n, m in shapes]
    first = []
    kept = []
    for obs, ens in problems:
        d, tb = metrics.crps(obs.copy(), ens.copy())
        first.append(({nm: float(d[nm]) for nm in ITEMS}, tb.values.copy()))
        kept.append((d, tb))
    for _ in range(3):
        for k in rng.permutation(len(problems)):
            obs, ens = problems[k]
            d, tb = metrics.crps(obs.copy(), ens.copy())
            for nm in ITEMS:
                close(label, f"{nm}, problem {k} re-run", d[nm],
                      first[k][0][nm], 0.)
            global NCHECK
            NCHECK += 1
            if not np.array_equal(tb.values, first[k][1], equal_nan=True):
                fail(label, f"table of problem {k} differs on re-run")
    for k, (d, tb) in enumerate(kept):
        NCHECK += 1
        same = all(float(d[nm]) == first[k][0][nm] for nm in ITEMS) and \
            np.array_equal(tb.values, first[k][1], equal_nan=True)
        if not same:
            fail(label, f"result {k} returned earlier was altered later")
    # the caller may write into what was returned
    obs, ens = problems[0]
    d, tb = metrics.crps(obs, ens)
    d.iloc[:] = -1.
    tb.iloc[:, :] = -1.
    d2, _ = metrics.crps(obs, ens)
    for nm in ITEMS:
        close(label, f"{nm}, after the caller overwrote a result", d2[nm],
              first[0][0][nm], 0.)

    # a failing call in between (all observations missing) leaves no trace
    try:
        metrics.crps(np.full(4, np.nan), rng.normal(size=(4, 3)))
        fail(label, "no error when every observation is missing")
    except Exception:
        pass
    d3, _ = metrics.crps(obs, ens)
    for nm in ITEMS:
        close(label, f"{nm}, after a failed call", d3[nm],
              first[0][0][nm], 0.)


def main():
    rng = np.random.default_rng(20260929)
    import importlib
    try:
        kern = importlib.import_module("c_hydrodiy_stat").__file__
    except ImportError:
        kern = "not available"
    print(f"metrics : {metrics.__file__}")
    print(f"kernel  : {kern}")

    ncase = 0
    for label, obs, ens in cases(rng):
        check_case(label, obs, ens, rng)
        ncase += 1
    for obs, ens in exhaustive():
        check_case(f"grid obs={obs.tolist()} ens={ens.tolist()}", obs, ens,
                   rng, light=True)
        ncase += 1
    # a sample of the grid with the full set of checks
    for k, (obs, ens) in enumerate(exhaustive()):
        if k % 97 == 0:
            check_case(f"grid+ obs={obs.tolist()} ens={ens.tolist()}", obs,
                       ens, rng)
            ncase += 1
    check_input_forms(rng)
    check_history(rng)

    print(f"{ncase} cases, {NCHECK} checks, {NFAIL} failures")
    return 1 if NFAIL else 0


if __name__ == "__main__":
    sys.exit(main())
