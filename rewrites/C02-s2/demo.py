#!/usr/bin/env python
"""Demo / self-check for property C02 of hydrodiy.stat.transform

    "jacobian(x) is the derivative of forward at x (Softmax: determinant of
     the matrix of partial derivatives) to a relative accuracy of 1e-4 and
     is strictly positive on the domain; forward is increasing."

Run as:  PYTHONPATH=<tree>/src /venv/bin/python demo.py
Exits 0 when every check passes (prints a summary), 1 otherwise.

The program only uses inputs INSIDE the quantifier of the property:
  * float64 numpy arrays (lengths 1, 2 and more) and - where the library
    supports them - Python floats;
  * admissible parameter vectors (inside the bounds of the Vector objects),
    including the special branch values lam=0, |lam|<=EPS, lam=2 (YeoJohnson),
    lam at its bounds, nu at mininu, loga/logb at their bounds;
  * interior points at which a 5-point central-difference stencil with
    exactly representable steps (h a power of two, x a multiple of h) fits
    inside one smooth branch.
"""
import math
import sys
import warnings
import itertools
import numpy as np

from hydrodiy.stat import transform as T

warnings.simplefilter("ignore")
np.seterr(all="ignore")

EPS = T.EPS
MEPS = np.finfo(np.float64).eps
RTOL = 1e-4

NFAIL = 0
NCHECK = 0
MAXREL = {}


def check(cond, msg):
    global NFAIL, NCHECK
    NCHECK += 1
    if not cond:
        NFAIL += 1
        if NFAIL < 40:
            print("FAIL:", msg)


def same(a, b):
    """ bitwise-ish equality, NaN == NaN """
    a = np.asarray(a, dtype=np.float64)
    b = np.asarray(b, dtype=np.float64)
    return a.shape == b.shape and np.array_equal(a, b, equal_nan=True)


# ---------------------------------------------------------------------------
# Catalogue: for each transform a list of configurations. A configuration
# gives a factory (fresh, fully configured instance) and a function
# points() -> list of (x, d, fscale) where
#   x      : interior point
#   d      : distance (in x units) to the nearest singularity / branch change
#            or the smoothness length-scale, whichever is smaller
#   fscale : magnitude of the largest intermediate quantity entering forward
#            (used only to size the "within rounding" allowance)
# ---------------------------------------------------------------------------
def make(cls, ckw=None, **kw):
    def factory():
        t = cls(**(ckw or {}))
        for k, v in kw.items():
            setattr(t, k, v)
            assert np.isclose(getattr(t, k), v, rtol=0, atol=0), (k, v)
        return t
    return factory


UGRID = [1.5e-10, 1e-9, 1e-6, 1e-3, 0.03, 0.5, 1., 1.7, 4., 33., 50.]
UGRID_BIG = [1e3, 1e5, 1e8]


def representable(u, nu):
    """ x = u - nu is a float64 with x + nu close to the intended u """
    return abs(((u - nu) + nu) - u) <= 1e-6 * u


def cfg_identity():
    yield "Identity", make(T.Identity), \
        lambda: [(x, max(abs(x), 1.), 1.) for x in
                 [-1e6, -3., -1e-8, 0., 1e-8, 0.5, 7., 1e9]]


def cfg_logit():
    for lower, logdelta in [(0., 0.), (-3.5, 2.), (1e3, -10.), (-1e-3, 10.),
                            (0.25, -3.), (-10., 0.5)]:
        def pts(lower=lower, logdelta=logdelta):
            width = (lower + math.exp(logdelta)) - lower
            out = []
            for v in [1e-6, 1e-3, 0.1, 0.3, 0.5, 0.6, 0.9, 0.999,
                      1-1e-6]:
                x = lower + v * width
                d = min(x - lower, lower + width - x)
                if d <= 4 * EPS or d < 1e-9 * abs(x):
                    continue
                out.append((x, d, 1. / min(v, 1 - v)))
            return out
        yield f"Logit(lower={lower},logdelta={logdelta})", \
            make(T.Logit, lower=lower, logdelta=logdelta), pts


def cfg_log():
    for ckw, nu in [({}, EPS), ({}, 1e-3), ({}, 1.), ({}, 250.),
                    ({"mininu": 0.5}, 0.5), ({"mininu": 0.5}, 2.),
                    ({"base": 10.}, 0.1), ({"base": 2., "mininu": 1e-3}, 1e-3)]:
        mininu = ckw.get("mininu", EPS)

        def pts(nu=nu, mininu=mininu):
            out = []
            for u in UGRID + UGRID_BIG:
                # keep the whole stencil inside x+nu > mininu
                if u * (1 - 2. / 64) <= mininu * (1 + 1e-6):
                    u = u + 2 * mininu
                if not representable(u, nu):
                    continue
                out.append((u - nu, u - mininu if mininu > 1e-3 else u, 1.))
            return out
        yield f"Log({ckw},nu={nu})", make(T.Log, ckw, nu=nu), pts


LAMS = [0., 5e-11, 1e-8, 1e-3, 0.2, 0.5, 1., 1.5, 2., 3.]
LAMS_NEG = [-3., -1., -0.3, -1e-8, -5e-11]


def bc_points(nu, lam, mininu):
    out = []
    grid = UGRID + (UGRID_BIG if lam >= 0 else [])
    for u in grid:
        if u * (1 - 2. / 64) <= mininu * (1 + 1e-6):
            u = u + 2 * mininu
        fs = max(1., u**lam) / max(abs(lam), EPS) if abs(lam) > EPS else 1.
        if not representable(u, nu):
            continue
        out.append((u - nu, u - mininu if mininu > 1e-3 else u, fs))
    return out


def cfg_boxcox2():
    for lam in LAMS:
        for nu in [EPS, 1e-2, 1., 30.]:
            yield f"BoxCox2(nu={nu},lam={lam})", \
                make(T.BoxCox2, nu=nu, lam=lam), \
                lambda nu=nu, lam=lam: bc_points(nu, lam, EPS)
    for lam in LAMS_NEG:
        for nu in [0.1, 2.]:
            ckw = {"mininu": 0.1, "minilam": -3.}
            yield f"BoxCox2({ckw},nu={nu},lam={lam})", \
                make(T.BoxCox2, ckw, nu=nu, lam=lam), \
                lambda nu=nu, lam=lam: bc_points(nu, lam, 0.1)


def cfg_boxcox1lam():
    for lam in LAMS:
        for nu in [EPS, 0.3, 12.]:
            yield f"BoxCox1lam(nu={nu},lam={lam})", \
                make(T.BoxCox1lam, nu=nu, lam=lam), \
                lambda nu=nu, lam=lam: bc_points(nu, lam, EPS)
    ckw = {"mininu": 0.2, "minilam": -2.}
    for lam in [-2., -0.5]:
        yield f"BoxCox1lam({ckw},nu=0.7,lam={lam})", \
            make(T.BoxCox1lam, ckw, nu=0.7, lam=lam), \
            lambda lam=lam: bc_points(0.7, lam, 0.2)


def cfg_boxcox1nu():
    for lam in LAMS:
        for nu in [EPS, 0.3, 12.]:
            yield f"BoxCox1nu(nu={nu},lam={lam})", \
                make(T.BoxCox1nu, lam=lam, nu=nu), \
                lambda nu=nu, lam=lam: bc_points(nu, lam, EPS)
    ckw = {"mininu": 0.2, "minilam": -2.}
    for lam in [-2., -0.5]:
        yield f"BoxCox1nu({ckw},nu=0.7,lam={lam})", \
            make(T.BoxCox1nu, ckw, lam=lam, nu=0.7), \
            lambda lam=lam: bc_points(0.7, lam, 0.2)


def cfg_boxcox2sym():
    def sym_points(nu, lam, mininu):
        out = []
        for ax in [1e-6, 1e-3, 0.04, 0.5, 1., 3., 40.] + \
                ([1e4, 1e7] if lam >= 0 else []):
            u = ax + nu
            fs = max(1., u**lam) / max(abs(lam), EPS) \
                if abs(lam) > EPS else 1.
            fs = max(fs, abs(math.log(nu)))
            if nu + ax * (1 - 2. / 64) <= mininu * (1 + 1e-6):
                continue
            for s in (-1., 1.):
                out.append((s * ax, ax, fs))
        return out
    for lam in LAMS:
        for nu in [1e-6, 1e-2, 1., 30.]:
            yield f"BoxCox2sym(nu={nu},lam={lam})", \
                make(T.BoxCox2sym, nu=nu, lam=lam), \
                lambda nu=nu, lam=lam: sym_points(nu, lam, EPS)
    ckw = {"mininu": 0.1, "minilam": -3.}
    for lam in LAMS_NEG:
        yield f"BoxCox2sym({ckw},nu=0.4,lam={lam})", \
            make(T.BoxCox2sym, ckw, nu=0.4, lam=lam), \
            lambda lam=lam: sym_points(0.4, lam, 0.1)


def cfg_yeojohnson():
    lams = [-1., -0.4, 0., 5e-9, -5e-9, 1e-6, 0.3, 1., 1.6,
            2., 2. + 1e-5, 2. - 1.5e-5, 2.01, 3.]
    for lam in lams:
        for nu, scale in [(0., 1.), (-2.5, 1e-5), (4., 30.), (0.3, 0.1)]:
            def pts(nu=nu, scale=scale, lam=lam):
                out = []
                for aw in [1e-6, 1e-3, 0.1, 0.9, 1., 2.5, 40., 1e3]:
                    for s in (-1., 1.):
                        w = s * aw
                        x = (w - nu) / scale
                        if aw < 1e-8 * abs(nu):
                            continue
                        le = lam if s > 0 else 2 - lam
                        le = 1. if np.isclose(lam, 0. if s > 0 else 2.) \
                            else le
                        fs = max(1., (1 + aw)**le) / abs(le)
                        out.append((x, aw / scale, fs))
                return out
            yield f"YeoJohnson(nu={nu},scale={scale},lam={lam})", \
                make(T.YeoJohnson, nu=nu, scale=scale, lam=lam), pts


def cfg_logsinh():
    for loga, logb, xmax in [(-1., 0., 1.), (-20., -5., 10.), (0., 5., 0.3),
                             (-3., 1., 250.), (-8., -2., 1e-3),
                             (-0.5, 0.3, 5.), (0., -5., 1.)]:
        def pts(loga=loga, logb=logb, xmax=xmax):
            a, b = math.exp(loga), math.exp(logb)
            out = []
            for w in [a * 0.3, a * 0.9, a, a * 1.5, a + 1e-3, a + 0.2,
                      a + 1., a + 5., a + 30., a + 300.]:
                if w < 1e-7 * a or (w - a) / b * (1 - 1. / 32) - \
                        (-a / b + EPS) <= 0:
                    continue
                x = (w - a) / b * xmax
                d = min(w, 1.) / b * xmax
                out.append((x, d, max(w, 1. / w) / b))
            return out
        yield f"LogSinh(loga={loga},logb={logb},xmax={xmax})", \
            make(T.LogSinh, xmax=xmax, loga=loga, logb=logb), pts


def cfg_reciprocal():
    for ckw, nu in [({}, EPS), ({}, 1e-4), ({}, 1.), ({}, 77.),
                    ({"mininu": 0.5}, 0.5), ({"mininu": 0.5}, 3.)]:
        def pts(nu=nu):
            return [(u - nu, u, 1. / u) for u in UGRID + UGRID_BIG
                    if representable(u, nu)]
        yield f"Reciprocal({ckw},nu={nu})", make(T.Reciprocal, ckw, nu=nu), pts


def cfg_sinh():
    for nu, scale in [(0., 1.), (-4., 1e-10), (2.5, 1e-3), (100., 40.),
                      (-0.1, 1e6)]:
        def pts(nu=nu, scale=scale):
            out = []
            for u in [-1e8, -300., -2., -1., -0.3, -1e-4, 0., 1e-7, 0.2, 1.,
                      5., 1e4, 1e12]:
                x = u / scale + nu
                d = math.sqrt(1 + u * u) / scale
                if d < 1e-9 * abs(x):
                    continue
                out.append((x, d, max(1., abs(math.asinh(u)))))
            return out
        yield f"Sinh(nu={nu},scale={scale})", \
            make(T.Sinh, nu=nu, scale=scale), pts


def cfg_manly():
    for lam, xmax in [(0.1, 1.), (0., 1.), (5e-11, 3.), (-5e-11, 3.),
                      (1e-8, 1.), (-1e-8, 10.), (5., 2.), (-5., 0.1),
                      (1., 1e-3), (-0.7, 1e4), (2.5, 1.)]:
        def pts(lam=lam, xmax=xmax):
            out = []
            for u in [-100., -4., -1., -1e-3, 0., 1e-6, 0.5, 1., 3., 4., 100.]:
                if lam * u < -20 or lam * u > 600:
                    continue
                x = u * xmax
                d = xmax / max(abs(lam), 1.) * max(1., min(abs(u), 4.))
                fs = max(1., math.exp(lam * u)) / abs(lam) \
                    if abs(lam) > EPS else max(1., abs(u))
                out.append((x, d, fs))
            return out
        yield f"Manly(lam={lam},xmax={xmax})", \
            make(T.Manly, xmax=xmax, lam=lam), pts


CATALOGUE = [cfg_identity, cfg_logit, cfg_log, cfg_boxcox2, cfg_boxcox1lam,
             cfg_boxcox1nu, cfg_boxcox2sym, cfg_yeojohnson, cfg_logsinh,
             cfg_reciprocal, cfg_sinh, cfg_manly]


# ---------------------------------------------------------------------------
def stencil(x, d):
    """ power-of-two step and snapped centre such that the 5 stencil nodes
        are exactly representable """
    h = 2.**math.floor(math.log2(d / 64.))
    x0 = round(x / h) * h
    nodes = np.array([x0 - 2 * h, x0 - h, x0, x0 + h, x0 + 2 * h])
    exact = np.all(np.diff(nodes) == h) and abs(x0 - x) <= h
    return h, x0, nodes, exact


def check_derivative(name, factory, points):
    trans = factory()
    nused = 0
    nresolved = 0
    for x, d, fs in points:
        h, x0, nodes, exact = stencil(x, d)
        if not exact:
            # step not exactly representable at this magnitude: outside the
            # quantifier, skip
            continue
        nused += 1
        f = trans.forward(nodes)
        jall = trans.jacobian(nodes)
        check(isinstance(f, np.ndarray) and f.shape == nodes.shape
              and f.dtype == np.float64, f"{name}: forward type/shape")
        check(isinstance(jall, np.ndarray) and jall.shape == nodes.shape,
              f"{name}: jacobian type/shape")
        check(np.all(np.isfinite(f)), f"{name}: forward finite at {nodes}")
        fd = (f[0] - 8 * f[1] + 8 * f[3] - f[4]) / (12 * h)
        j = jall[2]
        # positivity holds everywhere on the domain
        check(np.isfinite(j) and j > 0, f"{name}: jacobian({x0})={j} not >0")
        check(np.all(jall > 0), f"{name}: jacobian not >0 on stencil")
        # never decreasing beyond rounding
        check(np.all(np.diff(f) >= -64 * MEPS * max(np.max(np.abs(f)), fs)),
              f"{name}: forward decreasing on stencil at {x0}")
        # The finite difference is only meaningful where the increments of
        # forward over the stencil are well above the rounding noise of
        # forward (decided from forward values and the a-priori magnitude
        # fs only). Elsewhere forward is flat "within rounding".
        resol = MEPS * max(np.max(np.abs(f)), fs) / (h * abs(fd)) \
            if fd != 0 else np.inf
        if resol < 1e-5:
            nresolved += 1
            key = name.split("(")[0]
            MAXREL[key] = max(MAXREL.get(key, 0.), abs(fd - j) / abs(j))
            check(abs(fd - j) <= RTOL * abs(j),
                  f"{name}: x={x0!r} fd={fd!r} jac={j!r} "
                  f"rel={abs(fd-j)/abs(j):.2e}")
            # strictly increasing over the stencil
            check(np.all(np.diff(f) > 0), f"{name}: forward not increasing "
                  f"on stencil at {x0}")

        # lengths 1 and 2, scalar, NaN neighbour: element-wise independence
        f1 = trans.forward(np.array([x0]))
        j1 = trans.jacobian(np.array([x0]))
        check(f1.shape == (1,) and np.isclose(f1[0], f[2], rtol=1e-12,
                                              atol=0),
              f"{name}: length-1 forward differs")
        check(j1.shape == (1,) and np.isclose(j1[0], j, rtol=1e-12, atol=0),
              f"{name}: length-1 jacobian differs")
        pair = np.array([x0, nodes[3]])
        f2 = trans.forward(pair)
        j2 = trans.jacobian(pair)
        check(f2.shape == (2,) and np.allclose(f2, f[2:4], rtol=1e-12,
                                               atol=0),
              f"{name}: length-2 forward differs")
        check(np.allclose(j2, jall[2:4], rtol=1e-12, atol=0),
              f"{name}: length-2 jacobian differs")
        tie = trans.forward(np.array([x0, x0]))
        check(tie[0] == tie[1], f"{name}: tie gives different forward")
        wn = np.array([x0, np.nan, nodes[3]])
        fn = trans.forward(wn)
        jn = trans.jacobian(wn)
        check(np.allclose(fn[[0, 2]], f[2:4], rtol=1e-12, atol=0)
              and (np.isnan(fn[1])),
              f"{name}: NaN neighbour changes forward")
        check(np.allclose(jn[[0, 2]], jall[2:4], rtol=1e-12, atol=0),
              f"{name}: NaN neighbour changes jacobian")
        check(np.array_equal(wn[[0, 2]], [x0, nodes[3]]) and np.isnan(wn[1]),
              f"{name}: input modified")

        # 2-d input
        f2d = trans.forward(nodes[:4].reshape(2, 2))
        check(f2d.shape == (2, 2) and
              np.allclose(f2d.ravel(), f[:4], rtol=1e-12, atol=0),
              f"{name}: 2d forward differs")

        # Python float (not supported by YeoJohnson on this numpy)
        if not name.startswith("YeoJohnson"):
            fsca = trans.forward(float(x0))
            jsca = trans.jacobian(float(x0))
            check(isinstance(fsca, float) and isinstance(jsca, float),
                  f"{name}: scalar in, {type(fsca)} out")
            check(np.isclose(fsca, f[2], rtol=1e-12, atol=0) and
                  np.isclose(jsca, j, rtol=1e-12, atol=0),
                  f"{name}: scalar result differs")
    check(nresolved >= 3, f"{name}: too few usable points ({nresolved})")
    return nresolved


def check_monotone(name, factory, points):
    """ all ordered pairs of domain points: forward non decreasing, strictly
        increasing when the expected increase exceeds rounding """
    trans = factory()
    xs, fss = [], []
    for x, d, fs in points:
        for xx in [x, x + d / 7., np.nextafter(x, np.inf),
                   np.nextafter(x, -np.inf), x + d * 1e-9, x]:
            xs.append(xx)
            fss.append(fs)
    xs = np.array(xs)
    fss = np.array(fss)
    order = np.argsort(xs, kind="stable")
    xs, fss = xs[order], fss[order]
    f = trans.forward(xs)
    j = trans.jacobian(xs)
    ok = np.isfinite(f)
    check(np.all(ok), f"{name}: forward not finite on domain points "
          f"{xs[~ok][:3]}")
    check(np.all(j[np.isfinite(j)] > 0), f"{name}: jacobian <= 0")
    n = len(xs)
    i1, i2 = np.triu_indices(n, 1)
    noise = 64 * MEPS * np.maximum(np.maximum(np.abs(f[i1]), np.abs(f[i2])),
                                   np.maximum(fss[i1], fss[i2]))
    df = f[i2] - f[i1]
    bad = df < -noise
    check(not np.any(bad), f"{name}: forward decreasing for pairs "
          f"{list(zip(xs[i1][bad][:3], xs[i2][bad][:3]))}")
    eq = xs[i1] == xs[i2]
    check(np.all(df[eq] == 0), f"{name}: ties map to different values")
    # strictness for clearly separated neighbours (consecutive points)
    dx = np.diff(xs)
    jm = np.minimum(j[:-1], j[1:])
    exp_inc = 0.25 * dx * jm
    nz = 64 * MEPS * np.maximum(np.maximum(np.abs(f[:-1]), np.abs(f[1:])),
                                np.maximum(fss[:-1], fss[1:]))
    must = np.isfinite(exp_inc) & (exp_inc > 8 * nz) & \
        (dx > 64 * MEPS * np.maximum(np.abs(xs[:-1]), np.abs(xs[1:])))
    check(np.all(np.diff(f)[must] > 0), f"{name}: forward not strictly "
          "increasing between separated points")
    return int(np.sum(must))


# ---------------------------------------------------------------------------
def softmax_checks():
    trans = T.Softmax()
    rng = np.random.default_rng(5446)
    rows = [np.array([0.3]), np.array([1e-6]), np.array([0.999]),
            np.array([0.2, 0.3]), np.array([0.5, 0.4999]),
            np.array([1e-6, 0.7]), np.array([1e-5, 2e-5]),
            np.array([0.1, 0.2, 0.3]), np.array([0.33, 0.33, 0.33]),
            np.array([0.25, 0.25, 0.25, 0.249]),
            np.array([1e-3, 0.2, 0.05, 0.3, 0.01])]
    for n in [1, 2, 3, 4, 6]:
        for _ in range(6):
            x = rng.dirichlet(np.ones(n + 1))[:n]
            if x.min() > 1e-4 and 1 - x.sum() > 1e-4:
                rows.append(x)
    for x in rows:
        n = len(x)
        d = min(x.min(), 1 - x.sum())
        h = 2.**math.floor(math.log2(d / 64.))
        x0 = np.round(x / h) * h
        if 1 - np.sum(x0 + 2 * h) <= 1e-6 or np.any(x0 - 2 * h <= 0):
            continue
        # matrix of partial derivatives, column k = d y / d x_k
        J = np.zeros((n, n))
        for k in range(n):
            st = np.repeat(x0[None, :], 4, axis=0)
            st[:, k] += np.array([-2, -1, 1, 2]) * h
            check(np.all(st[:, k] - x0[k] == np.array([-2, -1, 1, 2]) * h),
                  "Softmax: step not exact - demo bug")
            y = trans.forward(st)
            check(y.shape == (4, n) and np.all(np.isfinite(y)),
                  f"Softmax: forward shape/finite at {x0}")
            J[:, k] = (y[0] - 8 * y[1] + 8 * y[2] - y[3]) / (12 * h)
            # forward increasing in its own coordinate
            check(np.all(np.diff(y[:, k]) > 0),
                  "Softmax: y_k not increasing in x_k")
        sign, logdet = np.linalg.slogdet(J)
        jac = trans.jacobian(x0[None, :])
        check(jac.shape == (1,), f"Softmax: jacobian shape {jac.shape}")
        jac = jac[0]
        check(np.isfinite(jac) and jac > 0, f"Softmax: jacobian {jac} at {x0}")
        check(sign > 0, f"Softmax: numerical determinant not positive at {x0}")
        rel = abs(math.expm1(logdet - math.log(jac)))
        MAXREL["Softmax"] = max(MAXREL.get("Softmax", 0.), rel)
        check(rel <= RTOL, f"Softmax: x={x0} det={sign*math.exp(logdet)!r} "
              f"jac={jac!r} rel={rel:.2e}")
        # 1-d input is one row
        check(same(trans.jacobian(x0), trans.jacobian(x0[None, :])),
              "Softmax: 1d and 2d input disagree")
        # row independence: two rows at once
        other = np.full(n, 0.5 / n)
        both = trans.jacobian(np.vstack([x0, other]))
        check(both.shape == (2,) and
              np.isclose(both[0], jac, rtol=1e-12, atol=0)
              and np.isclose(both[1], trans.jacobian(other[None, :])[0],
                             rtol=1e-12, atol=0),
              "Softmax: rows not independent")
        fboth = trans.forward(np.vstack([x0, other]))
        check(np.allclose(fboth[0], trans.forward(x0[None, :])[0],
                          rtol=1e-12, atol=0),
              "Softmax: forward rows not independent")
    # outside the domain only "an error" is required
    for badx in [np.array([[0.5, 0.6]]), np.array([[-0.1, 0.2]])]:
        for fun in (trans.forward, trans.jacobian):
            try:
                fun(badx)
                check(False, "Softmax: no error outside the domain")
            except ValueError:
                check(True, "")


# ---------------------------------------------------------------------------
def history_checks():
    """ The property must hold for every call history: results on a long
        lived instance (parameters changed in every supported way between
        calls, shapes alternating, helper objects tampered with) must be
        those of a freshly built instance. """
    rng = np.random.default_rng(77)

    def fresh_result(cls, ckw, attrs, x):
        t = cls(**ckw)
        for k, v in attrs.items():
            setattr(t, k, v)
        return t.forward(x), t.jacobian(x)

    specs = [
        (T.Logit, {}, [dict(lower=lo, logdelta=ld) for lo, ld in
                       [(0., 0.), (-1., 1.), (0., 0.), (0.2, -1.),
                        (-1., 1.), (0.2, 3.)]],
         lambda a: a["lower"] + math.exp(a["logdelta"]) *
         np.array([0.1, 0.5, 0.77])),
        (T.Log, {}, [dict(nu=v) for v in [1e-3, 1., 1e-3, 5., 1.]],
         lambda a: np.array([0.1, 1., 20.])),
        (T.BoxCox2, {}, [dict(nu=n, lam=la) for n, la in
                         [(0.1, 0.5), (0.1, 0.), (2., 0.), (0.1, 0.5),
                          (2., 1e-11), (2., 3.), (0.1, 0.5)]],
         lambda a: np.array([0.01, 0.4, 1., 9.])),
        (T.BoxCox1lam, {}, [dict(nu=n, lam=la) for n, la in
                            [(0.1, 0.5), (0.1, 0.), (2., 0.), (0.1, 0.5),
                             (2., 0.3), (2., 3.), (0.1, 0.5)]],
         lambda a: np.array([0.01, 0.4, 1., 9.])),
        (T.BoxCox1nu, {}, [dict(lam=la, nu=n) for n, la in
                           [(0.1, 0.5), (0.1, 0.), (2., 0.), (0.1, 0.5),
                            (2., 0.3), (2., 3.), (0.1, 0.5)]],
         lambda a: np.array([0.01, 0.4, 1., 9.])),
        (T.BoxCox2sym, {}, [dict(nu=n, lam=la) for n, la in
                            [(0.1, 0.5), (0.1, 0.), (2., 0.), (0.1, 0.5),
                             (2., 0.3), (2., 3.), (0.1, 0.5)]],
         lambda a: np.array([-7., -0.4, -0.01, 0.01, 0.4, 1., 9.])),
        (T.YeoJohnson, {}, [dict(nu=n, scale=s, lam=la) for n, s, la in
                            [(0., 1., 1.), (0., 1., 0.), (0.5, 2., 0.),
                             (0.5, 2., 2.), (0., 1., 1.), (0., 1., 2.),
                             (-1., 0.1, -1.), (-1., 0.1, 3.), (0., 1., 0.)]],
         lambda a: np.array([-30., -2., -0.3, 0.2, 1., 8., 100.])),
        (T.LogSinh, {}, [dict(xmax=xm, loga=la, logb=lb) for xm, la, lb in
                         [(1., -1., 0.), (1., -3., 0.), (5., -3., 0.),
                          (5., -3., 1.), (1., -1., 0.), (1., 0., -5.)]],
         lambda a: a["xmax"] * np.array([0.01, 0.5, 1., 4.])),
        (T.Reciprocal, {}, [dict(nu=v) for v in [1e-3, 1., 1e-3, 5., 1.]],
         lambda a: np.array([0.1, 1., 20.])),
        (T.Sinh, {}, [dict(nu=n, scale=s) for n, s in
                      [(0., 1.), (1., 1.), (1., 0.01), (0., 1.), (-3., 40.)]],
         lambda a: np.array([-50., -1., 0., 0.3, 2., 1e3])),
        (T.Manly, {}, [dict(xmax=xm, lam=la) for xm, la in
                       [(1., 0.1), (1., 0.), (2., 0.), (2., -3.), (1., 0.1),
                        (2., 1e-11), (0.5, 5.)]],
         lambda a: a["xmax"] * np.array([-2., -0.1, 0., 0.3, 1., 2.])),
    ]

    for cls, ckw, seq, xfun in specs:
        name = cls.__name__
        live = cls(**ckw)
        kept = []
        for step, attrs in enumerate(seq * 2):
            x = xfun(attrs)
            # alternate the shape handed to the live object
            if step % 3 == 1:
                x = x[:2]
            elif step % 3 == 2:
                x = np.concatenate([x, x[::-1]])
            xcopy = x.copy()

            # change parameters in a different way at every step
            mode = step % 5
            pnames = list(live.params.names)
            cnames = list(live.constants.names)
            for k in cnames:
                live.constants[k] = attrs[k]
            if mode == 0:
                for k in pnames:
                    setattr(live, k, attrs[k])
            elif mode == 1:
                live.params.values = [attrs[k] for k in pnames]
            elif mode == 2:
                for i, k in enumerate(pnames):
                    live.params.values[i] = attrs[k]      # in place
            elif mode == 3:
                for k in pnames:
                    live[k] = attrs[k]
            else:
                live.reset()
                for k in pnames:
                    live.params[k] = attrs[k]

            # tamper with the helper transform, the library must not rely
            # on what it left there during the previous call
            if hasattr(live, "BC") and step % 2 == 1:
                live.BC.params.values = [3.3, 1.234]
            if hasattr(live, "BC") and step % 4 == 2:
                live.BC.params.values[1] = 0.

            order = step % 2
            if order == 0:
                f = live.forward(x)
                j = live.jacobian(x)
            else:
                j = live.jacobian(x)
                f = live.forward(x)
            f_again = live.forward(x)
            fexp, jexp = fresh_result(cls, ckw, attrs, x)
            check(same(f, fexp), f"history {name} step {step}: forward "
                  f"differs from fresh instance {attrs}")
            check(same(j, jexp), f"history {name} step {step}: jacobian "
                  f"differs from fresh instance {attrs}")
            check(same(f, f_again), f"history {name}: repeated call differs")
            check(np.array_equal(x, xcopy), f"history {name}: input modified")
            check(np.all(j > 0) and np.all(np.isfinite(f)),
                  f"history {name} step {step}: not positive/finite")
            kept.append((f, f.copy(), j, j.copy()))
        # results handed out earlier must not have been overwritten later
        for f, fc, j, jc in kept:
            check(same(f, fc) and same(j, jc),
                  f"history {name}: an earlier result was modified by a "
                  "later call")

    # two instances do not share state
    a, b = T.BoxCox2sym(), T.BoxCox2sym()
    a.nu, a.lam = 0.5, 0.3
    b.nu, b.lam = 2., 0.
    x = np.array([-3., -0.2, 0.4, 6.])
    fa = a.forward(x)
    b.forward(x)
    check(same(fa, a.forward(x)), "instances share state")
    a2, b2 = T.YeoJohnson(), T.YeoJohnson()
    a2.lam, b2.lam = 0., 2.
    ja = a2.jacobian(x)
    b2.jacobian(x[:2])
    check(same(ja, a2.jacobian(x)), "YeoJohnson instances share state")


# ---------------------------------------------------------------------------
def main():
    npts = nstrict = ncfg = 0
    for gen in CATALOGUE:
        for name, factory, pts in gen():
            ncfg += 1
            points = pts()
            npts += check_derivative(name, factory, points)
            nstrict += check_monotone(name, factory, points)
    softmax_checks()
    history_checks()
    print(f"{ncfg} configurations, {npts} stencil points, "
          f"{nstrict} strict-increase pairs, {NCHECK} checks, "
          f"{NFAIL} failures")
    print("largest |fd-jac|/jac per class:",
          ", ".join(f"{k}={v:.1e}" for k, v in MAXREL.items()))
    if NFAIL:
        print("C02 demo: FAILED")
        return 1
    print("C02 demo: OK")
    return 0


if __name__ == "__main__":
    sys.exit(main())
